#!/bin/bash
# usage: confirm_seed.sh <seed-dir>   (dir holds patch.diff and demo.bas [demo.stdin])
# Confirms, in a scratch worktree of /repo HEAD: the patch applies, the test-suite passes with it,
# and the demo behaves differently with and without the patch. Removes the worktree afterwards.
set -u
SEED=$(realpath "$1")
WT=/tmp/confirm-$$
git -C /repo worktree add -q --detach $WT HEAD || exit 2
export CARGO_TARGET_DIR=$WT/target CARGO_NET_OFFLINE=true
cd $WT
run_demo() {
  cargo build --offline -q -p rusty_basic 2>/dev/null
  for d in $SEED/demo*.bas; do
    if [ -f "${d%.bas}.stdin" ]; then timeout 20 $WT/target/debug/rusty_basic $d < "${d%.bas}.stdin" 2>&1; else timeout 20 $WT/target/debug/rusty_basic $d 2>&1 </dev/null; fi
    echo "exit=$?"
  done
}
run_demo > $SEED/demo_without.out
if ! git apply $SEED/patch.diff; then echo "PATCH DOES NOT APPLY"; git -C /repo worktree remove --force $WT; exit 3; fi
run_demo > $SEED/demo_with.out
cargo test --workspace --no-fail-fast --offline 2>&1 | grep -E "^test result" | awk '{p+=$4; f+=$6} END {print "tests passed="p" failed="f}' | tee $SEED/tests_with.out
if cmp -s $SEED/demo_without.out $SEED/demo_with.out; then echo "DEMO SAME (not confirmed)"; else echo "DEMO DIFFERS (confirmed)"; diff $SEED/demo_without.out $SEED/demo_with.out | head -10; fi
cd /
git -C /repo worktree remove --force $WT
