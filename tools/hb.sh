#!/bin/sh
# build the harness the way ./check does
cd /verif && CARGO_NET_OFFLINE=true CARGO_TARGET_DIR=/verif/.build/target RUSTFLAGS="--cfg rusty_basic_verif" cargo build --offline --manifest-path /verif/harness/Cargo.toml 2>&1 | grep -E "^error|^warning: unused|error\[" -A6 | head -${1:-40}
