#!/bin/sh
# try_seed.sh <seed-dir> <Cxx> [tier]: apply the seed to /repo, run the check, undo the seed.
d=$1; p=$2; t=${3:-quick}
cd /verif
if ! git -C /repo diff --quiet; then echo "/repo not clean"; exit 2; fi
git -C /repo apply "$(realpath $d)/patch.diff" || { echo "patch does not apply"; exit 2; }
./check $p --tier $t 2>&1 | grep -v "^WARNING" | tail -6
rc=$?
git -C /repo checkout -- .
git -C /repo status --short | head -3
