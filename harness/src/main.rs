#![allow(dead_code)]
mod common;
mod c19;
mod c20;
mod c04;
mod c17;
mod c01;
mod c06;
mod c16;
mod c10;
mod tables;
mod runner;
mod pgen;
mod c15;
mod c02;
mod c14;
mod c12;
mod c05;
mod c03;
mod c08;
mod c11;
mod c07;
mod c13;
mod c09;
mod c18;

use std::path::PathBuf;

use common::Args;

fn main() {
    let argv: Vec<String> = std::env::args().collect();
    if argv.len() < 2 {
        eprintln!("usage: vh <cmd> --tier quick|thorough --seed N --out DIR [extra...]");
        std::process::exit(2);
    }
    let cmd = argv[1].clone();
    if cmd == "tables" {
        print!("{}", tables::render());
        return;
    }
    let mut args = Args { tier: "quick".into(), seed: 0, out: PathBuf::from("."), extra: vec![] };
    let mut i = 2;
    while i < argv.len() {
        match argv[i].as_str() {
            "--tier" => {
                args.tier = argv[i + 1].clone();
                i += 2;
            }
            "--seed" => {
                args.seed = argv[i + 1].parse().unwrap_or(0);
                i += 2;
            }
            "--out" => {
                args.out = PathBuf::from(&argv[i + 1]);
                i += 2;
            }
            other => {
                args.extra.push(other.to_string());
                i += 1;
            }
        }
    }
    std::fs::create_dir_all(&args.out).unwrap();
    common::quiet_panics();
    match cmd.as_str() {
        "c19" => c19::run(&args),
        "c20" => c20::run(&args),
        "c04" => c04::run(&args),
        "c17" => c17::run(&args),
        "code" => {
            // vh code file.bas: the instruction list as the correspondence sees it
            let src = std::fs::read_to_string(&args.extra[0]).unwrap();
            match c01::compile(&src) {
                Ok(igr) => {
                    for (i, ip) in igr.instructions.iter().enumerate() {
                        println!("{:4} {:?}  =>  {}", i, ip.element, c01::coq_instr(&ip.element));
                    }
                    println!("marks {:?}", igr.statement_addresses);
                }
                Err(e) => println!("{}", e),
            }
        }
        "c01" => c01::run(&args),
        "c15" => c15::run(&args),
        "c02" => c02::run(&args),
        "c14" => c14::run(&args),
        "c12" => c12::run(&args),
        "c05" => c05::run(&args),
        "c03" => c03::run(&args),
        "c08" => c08::run(&args),
        "c11" => c11::run(&args),
        "c07" => c07::run(&args),
        "c13" => c13::run(&args),
        "c09" => c09::run(&args),
        "c18" => c18::run(&args),
        "parse" => c07::parse_command(&args.extra[0]),
        "c06" => c06::run(&args),
        "c16" => c16::run(&args),
        "c10" => c10::run(&args),
        "run" => {
            // vh run file.bas [stdin-file]: prints the outcome of one program (debugging aid, used by replays)
            let src = std::fs::read_to_string(&args.extra[0]).unwrap();
            let stdin = args.extra.get(1).map(|p| std::fs::read(p).unwrap()).unwrap_or_default();
            let o = runner::run_program(&src, &runner::RunOpts { stdin, budget: 5_000_000, trace: false });
            match o {
                runner::Outcome::Ran(r) => {
                    println!("end: {:?}
steps: {}
stdout: {:?}
lpt1: {:?}
globals: {:?}", r.end, r.steps, runner::text(&r.stdout), runner::text(&r.lpt1), r.globals);
                }
                other => println!("{:?}", other),
            }
        }
        _ => {
            eprintln!("unknown command {}", cmd);
            std::process::exit(2);
        }
    }
}
