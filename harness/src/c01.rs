//! C01 (and the shared machinery of C02/C15): generated core-language programs.
//! For each program: the real generator's instruction list is compared literally with the Coq
//! model of the generator, and the observed run with the Coq VM model and with the independent
//! big-step reference semantics (coq/theories/{Lang,VM}).
use rusty_basic::RuntimeError;
use rusty_basic::instruction_generator::{AddressOrLabel, Instruction, InstructionGeneratorResult, PrinterType, generate_instructions, unwrap_linter_context};
use rusty_linter::core::lint;
use rusty_parser::{Operator, TypeQualifier, parse_main_str};
use rusty_variant::Variant;

use crate::common::*;
use crate::runner::*;
use crate::tables::{BOPS, QUALS};

pub const HEADER_V: &str = "From Coq Require Import List ZArith Bool NArith Floats.SpecFloat.\nFrom RB Require Import Base.Util Generated.Tables Val.Variant Val.Arith2.\nImport ListNotations.\n";
pub const HEADER: &str = "From Coq Require Import List ZArith Bool NArith Floats.SpecFloat.\nFrom RB Require Import Base.Util Generated.Tables Val.Variant Lang.Ast Lang.Sem VM.Instr VM.Gen VM.Machine VM.Corr.\nImport ListNotations.\nLocal Open Scope nat_scope.\n";

// ------------------------------------------------------------------ AST with positions

#[derive(Clone, Debug)]
pub enum Lit {
    Int(i32),
    Long(i64),
    Single(f32),
    Double(f64),
    Str(String),
}

#[derive(Clone, Debug)]
pub enum EK {
    Lit(Lit),
    Var(String), // with suffix, e.g. "A%"
    Bin(usize, Box<E>, Box<E>),
    Un(usize, Box<E>), // 0 = minus, 1 = NOT
    Paren(Box<E>),
}

#[derive(Clone, Debug)]
pub struct E {
    pub pos: (u32, u32),
    pub k: EK,
}

pub fn e(k: EK) -> E {
    E { pos: (0, 0), k }
}

#[derive(Clone, Debug)]
pub enum PArg {
    Comma,
    Semi,
    Expr(E),
}

#[derive(Clone, Debug)]
pub enum CaseE {
    Simple(E),
    Is(usize, E),
    Range(E, E),
}

#[derive(Clone, Debug)]
pub enum SK {
    Assign(String, E),
    Print(Vec<PArg>),
    If(E, Vec<S>, Vec<(E, Vec<S>)>, Option<Vec<S>>),
    /// single-line IF c THEN s1 : s2 [ELSE s3 : s4] with simple statements only
    IfLine(E, Vec<S>, Option<Vec<S>>),
    While(E, Vec<S>),
    Do(bool, bool, E, Vec<S>), // top, until
    For(String, E, E, Option<E>, Vec<S>),
    Select(E, Vec<(Vec<CaseE>, Vec<S>)>, Option<Vec<S>>),
    /// DATA item, item ... (literals, possibly negated)
    Data(Vec<E>),
    /// READ target, target ... (variables; the positions are filled in by the printer)
    Read(Vec<(String, (u32, u32))>),
}

#[derive(Clone, Debug)]
pub struct S {
    pub pos: (u32, u32),
    pub k: SK,
}

pub fn s(k: SK) -> S {
    S { pos: (0, 0), k }
}

fn op_text(i: usize) -> &'static str {
    match BOPS[i].0 {
        Operator::Less => "<",
        Operator::LessOrEqual => "<=",
        Operator::Equal => "=",
        Operator::GreaterOrEqual => ">=",
        Operator::Greater => ">",
        Operator::NotEqual => "<>",
        Operator::Plus => "+",
        Operator::Minus => "-",
        Operator::Multiply => "*",
        Operator::Divide => "/",
        Operator::Modulo => "MOD",
        Operator::And => "AND",
        Operator::Or => "OR",
    }
}

pub fn bop_index(o: Operator) -> usize {
    BOPS.iter().position(|(x, _)| *x == o).unwrap()
}

fn lit_text(l: &Lit) -> String {
    match l {
        Lit::Int(i) => format!("{}", i),
        Lit::Long(l) => format!("{}", l),
        Lit::Single(f) => {
            let t = format!("{}", f);
            if t.contains('.') { t } else { format!("{}.0", t) }
        }
        Lit::Double(d) => {
            let t = format!("{}", d);
            if t.contains('.') { format!("{}#", t) } else { format!("{}.0#", t) }
        }
        Lit::Str(s) => format!("\"{}\"", s),
    }
}

/// a text printer that fills in the positions the real parser will assign
pub struct Printer {
    pub text: String,
    pub row: u32,
    pub col: u32,
    /// blanks in front of the statement that starts the given row
    pub indents: std::collections::HashMap<u32, u32>,
}

impl Printer {
    pub fn new() -> Self {
        Printer { text: String::new(), row: 1, col: 1, indents: std::collections::HashMap::new() }
    }
    fn put(&mut self, t: &str) {
        self.text.push_str(t);
        self.col += t.len() as u32;
    }
    fn nl(&mut self) {
        self.text.push('\n');
        self.row += 1;
        self.col = 1;
    }
    fn here(&self) -> (u32, u32) {
        (self.row, self.col)
    }

    pub fn expr(&mut self, x: &mut E) {
        match &mut x.k {
            EK::Lit(l) => {
                x.pos = self.here();
                let t = lit_text(l);
                self.put(&t);
            }
            EK::Var(n) => {
                x.pos = self.here();
                let n = n.clone();
                self.put(&n);
            }
            EK::Bin(op, l, r) => {
                self.expr(l);
                self.put(" ");
                x.pos = self.here();
                self.put(op_text(*op));
                self.put(" ");
                self.expr(r);
            }
            EK::Un(u, c) => {
                x.pos = self.here();
                self.put(if *u == 0 { "-" } else { "NOT " });
                self.expr(c);
            }
            EK::Paren(c) => {
                x.pos = self.here();
                self.put("(");
                self.expr(c);
                self.put(")");
            }
        }
    }

    fn block(&mut self, b: &mut Vec<S>) {
        for st in b.iter_mut() {
            self.stmt(st);
        }
    }

    fn inline_stmts(&mut self, b: &mut Vec<S>) {
        let n = b.len();
        for (i, st) in b.iter_mut().enumerate() {
            st.pos = self.here();
            match &mut st.k {
                SK::Assign(nm, x) => {
                    let nm = nm.clone();
                    self.put(&nm);
                    self.put(" = ");
                    self.expr(x);
                }
                SK::Print(args) => {
                    self.put("PRINT");
                    for a in args.iter_mut() {
                        match a {
                            PArg::Comma => self.put(" ,"),
                            PArg::Semi => self.put(" ;"),
                            PArg::Expr(x) => {
                                self.put(" ");
                                self.expr(x);
                            }
                        }
                    }
                }
                _ => panic!("only simple statements can be printed inline"),
            }
            if i + 1 < n {
                self.put(" : ");
            }
        }
    }

    pub fn stmt(&mut self, st: &mut S) {
        if self.col == 1 {
            if let Some(n) = self.indents.get(&self.row).copied() {
                self.put(&" ".repeat(n as usize));
            }
        }
        st.pos = self.here();
        match &mut st.k {
            SK::IfLine(c, thn, els) => {
                self.put("IF ");
                self.expr(c);
                self.put(" THEN ");
                self.inline_stmts(thn);
                if let Some(b) = els {
                    self.put(" ELSE ");
                    self.inline_stmts(b);
                }
                self.nl();
            }
            SK::Assign(n, x) => {
                let n = n.clone();
                self.put(&n);
                self.put(" = ");
                self.expr(x);
                self.nl();
            }
            SK::Print(args) => {
                self.put("PRINT");
                for a in args.iter_mut() {
                    match a {
                        PArg::Comma => self.put(" ,"),
                        PArg::Semi => self.put(" ;"),
                        PArg::Expr(x) => {
                            self.put(" ");
                            self.expr(x);
                        }
                    }
                }
                self.nl();
            }
            SK::Data(items) => {
                self.put("DATA ");
                let n = items.len();
                for (i, x) in items.iter_mut().enumerate() {
                    self.expr(x);
                    if i + 1 < n {
                        self.put(", ");
                    }
                }
                self.nl();
            }
            SK::Read(targets) => {
                self.put("READ ");
                let n = targets.len();
                for (i, (nm, pos)) in targets.iter_mut().enumerate() {
                    *pos = self.here();
                    let nm = nm.clone();
                    self.put(&nm);
                    if i + 1 < n {
                        self.put(", ");
                    }
                }
                self.nl();
            }
            SK::If(c, thn, elifs, els) => {
                self.put("IF ");
                self.expr(c);
                self.put(" THEN");
                self.nl();
                self.block(thn);
                for (c2, b) in elifs.iter_mut() {
                    self.put("ELSEIF ");
                    self.expr(c2);
                    self.put(" THEN");
                    self.nl();
                    self.block(b);
                }
                if let Some(b) = els {
                    self.put("ELSE");
                    self.nl();
                    self.block(b);
                }
                self.put("END IF");
                self.nl();
            }
            SK::While(c, b) => {
                self.put("WHILE ");
                self.expr(c);
                self.nl();
                self.block(b);
                self.put("WEND");
                self.nl();
            }
            SK::Do(top, until, c, b) => {
                let kw = if *until { "UNTIL " } else { "WHILE " };
                if *top {
                    self.put("DO ");
                    self.put(kw);
                    self.expr(c);
                    self.nl();
                    self.block(b);
                    self.put("LOOP");
                    self.nl();
                } else {
                    self.put("DO");
                    self.nl();
                    self.block(b);
                    self.put("LOOP ");
                    self.put(kw);
                    self.expr(c);
                    self.nl();
                }
            }
            SK::For(v, lo, hi, step, b) => {
                let v = v.clone();
                self.put("FOR ");
                self.put(&v);
                self.put(" = ");
                self.expr(lo);
                self.put(" TO ");
                self.expr(hi);
                if let Some(se) = step {
                    self.put(" STEP ");
                    self.expr(se);
                }
                self.nl();
                self.block(b);
                self.put("NEXT");
                self.nl();
            }
            SK::Select(x, cases, els) => {
                self.put("SELECT CASE ");
                self.expr(x);
                self.nl();
                for (cs, b) in cases.iter_mut() {
                    self.put("CASE ");
                    let n = cs.len();
                    for (i, c) in cs.iter_mut().enumerate() {
                        match c {
                            CaseE::Simple(x) => self.expr(x),
                            CaseE::Is(op, x) => {
                                self.put("IS ");
                                self.put(op_text(*op));
                                self.put(" ");
                                self.expr(x);
                            }
                            CaseE::Range(a, b2) => {
                                self.expr(a);
                                self.put(" TO ");
                                self.expr(b2);
                            }
                        }
                        if i + 1 < n {
                            self.put(", ");
                        }
                    }
                    self.nl();
                    self.block(b);
                }
                if let Some(b) = els {
                    self.put("CASE ELSE");
                    self.nl();
                    self.block(b);
                }
                self.put("END SELECT");
                self.nl();
            }
        }
    }
}

pub fn print_program_with_indents(p: &mut Vec<S>, indents: &[(u32, u32)]) -> String {
    let mut pr = Printer::new();
    pr.indents = indents.iter().copied().collect();
    for st in p.iter_mut() {
        pr.stmt(st);
    }
    pr.text
}

pub fn print_program(p: &mut Vec<S>) -> String {
    let mut pr = Printer::new();
    for st in p.iter_mut() {
        pr.stmt(st);
    }
    pr.text
}



// ------------------------------------------------------------------ DATA / READ

fn data_item(rng: &mut Rng) -> E {
    match rng.below(9) {
        0 => e(EK::Lit(Lit::Int(3))),
        1 => e(EK::Un(0, Box::new(e(EK::Lit(Lit::Int(2)))))),
        2 => e(EK::Lit(Lit::Long(100000))),
        3 => e(EK::Lit(Lit::Single(1.5))),
        4 => e(EK::Lit(Lit::Double(0.25))),
        5 => e(EK::Lit(Lit::Str("ab".into()))),
        6 => e(EK::Lit(Lit::Str("".into()))),
        7 => e(EK::Lit(Lit::Int(32767))),
        _ => e(EK::Lit(Lit::Int(rng.range(0, 50) as i32))),
    }
}

fn insert_reads(block: &mut Vec<S>, rng: &mut Rng, left: &mut usize) {
    for st in block.iter_mut() {
        if *left == 0 {
            return;
        }
        match &mut st.k {
            SK::If(_, thn, _, els) => {
                if rng.chance(1, 3) {
                    insert_reads(thn, rng, left);
                }
                if let Some(b) = els {
                    if rng.chance(1, 3) {
                        insert_reads(b, rng, left);
                    }
                }
            }
            SK::While(_, b) | SK::Do(_, _, _, b) | SK::For(_, _, _, _, b) => {
                if rng.chance(1, 2) {
                    insert_reads(b, rng, left);
                }
            }
            SK::Select(_, cases, _) => {
                for (_, b) in cases.iter_mut() {
                    if rng.chance(1, 3) {
                        insert_reads(b, rng, left);
                    }
                }
            }
            _ => {}
        }
    }
    if *left > 0 && rng.chance(2, 3) {
        *left -= 1;
        let n = rng.range(1, 3) as usize;
        let vars = ["A%", "B%", "C&", "D!", "E#", "S$", "T$", "A%", "D!"];
        let targets: Vec<(String, (u32, u32))> = (0..n).map(|_| (rng.pick(&vars).to_string(), (0, 0))).collect();
        let i = rng.below(block.len() as u64 + 1) as usize;
        block.insert(i, s(SK::Read(targets)));
    }
}

/// adds DATA statements at random top-level places (they are executed first wherever they stand) and
/// READ statements anywhere, also inside loops and branches; the item kinds and counts are such that
/// conversions, Type mismatch, Overflow and Out of DATA all occur
pub fn add_data_read(prog: &mut Vec<S>, rng: &mut Rng) {
    let n_data = rng.range(1, 3) as usize;
    for _ in 0..n_data {
        let k = rng.range(1, 4) as usize;
        // mostly numbers, so that most READs succeed
        let items: Vec<E> = (0..k).map(|_| if rng.chance(2, 3) { e(EK::Lit(Lit::Int(rng.range(0, 9) as i32))) } else { data_item(rng) }).collect();
        let i = rng.below(prog.len() as u64 + 1) as usize;
        prog.insert(i, s(SK::Data(items)));
    }
    let mut left = rng.range(1, 3) as usize;
    insert_reads(prog, rng, &mut left);
    if left > 0 {
        let i = rng.below(prog.len() as u64 + 1) as usize;
        prog.insert(i, s(SK::Read(vec![("A%".to_string(), (0, 0))])));
    }
}


// ------------------------------------------------------------------ CASE lists and empty blocks

/// SELECT CASE with two tests per CASE, every pair of IS operators (and ranges), the selector running
/// over the values around the limits
pub fn case_list_programs() -> Vec<Vec<S>> {
    let ops = [Operator::Less, Operator::LessOrEqual, Operator::Equal, Operator::GreaterOrEqual, Operator::Greater, Operator::NotEqual];
    let mut out = vec![];
    for (i, o1) in ops.iter().enumerate() {
        for (j, o2) in ops.iter().enumerate() {
            let cases = vec![
                (vec![CaseE::Is(bop_index(*o1), lit_i(1)), CaseE::Is(bop_index(*o2), lit_i(3))], vec![print_str("a")]),
                (vec![CaseE::Range(lit_i(0), lit_i(1)), CaseE::Simple(lit_i(4)), CaseE::Is(bop_index(*o1), lit_i(2))], vec![print_str("b")]),
            ];
            let els = if (i + j) % 2 == 0 { Some(vec![print_str("e")]) } else { None };
            let body = vec![s(SK::Print(vec![PArg::Expr(var("N1%")), PArg::Semi])), s(SK::Select(var("N1%"), cases, els))];
            out.push(vec![s(SK::For("N1%".into(), lit_i(-1), lit_i(5), None, body)), print_str("end")]);
        }
    }
    out
}

/// every construct with every one of its blocks empty
pub fn empty_block_programs() -> Vec<Vec<S>> {
    let t = || bin(Operator::Equal, lit_i(1), lit_i(1));
    let f = || bin(Operator::Equal, lit_i(1), lit_i(2));
    let p = |x: &str| vec![print_str(x)];
    let mut out: Vec<Vec<S>> = vec![];
    for c in [true, false] {
        let cond = || if c { t() } else { f() };
        out.push(vec![s(SK::If(cond(), vec![], vec![], None)), print_str("end")]);
        out.push(vec![s(SK::If(cond(), vec![], vec![], Some(vec![]))), print_str("end")]);
        out.push(vec![s(SK::If(cond(), p("t"), vec![], Some(vec![]))), print_str("end")]);
        out.push(vec![s(SK::If(cond(), vec![], vec![], Some(p("e")))), print_str("end")]);
        out.push(vec![s(SK::If(f(), p("t"), vec![(cond(), vec![])], Some(p("e")))), print_str("end")]);
        out.push(vec![s(SK::If(f(), vec![], vec![(cond(), vec![]), (t(), vec![])], Some(vec![]))), print_str("end")]);
        out.push(vec![s(SK::If(f(), p("t"), vec![(cond(), p("ei"))], Some(vec![]))), print_str("end")]);
    }
    for subject in [1, 2, 7] {
        out.push(vec![s(SK::Select(lit_i(subject), vec![(vec![CaseE::Simple(lit_i(1))], vec![]), (vec![CaseE::Simple(lit_i(2))], p("two"))], Some(vec![]))), print_str("end")]);
        out.push(vec![s(SK::Select(lit_i(subject), vec![(vec![CaseE::Simple(lit_i(1)), CaseE::Simple(lit_i(2))], vec![])], None)), print_str("end")]);
        out.push(vec![s(SK::Select(lit_i(subject), vec![(vec![CaseE::Simple(lit_i(1))], p("one"))], Some(vec![]))), print_str("end")]);
    }
    out.push(vec![s(SK::For("Q1%".into(), lit_i(1), lit_i(3), None, vec![])), s(SK::Print(vec![PArg::Expr(var("Q1%"))]))]);
    out.push(vec![s(SK::For("Q1%".into(), lit_i(3), lit_i(1), Some(lit_i(-1)), vec![])), s(SK::Print(vec![PArg::Expr(var("Q1%"))]))]);
    out.push(vec![s(SK::While(f(), vec![])), print_str("end")]);
    out.push(vec![s(SK::Do(true, false, f(), vec![])), print_str("end")]);
    out.push(vec![s(SK::Do(true, true, t(), vec![])), print_str("end")]);
    out.push(vec![s(SK::Do(false, true, t(), vec![])), print_str("end")]);
    out.push(vec![s(SK::Do(false, false, f(), vec![])), print_str("end")]);
    // an empty block inside a non-empty one
    out.push(vec![s(SK::For("Q1%".into(), lit_i(1), lit_i(2), None, vec![s(SK::If(t(), vec![], vec![], Some(vec![]))), print_str("in")])), print_str("end")]);
    out
}

// ------------------------------------------------------------------ the nesting matrix

/// the ten ways a block can be enclosed: five loops (different bounds and steps, so that a mixed-up
/// loop frame shows) and five branch positions (THEN, ELSEIF, ELSE, a CASE that is not the first, CASE ELSE)
pub const NEST_KINDS: usize = 10;

fn lit_i(n: i32) -> E {
    if n < 0 { e(EK::Un(0, Box::new(e(EK::Lit(Lit::Int(-n)))))) } else { e(EK::Lit(Lit::Int(n))) }
}
fn bin(op: Operator, l: E, r: E) -> E {
    e(EK::Bin(bop_index(op), Box::new(l), Box::new(r)))
}
fn var(n: &str) -> E {
    e(EK::Var(n.to_string()))
}
fn print_str(t: &str) -> S {
    s(SK::Print(vec![PArg::Expr(e(EK::Lit(Lit::Str(t.into()))))]))
}

/// wraps [body] in a construct of the given kind; [id] makes the counter names unique; the names of
/// the counters are appended to [counters]
pub fn nest_wrap(kind: usize, id: usize, mut body: Vec<S>, counters: &mut Vec<String>) -> Vec<S> {
    match kind {
        0 => {
            let v = format!("N{}%", id);
            counters.push(v.clone());
            vec![s(SK::For(v, lit_i(1), lit_i(2), None, body))]
        }
        1 => {
            let v = format!("N{}%", id);
            counters.push(v.clone());
            vec![s(SK::For(v, lit_i(3), lit_i(2), Some(lit_i(-1)), body))]
        }
        2 => {
            let v = format!("N{}&", id);
            counters.push(v.clone());
            vec![s(SK::For(v, lit_i(10), lit_i(30), Some(lit_i(20)), body))]
        }
        3 => {
            let v = format!("N{}%", id);
            counters.push(v.clone());
            body.push(s(SK::Assign(v.clone(), bin(Operator::Plus, var(&v), lit_i(1)))));
            vec![s(SK::Assign(v.clone(), lit_i(0))), s(SK::While(bin(Operator::Less, var(&v), lit_i(2)), body))]
        }
        4 => {
            let v = format!("N{}%", id);
            counters.push(v.clone());
            body.push(s(SK::Assign(v.clone(), bin(Operator::Plus, var(&v), lit_i(1)))));
            vec![s(SK::Assign(v.clone(), lit_i(5))), s(SK::Do(false, true, bin(Operator::GreaterOrEqual, var(&v), lit_i(7)), body))]
        }
        5 => vec![s(SK::If(bin(Operator::Equal, lit_i(1), lit_i(1)), body, vec![], Some(vec![print_str("x")])))],
        6 => vec![s(SK::If(bin(Operator::Equal, lit_i(1), lit_i(2)), vec![print_str("n")], vec![(bin(Operator::Equal, lit_i(2), lit_i(2)), body)], Some(vec![print_str("e")])))],
        7 => vec![s(SK::If(bin(Operator::Equal, lit_i(1), lit_i(2)), vec![print_str("n")], vec![], Some(body)))],
        8 => vec![s(SK::Select(lit_i(2), vec![(vec![CaseE::Simple(lit_i(9))], vec![print_str("n")]), (vec![CaseE::Range(lit_i(1), lit_i(3))], body)], Some(vec![print_str("e")])))],
        _ => vec![s(SK::Select(lit_i(7), vec![(vec![CaseE::Simple(lit_i(1))], vec![print_str("n")])], Some(body)))],
    }
}

/// the program for one (outer, middle, inner) triple of kinds: the innermost block prints all
/// enclosing counters; every level prints a mark after its inner construct
pub fn nest_program(outer: usize, mid: usize, inner: usize) -> Vec<S> {
    let mut counters: Vec<String> = vec![];
    // names are fixed by the level so that the innermost PRINT can be written first
    let names: Vec<String> = [(outer, 1), (mid, 2), (inner, 3)]
        .iter()
        .filter(|(k, _)| *k < 5)
        .map(|(k, id)| if *k == 2 { format!("N{}&", id) } else { format!("N{}%", id) })
        .collect();
    let mut items: Vec<PArg> = vec![];
    for n in names.iter() {
        items.push(PArg::Expr(var(n)));
        items.push(PArg::Semi);
    }
    items.push(PArg::Expr(e(EK::Lit(Lit::Str("*".into())))));
    let innermost = vec![s(SK::Print(items))];
    let mut b3 = nest_wrap(inner, 3, innermost, &mut counters);
    b3.push(print_str("c"));
    let mut b2 = nest_wrap(mid, 2, b3, &mut counters);
    b2.push(print_str("b"));
    let mut b1 = nest_wrap(outer, 1, b2, &mut counters);
    b1.push(print_str("a"));
    b1
}

/// all triples (thorough), or the triples with at least two loops plus a seeded sample of the rest
pub fn nest_matrix(rng: &mut Rng, all: bool, sample: usize) -> Vec<(String, Vec<S>)> {
    let mut v = vec![];
    let mut rest = vec![];
    for o in 0..NEST_KINDS {
        for m in 0..NEST_KINDS {
            for i in 0..NEST_KINDS {
                let loops = [o, m, i].iter().filter(|k| **k < 5).count();
                let item = (format!("nest {}-{}-{}", o, m, i), nest_program(o, m, i));
                if all || (loops == 2 && (o < 5 && i < 5) && m >= 5 && (o + m + i) % 2 == 0) {
                    v.push(item);
                } else {
                    rest.push(item);
                }
            }
        }
    }
    for _ in 0..sample.min(rest.len()) {
        let k = rng.below(rest.len() as u64) as usize;
        v.push(rest.swap_remove(k));
    }
    v
}


// ------------------------------------------------------------------ statements whose positions look alike

/// two constructs of the same kind at (row 1, column c) and (row 1c', column c'') such that the
/// digits of row and column read the same when written one after the other ((1, 11) and (11, 1),
/// (1, 12) and (11, 2)): everything derived from a position must still keep them apart. The first
/// construct does not run its block, the second does.
pub fn lookalike_programs() -> Vec<(Vec<S>, Vec<(u32, u32)>)> {
    let mut out = vec![];
    for kind in 0..NEST_KINDS {
        for (col1, col2) in [(11u32, 1u32), (12, 2), (13, 3)] {
            let mut cs = vec![];
            // first construct at row 1: made not to reach its block where the kind allows it
            let first: Vec<S> = match kind {
                0 => vec![s(SK::For("Q1%".into(), lit_i(2), lit_i(1), None, vec![print_str("one")]))],
                1 => vec![s(SK::For("Q1%".into(), lit_i(1), lit_i(2), Some(lit_i(-1)), vec![print_str("one")]))],
                2 => vec![s(SK::For("Q1&".into(), lit_i(30), lit_i(10), Some(lit_i(20)), vec![print_str("one")]))],
                3 => vec![s(SK::While(bin(Operator::Less, lit_i(2), lit_i(1)), vec![print_str("one")]))],
                4 => vec![s(SK::Do(true, false, bin(Operator::Less, lit_i(2), lit_i(1)), vec![print_str("one")]))],
                5 => vec![s(SK::If(bin(Operator::Equal, lit_i(1), lit_i(2)), vec![print_str("one")], vec![], None))],
                6 => vec![s(SK::If(bin(Operator::Equal, lit_i(1), lit_i(2)), vec![print_str("one")], vec![(bin(Operator::Equal, lit_i(1), lit_i(3)), vec![print_str("uno")])], None))],
                7 => vec![s(SK::If(bin(Operator::Equal, lit_i(1), lit_i(1)), vec![print_str("yes")], vec![], Some(vec![print_str("one")])))],
                8 => vec![s(SK::Select(lit_i(5), vec![(vec![CaseE::Simple(lit_i(9))], vec![print_str("one")]), (vec![CaseE::Range(lit_i(1), lit_i(3))], vec![print_str("uno")])], None))],
                _ => vec![s(SK::Select(lit_i(1), vec![(vec![CaseE::Simple(lit_i(1))], vec![print_str("yes")])], Some(vec![print_str("one")])))],
            };
            let mut prog = first;
            // the number of rows used so far is known only after printing: print once to count
            let rows_used = print_program(&mut prog.clone()).lines().count() as u32;
            let target_row = 10 + col2; // rows 11, 12, 13 pair with columns 1, 2, 3
            // (loops of nest_wrap print "two" more than once: fine, the reference says how often;
            // WHILE / DO come with a counter initialisation in front of the construct itself)
            let mut second = nest_wrap(kind, 2, vec![print_str("two")], &mut cs);
            let extra = second.len() as u32 - 1;
            for _ in (rows_used + extra)..(target_row - 1) {
                prog.push(print_str("-"));
            }
            prog.append(&mut second);
            prog.push(print_str("end"));
            out.push((prog, vec![(1, col1 - 1), (target_row, col2 - 1)]));
        }
    }
    out
}

// ------------------------------------------------------------------ Coq printers

fn pos_c(p: (u32, u32)) -> String {
    let f = |x: u32| if x == u32::MAX { 0 } else { x };
    format!("({}, {})", f(p.0), f(p.1))
}

pub fn coq_variant(v: &Variant) -> String {
    match v {
        Variant::VSingle(f) => format!("(VSingle (single_of_bits {}%Z))", f.to_bits()),
        Variant::VDouble(d) => format!("(VDouble (double_of_bits {}%Z))", d.to_bits()),
        Variant::VInteger(i) => format!("(VInteger ({})%Z)", i),
        Variant::VLong(l) => format!("(VLong ({})%Z)", l),
        Variant::VString(s) => format!("(VString [{}]%Z)", s.bytes().map(|b| b.to_string()).collect::<Vec<_>>().join("; ")),
        other => format!("(VString [0]%Z) (* unsupported {:?} *)", other),
    }
}

fn lit_variant(l: &Lit) -> Variant {
    match l {
        Lit::Int(i) => Variant::VInteger(*i),
        Lit::Long(l) => Variant::VLong(*l),
        Lit::Single(f) => Variant::VSingle(*f),
        Lit::Double(d) => Variant::VDouble(*d),
        Lit::Str(s) => Variant::VString(s.clone()),
    }
}

pub fn coq_name(n: &str) -> String {
    let (bare, q) = n.split_at(n.len() - 1);
    let qn = match q {
        "!" => "QSingle",
        "#" => "QDouble",
        "%" => "QInteger",
        "&" => "QLong",
        _ => "QString",
    };
    format!("([{}]%Z, {})", bare.bytes().map(|b| b.to_string()).collect::<Vec<_>>().join("; "), qn)
}

pub fn coq_expr(x: &E) -> String {
    match &x.k {
        EK::Lit(l) => format!("(ELit {} {})", pos_c(x.pos), coq_variant(&lit_variant(l))),
        EK::Var(n) => format!("(EVar {} {})", pos_c(x.pos), coq_name(n)),
        EK::Bin(op, l, r) => format!("(EBin {} {} {} {})", pos_c(x.pos), BOPS[*op].1, coq_expr(l), coq_expr(r)),
        // the parser folds a minus sign in front of a numeric literal into the literal
        EK::Un(0, c) if matches!(&c.k, EK::Lit(Lit::Int(_)) | EK::Lit(Lit::Long(_)) | EK::Lit(Lit::Single(_)) | EK::Lit(Lit::Double(_))) => {
            let v = match &c.k {
                EK::Lit(Lit::Int(i)) => Variant::VInteger(-*i),
                EK::Lit(Lit::Long(l)) => if *l == 32768 { Variant::VInteger(-32768) } else { Variant::VLong(-*l) },
                EK::Lit(Lit::Single(f)) => Variant::VSingle(-*f),
                EK::Lit(Lit::Double(d)) => Variant::VDouble(-*d),
                _ => unreachable!(),
            };
            format!("(ELit {} {})", pos_c(x.pos), coq_variant(&v))
        }
        EK::Un(u, c) => format!("(EUn {} {} {})", pos_c(x.pos), if *u == 0 { "UMinus" } else { "UNot" }, coq_expr(c)),
        EK::Paren(c) => format!("(EParen {} {})", pos_c(x.pos), coq_expr(c)),
    }
}

fn coq_block(b: &[S]) -> String {
    format!("[{}]", b.iter().map(coq_stmt).collect::<Vec<_>>().join("; "))
}

pub fn coq_stmt(st: &S) -> String {
    let p = pos_c(st.pos);
    match &st.k {
        SK::Assign(n, x) => format!("(SAssign {} {} {})", p, coq_name(n), coq_expr(x)),
        SK::Data(items) => format!("(SData {} [{}])", p, items.iter().map(coq_expr).collect::<Vec<_>>().join("; ")),
        SK::Read(targets) => format!("(SRead {} [{}])", p, targets.iter().map(|(n, q)| format!("({}, {})", coq_name(n), pos_c(*q))).collect::<Vec<_>>().join("; ")),
        SK::Print(args) => format!(
            "(SPrint {} [{}])",
            p,
            args.iter()
                .map(|a| match a {
                    PArg::Comma => "PComma".to_string(),
                    PArg::Semi => "PSemi".to_string(),
                    PArg::Expr(x) => format!("PExpr {}", coq_expr(x)),
                })
                .collect::<Vec<_>>()
                .join("; ")
        ),
        SK::If(c, thn, elifs, els) => format!(
            "(SIf {} {} {} [{}] {})",
            p,
            coq_expr(c),
            coq_block(thn),
            elifs.iter().map(|(c2, b)| format!("({}, {})", coq_expr(c2), coq_block(b))).collect::<Vec<_>>().join("; "),
            match els {
                Some(b) => format!("(Some {})", coq_block(b)),
                None => "None".to_string(),
            }
        ),
        SK::IfLine(c, thn, els) => format!(
            "(SIf {} {} {} [] {})",
            p,
            coq_expr(c),
            coq_block(thn),
            match els {
                Some(b) => format!("(Some {})", coq_block(b)),
                None => "None".to_string(),
            }
        ),
        SK::While(c, b) => format!("(SWhile {} {} {})", p, coq_expr(c), coq_block(b)),
        SK::Do(top, until, c, b) => format!("(SDo {} {} {} {} {})", p, top, until, coq_expr(c), coq_block(b)),
        SK::For(v, lo, hi, step, b) => format!(
            "(SFor {} {} {} {} {} {})",
            p,
            coq_name(v),
            coq_expr(lo),
            coq_expr(hi),
            match step {
                Some(se) => format!("(Some {})", coq_expr(se)),
                None => "None".to_string(),
            },
            coq_block(b)
        ),
        SK::Select(x, cases, els) => format!(
            "(SSelect {} {} [{}] {})",
            p,
            coq_expr(x),
            cases
                .iter()
                .map(|(cs, b)| format!(
                    "([{}], {})",
                    cs.iter()
                        .map(|c| match c {
                            CaseE::Simple(x) => format!("CSimple {}", coq_expr(x)),
                            CaseE::Is(op, x) => format!("CIs {} {}", BOPS[*op].1, coq_expr(x)),
                            CaseE::Range(a, b2) => format!("CRange {} {}", coq_expr(a), coq_expr(b2)),
                        })
                        .collect::<Vec<_>>()
                        .join("; "),
                    coq_block(b)
                ))
                .collect::<Vec<_>>()
                .join("; "),
            match els {
                Some(b) => format!("(Some {})", coq_block(b)),
                None => "None".to_string(),
            }
        ),
    }
}

pub fn coq_program(p: &[S]) -> String {
    coq_block(p)
}

// ------------------------------------------------------------------ instruction dump

fn parse_label(text: &str) -> Option<String> {
    // "_prefix_Position { row: R, col: C }"
    let t = text.strip_prefix('_')?;
    let idx = t.find("_Position")?;
    let prefix = t[..idx].to_ascii_lowercase();
    let pos = positions_of_debug(&t[idx..]);
    let (r, c) = *pos.first()?;
    let num = |s: &str| s.parse::<usize>().ok();
    let (kind, i, j): (&str, usize, usize) = if let Some(rest) = prefix.strip_prefix("else-if-") {
        ("KElseIf", num(rest)?, 0)
    } else if prefix == "else" {
        ("KElse", 0, 0)
    } else if prefix == "end-if" {
        ("KEndIf", 0, 0)
    } else if prefix == "while" {
        ("KWhile", 0, 0)
    } else if prefix == "wend" {
        ("KWend", 0, 0)
    } else if prefix == "do" {
        ("KDo", 0, 0)
    } else if prefix == "loop" {
        ("KLoop", 0, 0)
    } else if prefix == "for-loop" {
        ("KForLoop", 0, 0)
    } else if prefix == "positive-step" {
        ("KPositiveStep", 0, 0)
    } else if prefix == "for-body" {
        ("KForBody", 0, 0)
    } else if prefix == "zero" {
        ("KZero", 0, 0)
    } else if prefix == "out-of-for" {
        ("KOutOfFor", 0, 0)
    } else if let Some(rest) = prefix.strip_prefix("case-multi-expr-") {
        let mut it = rest.split('-');
        ("KCaseMultiExpr", num(it.next()?)?, num(it.next()?)?)
    } else if let Some(rest) = prefix.strip_prefix("case-statements") {
        ("KCaseStatements", num(rest)?, 0)
    } else if prefix == "case-else" {
        ("KCaseElse", 0, 0)
    } else if prefix == "end-select" {
        ("KEndSelect", 0, 0)
    } else if let Some(rest) = prefix.strip_prefix("case") {
        ("KCase", num(rest)?, 0)
    } else {
        return None;
    };
    Some(format!("({}, {}, {}, ({}, {}))", kind, i, j, r, c))
}

fn coq_target(a: &AddressOrLabel) -> String {
    match a {
        AddressOrLabel::Resolved(n) => format!("(TAddr {})", n),
        AddressOrLabel::Unresolved(l) => match parse_label(&l.to_string()) {
            Some(t) => format!("(TLabel {})", t),
            None => "(TAddr 999999)".to_string(),
        },
    }
}

fn qual_name(q: TypeQualifier) -> &'static str {
    QUALS.iter().find(|(x, _)| *x == q).unwrap().1
}

pub fn coq_instr(i: &Instruction) -> String {
    match i {
        Instruction::LoadIntoA(v) => format!("ILoad {}", coq_variant(v)),
        Instruction::VarPathName(rp) if !rp.shared => {
            let n = format!("{}", rp.name);
            if n.ends_with(['!', '#', '%', '&', '$']) { format!("IVarPathName {}", coq_name(&n)) } else { "IOther".to_string() }
        }
        Instruction::CopyVarPathToA => "ICopyVarPathToA".into(),
        Instruction::PopVarPath => "IPopVarPath".into(),
        Instruction::CopyAToVarPath => "ICopyAToVarPath".into(),
        Instruction::PushAToValueStack => "IPushA".into(),
        Instruction::PopValueStackIntoA => "IPopA".into(),
        Instruction::CopyAToB => "ICopyAToB".into(),
        Instruction::CopyAToC => "ICopyAToC".into(),
        Instruction::CopyAToD => "ICopyAToD".into(),
        Instruction::CopyCToB => "ICopyCToB".into(),
        Instruction::CopyDToA => "ICopyDToA".into(),
        Instruction::CopyDToB => "ICopyDToB".into(),
        Instruction::Plus => "IBin Plus".into(),
        Instruction::Minus => "IBin Minus".into(),
        Instruction::Multiply => "IBin Multiply".into(),
        Instruction::Divide => "IBin Divide".into(),
        Instruction::Modulo => "IBin Modulo".into(),
        Instruction::Less => "IBin Less".into(),
        Instruction::LessOrEqual => "IBin LessOrEqual".into(),
        Instruction::Equal => "IBin Equal".into(),
        Instruction::GreaterOrEqual => "IBin GreaterOrEqual".into(),
        Instruction::Greater => "IBin Greater".into(),
        Instruction::NotEqual => "IBin NotEqual".into(),
        Instruction::And => "IBin And".into(),
        Instruction::Or => "IBin Or".into(),
        Instruction::NotA => "INot".into(),
        Instruction::NegateA => "INegate".into(),
        Instruction::Cast(q) => format!("ICast {}", qual_name(*q)),
        Instruction::AllocateBuiltIn(q) => format!("IAlloc {}", qual_name(*q)),
        Instruction::Label(l) => match parse_label(&l.to_string()) {
            Some(t) => format!("ILabel {}", t),
            None => "IOther".into(),
        },
        Instruction::Jump(a) => format!("IJump {}", coq_target(a)),
        Instruction::JumpIfFalse(a) => format!("IJumpIfFalse {}", coq_target(a)),
        Instruction::PushRegisters => "IPushRegisters".into(),
        Instruction::PopRegisters => "IPopRegisters".into(),
        Instruction::Throw(RuntimeError::ForLoopZeroStep) => "IThrowZeroStep".into(),
        Instruction::Halt => "IHalt".into(),
        Instruction::PrintSetPrinterType(PrinterType::Print) => "IPrintSetPrinterType".into(),
        Instruction::PrintSetFormatStringFromA => "IPrintSetFormat".into(),
        Instruction::PrintComma => "IPrintComma".into(),
        Instruction::PrintSemicolon => "IPrintSemi".into(),
        Instruction::PrintValueFromA => "IPrintValue".into(),
        Instruction::PrintEnd => "IPrintEnd".into(),
        Instruction::BeginCollectArguments => "IBeginCollect".into(),
        Instruction::PushUnnamedByVal => "IPushUnnamedByVal".into(),
        Instruction::PushUnnamedByRef => "IPushUnnamedByRef".into(),
        Instruction::PushStack => "IPushStack".into(),
        Instruction::PopStack => "IPopStack".into(),
        Instruction::BuiltInSub(rusty_parser::BuiltInSub::Data) => "IBuiltinData".into(),
        Instruction::BuiltInSub(rusty_parser::BuiltInSub::Read) => "IBuiltinRead".into(),
        Instruction::EnqueueToReturnStack(i) => format!("(IEnqueue {})", i),
        Instruction::DequeueFromReturnStack => "IDequeue".into(),
        _ => "IOther".into(),
    }
}

pub fn coq_code(igr: &InstructionGeneratorResult) -> (String, String) {
    let code: Vec<String> = igr.instructions.iter().map(|ip| format!("({}, {})", coq_instr(&ip.element), pos_c((ip.pos.row(), ip.pos.col())))).collect();
    let marks: Vec<String> = igr.statement_addresses.iter().map(|a| a.to_string()).collect();
    (format!("[{}]", code.join("; ")), format!("[{}]", marks.join("; ")))
}

/// the implicit DIM prefix: (AllocateBuiltIn q; VarPathName n; CopyAToVarPath)* at the start
pub fn coq_dims(igr: &InstructionGeneratorResult) -> String {
    let mut v = vec![];
    let ins = &igr.instructions;
    let mut i = 0;
    // the DATA statements of the main program come first: skip their calls
    while i < ins.len() && matches!(ins[i].element, Instruction::BeginCollectArguments) {
        let mut j = i;
        let mut is_data = false;
        while j < ins.len() && !matches!(ins[j].element, Instruction::PopStack) {
            if matches!(ins[j].element, Instruction::BuiltInSub(rusty_parser::BuiltInSub::Data)) {
                is_data = true;
            }
            j += 1;
        }
        if !is_data || j >= ins.len() {
            break;
        }
        i = j + 1;
    }
    while i + 2 < ins.len() {
        match (&ins[i].element, &ins[i + 1].element, &ins[i + 2].element) {
            (Instruction::AllocateBuiltIn(_), Instruction::VarPathName(rp), Instruction::CopyAToVarPath) => {
                v.push(format!("({}, {})", coq_name(&format!("{}", rp.name)), pos_c((ins[i].pos.row(), ins[i].pos.col()))));
                i += 3;
            }
            _ => break,
        }
    }
    format!("[{}]", v.join("; "))
}

pub fn compile(src: &str) -> Result<InstructionGeneratorResult, String> {
    compile_with_types(src).map(|x| x.0)
}

pub fn compile_with_types(src: &str) -> Result<(InstructionGeneratorResult, rusty_parser::UserDefinedTypes), String> {
    let text = src.to_string();
    let r = guard(move || {
        let program = parse_main_str(text).map_err(|e| format!("parse: {:?}", e))?;
        let (linted, ctx) = lint(program).map_err(|e| format!("lint: {:?}", e))?;
        let (names, udts) = unwrap_linter_context(ctx);
        Ok::<_, String>((generate_instructions(linted, names), udts))
    });
    match r {
        Ok(x) => x,
        Err(msg) => Err(format!("panic: {}", msg)),
    }
}

// ------------------------------------------------------------------ generation

pub struct Gen<'a> {
    pub rng: &'a mut Rng,
    pub loop_counter: usize,
}

const NUM_VARS: [&str; 6] = ["A%", "B%", "C&", "D!", "E#", "F%"];
const STR_VARS: [&str; 2] = ["S$", "T$"];

impl<'a> Gen<'a> {
    fn num_lit(&mut self) -> E {
        let r = self.rng.below(20);
        e(EK::Lit(match r {
            0 => Lit::Int(0),
            1 => Lit::Int(1),
            2 => Lit::Int(2),
            3 => Lit::Int(7),
            4 => Lit::Int(14),
            5 => Lit::Int(3),
            6 => Lit::Int(32767),
            7 => Lit::Long(32768),
            8 => Lit::Long(100000),
            9 => Lit::Long(2147483647),
            10 => Lit::Single(0.5),
            11 => Lit::Single(1.5),
            12 => Lit::Single(2.5),
            13 => Lit::Double(0.25),
            14 => Lit::Double(1000000.5),
            15 => Lit::Int(10),
            16 => Lit::Int(100),
            17 => Lit::Int(5),
            18 => Lit::Int(4),
            _ => Lit::Int(self.rng.range(0, 300) as i32),
        }))
    }

    pub fn num_expr(&mut self, depth: u32) -> E {
        if depth == 0 || self.rng.chance(1, 3) {
            return match self.rng.below(5) {
                0 | 1 => e(EK::Var(self.rng.pick(&NUM_VARS).to_string())),
                2 => {
                    let l = self.num_lit();
                    if self.rng.chance(1, 4) { e(EK::Un(0, Box::new(l))) } else { l }
                }
                _ => self.num_lit(),
            };
        }
        // operators weighted towards + - *
        let ops = [Operator::Plus, Operator::Plus, Operator::Minus, Operator::Minus, Operator::Multiply, Operator::Multiply, Operator::Divide, Operator::Modulo, Operator::And, Operator::Or, Operator::Less, Operator::Equal, Operator::GreaterOrEqual, Operator::NotEqual];
        let op = bop_index(*self.rng.pick(&ops));
        let mut l = self.num_expr(depth - 1);
        let mut r = self.num_expr(depth - 1);
        // children that are binary expressions are parenthesised so that the text has exactly this shape
        if matches!(l.k, EK::Bin(..)) {
            l = e(EK::Paren(Box::new(l)));
        }
        if matches!(r.k, EK::Bin(..)) || matches!(r.k, EK::Un(..)) {
            r = e(EK::Paren(Box::new(r)));
        }
        if matches!(l.k, EK::Un(..)) {
            l = e(EK::Paren(Box::new(l)));
        }
        // -A / B and NOT A AND B without parentheses: the prefix binds to the left operand only
        if self.rng.chance(1, 8) {
            let v = e(EK::Var(self.rng.pick(&NUM_VARS).to_string()));
            let logical = matches!(BOPS[op].0, Operator::And | Operator::Or);
            l = if logical && self.rng.chance(1, 2) { e(EK::Un(1, Box::new(v))) } else { e(EK::Un(0, Box::new(v))) };
        }
        let b = e(EK::Bin(op, Box::new(l), Box::new(r)));
        match self.rng.below(10) {
            0 => e(EK::Un(1, Box::new(e(EK::Paren(Box::new(b)))))),
            1 => e(EK::Un(0, Box::new(e(EK::Paren(Box::new(b)))))),
            _ => b,
        }
    }

    fn str_expr(&mut self, depth: u32) -> E {
        if depth == 0 || self.rng.chance(1, 2) {
            return match self.rng.below(3) {
                0 => e(EK::Var(self.rng.pick(&STR_VARS).to_string())),
                1 => e(EK::Lit(Lit::Str("ab".into()))),
                _ => e(EK::Lit(Lit::Str("".into()))),
            };
        }
        let l = self.str_expr(depth - 1);
        let mut r = self.str_expr(depth - 1);
        // a binary right operand is parenthesised so that the text has exactly this shape
        if matches!(r.k, EK::Bin(..)) {
            r = e(EK::Paren(Box::new(r)));
        }
        e(EK::Bin(bop_index(Operator::Plus), Box::new(l), Box::new(r)))
    }

    pub fn cond(&mut self) -> E {
        let ops = [Operator::Less, Operator::LessOrEqual, Operator::Equal, Operator::GreaterOrEqual, Operator::Greater, Operator::NotEqual];
        let op = bop_index(*self.rng.pick(&ops));
        if self.rng.chance(1, 5) {
            // a condition that is not a comparison: any numeric value, zero is false
            return match self.rng.below(3) {
                0 => e(EK::Var(self.rng.pick(&NUM_VARS).to_string())),
                1 => e(EK::Un(1, Box::new(e(EK::Var(self.rng.pick(&NUM_VARS).to_string()))))),
                _ => self.num_expr(1),
            };
        }
        if self.rng.chance(1, 8) {
            let l = self.str_expr(1);
            let r = self.str_expr(1);
            return e(EK::Bin(op, Box::new(l), Box::new(r)));
        }
        let mut l = self.num_expr(1);
        let mut r = self.num_expr(1);
        if !matches!(l.k, EK::Lit(_) | EK::Var(_)) {
            l = e(EK::Paren(Box::new(l)));
        }
        if !matches!(r.k, EK::Lit(_) | EK::Var(_)) {
            r = e(EK::Paren(Box::new(r)));
        }
        e(EK::Bin(op, Box::new(l), Box::new(r)))
    }

    fn fresh_counter(&mut self) -> String {
        self.loop_counter += 1;
        format!("L{}%", self.loop_counter)
    }

    fn simple_stmt(&mut self) -> S {
        match self.rng.below(10) {
            0..=4 => {
                let v = self.rng.pick(&NUM_VARS).to_string();
                let x = self.num_expr(2);
                s(SK::Assign(v, x))
            }
            5 => {
                let v = self.rng.pick(&STR_VARS).to_string();
                let x = self.str_expr(2);
                s(SK::Assign(v, x))
            }
            _ => {
                let n = self.rng.range(0, 3) as usize;
                let mut args = vec![];
                for k in 0..n {
                    let x = if self.rng.chance(1, 4) { self.str_expr(1) } else { self.num_expr(1) };
                    args.push(PArg::Expr(x));
                    if k + 1 < n || self.rng.chance(1, 3) {
                        args.push(if self.rng.chance(1, 2) { PArg::Semi } else { PArg::Comma });
                    }
                }
                s(SK::Print(args))
            }
        }
    }

    pub fn block(&mut self, depth: u32, max: usize) -> Vec<S> {
        let n = self.rng.range(1, max as i64) as usize;
        (0..n).flat_map(|_| self.stmt(depth)).collect()
    }

    /// one statement (loops come with their counter initialisation, hence a Vec)
    pub fn stmt(&mut self, depth: u32) -> Vec<S> {
        if depth == 0 || self.rng.chance(2, 5) {
            return vec![self.simple_stmt()];
        }
        match self.rng.below(7) {
            0 | 1 => {
                let c = self.cond();
                let thn = self.block(depth - 1, 2);
                let n_elif = if self.rng.chance(1, 3) { self.rng.range(1, 2) as usize } else { 0 };
                let elifs = (0..n_elif).map(|_| (self.cond(), self.block(depth - 1, 2))).collect();
                let els = if self.rng.chance(1, 2) { Some(self.block(depth - 1, 2)) } else { None };
                vec![s(SK::If(c, thn, elifs, els))]
            }
            2 => {
                // WHILE counter < n
                let k = self.fresh_counter();
                let n = self.rng.range(0, 3) as i32;
                let mut body = self.block(depth - 1, 2);
                body.push(s(SK::Assign(k.clone(), e(EK::Bin(bop_index(Operator::Plus), Box::new(e(EK::Var(k.clone()))), Box::new(e(EK::Lit(Lit::Int(1)))))))));
                let c = e(EK::Bin(bop_index(Operator::Less), Box::new(e(EK::Var(k.clone()))), Box::new(e(EK::Lit(Lit::Int(n))))));
                vec![s(SK::Assign(k, e(EK::Lit(Lit::Int(0))))), s(SK::While(c, body))]
            }
            3 => {
                let k = self.fresh_counter();
                let n = self.rng.range(1, 3) as i32;
                let top = self.rng.chance(1, 2);
                let until = self.rng.chance(1, 2);
                let mut body = self.block(depth - 1, 2);
                body.push(s(SK::Assign(k.clone(), e(EK::Bin(bop_index(Operator::Plus), Box::new(e(EK::Var(k.clone()))), Box::new(e(EK::Lit(Lit::Int(1)))))))));
                let op = if until { Operator::GreaterOrEqual } else { Operator::Less };
                let c = e(EK::Bin(bop_index(op), Box::new(e(EK::Var(k.clone()))), Box::new(e(EK::Lit(Lit::Int(n))))));
                vec![s(SK::Assign(k, e(EK::Lit(Lit::Int(0))))), s(SK::Do(top, until, c, body))]
            }
            4 | 5 => {
                let suffix = *self.rng.pick(&["%", "%", "&", "!", "#"]);
                self.loop_counter += 1;
                let v = format!("I{}{}", self.loop_counter, suffix);
                if self.rng.chance(1, 6) {
                    // bounds of another numeric type than the counter are converted to the counter's type
                    let (lo, hi, step): (E, E, Option<E>) = match self.rng.below(4) {
                        0 => (e(EK::Lit(Lit::Int(1))), e(EK::Lit(Lit::Single(3.5))), None),
                        1 => (e(EK::Lit(Lit::Single(0.5))), e(EK::Lit(Lit::Double(2.25))), None),
                        2 => (e(EK::Lit(Lit::Int(4))), e(EK::Lit(Lit::Single(2.5))), Some(e(EK::Un(0, Box::new(e(EK::Lit(Lit::Int(1)))))))),
                        _ => (e(EK::Lit(Lit::Int(1))), e(EK::Lit(Lit::Double(1.75))), Some(e(EK::Lit(Lit::Int(1))))),
                    };
                    let body = self.block(depth - 1, 2);
                    return vec![s(SK::For(v, lo, hi, step, body))];
                }
                let (lo, hi, step): (i32, i32, Option<E>) = match self.rng.below(8) {
                    // a step of a wider type than the counter is converted to the counter's type
                    6 => (1, 5, Some(e(EK::Lit(Lit::Single(1.5))))),
                    7 => (1, 3, Some(e(EK::Lit(if self.rng.chance(1, 2) { Lit::Double(0.25) } else { Lit::Long(100000) })))),
                    0 => (1, 3, None),
                    1 => (3, 1, Some(e(EK::Un(0, Box::new(e(EK::Lit(Lit::Int(1)))))))),
                    2 => (1, 6, Some(e(EK::Lit(Lit::Int(2))))),
                    3 => (5, 1, Some(e(EK::Un(0, Box::new(e(EK::Lit(Lit::Int(2)))))))),
                    4 => (1, 3, Some(e(EK::Var("F%".into())))), // run-time computed step (may be 0)
                    _ => (2, 1, None),
                };
                let body = self.block(depth - 1, 2);
                vec![s(SK::For(v, e(EK::Lit(Lit::Int(lo))), e(EK::Lit(Lit::Int(hi))), step, body))]
            }
            _ => {
                let subject = self.num_expr(1);
                let n = self.rng.range(0, 3) as usize;
                let mut cases = vec![];
                for _ in 0..n {
                    let m = self.rng.range(1, 2) as usize;
                    let cs: Vec<CaseE> = (0..m)
                        .map(|_| match self.rng.below(3) {
                            0 => CaseE::Simple(self.num_lit()),
                            1 => CaseE::Is(bop_index(*self.rng.pick(&[Operator::Less, Operator::LessOrEqual, Operator::Equal, Operator::Greater, Operator::GreaterOrEqual, Operator::NotEqual])), self.num_lit()),
                            _ => CaseE::Range(e(EK::Lit(Lit::Int(self.rng.range(0, 3) as i32))), e(EK::Lit(Lit::Int(self.rng.range(3, 9) as i32)))),
                        })
                        .collect();
                    cases.push((cs, self.block(depth - 1, 2)));
                }
                let els = if self.rng.chance(1, 2) { Some(self.block(depth - 1, 2)) } else { None };
                vec![s(SK::Select(subject, cases, els))]
            }
        }
    }

    pub fn program(&mut self, depth: u32, max: usize) -> Vec<S> {
        let mut p: Vec<S> = vec![];
        // some initial values so that expressions are not all zero
        if self.rng.chance(2, 3) {
            p.push(s(SK::Assign("A%".into(), e(EK::Lit(Lit::Int(self.rng.range(-3, 9) as i32))))));
            p.push(s(SK::Assign("F%".into(), e(EK::Lit(Lit::Int(self.rng.range(-2, 2) as i32))))));
        }
        p.extend(self.block(depth, max));
        if self.rng.chance(1, 2) {
            p.push(s(SK::Print(vec![PArg::Expr(e(EK::Var("A%".into()))), PArg::Semi, PArg::Expr(e(EK::Var("C&".into()))), PArg::Semi, PArg::Expr(e(EK::Var("D!".into())))])));
        }
        p
    }
}

pub fn has_control(p: &[S]) -> bool {
    p.iter().any(|st| !matches!(st.k, SK::Assign(..) | SK::Print(_)))
}

pub fn coq_globals(g: &[(String, Variant)]) -> String {
    let v: Vec<String> = g.iter().map(|(n, v)| format!("({}, {})", coq_name(n), coq_variant(v))).collect();
    format!("[{}]", v.join("; "))
}

pub fn coq_obs(end: &End) -> Option<String> {
    match end {
        End::Ok => Some("ObsOk".into()),
        End::Err(258, pos, _) => pos.first().map(|(r, c)| format!("(ObsStepZero {} {})", r, c)),
        End::Err(code, pos, _) => pos.first().map(|(r, c)| format!("(ObsErr {}%Z {} {})", code, r, c)),
        _ => None,
    }
}

fn leg_name(n: u32) -> &'static str {
    match n {
        1 => "generated instructions differ from the generator model",
        2 => "statement addresses differ from the generator model",
        3 => "outcome differs from the VM model",
        4 => "output differs from the VM model",
        5 => "final variables differ from the VM model",
        6 => "outcome differs from the reference semantics",
        7 => "output differs from the reference semantics",
        8 => "final variables differ from the reference semantics",
        _ => "?",
    }
}

pub fn run(args: &Args) {
    let mut rng = Rng::new(args.seed);
    let mut sum = Summary::new();
    let mut w = CaseWriter::new(&args.out, "c01", HEADER, 80);
    let mut evaluations = 0usize;
    // ---- value level: every binary operator of the VM and the two unary ones on boundary values,
    //      against Arith2.binop / negate / unary_not
    {
        use std::cmp::Ordering;
        let mut vw = CaseWriter::new(&args.out, "c01v", HEADER_V, 1500);
        let mut vals = crate::c06::boundary_values();
        for s in ["", "a", "ab", "B"] {
            vals.push(Variant::VString(s.to_string()));
        }
        for _ in 0..(if args.thorough() { 200 } else { 30 }) {
            vals.push(Variant::VInteger(rng.range(-32768, 32767) as i32));
            vals.push(Variant::VLong(rng.range(-2147483648, 2147483647)));
            vals.push(Variant::VDouble(rng.range(-4000, 4000) as f64 / 8.0));
            vals.push(Variant::VSingle(rng.range(-4000, 4000) as f32 / 4.0));
            vals.push(Variant::VDouble(rng.range(-1_000_000_000_000, 1_000_000_000_000) as f64 * 1024.0));
        }
        fn code_of(e: &rusty_variant::VariantError) -> i128 {
            match e {
                rusty_variant::VariantError::Overflow => 6,
                rusty_variant::VariantError::TypeMismatch => 13,
                rusty_variant::VariantError::DivisionByZero => 11,
            }
        }
        let n_pairs = if args.thorough() { 40000 } else { 5000 };
        for k in 0..n_pairs {
            let a = rng.pick(&vals).clone();
            let b = rng.pick(&vals).clone();
            let (_, on) = crate::tables::BOPS[k % crate::tables::BOPS.len()];
            let (a2, b2) = (a.clone(), b.clone());
            let r = guard(move || -> Result<Variant, i128> {
                use rusty_linter::core::CastVariant;
                let cmp = |p: fn(Ordering) -> bool| a2.try_cmp(&b2).map(|o| Variant::from(p(o)));
                // AND / OR: as the handlers of interpreter/handlers/logical.rs, both operands are cast to INTEGER first
                let logical = |is_and: bool| -> Result<Variant, i128> {
                    let x = a2.clone().cast(TypeQualifier::PercentInteger).map_err(|e| crate::c06::code_of_lint(&e))?;
                    let y = b2.clone().cast(TypeQualifier::PercentInteger).map_err(|e| crate::c06::code_of_lint(&e))?;
                    (if is_and { x.and(y) } else { x.or(y) }).map_err(|e| code_of(&e))
                };
                if on == "And" || on == "Or" {
                    return logical(on == "And");
                }
                (match on {
                    "Plus" => a2.clone().plus(b2.clone()),
                    "Minus" => a2.clone().minus(b2.clone()),
                    "Multiply" => a2.clone().multiply(b2.clone()),
                    "Divide" => a2.clone().divide(b2.clone()),
                    "Modulo" => a2.clone().modulo(b2.clone()),
                    "Less" => cmp(|o| o == Ordering::Less),
                    "LessOrEqual" => cmp(|o| o != Ordering::Greater),
                    "Equal" => cmp(|o| o == Ordering::Equal),
                    "GreaterOrEqual" => cmp(|o| o != Ordering::Less),
                    "Greater" => cmp(|o| o == Ordering::Greater),
                    "NotEqual" => cmp(|o| o != Ordering::Equal),
                    other => panic!("unknown operator {}", other),
                })
                .map_err(|e| code_of(&e))
            });
            evaluations += 1;
            let (code, res) = match &r {
                Err(msg) => {
                    sum.violation(ImplViolation { key: format!("binop-panic:{}", on), input: format!("{:?} {} {:?}", a, on, b), expected: "a value or an error".into(), observed: msg.clone() });
                    continue;
                }
                Ok(Ok(x)) => (0, coq_variant(x)),
                Ok(Err(e)) => (*e, "(VInteger 0%Z)".to_string()),
            };
            vw.push(Case {
                agree: format!("vres_eqb (binop {} {} {}) {}%Z {}", on, coq_variant(&a), coq_variant(&b), code, res),
                desc: format!("value {:?} {} {:?} = {:?}", a, on, b, r.as_ref().ok()),
                model_expr: format!("binop {} {} {}", on, coq_variant(&a), coq_variant(&b)),
            });
            sum.count(&format!("value_{}", on));
            sum.nontrivial(format!("v{:?}{}{:?}", a, on, b));
        }
        for a in &vals {
            for (un, f) in [("negate", 0), ("unary_not", 1)] {
                let a2 = a.clone();
                let r = guard(move || if f == 0 { a2.negate() } else { a2.unary_not() });
                evaluations += 1;
                let (code, res) = match &r {
                    Err(msg) => {
                        sum.violation(ImplViolation { key: format!("unop-panic:{}", un), input: format!("{} {:?}", un, a), expected: "a value or an error".into(), observed: msg.clone() });
                        continue;
                    }
                    Ok(Ok(x)) => (0, coq_variant(x)),
                    Ok(Err(e)) => (code_of(e), "(VInteger 0%Z)".to_string()),
                };
                vw.push(Case {
                    agree: format!("vres_eqb ({} {}) {}%Z {}", un, coq_variant(a), code, res),
                    desc: format!("value {} {:?} = {:?}", un, a, r.as_ref().ok()),
                    model_expr: format!("{} {}", un, coq_variant(a)),
                });
                sum.count(&format!("value_{}", un));
            }
        }
        vw.flush();
    }
    let n = if args.thorough() { 6000 } else { 1200 };
    let _ = leg_name(0);
    let nests = nest_matrix(&mut rng, args.thorough(), 60);
    let n_nests = nests.len();
    let mut nests = nests.into_iter();
    let lookalikes = lookalike_programs();
    let n_look = lookalikes.len();
    let mut lookalikes = lookalikes.into_iter();
    let mut fixed: Vec<Vec<S>> = case_list_programs();
    fixed.extend(empty_block_programs());
    let n_fixed = fixed.len();
    let mut fixed = fixed.into_iter();
    for k in 0..(n + n_nests + n_look + n_fixed) {
        let mut indents: Vec<(u32, u32)> = vec![];
        let mut prog = if let Some(p) = fixed.next() {
            sum.count("case_list_and_empty_block_programs");
            p
        } else if let Some((p, ind)) = lookalikes.next() {
            sum.count("lookalike_position_programs");
            indents = ind;
            p
        } else if let Some((_, p)) = nests.next() {
            sum.count("nesting_matrix_programs");
            p
        } else {
            let mut g = Gen { rng: &mut rng, loop_counter: 0 };
            let depth = if args.thorough() { 2 + (k % 2) as u32 } else { 2 };
            let mut p = g.program(depth, if args.thorough() { 5 } else { 4 });
            if k % 3 == 0 {
                add_data_read(&mut p, &mut rng);
                sum.count("programs_with_data_read");
            }
            p
        };
        let src = if indents.is_empty() { print_program(&mut prog) } else { print_program_with_indents(&mut prog, &indents) };
        evaluations += 1;
        let (igr, udts) = match compile_with_types(&src) {
            Ok(x) => x,
            Err(msg) => {
                if msg.starts_with("panic") {
                    sum.violation(ImplViolation { key: "front-end-panic".into(), input: src.clone(), expected: "instructions or an error".into(), observed: msg });
                } else {
                    sum.count("rejected_statically");
                }
                continue;
            }
        };
        let (code, marks) = coq_code(&igr);
        let dims = coq_dims(&igr);
        let n_instr = igr.instructions.len();
        if !code.contains("IOther") {
            // decided without running: the validator accepts the real instruction list
            w.push(Case {
                agree: format!("check_valid {} {} {}", dims, coq_program(&prog), code),
                desc: format!("valid {}", src.replace('\n', " | ")),
                model_expr: format!("check_valid {} {} {}", dims, coq_program(&prog), code),
            });
            sum.count("validated_layouts");
        }
        let r = run_compiled(igr, udts, &RunOpts { budget: 20_000, ..Default::default() });
        match &r.end {
            End::Panic(msg) => {
                sum.violation(ImplViolation { key: "run-panic".into(), input: src.clone(), expected: "normal end or a BASIC error".into(), observed: msg.clone() });
                continue;
            }
            End::Budget => {
                sum.count("budget_exhausted");
                continue;
            }
            _ => {}
        }
        let obs = match coq_obs(&r.end) {
            Some(x) => x,
            None => continue,
        };
        sum.count(match &r.end {
            End::Ok => "ended_normally",
            End::Err(6, ..) => "ended_overflow",
            End::Err(11, ..) => "ended_division_by_zero",
            End::Err(258, ..) => "ended_zero_step",
            _ => "ended_other_error",
        });
        if code.contains("IOther") {
            // an instruction or label the model does not know: the generator leg fails, the
            // semantic leg is still decided
            sum.count("unsupported_instruction");
        }
        let so = r.stdout.iter().map(|b| b.to_string()).collect::<Vec<_>>().join("; ");
        let progc = coq_program(&prog);
        let gl = coq_globals(&r.globals);
        let fuel = r.steps + 50;
        let one_line = src.replace('\n', " | ");
        w.push(Case {
            agree: format!("Nat.eqb (check_sem {} {} {} [{}]%Z {} {}) 0", dims, progc, obs, so, gl, fuel),
            desc: format!("sem {}", one_line),
            model_expr: format!("check_sem {} {} {} [{}]%Z {} {}", dims, progc, obs, so, gl, fuel),
        });
        w.push(Case {
            agree: format!("Nat.eqb (check_c01 {} {} {} {} {} [{}]%Z {} {}) 0", dims, progc, code, marks, obs, so, gl, fuel),
            desc: format!("model {}", one_line),
            model_expr: format!("check_legs {} {} {} {} {} [{}]%Z {} {}", dims, progc, code, marks, obs, so, gl, fuel),
        });
        *sum.histogram.entry("instructions_total".into()).or_insert(0) += n_instr as i128;
        if has_control(&prog) {
            sum.nontrivial(code.clone());
        }
        if sum.samples.len() < 4 && has_control(&prog) {
            sum.sample(J::s(src.clone()));
        }
    }
    w.flush();
    sum.write(
        &args.out,
        evaluations,
        "programs generated from the core grammar by a typed generator (expressions of depth <= 2 over the 13 binary and 2 unary operators, five value types, boundary literals; assignment, PRINT with separators, IF/ELSEIF/ELSE, WHILE, the four DO forms, FOR with positive, negative, absent and run-time computed STEP, SELECT CASE with simple/IS/range/multiple tests; in every third program DATA statements at random top-level places and READ statements anywhere (also in loops and branches) with items of all five types, so that conversions, Type mismatch, Overflow and Out of DATA occur; nesting depth 2 (quick) / 3 (thorough)); plus 36 SELECT CASE programs with two or three tests per CASE (every pair of IS operators, ranges) over selectors around the limits, every construct with each of its blocks empty, 30 programs with two constructs of the same kind at positions whose digits read alike ((1, 11) and (11, 1) ...), plus the nesting matrix: every (outer, middle, inner) triple over five loop kinds with different bounds and steps and five branch positions (THEN, ELSEIF, ELSE, a later CASE, CASE ELSE), the innermost block printing all enclosing counters - all 1000 triples (thorough) / the loop-branch-loop triples and a seeded sample (quick); run-time errors arise from the boundary literals (overflow, division by zero, zero step). For each program: literal comparison of the real instruction list and statement addresses with the Coq generator model; outcome (code, row, col), output bytes and final variables against the Coq VM model and against the big-step reference semantics. Cases whose output contains a number outside the exactly printable domain skip the byte comparison. Non-trivial = at least one control construct; distinct by instruction list.",
    );
}
