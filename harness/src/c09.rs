//! C09 - letter case, spacing, comments and line endings never change a program's meaning.
//! Accepted and rejected programs (generated, one per statement kind with a layout rule of its own, repository programs) x layout transformations (each at random subsets of the eligible
//! sites, and all at once). For every pair (original, transformed): the parse tree must be the same
//! up to positions, the checker's verdict the same, the run-time behaviour the same; and - in Coq -
//! the two texts must be in the same layout class of `Lex.Layout.canon` (for which the invariance
//! under the transformations is proved), which ties the harness's transformations to the model.
use rusty_linter::core::lint;
use rusty_parser::parse_main_str;

use crate::c01::{Gen, print_program};
use crate::c11::coq_chars;
use crate::common::*;
use crate::pgen::{PGen, corpus};
use crate::runner::*;

pub const HEADER9: &str = "From Coq Require Import List Arith Bool NArith.\nFrom RB Require Import Lex.Layout.\nImport ListNotations.\n";

#[derive(Clone, Copy, PartialEq)]
enum M {
    Code,
    Str,
    Comment,
}

/// the mode of every character (the same machine as Layout.canon_go)
fn modes(text: &[char]) -> Vec<M> {
    let mut m = M::Code;
    let mut v = vec![];
    for &c in text {
        if c == '\r' || c == '\n' {
            v.push(M::Code);
            m = M::Code;
            continue;
        }
        v.push(m);
        match m {
            M::Code => {
                if c == '\'' {
                    m = M::Comment;
                    *v.last_mut().unwrap() = M::Comment;
                } else if c == '"' {
                    m = M::Str;
                    *v.last_mut().unwrap() = M::Str;
                }
            }
            M::Str => {
                if c == '"' {
                    m = M::Code;
                }
            }
            M::Comment => {}
        }
    }
    v
}

fn t_case(rng: &mut Rng, text: &str, all: bool) -> String {
    let chars: Vec<char> = text.chars().collect();
    let ms = modes(&chars);
    chars
        .iter()
        .zip(ms.iter())
        .map(|(c, m)| {
            if *m == M::Code && c.is_ascii_alphabetic() && (all || rng.chance(1, 3)) {
                if c.is_ascii_uppercase() { c.to_ascii_lowercase() } else { c.to_ascii_uppercase() }
            } else {
                *c
            }
        })
        .collect()
}

fn t_blanks(rng: &mut Rng, text: &str, all: bool) -> String {
    let chars: Vec<char> = text.chars().collect();
    let ms = modes(&chars);
    let mut out = String::new();
    let mut at_line_start = true;
    let mut prev_mode = M::Code;
    for (c, m) in chars.iter().zip(ms.iter()) {
        if at_line_start && *c != '\n' && *c != '\r' && (all || rng.chance(1, 4)) {
            out.push_str(*rng.pick::<&str>(&[" ", "   ", "\t"]));
        }
        at_line_start = *c == '\n' || *c == '\r';
        // trailing blanks - but not after a comment, whose text they would become part of
        if at_line_start && prev_mode == M::Code && (all || rng.chance(1, 4)) {
            out.push_str(*rng.pick::<&str>(&[" ", "  ", "\t"]));
        }
        prev_mode = *m;
        if *m == M::Code && *c == ' ' && (all || rng.chance(1, 3)) {
            out.push_str(*rng.pick::<&str>(&["  ", "   ", "\t", " \t "]));
        } else {
            out.push(*c);
        }
    }
    out
}

fn t_blank_lines(rng: &mut Rng, text: &str, all: bool) -> String {
    let mut out = String::new();
    for l in text.split_inclusive('\n') {
        if all || rng.chance(1, 4) {
            out.push_str(*rng.pick::<&str>(&["\n", "  \n", "\n\n"]));
        }
        out.push_str(l);
    }
    out
}

fn t_comments(rng: &mut Rng, text: &str, all: bool) -> String {
    let mut out = String::new();
    for l in text.split_inclusive('\n') {
        let body = l.trim_end_matches('\n');
        let up = body.trim_start().to_uppercase();
        let chars: Vec<char> = body.chars().collect();
        let ms = modes(&chars);
        let ends_in_code = ms.last().map(|m| *m == M::Code).unwrap_or(false);
        // DATA lines keep what follows as data; lines ending inside a string or comment are left alone
        if !body.trim().is_empty() && ends_in_code && !up.starts_with("DATA") && (all || rng.chance(1, 3)) {
            out.push_str(body);
            out.push_str(*rng.pick::<&str>(&[" ' note", "' x", "  'REM \"q\""]));
            if l.ends_with('\n') {
                out.push('\n');
            }
        } else {
            out.push_str(l);
        }
    }
    out
}

/// the blank between a parenthesis and the word next to it removed (`TO (5) STEP` -> `TO(5)STEP`):
/// a parenthesis ends a word by itself, so no blank is needed there (not modelled by canon)
fn t_tight(rng: &mut Rng, text: &str, all: bool) -> String {
    let chars: Vec<char> = text.chars().collect();
    let ms = modes(&chars);
    let mut out = String::new();
    for i in 0..chars.len() {
        let c = chars[i];
        if ms[i] == M::Code && c == ' ' && i > 0 && i + 1 < chars.len() && ms[i - 1] == M::Code && ms[i + 1] == M::Code {
            let (a, b) = (chars[i - 1], chars[i + 1]);
            let drop = (a == ')' && b.is_ascii_alphabetic()) || (b == '(' && a.is_ascii_alphabetic() && {
                // only after a keyword: `A (1)` would become the element or call A(1)
                let mut j = i;
                while j > 0 && (chars[j - 1].is_ascii_alphanumeric() || "$%&!#".contains(chars[j - 1])) {
                    j -= 1;
                }
                let word: String = chars[j..i].iter().collect::<String>().to_uppercase();
                ["TO", "STEP", "THEN", "IF", "ELSEIF", "WHILE", "UNTIL", "CASE", "IS", "PRINT", "AND", "OR", "NOT", "MOD"].contains(&word.as_str())
            });
            if drop && (all || rng.chance(1, 2)) {
                continue;
            }
        }
        out.push(c);
    }
    out
}

fn t_eol(text: &str, sep: &str) -> String {
    text.replace("\r\n", "\n").replace('\r', "\n").replace('\n', sep)
}

/// consecutive simple statements joined by a colon (not modelled by canon)
fn t_colon(rng: &mut Rng, text: &str, all: bool) -> String {
    let lines: Vec<&str> = text.lines().collect();
    let simple = |l: &str| {
        let t = l.trim();
        let u = t.to_uppercase();
        !t.is_empty()
            && !t.contains('\'')
            && !t.contains(':')
            && (u.starts_with("PRINT ") || (t.contains(" = ") && !u.starts_with("IF ") && !u.starts_with("FOR ") && !u.starts_with("CONST ") && !u.starts_with("ELSEIF ") && !u.starts_with("WHILE ") && !u.starts_with("LOOP ") && !u.starts_with("DO ") && !u.starts_with("CASE ")))
            && !u.ends_with(';')
            && !u.ends_with(',')
    };
    let mut out = String::new();
    let mut i = 0;
    while i < lines.len() {
        if i + 1 < lines.len() && simple(lines[i]) && simple(lines[i + 1]) && (all || rng.chance(1, 2)) {
            out.push_str(lines[i]);
            out.push_str(" : ");
            out.push_str(lines[i + 1].trim_start());
            out.push('\n');
            i += 2;
        } else {
            out.push_str(lines[i]);
            out.push('\n');
            i += 1;
        }
    }
    out
}

fn strip_positions(dbg: &str) -> String {
    let mut out = String::new();
    let mut rest = dbg;
    while let Some(i) = rest.find("Position { row: ") {
        out.push_str(&rest[..i]);
        out.push('@');
        match rest[i..].find('}') {
            Some(j) => rest = &rest[i + j + 1..],
            None => {
                rest = "";
            }
        }
    }
    out.push_str(rest);
    out
}

/// (parse tree without positions | parse error), (checker verdict class), (run behaviour)
fn observe(text: &str) -> (String, String, String) {
    let t = text.to_string();
    let tree = match guard(move || parse_main_str(t).map(|p| format!("{:?}", p))) {
        Err(m) => format!("panic {}", m.chars().take(60).collect::<String>()),
        Ok(Err(e)) => format!("parse error {:?}", e.element).chars().take(80).collect(),
        Ok(Ok(d)) => strip_positions(&d),
    };
    let t2 = text.to_string();
    let verdict = match guard(move || match parse_main_str(t2) {
        Err(_) => "parse error".to_string(),
        Ok(p) => match lint(p) {
            Ok(_) => "accepted".to_string(),
            Err(e) => format!("lint {:?}", e.element).chars().take(40).collect(),
        },
    }) {
        Ok(v) => v,
        Err(m) => format!("panic {}", m.chars().take(60).collect::<String>()),
    };
    let behaviour = if verdict == "accepted" {
        match run_program(text, &RunOpts { stdin: b"1\n2\nabc\n".to_vec(), budget: 30_000, trace: false }) {
            Outcome::Ran(r) => format!(
                "{}|{}",
                match &r.end {
                    End::Ok => "ok".to_string(),
                    End::Err(c, ..) => format!("error {}", c),
                    End::Panic(m) => format!("panic {}", m.chars().take(40).collect::<String>()),
                    End::Budget => "budget".into(),
                },
                String::from_utf8_lossy(&r.stdout)
            ),
            _ => "not run".into(),
        }
    } else {
        String::new()
    };
    (tree, verdict, behaviour)
}

pub fn run(args: &Args) {
    let mut rng = Rng::new(args.seed);
    let mut sum = Summary::new();
    let mut w = CaseWriter::new(&args.out, "c09", HEADER9, 60);
    let mut evaluations = 0usize;
    let mut programs: Vec<(String, String)> = vec![];
    let n_core = if args.thorough() { 250 } else { 60 };
    for k in 0..n_core {
        let mut g = Gen { rng: &mut rng, loop_counter: 0 };
        let mut prog = g.program(2 + (k % 2) as u32, 3);
        programs.push(("core".into(), print_program(&mut prog)));
    }
    let n_pg = if args.thorough() { 250 } else { 60 };
    for k in 0..n_pg {
        let mut g = PGen::new(&mut rng);
        g.with_errors = k % 3 == 0;
        programs.push(("procedural".into(), g.program(1 + (k % 3) as u32)));
    }
    // identifiers over the whole alphabet: variable, label, SUB, FUNCTION, constant, record member
    for c in b'a'..=b'z' {
        let l = c as char;
        programs.push((
            "alphabet".into(),
            format!(
                "TYPE t{l}t\nm{l}m AS INTEGER\nEND TYPE\nDIM r{l}r AS t{l}t\nCONST k{l}k = 3\nv{l}v = 7\nr{l}r.m{l}m = 2\nPRINT v{l}v; k{l}k; r{l}r.m{l}m; f{l}f(1)\nGOSUB l{l}l\ns{l}s 1\nEND\nl{l}l:\nPRINT \"lab\"\nRETURN\nSUB s{l}s (n)\nPRINT n\nEND SUB\nFUNCTION f{l}f (n)\nf{l}f = n + 1\nEND FUNCTION\n",
                l = l
            ),
        ));
    }
    // one small program per statement kind whose layout has its own parser rule
    for t in [
        "DEFINT A-Z\nDEFSTR S\nx = 1.6\nsv = \"q\"\nPRINT x; sv\n",
        "DEFLNG I-K, M\nDEFDBL D\nDEFSNG A-C\ni = 100000\nd = 0.5\nm = 3\nPRINT i; d; m\n",
        "ON ERROR GOTO h\nN = 0\nX = 1 / N\nPRINT X\nEND\nh:\nN = 2\nRESUME\n",
        "ON ERROR GOTO h\nX = 1 / N\nPRINT 5\nEND\nh:\nPRINT \"e\"\nRESUME NEXT\n",
        "ON ERROR GOTO h\nX = 1 / N\nPRINT 5\nEND\nh:\nRESUME done\ndone:\nPRINT 6\n",
        "ON ERROR RESUME NEXT\nX = 1 / N\nON ERROR GOTO 0\nPRINT 7\n",
        "GOSUB r\nGOSUB r\nEND\nr:\nK = K + 1\nPRINT K\nRETURN\n",
        "FOR I = 1 TO 5\nIF I = 3 THEN EXIT FOR\nPRINT I\nNEXT I\nDO\nJ = J + 1\nIF J > 2 THEN EXIT DO\nLOOP\nPRINT J\n",
        "IF 1 < 2 THEN PRINT 1 ELSE PRINT 2\nIF 2 < 1 THEN PRINT 3 ELSE PRINT 4\n",
        "SELECT CASE 5\nCASE 1, 2\nPRINT 1\nCASE IS > 4\nPRINT 2\nCASE 3 TO 4\nPRINT 3\nCASE ELSE\nPRINT 4\nEND SELECT\n",
        "DIM A(3), B AS INTEGER, C$(2)\nCONST K = 2, L$ = \"q\"\nA(1) = K\nC$(1) = L$\nSWAP A(1), A(2)\nPRINT A(1); A(2); C$(1)\n",
        "DATA 1, \"two\", 3\nREAD A, B$, C\nPRINT A; B$; C\nRESTORE\nREAD D\nPRINT D\n",
        "TYPE P\nX AS INTEGER\nN AS STRING * 3\nEND TYPE\nDIM Q AS P\nQ.X = 4\nQ.N = \"ab\"\nPRINT Q.X; \"[\"; Q.N; \"]\"\n",
        "DECLARE SUB S (A, B$)\nDECLARE FUNCTION F% (A%)\nS 1, \"x\"\nCALL S(2, \"y\")\nPRINT F%(3)\nEND\nSUB S (A, B$)\nPRINT A; B$\nEND SUB\nFUNCTION F% (A%)\nF% = A% * 2\nEND FUNCTION\n",
        "SUB T STATIC\nN = N + 1\nPRINT N\nEND SUB\nT\nT\n",
        "PRINT USING \"##.#\"; 2.5\nPRINT 1, 2; 3\nPRINT\nLPRINT 4\n",
        "WHILE W < 2\nW = W + 1\nWEND\nDO WHILE V < 2\nV = V + 1\nLOOP\nDO\nU = U + 1\nLOOP UNTIL U >= 2\nPRINT W; V; U\n",
        "X = -1\nY = NOT X\nZ = (X + 2) * -3\nPRINT X; Y; Z; 7 MOD 3; 2 ^ 0 + 1\n",
        "FOR I = 1 TO (5) STEP 2\nPRINT I\nNEXT\nFOR J = (1) TO 3 STEP (1)\nPRINT J\nNEXT\nFOR K = (2) TO (4)\nPRINT K\nNEXT\n",
        "A = 2\nIF (A > 1) THEN PRINT 1\nIF ((A > 1) AND (A < 3)) THEN\nPRINT 2\nELSEIF (A) THEN\nPRINT 3\nEND IF\nWHILE (A < 4)\nA = A + 1\nWEND\nDO UNTIL (A > 5)\nA = A + 1\nLOOP\nPRINT (A) MOD (4); NOT (A)\nSELECT CASE (A)\nCASE (6)\nPRINT 6\nCASE IS > (7)\nPRINT 7\nEND SELECT\n",
    ] {
        programs.push(("statement-kinds".into(), t.to_string()));
    }
    // rejected programs: one ill-formed line injected
    let n_rej = if args.thorough() { 120 } else { 40 };
    for k in 0..n_rej {
        let g = PGen::new(&mut rng);
        let src = g.program(1);
        let mut ls: Vec<String> = src.lines().map(|x| x.to_string()).collect();
        let bad = *rng.pick(&["A% = \"x\"", "GOTO Nowhere", "PRINT )", "NEXT", "P1 1, 2, 3, 4", "X = = 1"]);
        let at = 2 + (k % 3);
        ls.insert(at.min(ls.len()), bad.to_string());
        programs.push(("rejected".into(), ls.join("\n") + "\n"));
    }
    for (origin, text) in corpus() {
        let up = text.to_uppercase();
        // unquoted DATA is case sensitive data; programs using files depend on more than their text
        if text.len() < 1500 && !up.contains("DATA") && !up.contains("OPEN ") && !up.contains("INPUT") && !up.contains("KILL") && !up.contains("NAME ") && !up.contains("ENVIRON") {
            programs.push((format!("corpus:{}", origin.replace("/repo/", "")), text));
        }
    }
    let max_corpus = if args.thorough() { 200 } else { 60 };
    let mut corpus_used = 0;
    for (class, src) in programs.iter() {
        if class.starts_with("corpus") {
            corpus_used += 1;
            if corpus_used > max_corpus {
                continue;
            }
        }
        let base = observe(src);
        if base.0.starts_with("panic") || base.1.starts_with("panic") {
            continue; // C07's business
        }
        sum.count(&format!("class_{}", class.split(':').next().unwrap()));
        sum.count(if base.1 == "accepted" { "accepted_programs" } else { "rejected_programs" });
        let variants: Vec<(&str, String, bool)> = vec![
            ("case", t_case(&mut rng, src, false), true),
            ("case-all", t_case(&mut rng, src, true), true),
            ("blanks", t_blanks(&mut rng, src, false), true),
            ("blank-lines", t_blank_lines(&mut rng, src, false), true),
            ("comments", t_comments(&mut rng, src, false), true),
            ("eol-crlf", t_eol(src, "\r\n"), true),
            ("eol-cr", t_eol(src, "\r"), true),
            ("colon", t_colon(&mut rng, src, false), false),
            // only on the hand-written programs, where every operand next to a keyword is a parenthesised
            // expression as a whole (the parser asks for a blank after an operand that merely ends in one)
            ("tight", if class.starts_with("statement-kinds") { t_tight(&mut rng, src, true) } else { src.clone() }, false),
            ("all", {
                let a = t_comments(&mut rng, src, true);
                let b = t_blank_lines(&mut rng, &a, true);
                let c = t_blanks(&mut rng, &b, true);
                let d = t_case(&mut rng, &c, false);
                t_eol(&d, *rng.pick(&["\r\n", "\r", "\n"]))
            }, true),
        ];
        for (name, v, in_model) in variants {
            if v == *src {
                continue;
            }
            evaluations += 1;
            sum.count(&format!("transformation_{}", name));
            let o = observe(&v);
            let shown = format!("[{}] {} ==> {}", name, src.replace('\r', "\\r").replace('\n', "\\n"), v.replace('\r', "\\r").replace('\n', "\\n"));
            let shown: String = shown.chars().take(1500).collect();
            // comments are part of the tree (Statement::Comment); compare trees only when no comment was added
            let compare_tree = name != "comments" && name != "all";
            // letter case of identifiers is kept in the tree; compare it case-insensitively
            if compare_tree && o.0.to_uppercase() != base.0.to_uppercase() {
                sum.violation(ImplViolation { key: format!("parse-tree-differs:{}", name), input: shown.clone(), expected: "the same tree up to positions".into(), observed: first_difference(&base.0.to_uppercase(), &o.0.to_uppercase()) });
            }
            if o.1 != base.1 {
                sum.violation(ImplViolation { key: format!("verdict-differs:{}", name), input: shown.clone(), expected: base.1.clone(), observed: o.1.clone() });
            } else if o.2 != base.2 {
                sum.violation(ImplViolation { key: format!("behaviour-differs:{}", name), input: shown.clone(), expected: base.2.chars().take(200).collect(), observed: o.2.chars().take(200).collect() });
            }
            if in_model && src.chars().count() <= 700 {
                w.push(Case {
                    agree: format!("same_layout_class {} {}", coq_chars(src), coq_chars(&v)),
                    desc: format!("layout {}", shown.chars().take(400).collect::<String>()),
                    model_expr: format!("(canon {}, canon {})", coq_chars(src), coq_chars(&v)),
                });
            }
            sum.nontrivial(v);
        }
        if sum.samples.len() < 2 {
            sum.sample(J::s(src.clone()));
        }
    }
    w.flush();
    sum.write(
        &args.out,
        evaluations,
        "programs: generated core programs, generated procedural programs, programs made ill-formed by one injected line (rejected ones), repository programs without DATA / files / INPUT. Transformations: letter case of keywords and identifiers outside strings and comments (random third of the letters; all letters), blanks and tabs (runs where one blank stands, indentation, trailing blanks), blank lines, trailing comments, CRLF, CR, consecutive simple statements joined by a colon, and all of them together. For each pair: parse tree up to positions (case-insensitively; skipped when comments were added, which are tree nodes), checker verdict, run behaviour; and in Coq: Layout.same_layout_class (all transformations except the colon one). Non-trivial = distinct transformed texts.",
    );
}

fn first_difference(a: &str, b: &str) -> String {
    let ac: Vec<char> = a.chars().collect();
    let bc: Vec<char> = b.chars().collect();
    let mut i = 0;
    while i < ac.len() && i < bc.len() && ac[i] == bc[i] {
        i += 1;
    }
    let lo = i.saturating_sub(40);
    format!("at {}: ...{} | ...{}", i, ac[lo..(i + 60).min(ac.len())].iter().collect::<String>(), bc[lo..(i + 60).min(bc.len())].iter().collect::<String>())
}
