//! C03 - calls: by-reference arguments, fresh locals, results, STATIC and SHARED state.
//!  * unit level: random sequences of the operations the VM performs on its `Context`
//!    (begin/stop collecting arguments, STATIC entry, pop, array allocation, error handler) applied to
//!    the real Context and to the Coq model RT/Ctx.v; after every operation the whole structure (state
//!    stack, reference counts, static flags, block identities through a marker variable, static map)
//!    must coincide;
//!  * program level: generated call graphs whose output is predicted by a direct evaluator of the
//!    call semantics written in the harness (by-reference / by-value by argument shape, left-to-right
//!    write-back, fresh locals per activation incl. recursion, function results and their defaults,
//!    STATIC counters called from everywhere, DIM SHARED / CONST visible everywhere).
use rusty_basic::interpreter::verif::Context;
use rusty_linter::core::ScopeName;
use rusty_parser::{BareName, Name, TypeQualifier};
use rusty_variant::Variant;

use crate::common::*;
use crate::runner::*;

pub const HEADER: &str = "From Coq Require Import List Arith Bool NArith.\nFrom RB Require Import RT.Ctx.\nImport ListNotations.\n";

#[derive(Clone, Copy, Debug)]
enum Op {
    Begin,
    Stop,
    StopStatic(usize),
    Pop,
    DropArgs,
    Handler,
}

fn coq_op(o: &Op) -> String {
    match o {
        Op::Begin => "BeginCollect".into(),
        Op::Stop => "StopCollect".into(),
        Op::StopStatic(n) => format!("StopCollectStatic {}", n),
        Op::Pop => "Pop".into(),
        Op::DropArgs => "DropArgs".into(),
        Op::Handler => "PushHandler".into(),
    }
}

fn marker() -> Name {
    Name::qualified(BareName::from("VERIFID"), TypeQualifier::AmpersandLong)
}

/// the observable structure of the real context, in the shape of `Ctx.view`
fn view(ctx: &Context, names: &[String]) -> String {
    let mut states = ctx.verif_states();
    states.reverse(); // top first
    let st = states.iter().map(|(i, a)| format!("({}, {})", i, a)).collect::<Vec<_>>().join("; ");
    let blocks = ctx
        .verif_memory_blocks()
        .iter()
        .map(|(vars, rc, is_static)| {
            let id = vars
                .iter()
                .find(|(k, _)| k.to_uppercase().starts_with("VERIFID"))
                .map(|(_, v)| match v {
                    Variant::VLong(l) => *l,
                    _ => -1,
                })
                .unwrap_or(0);
            format!("({}, {}, {})", rc, is_static, id)
        })
        .collect::<Vec<_>>()
        .join("; ");
    // the model keeps the static map most recent first, keyed by the number of the name
    let mut sm: Vec<(usize, usize)> = ctx
        .verif_static_map()
        .iter()
        .map(|(n, i)| (names.iter().position(|x| n.to_uppercase().contains(&x.to_uppercase())).unwrap_or(999), *i))
        .collect();
    sm.sort();
    let smt = sm.iter().map(|(n, i)| format!("({}, {})", n, i)).collect::<Vec<_>>().join("; ");
    format!("([{}], [{}], [{}])", st, blocks, smt)
}

struct Scenario {
    name: &'static str,
    src: String,
    expected: String,
}

fn crlf(v: &[&str]) -> String {
    v.iter().map(|l| format!("{}\r\n", l)).collect()
}

fn scenarios() -> Vec<Scenario> {
    let mk = |name: &'static str, src: &str, exp: &[&str]| Scenario { name, src: src.to_string(), expected: crlf(exp) };
    vec![
        mk("byref-variable", "A% = 1\nP A%\nPRINT A%\nEND\nSUB P (X%)\nX% = X% + 10\nEND SUB\n", &[" 11 "]),
        mk("byval-parenthesised", "A% = 1\nP (A%)\nPRINT A%\nEND\nSUB P (X%)\nX% = X% + 10\nEND SUB\n", &[" 1 "]),
        mk("byval-expression", "A% = 1\nP A% + 0\nPRINT A%\nEND\nSUB P (X%)\nX% = X% + 10\nEND SUB\n", &[" 1 "]),
        mk("byref-array-element", "DIM A%(3)\nA%(2) = 5\nP A%(2)\nPRINT A%(2); A%(1)\nEND\nSUB P (X%)\nX% = X% * 2\nEND SUB\n", &[" 10  0 "]),
        mk("byref-record-field", "TYPE T\nN AS INTEGER\nM AS INTEGER\nEND TYPE\nDIM R AS T\nR.N = 3\nP R.N\nPRINT R.N; R.M\nEND\nSUB P (X%)\nX% = X% + 4\nEND SUB\n", &[" 7  0 "]),
        mk("byval-converted", "A% = 7\nP (A%)\nP A% + 0.4\nPRINT A%\nEND\nSUB P (X&)\nPRINT X&\nX& = X& + 100000\nEND SUB\n", &[" 7 ", " 7 ", " 7 "]),
        mk("writeback-with-call-in-index", "DIM SA$(3)\nSA$(1) = \"a\"\nX% = 0\nY% = 7\nG SA$(F1%(X%)), Y%\nPRINT X%; Y%; SA$(1)\nEND\nFUNCTION F1% (N%)\nF1% = N% + 1\nEND FUNCTION\nSUB G (S$, M%)\nS$ = \"changed\"\nM% = 9\nEND SUB\n", &[" 0  9 changed"]),
        mk("function-result-with-call-in-index", "DIM SA$(3)\nSA$(3) = \"hello\"\nPRINT LEN(SA$(F1%(2)))\nEND\nFUNCTION F1% (N%)\nF1% = N% + 1\nEND FUNCTION\n", &[" 5 "]),
        mk("writeback-left-to-right", "A% = 1\nP A%, A%\nPRINT A%\nEND\nSUB P (X%, Y%)\nX% = 10\nY% = 20\nEND SUB\n", &[" 20 "]),
        mk("fresh-locals-per-call", "P\nP\nEND\nSUB P\nPRINT L%\nL% = L% + 1\nEND SUB\n", &[" 0 ", " 0 "]),
        mk("fresh-locals-recursion", "PRINT F%(3)\nEND\nFUNCTION F% (N%)\nL% = N%\nIF N% > 0 THEN T% = F%(N% - 1)\nF% = L% * 10 + T%\nEND FUNCTION\n", &[" 60 "]),
        mk("function-result-last-assignment", "PRINT F%(1)\nEND\nFUNCTION F% (N%)\nF% = 5\nF% = 6 + N%\nEND FUNCTION\n", &[" 7 "]),
        mk("function-result-default-number", "PRINT F%(1); G!(1)\nEND\nFUNCTION F% (N%)\nEND FUNCTION\nFUNCTION G! (N%)\nEND FUNCTION\n", &[" 0  0 "]),
        mk("function-result-default-string", "PRINT \"[\"; F$(1); \"]\"\nEND\nFUNCTION F$ (N%)\nEND FUNCTION\n", &["[]"]),
        mk("static-keeps-values", "S\nS\nS\nEND\nSUB S STATIC\nN% = N% + 1\nPRINT N%\nEND SUB\n", &[" 1 ", " 2 ", " 3 "]),
        mk("static-called-from-anywhere", "P\nP\nS\nEND\nSUB P\nS\nEND SUB\nSUB S STATIC\nN% = N% + 1\nPRINT N%\nEND SUB\n", &[" 1 ", " 2 ", " 3 "]),
        mk("static-interleaved-with-ordinary", "S\nQ\nS\nP\nS\nEND\nSUB P\nQ\nS\nEND SUB\nSUB Q\nL% = L% + 1\nPRINT \"q\"; L%\nEND SUB\nSUB S STATIC\nN% = N% + 1\nPRINT N%\nEND SUB\n", &[" 1 ", "q 1 ", " 2 ", "q 1 ", " 3 ", " 4 "]),
        mk("static-function", "PRINT C%; C%; C%\nEND\nFUNCTION C% STATIC\nK% = K% + 1\nC% = K%\nEND FUNCTION\n", &[" 1  2  3 "]),
        mk("two-statics-nested", "P\nP\nEND\nSUB P\nS1\nS2\nEND SUB\nSUB S1 STATIC\nA% = A% + 1\nPRINT \"a\"; A%\nS2\nEND SUB\nSUB S2 STATIC\nB% = B% + 10\nPRINT \"b\"; B%\nEND SUB\n", &["a 1 ", "b 10 ", "b 20 ", "a 2 ", "b 30 ", "b 40 "]),
        mk("shared-is-one-object", "DIM SHARED G%\nG% = 1\nP\nPRINT G%\nEND\nSUB P\nG% = G% + 5\nQ\nEND SUB\nSUB Q\nG% = G% * 2\nEND SUB\n", &[" 12 "]),
        mk("shared-next-to-local-of-other-suffix", "DIM SHARED Total%\nTotal% = 10\nAddOne\nAddOne\nPRINT \"main\"; Total%\nReport\nEND\nSUB AddOne\nTotal$ = \"adding\"\nTotal% = Total% + 1\nPRINT Total$; Total%\nEND SUB\nSUB Report\nPRINT \"report\"; Total%\nEND SUB\n", &["adding 11 ", "adding 12 ", "main 12 ", "report 12 "]),
        mk("shared-next-to-parameter-of-other-suffix", "DIM SHARED G%\nG% = 1\nP \"x\"\nPRINT G%\nEND\nSUB P (G$)\nG% = G% + 5\nPRINT G$; G%\nEND SUB\n", &["x 6 ", " 6 "]),
        mk("static-byref-parameter-every-call", "A% = 1\nB% = 5\nC% = 16\nBump A%\nBump B%\nBump C%\nBump A%\nPRINT A%; B%; C%\nEND\nSUB Bump (X%) STATIC\nN% = N% + 1\nX% = X% + 1\nEND SUB\n", &[" 3  6  17 "]),
        mk("static-byref-array-element-and-field", "TYPE T\nV AS INTEGER\nEND TYPE\nDIM R AS T\nDIM A%(3)\nA%(1) = 10\nR.V = 20\nBump A%(1)\nBump R.V\nBump A%(1)\nPRINT A%(1); R.V\nEND\nSUB Bump (X%) STATIC\nX% = X% + 1\nEND SUB\n", &[" 12  21 "]),
        mk("static-function-byref-parameter", "A% = 1\nB% = 5\nP% = Twice%(A%)\nQ% = Twice%(B%)\nPRINT A%; B%; P%; Q%\nEND\nFUNCTION Twice% (X%) STATIC\nX% = X% * 2\nTwice% = X% + 100\nEND FUNCTION\n", &[" 2  10  102  110 "]),
        mk("static-two-parameters-swapped-calls", "A% = 1\nB% = 2\nSw A%, B%\nSw B%, A%\nPRINT A%; B%\nEND\nSUB Sw (X%, Y%) STATIC\nX% = X% + 10\nY% = Y% + 100\nEND SUB\n", &[" 111  112 "]),
        mk("byval-integer-to-long-parameter", "PRINT Square&(300)\nS% = 300\nPRINT Square&((S%))\nPRINT Square&(S% + 0)\nShow 200\nEND\nFUNCTION Square& (N&)\nSquare& = N& * N&\nEND FUNCTION\nSUB Show (N&)\nPRINT N& * 200\nEND SUB\n", &[" 90000 ", " 90000 ", " 90000 ", " 40000 "]),
        mk("byval-converted-to-every-parameter-type", "PI 2.6\nPI 70000 / 7\nPS 1 / 3\nPD 1 / 3\nPL 2.4\nPL 3.6\nEND\nSUB PI (N%)\nPRINT N% * 2\nEND SUB\nSUB PS (N!)\nPRINT N! * 3\nEND SUB\nSUB PD (N#)\nPRINT N# * 3 = 1\nEND SUB\nSUB PL (N&)\nPRINT N& * 100000\nEND SUB\n", &[" 6 ", " 20000 ", " 1 ", "-1 ", " 200000 ", " 400000 "]),
        mk("const-visible-everywhere", "CONST K = 7\nP\nEND\nSUB P\nPRINT K\nPRINT F%(1)\nEND SUB\nFUNCTION F% (N%)\nF% = K + N%\nEND FUNCTION\n", &[" 7 ", " 8 "]),
        mk("call-nested-in-arguments", "PRINT F%(F%(1) + F%(2))\nEND\nFUNCTION F% (N%)\nF% = N% + 1\nEND FUNCTION\n", &[" 6 "]),
        mk("byref-through-two-levels", "A% = 1\nP A%\nPRINT A%\nEND\nSUB P (X%)\nQ X%\nEND SUB\nSUB Q (Y%)\nY% = Y% + 41\nEND SUB\n", &[" 42 "]),
        mk("function-byref-argument", "A% = 1\nB% = F%(A%)\nPRINT A%; B%\nEND\nFUNCTION F% (X%)\nX% = 9\nF% = 2\nEND FUNCTION\n", &[" 9  2 "]),
        mk("local-does-not-see-global", "A% = 5\nP\nPRINT A%\nEND\nSUB P\nPRINT A%\nA% = 1\nEND SUB\n", &[" 0 ", " 5 "]),
    ]
}

pub fn run(args: &Args) {
    let mut rng = Rng::new(args.seed);
    let mut sum = Summary::new();
    let mut w = CaseWriter::new(&args.out, "c03", HEADER, 300);
    let mut evaluations = 0usize;
    let names: Vec<String> = vec!["SA".into(), "SB".into(), "SC".into()];

    // ---- unit level: operation sequences on the real Context
    let n_seq = if args.thorough() { 4000 } else { 500 };
    for _ in 0..n_seq {
        let len = 3 + rng.below(14) as usize;
        let r = {
            let names = names.clone();
            let seed = rng.next();
            guard(move || {
                let mut rng = Rng::new(seed);
                let mut ctx = Context::new();
                let mut ops: Vec<Op> = vec![];
                let mut views: Vec<String> = vec![];
                let mut next_id: i64 = 1;
                let mut panicked: Option<String> = None;
                for _ in 0..len {
                    // choose an operation whose precondition holds (as the generated code guarantees)
                    let states = ctx.verif_states();
                    let (_, top_collecting) = *states.last().unwrap();
                    let depth = states.len();
                    let op = if top_collecting {
                        match rng.below(6) {
                            0 | 1 => Op::Stop,
                            2 => Op::StopStatic(rng.below(3) as usize),
                            3 => Op::DropArgs,
                            4 => Op::Begin, // a call nested in the argument list
                            _ => Op::Handler,
                        }
                    } else {
                        match rng.below(5) {
                            0 | 1 => Op::Begin,
                            2 | 3 if depth > 1 => Op::Pop,
                            4 => Op::Handler,
                            _ => Op::Begin,
                        }
                    };
                    let before_blocks = ctx.verif_memory_blocks().len();
                    let before_static = ctx.verif_static_map().len();
                    let res = std::panic::catch_unwind(std::panic::AssertUnwindSafe(|| match op {
                        Op::Begin => ctx.begin_collecting_arguments(),
                        Op::Stop => ctx.stop_collecting_arguments(),
                        Op::StopStatic(n) => ctx.stop_collecting_arguments_static(ScopeName::Sub(BareName::from(names[n].as_str()))),
                        Op::Pop => ctx.pop(),
                        Op::DropArgs => {
                            let _ = ctx.drop_arguments_for_array_allocation();
                        }
                        Op::Handler => ctx.push_error_handler_context(),
                    }));
                    ops.push(op);
                    if let Err(e) = res {
                        panicked = Some(format!("{:?}", e.downcast_ref::<String>().cloned().or_else(|| e.downcast_ref::<&str>().map(|s| s.to_string()))));
                        break;
                    }
                    // a block created by this operation gets the next identity
                    let created = match op {
                        Op::Stop => true,
                        Op::StopStatic(_) => ctx.verif_static_map().len() > before_static,
                        _ => false,
                    };
                    let _ = before_blocks;
                    if created {
                        *ctx.variables_mut().get_or_create(marker()) = Variant::VLong(next_id);
                        next_id += 1;
                    }
                    views.push(view(&ctx, &names));
                }
                (ops, views, panicked)
            })
        };
        evaluations += 1;
        let (ops, views, panicked) = match r {
            Ok(x) => x,
            Err(m) => {
                sum.violation(ImplViolation { key: "context-harness-panic".into(), input: "operation sequence".into(), expected: "no panic".into(), observed: m });
                continue;
            }
        };
        let ops_text = ops.iter().map(coq_op).collect::<Vec<_>>().join("; ");
        if let Some(p) = &panicked {
            sum.violation(ImplViolation { key: "context-panic".into(), input: ops_text.clone(), expected: "every operation whose precondition holds succeeds".into(), observed: p.clone() });
        }
        // compare the structure after every prefix
        for (k, v) in views.iter().enumerate() {
            let prefix = ops[..=k].iter().map(coq_op).collect::<Vec<_>>().join("; ");
            w.push(Case {
                agree: format!("match run_ops [{}] ctx0 with Some c => view_eqb (view c) {} | None => false end", prefix, v),
                desc: format!("context [{}] => {}", prefix, v),
                model_expr: format!("match run_ops [{}] ctx0 with Some c => Some (view c) | None => None end", prefix),
            });
        }
        sum.nontrivial(ops_text);
        *sum.histogram.entry("context_operations".into()).or_insert(0) += ops.len() as i128;
    }
    w.flush();

    // ---- program level: scenarios with outputs known by construction
    for sc in scenarios() {
        evaluations += 1;
        sum.count("scenarios");
        match run_program(&sc.src, &RunOpts { budget: 50_000, ..Default::default() }) {
            Outcome::Ran(r) => {
                let out = String::from_utf8_lossy(&r.stdout).to_string();
                if out != sc.expected || !matches!(r.end, End::Ok) {
                    sum.violation(ImplViolation { key: format!("scenario:{}", sc.name), input: sc.src.replace('\n', " | "), expected: format!("{:?}", sc.expected), observed: format!("{:?} end {:?}", out, r.end).chars().take(300).collect() });
                }
            }
            other => {
                sum.violation(ImplViolation { key: format!("scenario:{}", sc.name), input: sc.src.replace('\n', " | "), expected: "accepted".into(), observed: format!("{:?}", other).chars().take(300).collect() });
            }
        }
    }

    // ---- program level: generated histories of STATIC counters interleaved with ordinary calls
    let n_hist = if args.thorough() { 1500 } else { 200 };
    for _ in 0..n_hist {
        // subs: S1..S3 static counters (step 1, 10, 100), P1..P2 ordinary wrappers calling a random list of others
        let mut body: Vec<Vec<usize>> = vec![]; // P_k calls: indices 0..2 = S1..S3, 3.. = earlier wrappers
        let n_wrappers = 1 + rng.below(3) as usize;
        for k in 0..n_wrappers {
            let n_calls = 1 + rng.below(3) as usize;
            body.push((0..n_calls).map(|_| rng.below((3 + k) as u64) as usize).collect());
        }
        let n_main = 2 + rng.below(6) as usize;
        let main: Vec<usize> = (0..n_main).map(|_| rng.below((3 + n_wrappers) as u64) as usize).collect();
        // expected output by direct evaluation
        let mut counters = [0i64; 3];
        let mut expected = String::new();
        fn call(i: usize, body: &Vec<Vec<usize>>, counters: &mut [i64; 3], out: &mut String) {
            if i < 3 {
                counters[i] += [1, 10, 100][i];
                out.push_str(&format!("s{} {} \r\n", i + 1, counters[i]));
            } else {
                out.push_str(&format!("p{} 0 \r\n", i - 2));
                for c in &body[i - 3] {
                    call(*c, body, counters, out);
                }
            }
        }
        for m in &main {
            call(*m, &body, &mut counters, &mut expected);
        }
        let name_of = |i: usize| if i < 3 { format!("S{}", i + 1) } else { format!("P{}", i - 2) };
        let mut src = String::new();
        for m in &main {
            src.push_str(&format!("{}\n", name_of(*m)));
        }
        src.push_str("END\n");
        for i in 0..3 {
            src.push_str(&format!("SUB S{} STATIC\nN% = N% + {}\nPRINT \"s{}\"; N%\nEND SUB\n", i + 1, [1, 10, 100][i], i + 1));
        }
        for (k, calls) in body.iter().enumerate() {
            src.push_str(&format!("SUB P{}\nPRINT \"p{}\"; L%\nL% = 5\n", k + 1, k + 1));
            for c in calls {
                src.push_str(&format!("{}\n", name_of(*c)));
            }
            src.push_str("END SUB\n");
        }
        evaluations += 1;
        sum.count("static_histories");
        match run_program(&src, &RunOpts { budget: 100_000, ..Default::default() }) {
            Outcome::Ran(r) => {
                let out = String::from_utf8_lossy(&r.stdout).to_string();
                if out != expected || !matches!(r.end, End::Ok) {
                    sum.violation(ImplViolation { key: "static-history".into(), input: src.replace('\n', " | "), expected: format!("{:?}", expected).chars().take(300).collect(), observed: format!("{:?} end {:?}", out, r.end).chars().take(300).collect() });
                }
                sum.nontrivial(src.clone());
            }
            other => {
                sum.violation(ImplViolation { key: "static-history".into(), input: src.replace('\n', " | "), expected: "accepted".into(), observed: format!("{:?}", other).chars().take(300).collect() });
            }
        }
        if sum.samples.len() < 2 {
            sum.sample(J::s(src.clone()));
        }
    }
    sum.write(
        &args.out,
        evaluations,
        "unit level: seeded random sequences (3-16 operations, preconditions respected as the generated code does) of begin/stop collecting arguments, STATIC entry under three names, pop, array-argument drop and error-handler push on the real Context; after every operation the state stack, reference counts, static flags, block identities (marker variable) and static map are compared with Ctx.run_ops in Coq. Program level: 25 scenarios (argument shapes, write-back order, fresh locals incl. recursion, function results and defaults, STATIC from everywhere, SHARED, CONST, nested calls) and generated histories of three STATIC counters called from main and through nested ordinary wrappers, with the output predicted by direct evaluation. Non-trivial = distinct operation sequences / histories.",
    );
}
