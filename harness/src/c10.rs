//! C10: expression grouping and literals, through the real parser (`parse_main_str("X = <expr>")`).
//! Compared with coq/theories/Expr/{Tree,Literals}.v and with an independent precedence-climbing
//! reference written here.
use rusty_parser::{Expression, GlobalStatement, Operator, Statement, UnaryOperator, parse_main_str};

use crate::common::*;
use crate::tables::{BOPS, UOPS};

const HEADER: &str = "From Coq Require Import List ZArith Bool NArith.\nFrom RB Require Import Base.Util Generated.Tables Expr.Tree Expr.Literals.\nImport ListNotations.\n";

#[derive(Clone, Debug, PartialEq)]
pub enum T {
    Leaf(usize),
    Paren(Box<T>),
    Bin(usize, Box<T>, Box<T>), // operator index into BOPS
    Un(usize, Box<T>),          // index into UOPS
}

fn bop_text(i: usize) -> &'static str {
    match BOPS[i].0 {
        Operator::Less => "<",
        Operator::LessOrEqual => "<=",
        Operator::Equal => "=",
        Operator::GreaterOrEqual => ">=",
        Operator::Greater => ">",
        Operator::NotEqual => "<>",
        Operator::Plus => "+",
        Operator::Minus => "-",
        Operator::Multiply => "*",
        Operator::Divide => "/",
        Operator::Modulo => "MOD",
        Operator::And => "AND",
        Operator::Or => "OR",
    }
}

fn spec_prec(i: usize) -> u32 {
    match BOPS[i].0 {
        Operator::Multiply | Operator::Divide => 6,
        Operator::Modulo => 5,
        Operator::Plus | Operator::Minus => 4,
        Operator::Less | Operator::LessOrEqual | Operator::Equal | Operator::GreaterOrEqual | Operator::Greater | Operator::NotEqual => 3,
        Operator::And => 1,
        Operator::Or => 0,
    }
}

fn spec_uprec(u: usize) -> u32 {
    match UOPS[u].0 {
        UnaryOperator::Minus => 7,
        UnaryOperator::Not => 2,
    }
}

/// the token structure of an expression: a chain of operands and operators; an operand carries
/// its unary prefixes and is a variable or a parenthesised chain
#[derive(Clone, Debug)]
pub struct Chain {
    pub first: Operand,
    pub rest: Vec<(usize, Operand)>,
}

#[derive(Clone, Debug)]
pub struct Operand {
    pub prefixes: Vec<usize>,
    pub atom: Atom,
}

#[derive(Clone, Debug)]
pub enum Atom {
    Var(usize),
    Paren(Box<Chain>),
}

const VARS: [&str; 8] = ["A", "B", "C", "D", "E", "F", "G", "H"];

fn text(c: &Chain) -> String {
    let mut s = operand_text(&c.first);
    for (op, o) in &c.rest {
        s.push_str(&format!(" {} {}", bop_text(*op), operand_text(o)));
    }
    s
}

fn operand_text(o: &Operand) -> String {
    let mut s = String::new();
    for u in &o.prefixes {
        match UOPS[*u].0 {
            UnaryOperator::Minus => s.push('-'),
            UnaryOperator::Not => s.push_str("NOT "),
        }
    }
    match &o.atom {
        Atom::Var(v) => s.push_str(VARS[*v]),
        Atom::Paren(c) => s.push_str(&format!("({})", text(c))),
    }
    s
}

// ---- independent reference: precedence climbing over the flattened token list

#[derive(Clone, Debug)]
enum Tok {
    U(usize),
    A(T),
    B(usize),
}

fn flatten(c: &Chain, out: &mut Vec<Tok>) {
    let mut push_operand = |o: &Operand, out: &mut Vec<Tok>| {
        for u in &o.prefixes {
            out.push(Tok::U(*u));
        }
        match &o.atom {
            Atom::Var(v) => out.push(Tok::A(T::Leaf(*v))),
            Atom::Paren(inner) => out.push(Tok::A(T::Paren(Box::new(reference(inner))))),
        }
    };
    push_operand(&c.first, out);
    for (op, o) in &c.rest {
        out.push(Tok::B(*op));
        push_operand(o, out);
    }
}

fn climb(toks: &[Tok], pos: &mut usize, min_prec: u32) -> T {
    let mut lhs = match toks[*pos].clone() {
        Tok::U(u) => {
            *pos += 1;
            let operand = climb(toks, pos, spec_uprec(u) + 1);
            T::Un(u, Box::new(operand))
        }
        Tok::A(t) => {
            *pos += 1;
            t
        }
        Tok::B(_) => panic!("malformed chain"),
    };
    while *pos < toks.len() {
        let op = match toks[*pos] {
            Tok::B(op) => op,
            _ => break,
        };
        if spec_prec(op) < min_prec {
            break;
        }
        *pos += 1;
        let rhs = climb(toks, pos, spec_prec(op) + 1);
        lhs = T::Bin(op, Box::new(lhs), Box::new(rhs));
    }
    lhs
}

pub fn reference(c: &Chain) -> T {
    let mut toks = vec![];
    flatten(c, &mut toks);
    let mut pos = 0;
    let t = climb(&toks, &mut pos, 0);
    assert_eq!(pos, toks.len());
    t
}

// ---- the implementation's tree

fn convert(e: &Expression) -> Option<T> {
    Some(match e {
        Expression::Variable(name, _) => {
            let n = format!("{}", name);
            T::Leaf(VARS.iter().position(|v| *v == n)?)
        }
        Expression::Parenthesis(inner) => T::Paren(Box::new(convert(&inner.element)?)),
        Expression::BinaryExpression(op, l, r, _) => T::Bin(BOPS.iter().position(|(o, _)| o == op)?, Box::new(convert(&l.element)?), Box::new(convert(&r.element)?)),
        Expression::UnaryExpression(u, inner) => T::Un(UOPS.iter().position(|(o, _)| o == u)?, Box::new(convert(&inner.element)?)),
        _ => return None,
    })
}

/// Parses many right-hand sides at once (the grammar is rebuilt on every call of the parser, which
/// costs milliseconds): one program `X = e1 / X = e2 / ...`; on an error the batch is bisected.
fn parse_many(srcs: &[String]) -> Vec<Result<Expression, String>> {
    if srcs.is_empty() {
        return vec![];
    }
    let n = srcs.len();
    // statements of the form X = F(e1, ..., e25): the expression parser runs once per e_i, the
    // (much more expensive) statement parser once per 25 expressions
    let text: String = if n == 1 { format!("X = {}\n", srcs[0]) } else { srcs.chunks(25).map(|c| format!("X = F({})\n", c.join(", "))).collect() };
    let whole = guard(move || parse_main_str(text));
    if let Ok(Ok(program)) = whole {
        let mut out = vec![];
        for gs in program {
            if let GlobalStatement::Statement(Statement::Assignment(a)) = gs.element {
                match (&a.rvalue().element, n) {
                    (Expression::FunctionCall(_, args), k) if k > 1 => {
                        for arg in args {
                            out.push(Ok(arg.element.clone()));
                        }
                    }
                    (e, _) => out.push(Ok(e.clone())),
                }
            }
        }
        if out.len() == n {
            return out;
        }
    } else if n == 1 {
        return vec![Err(match whole {
            Err(msg) => format!("panic: {}", msg),
            Ok(Err(e)) => format!("parse error {:?} at {}:{}", e.element, e.pos.row(), e.pos.col()),
            Ok(Ok(_)) => unreachable!(),
        })];
    }
    if n == 1 {
        return vec![Err("no assignment found".into())];
    }
    if std::env::var("VH_DEBUG").is_ok() {
        eprintln!("bisect n={} first={:?}", n, &srcs[0]);
    }
    let (a, b) = srcs.split_at(n / 2);
    let mut out = parse_many(a);
    out.extend(parse_many(b));
    out
}

thread_local! {
    static CACHE: std::cell::RefCell<std::collections::HashMap<String, Result<Expression, String>>> = Default::default();
}

/// fills the cache for the given sources
fn prefetch(srcs: &[String]) {
    for chunk in srcs.chunks(1000) {
        let res = parse_many(chunk);
        CACHE.with(|c| {
            let mut c = c.borrow_mut();
            for (s, r) in chunk.iter().zip(res.into_iter()) {
                c.insert(s.clone(), r);
            }
        });
    }
}

fn parse_rhs(src: &str) -> Result<Expression, String> {
    if let Some(r) = CACHE.with(|c| c.borrow().get(src).cloned()) {
        return r;
    }
    parse_many(&[src.to_string()]).pop().unwrap()
}

// ---- Coq printers

fn coq_t(t: &T) -> String {
    match t {
        T::Leaf(n) => format!("(Leaf {})", n),
        T::Paren(e) => format!("(Paren {})", coq_t(e)),
        T::Bin(op, l, r) => format!("(Bin {} {} {})", BOPS[*op].1, coq_t(l), coq_t(r)),
        T::Un(u, e) => format!("(Un {} {})", UOPS[*u].1, coq_t(e)),
    }
}

/// the chain as the right-recursive grammar reads it (Expr/Tree.v `chain`)
fn coq_chain(c: &Chain) -> String {
    fn go(first: &Operand, rest: &[(usize, Operand)]) -> String {
        if let Some((u, more)) = first.prefixes.split_first() {
            let o2 = Operand { prefixes: more.to_vec(), atom: first.atom.clone() };
            return format!("(CUn {} {})", UOPS[*u].1, go(&o2, rest));
        }
        let atom = match &first.atom {
            Atom::Var(v) => format!("(Leaf {})", v),
            Atom::Paren(inner) => format!("(Paren (parse {}))", coq_chain(inner)),
        };
        match rest.split_first() {
            None => format!("(CEnd {})", atom),
            Some(((op, next), more)) => format!("(CBin {} {} {})", atom, BOPS[*op].1, go(next, more)),
        }
    }
    go(&c.first, &c.rest)
}

fn check_chain(c: &Chain, w: &mut CaseWriter, sum: &mut Summary, evaluations: &mut usize) {
    let src = text(c);
    *evaluations += 1;
    let expected = reference(c);
    let key_ops: Vec<&str> = c.rest.iter().map(|(op, _)| bop_text(*op)).collect();
    let has_unary = src.contains("NOT ") || c.first.prefixes.len() + c.rest.iter().map(|(_, o)| o.prefixes.len()).sum::<usize>() > 0;
    match parse_rhs(&src) {
        Err(msg) => sum.violation(ImplViolation { key: format!("expr-rejected:{}", key_ops.join(" ")), input: format!("X = {}", src), expected: "a parse tree".into(), observed: msg }),
        Ok(e) => match convert(&e) {
            None => sum.violation(ImplViolation { key: "expr-unexpected-node".into(), input: format!("X = {}", src), expected: "binary/unary/paren/variable nodes".into(), observed: format!("{:?}", e) }),
            Some(t) => {
                if t != expected {
                    sum.violation(ImplViolation {
                        key: format!("grouping:{}{}", key_ops.join(" "), if has_unary { " (unary)" } else { "" }),
                        input: format!("X = {}", src),
                        expected: coq_t(&expected),
                        observed: coq_t(&t),
                    });
                }
                w.push(Case { agree: format!("expr_eqb (parse {}) {}", coq_chain(c), coq_t(&t)), desc: format!("X = {}  parsed as {}", src, coq_t(&t)), model_expr: format!("parse {}", coq_chain(c)) });
                sum.count(&format!("chains_{}_ops", c.rest.len()));
                if c.rest.len() >= 2 {
                    sum.nontrivial(src.clone());
                }
                if sum.samples.len() < 5 && c.rest.len() >= 3 {
                    sum.sample(J::s(format!("X = {}  =>  {}", src, coq_t(&t))));
                }
            }
        },
    }
}

fn var_operand(v: usize) -> Operand {
    Operand { prefixes: vec![], atom: Atom::Var(v) }
}

fn random_chain(rng: &mut Rng, n_ops: usize, depth: u32, next_var: &mut usize) -> Chain {
    let mut operand = |rng: &mut Rng, next_var: &mut usize| -> Operand {
        let mut prefixes = vec![];
        while rng.chance(1, 4) && prefixes.len() < 2 {
            prefixes.push(rng.below(2) as usize);
        }
        let atom = if depth > 0 && rng.chance(1, 5) {
            let k = rng.range(0, 2) as usize;
            Atom::Paren(Box::new(random_chain(rng, k, depth - 1, next_var)))
        } else {
            let v = *next_var % VARS.len();
            *next_var += 1;
            Atom::Var(v)
        };
        Operand { prefixes, atom }
    };
    let first = operand(rng, next_var);
    let rest = (0..n_ops).map(|_| (rng.below(13) as usize, operand(rng, next_var))).collect();
    Chain { first, rest }
}

// ---- literals

#[derive(Clone, Debug, PartialEq)]
enum Lit {
    Int(i64),
    Long(i64),
    Double(f64),
    Single(f32),
    Err(String),
}

fn parse_lit(src: &str) -> Lit {
    match parse_rhs(src) {
        Err(msg) => Lit::Err(msg),
        Ok(Expression::IntegerLiteral(i)) => Lit::Int(i as i64),
        Ok(Expression::LongLiteral(l)) => Lit::Long(l),
        Ok(Expression::DoubleLiteral(d)) => Lit::Double(d),
        Ok(Expression::SingleLiteral(f)) => Lit::Single(f),
        Ok(other) => Lit::Err(format!("not a literal: {:?}", other)),
    }
}

fn narrowest(v: i128) -> Lit {
    if (-32768..=32767).contains(&v) {
        Lit::Int(v as i64)
    } else if (-2147483648..=2147483647).contains(&v) {
        Lit::Long(v as i64)
    } else {
        Lit::Double(v as f64)
    }
}

fn twos(v: u128) -> Lit {
    if v < 1 << 15 {
        Lit::Int(v as i64)
    } else if v < 1 << 16 {
        Lit::Int(v as i64 - (1 << 16))
    } else if v < 1 << 31 {
        Lit::Long(v as i64)
    } else if v < 1 << 32 {
        Lit::Long(v as i64 - (1i64 << 32))
    } else {
        Lit::Err("overflow".into())
    }
}

fn coq_lit(l: &Lit) -> String {
    match l {
        Lit::Int(v) => format!("(LInt {})", z(*v as i128)),
        Lit::Long(v) => format!("(LLong {})", z(*v as i128)),
        Lit::Double(d) => format!("(LDouble {})", z(*d as i128)),
        Lit::Single(_) => "LOverflow".into(),
        Lit::Err(_) => "LOverflow".into(),
    }
}

fn same_lit(a: &Lit, b: &Lit) -> bool {
    match (a, b) {
        (Lit::Err(_), Lit::Err(_)) => true,
        _ => a == b,
    }
}

struct LitCase {
    v: u64,
    zeros: String,
    dec: String,
    neg: String,
    hex: String,
    oct: String,
    to_coq: bool,
}

fn lit_case(v: u64, rng: &mut Rng, to_coq: bool) -> LitCase {
    let zeros = "0".repeat(rng.below(3) as usize);
    let dec = format!("{}{}", zeros, v);
    let neg = format!("-{}", dec);
    // (the lexer accepts the prefixes &H / &O in upper case only; digits in either case)
    let hex = if rng.chance(1, 2) { format!("&H{}{:X}", zeros, v) } else { format!("&H{}{:x}", zeros, v) };
    let oct = format!("&O{}{:o}", zeros, v);
    LitCase { v, zeros, dec, neg, hex, oct, to_coq }
}

fn check_literal(l: &LitCase, w: &mut CaseWriter, sum: &mut Summary, evaluations: &mut usize) {
    let (v, zeros, dec, neg, hex, oct, to_coq) = (l.v, l.zeros.clone(), l.dec.clone(), l.neg.clone(), l.hex.clone(), l.oct.clone(), l.to_coq);
    // decimal, positive and directly after a unary minus
    let got = parse_lit(&dec);
    let exp = narrowest(v as i128);
    *evaluations += 1;
    if !same_lit(&got, &exp) {
        sum.violation(ImplViolation { key: "literal-decimal".into(), input: format!("X = {}", dec), expected: format!("{:?}", exp), observed: format!("{:?}", got) });
    }
    let gotn = parse_lit(&neg);
    let expn = narrowest(-(v as i128));
    *evaluations += 1;
    if !same_lit(&gotn, &expn) {
        sum.violation(ImplViolation { key: "literal-negative".into(), input: format!("X = {}", neg), expected: format!("{:?}", expn), observed: format!("{:?}", gotn) });
    }
    // hex and octal (upper or lower case digits)
    let goth = parse_lit(&hex);
    let exph = twos(v as u128);
    *evaluations += 1;
    if !same_lit(&goth, &exph) {
        sum.violation(ImplViolation { key: "literal-hex".into(), input: format!("X = {}", hex), expected: format!("{:?}", exph), observed: format!("{:?}", goth) });
    }
    let goto_ = parse_lit(&oct);
    *evaluations += 1;
    if !same_lit(&goto_, &exph) {
        sum.violation(ImplViolation { key: "literal-oct".into(), input: format!("X = {}", oct), expected: format!("{:?}", exph), observed: format!("{:?}", goto_) });
    }
    // a unary minus directly before a hex or octal literal
    let neg_of = |l: &Lit| -> Lit {
        match l {
            // negation keeps the type of the literal unless the value does not fit it
            // (-(-32768) is a LONG) or is -32768 (the INTEGER that has no positive literal)
            Lit::Int(n) => if *n == -32768 { Lit::Long(32768) } else { Lit::Int(-*n) },
            Lit::Long(n) => if *n == -2147483648 { Lit::Double(2147483648.0) } else if *n == 32768 { Lit::Int(-32768) } else { Lit::Long(-*n) },
            other => other.clone(),
        }
    };
    let gotnh = parse_lit(&format!("-{}", hex));
    let gotno = parse_lit(&format!("-{}", oct));
    let expnh = neg_of(&exph);
    *evaluations += 2;
    if !same_lit(&gotnh, &expnh) {
        sum.violation(ImplViolation { key: "literal-negative-hex".into(), input: format!("X = -{}", hex), expected: format!("{:?}", expnh), observed: format!("{:?}", gotnh) });
    }
    if !same_lit(&gotno, &expnh) {
        sum.violation(ImplViolation { key: "literal-negative-oct".into(), input: format!("X = -{}", oct), expected: format!("{:?}", expnh), observed: format!("{:?}", gotno) });
    }
    sum.count("literal_values");
    sum.nontrivial(format!("lit{}", v));
    if to_coq && v < (1u64 << 53) {
        let hexdigits: Vec<i128> = format!("{}{:x}", zeros, v).chars().map(|c| c.to_digit(16).unwrap() as i128).collect();
        let octdigits: Vec<i128> = format!("{}{:o}", zeros, v).chars().map(|c| c.to_digit(8).unwrap() as i128).collect();
        w.push(Case {
            agree: format!(
                "lit_eqb (lit_dec {v}) {d} && lit_eqb (lit_neg (lit_dec {v})) {n} && lit_eqb (lit_hex {hd}) {h} && lit_eqb (lit_oct {od}) {o} && lit_eqb (lit_neg (lit_hex {hd})) {nh} && lit_eqb (lit_neg (lit_oct {od})) {no}",
                v = z(v as i128),
                d = coq_lit(&got),
                n = coq_lit(&gotn),
                hd = zlist(hexdigits.clone()),
                h = coq_lit(&goth),
                od = zlist(octdigits.clone()),
                o = coq_lit(&goto_),
                nh = coq_lit(&gotnh),
                no = coq_lit(&gotno)
            ),
            desc: format!("{} -> {:?}; {} -> {:?}; {} -> {:?}; {} -> {:?}", dec, got, neg, gotn, hex, goth, oct, goto_),
            model_expr: format!("(lit_dec {v}, lit_neg (lit_dec {v}), lit_hex {hd}, lit_oct {od})", v = z(v as i128), hd = zlist(hexdigits), od = zlist(octdigits)),
        });
    }
}

pub fn run(args: &Args) {
    let mut rng = Rng::new(args.seed);
    let mut sum = Summary::new();
    let mut w = CaseWriter::new(&args.out, "c10", HEADER, 1200);
    let mut evaluations = 0usize;
    let max_exh = if args.thorough() { 4 } else { 3 };
    let mut all_chains: Vec<Chain> = vec![];
    // 1. every sequence of up to max_exh binary operators over distinct variables
    for n in 1..=max_exh {
        let total = 13usize.pow(n as u32);
        for code in 0..total {
            let mut ops = vec![];
            let mut c = code;
            for _ in 0..n {
                ops.push(c % 13);
                c /= 13;
            }
            let chain = Chain { first: var_operand(0), rest: ops.iter().enumerate().map(|(i, op)| (*op, var_operand(i + 1))).collect() };
            all_chains.push(chain.clone());
            // the same operator sequence with unary prefixes / parentheses sprinkled in
            if n <= 2 || rng.chance(1, if args.thorough() { 6 } else { 3 }) {
                let mut ch = chain.clone();
                let k = rng.below((n + 1) as u64) as usize;
                let u = rng.below(2) as usize;
                if k == 0 {
                    ch.first.prefixes.push(u);
                } else {
                    ch.rest[k - 1].1.prefixes.push(u);
                }
                all_chains.push(ch.clone());
                if n >= 2 {
                    // parenthesise a sub-range [a, b]
                    let a = rng.below(n as u64) as usize;
                    let b = a + 1 + rng.below((n - a) as u64) as usize;
                    let mut operands: Vec<Operand> = vec![ch.first.clone()];
                    operands.extend(ch.rest.iter().map(|(_, o)| o.clone()));
                    let inner = Chain { first: operands[a].clone(), rest: (a + 1..=b).map(|i| (ch.rest[i - 1].0, operands[i].clone())).collect() };
                    let mut new_operands: Vec<Operand> = operands[..a].to_vec();
                    new_operands.push(Operand { prefixes: if rng.chance(1, 3) { vec![rng.below(2) as usize] } else { vec![] }, atom: Atom::Paren(Box::new(inner)) });
                    new_operands.extend(operands[b + 1..].iter().cloned());
                    let mut new_ops: Vec<usize> = ch.rest[..a].iter().map(|(op, _)| *op).collect();
                    new_ops.extend(ch.rest[b..].iter().map(|(op, _)| *op));
                    let pc = Chain { first: new_operands[0].clone(), rest: new_ops.into_iter().zip(new_operands[1..].iter().cloned()).collect() };
                    all_chains.push(pc.clone());
                }
            }
        }
    }
    // all unary configurations on chains of up to 2 operators
    for n in 0..=2usize {
        let total = 13usize.pow(n as u32);
        for code in 0..total {
            let mut ops = vec![];
            let mut c = code;
            for _ in 0..n {
                ops.push(c % 13);
                c /= 13;
            }
            for ucode in 0..3usize.pow((n + 1) as u32) {
                let mut uc = ucode;
                let mut operands = vec![];
                for i in 0..=n {
                    let p = uc % 3;
                    uc /= 3;
                    operands.push(Operand { prefixes: if p == 0 { vec![] } else { vec![p - 1] }, atom: Atom::Var(i) });
                }
                let chain = Chain { first: operands[0].clone(), rest: ops.iter().cloned().zip(operands[1..].iter().cloned()).collect() };
                all_chains.push(chain.clone());
            }
        }
    }
    // random longer chains
    for _ in 0..(if args.thorough() { 20000 } else { 1500 }) {
        let mut nv = 0;
        let n = rng.range(3, 7) as usize;
        let c = random_chain(&mut rng, n, 2, &mut nv);
        all_chains.push(c.clone());
    }

    let texts: Vec<String> = all_chains.iter().map(text).collect();
    prefetch(&texts);
    for c in &all_chains {
        check_chain(c, &mut w, &mut sum, &mut evaluations);
    }

    // 2. literals: all 16-bit values against the reference; the Coq model on boundaries + a sample
    let mut special: std::collections::BTreeSet<u64> = Default::default();
    for k in [0u32, 1, 7, 8, 15, 16, 17, 31, 32, 33, 52, 53] {
        for d in [-2i64, -1, 0, 1, 2] {
            let v = (1i128 << k) + d as i128;
            if v >= 0 {
                special.insert(v as u64);
            }
        }
    }
    let mut lits: Vec<LitCase> = vec![];
    for v in 0..65536u64 {
        let to_coq = special.contains(&v) || v % 97 == 0;
        lits.push(lit_case(v, &mut rng, to_coq));
    }
    for v in special.iter().filter(|v| **v >= 65536) {
        lits.push(lit_case(*v, &mut rng, true));
    }
    for _ in 0..(if args.thorough() { 20000 } else { 1500 }) {
        let v = match rng.below(3) {
            0 => rng.below(1 << 32),
            1 => rng.below(1 << 34),
            _ => rng.below(1 << 20),
        };
        lits.push(lit_case(v, &mut rng, true));
    }
    let mut texts: Vec<String> = vec![];
    for l in &lits {
        texts.extend([l.dec.clone(), l.neg.clone()]);
        if l.v < (1u64 << 32) {
            // literals expected to be rejected (Overflow) are parsed one by one: a rejected
            // expression makes the whole batch fail and forces a bisection
            texts.extend([l.hex.clone(), l.oct.clone(), format!("-{}", l.hex), format!("-{}", l.oct)]);
        }
    }
    prefetch(&texts);
    for l in &lits {
        check_literal(l, &mut w, &mut sum, &mut evaluations);
    }
    // fractions: SINGLE, or DOUBLE with #
    for (src, exp) in [("1.5", Lit::Single(1.5)), ("1.5#", Lit::Double(1.5)), (".25", Lit::Single(0.25)), ("0.1", Lit::Single(0.1)), ("0.1#", Lit::Double(0.1)), ("-2.5", Lit::Single(-2.5)), ("-.5#", Lit::Double(-0.5)), ("123456.75#", Lit::Double(123456.75))] {
        let got = parse_lit(src);
        evaluations += 1;
        if got != exp {
            sum.violation(ImplViolation { key: "literal-fraction".into(), input: format!("X = {}", src), expected: format!("{:?}", exp), observed: format!("{:?}", got) });
        }
    }
    w.flush();
    sum.write(
        &args.out,
        evaluations,
        "expressions: every sequence of up to 3 (quick) / 4 (thorough) of the 13 binary operators over distinct variables; for chains of up to 2 operators every assignment of {none, -, NOT} prefixes to the operands; sampled prefix and parenthesis insertions on the longer sequences; random chains of 3..7 operators with prefixes and nested parentheses. Each parsed through parse_main_str and compared with the Coq model of the repair algorithm and with an independent precedence-climbing reference. Literals: all 65536 16-bit values in decimal, negated decimal, hex, octal, negated hex and negated octal with random leading zeros against the reference (Coq model on boundary values and every 97th), values around 2^k for k up to 53, random 20..34-bit values. Non-trivial = chain with at least 2 operators / every literal value; distinct by text.",
    );
}
