//! C06: a numeric variable only ever holds a value of its own type and range.
//! Value level: CastVariant::cast and Variant::plus/minus/multiply against coq/theories/Val/Variant.v.
//! Program level: generated programs; after the run every module-level variable must hold a value of
//! the type its name says (checked here on the dump from the hook).
use rusty_linter::core::CastVariant;
use rusty_parser::TypeQualifier;
use rusty_variant::Variant;

use crate::common::*;
use crate::runner::*;

const HEADER: &str = "From Coq Require Import List ZArith Bool NArith Floats.SpecFloat.\nFrom RB Require Import Base.Util Val.Variant.\nImport ListNotations.\nOpen Scope Z_scope.\n";

fn coq_variant(v: &Variant) -> Option<String> {
    Some(match v {
        Variant::VSingle(f) => format!("(VSingle (single_of_bits {}))", f.to_bits()),
        Variant::VDouble(d) => format!("(VDouble (double_of_bits {}))", d.to_bits()),
        Variant::VInteger(i) => format!("(VInteger {})", z(*i as i128)),
        Variant::VLong(l) => format!("(VLong {})", z(*l as i128)),
        _ => return None,
    })
}

const QUALS: [(TypeQualifier, &str, &str); 4] = [
    (TypeQualifier::BangSingle, "QSingle", "!"),
    (TypeQualifier::HashDouble, "QDouble", "#"),
    (TypeQualifier::PercentInteger, "QInteger", "%"),
    (TypeQualifier::AmpersandLong, "QLong", "&"),
];

pub fn boundary_values() -> Vec<Variant> {
    let mut v: Vec<Variant> = vec![];
    for i in [-32768, -32767, -1, 0, 1, 2, 7, 255, 256, 32766, 32767] {
        v.push(Variant::VInteger(i));
    }
    for l in [-2147483648i64, -2147483647, -65536, -32769, -32768, -1, 0, 1, 32767, 32768, 65535, 65536, 16777216, 16777217, 2147483646, 2147483647] {
        v.push(Variant::VLong(l));
    }
    for f in [
        0.0f32, -0.0, 0.5, -0.5, 1.5, -1.5, 2.5, -2.5, 0.49999997, 0.1, 1.0, -1.0, 32766.5, 32767.0, 32767.4, 32767.5, 32767.49, 32768.0, -32768.0, -32768.4, -32768.5, -32769.0, 16777216.0, 16777218.0, 2147483520.0, 2147483648.0, -2147483648.0,
        -2147483904.0, 4294967296.0, 1e10, 1e38, 3.4028235e38, -3.4028235e38, 1e-38, 1e-45,
    ] {
        v.push(Variant::VSingle(f));
    }
    for d in [
        0.0f64,
        -0.0,
        0.5,
        -0.5,
        1.5,
        2.5,
        -2.5,
        0.49999999999999994,
        32767.49999,
        32767.5,
        -32768.5,
        -32768.49999,
        2147483647.0,
        2147483647.4,
        2147483647.5,
        2147483648.0,
        -2147483648.0,
        -2147483648.5,
        -2147483649.0,
        9007199254740992.0,
        9007199254740993.0,
        1e19,
        3.4028234663852886e38,
        3.4028235677973366e38,
        3.5e38,
        1e39,
        -1e39,
        1e308,
        1.7976931348623157e308,
        1e-310,
        5e-324,
        0.1,
    ] {
        v.push(Variant::VDouble(d));
    }
    v
}

pub fn code_of_lint(e: &rusty_linter::core::LintError) -> i128 {
    use rusty_linter::core::LintError::*;
    match e {
        Overflow => 6,
        TypeMismatch => 13,
        NotFiniteNumber => 1000,
        DivisionByZero => 11,
        _ => 999,
    }
}

fn holds(v: &Variant, suffix: char) -> bool {
    match (suffix, v) {
        ('%', Variant::VInteger(i)) => (-32768..=32767).contains(i),
        ('&', Variant::VLong(l)) => (-2147483648..=2147483647).contains(l),
        ('!', Variant::VSingle(f)) => f.is_finite(),
        ('#', Variant::VDouble(d)) => d.is_finite(),
        ('$', Variant::VString(_)) => true,
        _ => false,
    }
}

// ---------------------------------------------------------------- programs

fn lit(rng: &mut Rng) -> String {
    let lits = [
        "0", "1", "-1", "2", "7", "100", "255", "300", "32767", "-32768", "32768", "-32769", "40000", "65536", "2147483647", "-2147483648", "2147483648", "3000000000", ".5", "1.5", "2.5", "-2.5", "32767.5", "32767.4", "-32768.5", "2147483647.5#",
        "123456.75#", "16777217", "1000000",
    ];
    rng.pick(&lits).to_string()
}

fn expr(rng: &mut Rng, depth: u32, vars: &[&str]) -> String {
    if depth == 0 || rng.chance(1, 3) {
        if !vars.is_empty() && rng.chance(1, 3) {
            return rng.pick(vars).to_string();
        }
        return lit(rng);
    }
    let ops = ["+", "-", "*", "+", "-", "*", "/", "MOD", "AND", "OR"];
    let op = *rng.pick(&ops);
    let l = expr(rng, depth - 1, vars);
    let r = expr(rng, depth - 1, vars);
    if rng.chance(1, 4) {
        format!("({} {} {})", l, op, r)
    } else if rng.chance(1, 8) {
        format!("-({} {} {})", l, op, r)
    } else {
        format!("{} {} {}", l, op, r)
    }
}

struct Prog {
    src: String,
    stdin: Vec<u8>,
    kind: &'static str,
}

fn gen_program(rng: &mut Rng) -> Prog {
    let suffixes = ["%", "&", "!", "#"];
    let mut src = String::new();
    let mut stdin = vec![];
    let kind;
    match rng.below(7) {
        0 | 1 => {
            kind = "assignment";
            // a chain of assignments, later ones may read earlier variables
            let mut vars: Vec<String> = vec![];
            for k in 0..rng.range(1, 4) {
                let name = format!("V{}{}", k, rng.pick(&suffixes));
                let refs: Vec<&str> = vars.iter().map(|s| s.as_str()).collect();
                src.push_str(&format!("{} = {}\n", name, expr(rng, 2, &refs)));
                vars.push(name);
            }
        }
        2 => {
            kind = "by-value-parameter";
            let s = *rng.pick(&suffixes);
            src.push_str(&format!("DECLARE SUB Take (P{})\n", s));
            src.push_str(&format!("G{} = 0\n", s));
            src.push_str(&format!("Take ({})\n", expr(rng, 2, &[])));
            src.push_str(&format!("Take {} + 0\n", expr(rng, 1, &[])));
            src.push_str(&format!("END\nSUB Take (P{})\nSHARED G{}\nG{} = P{}\nEND SUB\n", s, s, s, s));
        }
        3 => {
            kind = "for-counter";
            let s = *rng.pick(&suffixes);
            let starts = ["32760", "-32760", "2147483640", "1", "0.5", "32766.5", "-2147483640", "1E+38", "30000"];
            let steps = ["1", "5", "-5", "0.5", "1000", "-1000", "3E+37", "2"];
            let a = *rng.pick(&starts);
            let st = *rng.pick(&steps);
            let to = if st.starts_with('-') { "-2147483648" } else { "2147483647" };
            src.push_str(&format!("N% = 0\nFOR I{} = {} TO {} STEP {}\nN% = N% + 1\nIF N% > 12 THEN EXIT FOR\nNEXT\n", s, a, to, st));
            // EXIT FOR may not exist: use a bounded variant
            src = src.replace("IF N% > 12 THEN EXIT FOR\n", "IF N% > 12 THEN GOTO Done\n");
            src.push_str("Done:\n");
        }
        4 => {
            kind = "read";
            let s = *rng.pick(&suffixes);
            src.push_str(&format!("DATA {}, {}\nREAD A{}\nREAD B{}\n", lit(rng), lit(rng), s, s));
        }
        5 => {
            kind = "input";
            let s = *rng.pick(&suffixes);
            src.push_str(&format!("INPUT A{}\n", s));
            let inputs = ["5", "-7", "32767", "32768", "-32769", "40000", "2147483647", "2147483648", "3000000000", "1.5", "1E+39", "1E+400", "", "12abc"];
            stdin = format!("{}\r\n", rng.pick(&inputs)).into_bytes();
        }
        _ => {
            kind = "val";
            let s = *rng.pick(&suffixes);
            let texts = ["5", "-7", "32767", "32768", "40000", "2147483648", "99999999999", "1.5", " 12 ", "abc"];
            src.push_str(&format!("A{} = VAL(\"{}\")\n", s, rng.pick(&texts)));
        }
    }
    Prog { src, stdin, kind }
}

pub fn run(args: &Args) {
    let mut rng = Rng::new(args.seed);
    let mut sum = Summary::new();
    let mut w = CaseWriter::new(&args.out, "c06", HEADER, 800);
    let mut evaluations = 0usize;
    let mut vals = boundary_values();
    // random values of every type
    for _ in 0..(if args.thorough() { 1500 } else { 150 }) {
        vals.push(Variant::VInteger(rng.range(-32768, 32767) as i32));
        vals.push(Variant::VLong(rng.range(-2147483648, 2147483647)));
        let f = f32::from_bits(rng.next() as u32);
        if f.is_finite() {
            vals.push(Variant::VSingle(f));
        }
        let d = f64::from_bits(rng.next());
        if d.is_finite() {
            vals.push(Variant::VDouble(d));
        }
        // floats near the integer boundaries with random fractions
        let base = *rng.pick(&[32767.0f64, -32768.0, 2147483647.0, -2147483648.0, 0.0, 100.0]);
        vals.push(Variant::VDouble(base + (rng.range(-2000, 2000) as f64) / 1000.0));
        vals.push(Variant::VSingle((base + (rng.range(-8, 8) as f64) / 4.0) as f32));
    }
    // ---- 1. conversions
    for v in &vals {
        for (q, qn, suffix) in QUALS.iter() {
            let r = {
                let v2 = v.clone();
                let q2 = *q;
                guard(move || v2.cast(q2))
            };
            evaluations += 1;
            let cv = coq_variant(v).unwrap();
            let (code, res): (i128, String) = match &r {
                Err(msg) => {
                    sum.violation(ImplViolation { key: "cast-panic".into(), input: format!("cast {:?} to {}", v, qn), expected: "a value or Overflow".into(), observed: msg.clone() });
                    continue;
                }
                Ok(Ok(x)) => (0, coq_variant(x).unwrap()),
                Ok(Err(e)) => (code_of_lint(e), "(VInteger 0)".to_string()),
            };
            if let Ok(Ok(x)) = &r {
                if !holds(x, suffix.chars().next().unwrap()) {
                    sum.violation(ImplViolation { key: format!("cast-result-mistyped:{}", qn), input: format!("cast {:?} to {}", v, qn), expected: format!("a finite/in-range {} or Overflow", qn), observed: format!("{:?}", x) });
                }
            }
            if let Ok(Err(e)) = &r {
                if code_of_lint(e) != 6 {
                    sum.violation(ImplViolation { key: "cast-wrong-error".into(), input: format!("cast {:?} to {}", v, qn), expected: "Overflow".into(), observed: format!("{:?}", e) });
                }
            }
            w.push(Case { agree: format!("vres_eqb (cast {} {}) {} {}", cv, qn, code, res), desc: format!("cast {:?} to {} = {:?}", v, qn, r.as_ref().ok()), model_expr: format!("cast {} {}", cv, qn) });
            sum.count(&format!("cast_to_{}", qn));
            sum.nontrivial(format!("c{:?}{}", v, qn));
        }
    }
    // ---- 2. + - * on pairs
    let bvals = boundary_values();
    let ops: [(&str, &str); 3] = [("APlus", "+"), ("AMinus", "-"), ("AMultiply", "*")];
    let mut pairs: Vec<(Variant, Variant)> = vec![];
    for a in &bvals {
        for b in &bvals {
            if args.thorough() || rng.chance(1, 3) {
                pairs.push((a.clone(), b.clone()));
            }
        }
    }
    for _ in 0..(if args.thorough() { 6000 } else { 600 }) {
        pairs.push((rng.pick(&vals).clone(), rng.pick(&vals).clone()));
    }
    for (a, b) in pairs {
        for (on, osym) in ops.iter() {
            let (a2, b2) = (a.clone(), b.clone());
            let o = *osym;
            let r = guard(move || match o {
                "+" => a2.plus(b2),
                "-" => a2.minus(b2),
                _ => a2.multiply(b2),
            });
            evaluations += 1;
            let (code, res): (i128, String) = match &r {
                Err(msg) => {
                    sum.violation(ImplViolation { key: "arith-panic".into(), input: format!("{:?} {} {:?}", a, osym, b), expected: "a value or Overflow".into(), observed: msg.clone() });
                    continue;
                }
                Ok(Ok(x)) => (0, coq_variant(x).unwrap()),
                Ok(Err(rusty_variant::VariantError::Overflow)) => (6, "(VInteger 0)".into()),
                Ok(Err(rusty_variant::VariantError::TypeMismatch)) => (13, "(VInteger 0)".into()),
                Ok(Err(rusty_variant::VariantError::DivisionByZero)) => (11, "(VInteger 0)".into()),
            };
            if let Ok(Ok(x)) = &r {
                let suffix = match x {
                    Variant::VInteger(_) => '%',
                    Variant::VLong(_) => '&',
                    Variant::VSingle(_) => '!',
                    Variant::VDouble(_) => '#',
                    _ => '$',
                };
                if !holds(x, suffix) {
                    sum.violation(ImplViolation { key: format!("arith-result-out-of-type:{}", osym), input: format!("{:?} {} {:?}", a, osym, b), expected: "a value inside its own type, or Overflow".into(), observed: format!("{:?}", x) });
                }
            }
            w.push(Case {
                agree: format!("vres_eqb (arith {} {} {}) {} {}", on, coq_variant(&a).unwrap(), coq_variant(&b).unwrap(), code, res),
                desc: format!("{:?} {} {:?} = {:?}", a, osym, b, r.as_ref().ok()),
                model_expr: format!("arith {} {} {}", on, coq_variant(&a).unwrap(), coq_variant(&b).unwrap()),
            });
            sum.count(&format!("arith_{}", on));
            sum.nontrivial(format!("a{:?}{}{:?}", a, osym, b));
        }
    }
    // ---- 3. programs: every module-level variable holds a value of the type its name says
    for _ in 0..(if args.thorough() { 12000 } else { 1500 }) {
        let p = gen_program(&mut rng);
        evaluations += 1;
        let o = run_program(&p.src, &RunOpts { stdin: p.stdin.clone(), budget: 100_000, trace: false });
        sum.count(&format!("program_{}", p.kind));
        match o {
            Outcome::ParseError { .. } | Outcome::LintError { .. } => {
                sum.count("program_rejected_statically");
            }
            Outcome::FrontPanic { stage, msg } => {
                sum.violation(ImplViolation { key: format!("front-panic:{}", stage), input: p.src.clone(), expected: "a program or an error".into(), observed: msg });
            }
            Outcome::Ran(r) => {
                match &r.end {
                    End::Ok | End::Budget => {}
                    End::Err(code, _, what) => {
                        sum.count(&format!("program_error_{}", code));
                        if *code != 6 && *code != 11 && *code != 257 && *code != 4 && *code != 13 {
                            sum.violation(ImplViolation { key: format!("unexpected-error-{}", code), input: p.src.clone(), expected: "Overflow (6) or Division by zero (11)".into(), observed: what.clone() });
                        }
                    }
                    End::Panic(msg) => {
                        sum.violation(ImplViolation { key: format!("panic:{}", p.kind), input: format!("{} [stdin {:?}]", p.src, String::from_utf8_lossy(&p.stdin)), expected: "Overflow or a stored value".into(), observed: msg.clone() });
                    }
                }
                let has_division = p.src.contains('/');
                for (name, v) in &r.globals {
                    let suffix = name.chars().last().unwrap_or(' ');
                    if "%&!#".contains(suffix) && !holds(v, suffix) {
                        sum.violation(ImplViolation {
                            key: format!("store-mistyped:{}{}", if has_division { "division:" } else { "" }, p.kind),
                            input: format!("{} [stdin {:?}]", p.src, String::from_utf8_lossy(&p.stdin)),
                            expected: format!("{} holds a value of its own type and range", name),
                            observed: format!("{} = {:?}", name, v),
                        });
                    }
                }
                sum.nontrivial(p.src.clone());
                if sum.samples.len() < 6 {
                    sum.sample(J::s(p.src.clone()));
                }
            }
        }
    }
    w.flush();
    sum.write(
        &args.out,
        evaluations,
        "value level: CastVariant::cast of every boundary value (type minima/maxima and neighbours, +-0.5 ties, 2^24, 2^31, 2^53 neighbourhoods, largest/smallest finite floats, values just beyond the range of SINGLE) and seeded random values of each type to each of the four numeric types; plus/minus/multiply on boundary pairs of all type combinations and random pairs; each compared with the Coq model (floats handed over by IEEE bit pattern) and checked directly for 'result inside its own type or Overflow'. Program level: generated assignments (expression depth <= 2 over + - * / MOD AND OR, earlier variables and boundary literals), by-value parameters, FOR counters stepping across type boundaries, READ, INPUT (console bytes) and VAL; after each run the typed dump of the module-level variables is checked against the suffix of each name. Non-trivial = every value-level case; every program that ran; distinct by text.",
    );
}
