//! C11 - every diagnostic names the right place in the source.
//!  * value level: the real input layer's position for every reader index of random texts (all three
//!    line-ending conventions mixed) against `RowCol.position_at` in Coq;
//!  * fault injection: a program with one fault at a chosen statement (in the main module, inside a
//!    block, after a colon, inside nested SUB calls), decorated with blank lines, comments and one of
//!    the three line-ending conventions; the reported row must be the row of that statement as the
//!    user sees it, the column must lie inside the statement's text, and - evaluated in Coq on the
//!    actual text - the reported (row, col) must be the model's position of an index inside it;
//!    a run-time fault inside nested calls must list the call sites' rows, innermost first.
use rusty_parser::verif::StringView;
use rusty_pc::InputTrait;

use crate::common::*;
use crate::runner::*;

pub const HEADER11: &str = "From Coq Require Import List Arith Bool NArith.\nFrom RB Require Import Lex.RowCol.\nImport ListNotations.\n";

pub fn coq_chars(text: &str) -> String {
    format!("[{}]", text.chars().map(|c| (c as u32).to_string()).collect::<Vec<_>>().join("; "))
}

/// the real position of every reader index 0..=len
pub fn real_positions(text: &str) -> Vec<(u32, u32)> {
    let mut sv = StringView::from(text);
    let n = text.chars().count();
    (0..=n)
        .map(|i| {
            sv.set_position(i);
            let p = sv.position();
            (p.row(), p.col())
        })
        .collect()
}

#[derive(Clone, Copy, Debug, PartialEq)]
enum Fault {
    Syntax,
    Type,
    Label,
    ArgCount,
    DivZero,
    Subscript,
    Overflow,
    /// the failing operation has a prefix operator in front of its left operand
    DivZeroAfterMinus,
    OverflowAfterMinus,
    DivZeroAfterNot,
}

impl Fault {
    fn text(&self) -> &'static str {
        match self {
            Fault::Syntax => "PRINT )",
            Fault::Type => "A% = \"x\"",
            Fault::Label => "GOTO Nowhere9",
            Fault::ArgCount => "Leaf 1, 2, 3",
            Fault::DivZero => "PRINT 10 / Z%",
            Fault::Subscript => "ARR%(99) = 1",
            Fault::Overflow => "A% = 32767 + 1",
            Fault::DivZeroAfterMinus => "PRINT -W% / Z%",
            Fault::OverflowAfterMinus => "A% = -LEN(\"ab\") * 32767",
            Fault::DivZeroAfterNot => "A% = NOT W% AND 7 / Z%",
        }
    }
    /// where inside the statement's text the diagnostic points: the token that cannot be parsed, the
    /// offending expression, the operator of the operation that fails; the statement itself otherwise
    fn offset(&self) -> usize {
        let t = self.text();
        match self {
            Fault::Type => t.find('"').unwrap(),
            Fault::DivZero | Fault::DivZeroAfterMinus | Fault::DivZeroAfterNot => t.find('/').unwrap(),
            Fault::Overflow => t.find('+').unwrap(),
            Fault::OverflowAfterMinus => t.find('*').unwrap(),
            _ => 0,
        }
    }
    fn is_runtime(&self) -> bool {
        matches!(self, Fault::DivZero | Fault::Subscript | Fault::Overflow | Fault::DivZeroAfterMinus | Fault::OverflowAfterMinus | Fault::DivZeroAfterNot)
    }
    fn expected(&self) -> &'static str {
        match self {
            Fault::Syntax => "parse",
            Fault::Type => "lint:TypeMismatch",
            Fault::Label => "lint:LabelNotDefined",
            Fault::ArgCount => "lint:ArgumentCountMismatch",
            Fault::DivZero => "run:11",
            Fault::Subscript => "run:9",
            Fault::Overflow | Fault::OverflowAfterMinus => "run:6",
            Fault::DivZeroAfterMinus | Fault::DivZeroAfterNot => "run:11",
        }
    }
}

struct Built {
    text: String,
    fault_row: usize,           // 1-based row of the faulty statement in the final text
    fault_col_lo: usize,        // 1-based first column of the statement's text
    fault_col_hi: usize,        // 1-based column just past its last character
    fault_char_lo: usize,       // char index range of the statement in the text
    fault_char_hi: usize,
    call_rows: Vec<usize>,      // rows of the active call sites, innermost first (run-time faults in SUBs)
}

/// Builds a program: logical lines (text, marker) with marker 1 = the fault line, 2.. = call sites.
fn build(rng: &mut Rng, fault: Fault, depth: usize, recur: usize, after_colon: bool, in_block: bool, eol: &str) -> Built {
    // logical lines: (text, tag) tag 0 none, 1 fault, 10+k call site of depth k (k = 1 innermost)
    let mut lines: Vec<(String, u32)> = vec![];
    lines.push(("DIM SHARED ARR%(5)".into(), 0));
    lines.push(("Z% = 0".into(), 0));
    lines.push(("W% = 1".into(), 0));
    let fault_stmt = if after_colon { format!("X% = 1 : {}", fault.text()) } else { fault.text().to_string() };
    let body_with_fault = |lines: &mut Vec<(String, u32)>| {
        if in_block {
            lines.push(("FOR I% = 1 TO 1".into(), 0));
            lines.push(("  IF I% = 1 THEN".into(), 0));
            lines.push((format!("    {}", fault_stmt), 1));
            lines.push(("  END IF".into(), 0));
            lines.push(("NEXT".into(), 0));
        } else {
            lines.push((fault_stmt.clone(), 1));
        }
    };
    if depth == 0 {
        lines.push(("PRINT \"start\"".into(), 0));
        body_with_fault(&mut lines);
        lines.push(("PRINT \"after\"".into(), 0));
        lines.push(("END".into(), 0));
    } else {
        lines.push(("PRINT \"start\"".into(), 0));
        lines.push(("Level1 5".into(), 10 + depth as u32));
        lines.push(("END".into(), 0));
        for k in 1..=depth {
            lines.push((format!("SUB Level{} (N%)", k), 0));
            lines.push(("  L% = N% + 1".into(), 0));
            // calls that have already returned when the fault happens must not show up among the call sites
            if rng.chance(1, 2) {
                lines.push(("  Leaf L%".into(), 0));
            }
            if rng.chance(1, 2) {
                lines.push(("  L% = LEN(\"ab\") + L%".into(), 0));
            }
            if k < depth {
                lines.push((format!("  Level{} L%", k + 1), 10 + (depth - k) as u32));
            } else if recur > 0 {
                // the innermost SUB calls itself `recur` times from one statement before the fault:
                // that call site is active `recur` times (tag 10: innermost of all)
                lines.push((format!("  IF ARR%(1) < {} THEN", recur), 0));
                lines.push(("    ARR%(1) = ARR%(1) + 1".into(), 0));
                lines.push((format!("    Level{} L%", k), 10));
                lines.push(("  ELSE".into(), 0));
                let mut inner: Vec<(String, u32)> = vec![];
                body_with_fault(&mut inner);
                for (t, g) in inner {
                    lines.push((format!("    {}", t), g));
                }
                lines.push(("  END IF".into(), 0));
            } else {
                let mut inner: Vec<(String, u32)> = vec![];
                body_with_fault(&mut inner);
                for (t, g) in inner {
                    lines.push((format!("  {}", t), g));
                }
            }
            lines.push(("END SUB".into(), 0));
        }
    }
    lines.push(("SUB Leaf (Q%)".into(), 0));
    lines.push(("END SUB".into(), 0));
    // decoration: blank lines and comment lines anywhere, trailing comments on lines without a fault
    let mut out_lines: Vec<(String, u32)> = vec![];
    for (t, g) in lines {
        while rng.chance(1, 5) {
            out_lines.push((if rng.chance(1, 2) { String::new() } else { "' a comment".to_string() }, 0));
        }
        let t2 = if g == 0 && rng.chance(1, 6) && !t.trim_start().starts_with("SUB") { format!("{} ' trailing", t) } else { t };
        out_lines.push((t2, g));
    }
    // assemble, recording the character range of the fault statement
    let mut text = String::new();
    let mut fault_row = 0;
    let (mut lo, mut hi, mut clo, mut chi) = (0, 0, 0, 0);
    let mut call_rows_by_depth: Vec<(u32, usize)> = vec![];
    for (k, (t, g)) in out_lines.iter().enumerate() {
        if *g == 1 {
            fault_row = k + 1;
            let indent = t.len() - t.trim_start().len();
            let start_in_line = if after_colon { t.find(" : ").unwrap() + 3 } else { indent };
            let base = text.chars().count();
            lo = base + start_in_line;
            hi = base + t.chars().count();
            clo = start_in_line + 1;
            chi = t.chars().count() + 1;
        } else if *g == 10 {
            for _ in 0..recur {
                call_rows_by_depth.push((0, k + 1));
            }
        } else if *g > 10 {
            call_rows_by_depth.push((*g - 10, k + 1));
        }
        text.push_str(t);
        if k + 1 < out_lines.len() || rng.chance(1, 2) {
            text.push_str(eol);
        }
    }
    call_rows_by_depth.sort();
    Built { text, fault_row, fault_col_lo: clo, fault_col_hi: chi, fault_char_lo: lo, fault_char_hi: hi, call_rows: call_rows_by_depth.iter().map(|x| x.1).collect() }
}

pub fn run(args: &Args) {
    let mut rng = Rng::new(args.seed);
    let mut sum = Summary::new();
    let mut evaluations = 0usize;

    // ---- value level
    {
        let mut w = CaseWriter::new(&args.out, "c11p", HEADER11, 400);
        let n = if args.thorough() { 6000 } else { 800 };
        let alphabet: Vec<char> = vec!['a', 'B', ' ', '\r', '\n', ':', '\'', '1', '\t', '"', 'é'];
        for _ in 0..n {
            let len = rng.below(30) as usize;
            let text: String = (0..len).map(|_| if rng.chance(1, 3) { *rng.pick(&['\r', '\n']) } else { *rng.pick(&alphabet) }).collect();
            let t2 = text.clone();
            let r = guard(move || real_positions(&t2));
            evaluations += 1;
            match r {
                Ok(ps) => {
                    let pl = format!("[{}]", ps.iter().map(|(a, b)| format!("({}, {})", a, b)).collect::<Vec<_>>().join("; "));
                    w.push(Case { agree: format!("poslist_eqb (positions_all {}) {}", coq_chars(&text), pl), desc: format!("positions {:?}", text), model_expr: format!("positions_all {}", coq_chars(&text)) });
                    sum.nontrivial(text);
                }
                Err(m) => sum.violation(ImplViolation { key: "position-panic".into(), input: format!("{:?}", text), expected: "a position for every index".into(), observed: m }),
            }
        }
        w.flush();
        sum.count("position_tables");
    }

    // ---- fault injection
    let mut w = CaseWriter::new(&args.out, "c11", HEADER11, 200);
    let faults = [Fault::Syntax, Fault::Type, Fault::Label, Fault::ArgCount, Fault::DivZero, Fault::Subscript, Fault::Overflow, Fault::DivZeroAfterMinus, Fault::OverflowAfterMinus, Fault::DivZeroAfterNot];
    let n = if args.thorough() { 4000 } else { 500 };
    for k in 0..n {
        let fault = faults[k % faults.len()];
        let depth = if fault.is_runtime() || rng.chance(1, 2) { rng.below(4) as usize } else { 0 };
        let after_colon = rng.chance(1, 3);
        let in_block = rng.chance(1, 2);
        let eol = *rng.pick(&["\n", "\r\n", "\r"]);
        let recur = if depth > 0 && fault.is_runtime() && rng.chance(1, 3) { 1 + rng.below(3) as usize } else { 0 };
        let b = build(&mut rng, fault, depth, recur, after_colon, in_block, eol);
        evaluations += 1;
        sum.count(&format!("fault_{:?}", fault));
        sum.count(&format!("eol_{}", match eol { "\n" => "LF", "\r\n" => "CRLF", _ => "CR" }));
        sum.count(&format!("call_depth_{}", depth));
        if recur > 0 {
            sum.count(&format!("self_recursion_{}", recur));
        }
        let shown = format!("[{:?} depth {} colon {} block {} eol {:?}] {}", fault, depth, after_colon, in_block, eol, b.text.replace('\r', "\\r").replace('\n', "\\n | "));
        let o = run_program(&b.text, &RunOpts { budget: 20_000, ..Default::default() });
        let (kind, row, col, stack): (String, u32, u32, Vec<(u32, u32)>) = match &o {
            Outcome::ParseError { row, col, .. } => ("parse".into(), *row, *col, vec![]),
            Outcome::LintError { row, col, msg } => (format!("lint:{}", msg.split(|c: char| !c.is_alphanumeric()).next().unwrap_or("")), *row, *col, vec![]),
            Outcome::FrontPanic { stage, msg } => (format!("panic in {}: {}", stage, msg.chars().take(80).collect::<String>()), 0, 0, vec![]),
            Outcome::Ran(r) => match &r.end {
                End::Err(code, positions, _) => (format!("run:{}", code), positions.first().map(|p| p.0).unwrap_or(0), positions.first().map(|p| p.1).unwrap_or(0), positions.iter().skip(1).cloned().collect()),
                other => (format!("run ended {:?}", other).chars().take(60).collect(), 0, 0, vec![]),
            },
        };
        if kind != fault.expected() {
            sum.violation(ImplViolation { key: format!("fault-not-diagnosed-as-expected:{:?}", fault), input: shown.clone(), expected: fault.expected().into(), observed: kind.clone() });
            continue;
        }
        if row as usize != b.fault_row {
            sum.violation(ImplViolation { key: format!("wrong-row:{:?}", fault), input: shown.clone(), expected: format!("row {}", b.fault_row), observed: format!("row {} col {}", row, col) });
        } else if (col as usize) < b.fault_col_lo || (col as usize) > b.fault_col_hi {
            sum.violation(ImplViolation { key: format!("column-outside-statement:{:?}", fault), input: shown.clone(), expected: format!("column in {}..{}", b.fault_col_lo, b.fault_col_hi), observed: format!("col {}", col) });
        } else if fault != Fault::Syntax && col as usize != b.fault_col_lo + fault.offset() {
            sum.violation(ImplViolation { key: format!("wrong-column:{:?}", fault), input: shown.clone(), expected: format!("column {} (the token / operator at fault)", b.fault_col_lo + fault.offset()), observed: format!("col {}", col) });
        }
        if fault.is_runtime() {
            let rows: Vec<usize> = stack.iter().map(|p| p.0 as usize).collect();
            if rows != b.call_rows {
                sum.violation(ImplViolation { key: "call-sites-differ".into(), input: shown.clone(), expected: format!("{:?}", b.call_rows), observed: format!("{:?}", rows) });
            }
        }
        // the reported position is the model's position of an index inside the statement
        w.push(Case {
            agree: format!("position_in_range {} {} {} ({}, {})", coq_chars(&b.text), b.fault_char_lo, b.fault_char_hi, row, col),
            desc: format!("fault {}", shown),
            model_expr: format!("map (position_at {}) (seq {} {})", coq_chars(&b.text), b.fault_char_lo, b.fault_char_hi + 1 - b.fault_char_lo),
        });
        sum.nontrivial(b.text.clone());
        if sum.samples.len() < 3 {
            sum.sample(J::s(shown));
        }
    }
    w.flush();
    sum.write(
        &args.out,
        evaluations,
        "value level: random texts (0-29 characters over letters, blank, TAB, colon, quote, apostrophe, a non-ASCII letter, CR and LF freely mixed): the real StringView position of every reader index 0..len vs RowCol.position_at. Fault injection: 10 fault kinds (syntax, type mismatch, undefined label, wrong argument count, division by zero, subscript out of range, overflow, and division by zero / overflow in an operation whose left operand carries a prefix minus or NOT) x call depth 0-3 (a third of the run-time faults in SUBs after 1-3 self-recursive calls from one statement) x directly / after a colon x top level / inside FOR+IF x blank and comment lines anywhere x LF / CRLF / CR; expected: the diagnostic kind, the row of the statement in the file, a column inside the statement AND exactly the column of the offending expression or of the operator of the failing operation (every kind but the syntax error), for run-time faults the rows of the active call sites innermost first; and in Coq: the reported position is the model's position of an index inside the statement's characters. Non-trivial = distinct texts.",
    );
}
