//! Shared pieces of the correspondence harness: PRNG, Coq literal printers,
//! sharded case files, summary JSON.
use std::collections::BTreeMap;
use std::fmt::Write as _;
use std::fs;
use std::path::{Path, PathBuf};

/// SplitMix64: every random choice of a run derives from one state seeded by VERIF_SEED.
pub struct Rng(pub u64);

impl Rng {
    pub fn new(seed: u64) -> Self {
        Rng(seed ^ 0x9E37_79B9_7F4A_7C15)
    }
    pub fn next(&mut self) -> u64 {
        self.0 = self.0.wrapping_add(0x9E37_79B9_7F4A_7C15);
        let mut z = self.0;
        z = (z ^ (z >> 30)).wrapping_mul(0xBF58_476D_1CE4_E5B9);
        z = (z ^ (z >> 27)).wrapping_mul(0x94D0_49BB_1331_11EB);
        z ^ (z >> 31)
    }
    pub fn below(&mut self, n: u64) -> u64 {
        if n == 0 { 0 } else { self.next() % n }
    }
    pub fn range(&mut self, lo: i64, hi: i64) -> i64 {
        lo + self.below((hi - lo + 1) as u64) as i64
    }
    pub fn chance(&mut self, num: u64, den: u64) -> bool {
        self.below(den) < num
    }
    pub fn pick<'a, T>(&mut self, xs: &'a [T]) -> &'a T {
        &xs[self.below(xs.len() as u64) as usize]
    }
}

/// Coq literal for a Z (in Z_scope).
pub fn z(n: i128) -> String {
    if n < 0 { format!("({})", n) } else { format!("{}", n) }
}

pub fn zlist<I: IntoIterator<Item = i128>>(xs: I) -> String {
    let v: Vec<String> = xs.into_iter().map(z).collect();
    format!("[{}]", v.join("; "))
}

pub fn blist(xs: &[bool]) -> String {
    let v: Vec<&str> = xs.iter().map(|b| if *b { "true" } else { "false" }).collect();
    format!("[{}]", v.join("; "))
}

pub fn nat(n: usize) -> String {
    format!("{}%nat", n)
}

/// Coq literal for a byte string as list Z
pub fn bytes(bs: &[u8]) -> String {
    zlist(bs.iter().map(|b| *b as i128))
}

/// One correspondence case: a boolean Coq expression which is `true` when model and
/// implementation agree, a human readable description and the model expression to
/// evaluate when they do not.
pub struct Case {
    pub agree: String,
    pub desc: String,
    pub model_expr: String,
}

pub struct CaseWriter {
    out: PathBuf,
    header: String,
    per_shard: usize,
    cases: Vec<Case>,
    pub total: usize,
    shards: usize,
    prefix: String,
}

impl CaseWriter {
    pub fn new(out: &Path, prefix: &str, header: &str, per_shard: usize) -> Self {
        fs::create_dir_all(out).unwrap();
        CaseWriter {
            out: out.to_path_buf(),
            header: header.to_string(),
            per_shard,
            cases: vec![],
            total: 0,
            shards: 0,
            prefix: prefix.to_string(),
        }
    }

    pub fn push(&mut self, c: Case) {
        self.cases.push(c);
        self.total += 1;
        if self.cases.len() >= self.per_shard {
            self.flush();
        }
    }

    pub fn flush(&mut self) {
        if self.cases.is_empty() {
            return;
        }
        let base = self.total - self.cases.len();
        let mut s = String::new();
        s.push_str(&self.header);
        s.push_str("\nDefinition cases : list (N * bool) := [\n");
        let mut side = String::new();
        for (k, c) in self.cases.iter().enumerate() {
            let id = base + k;
            let sep = if k + 1 == self.cases.len() { "" } else { ";" };
            let _ = writeln!(s, "  ({}%N, {}){}", id, c.agree, sep);
            let _ = writeln!(side, "{}\t{}\t{}", id, c.desc.replace(['\t', '\n'], " "), c.model_expr.replace(['\t', '\n'], " "));
        }
        s.push_str("].\n");
        s.push_str("Definition bad_ids : list N := map fst (filter (fun c => negb (snd c)) cases).\n");
        s.push_str("Eval vm_compute in (N.of_nat (length cases), bad_ids).\n");
        let name = format!("{}_{:03}", self.prefix, self.shards);
        fs::write(self.out.join(format!("{}.v", name)), s).unwrap();
        fs::write(self.out.join(format!("{}.side", name)), side).unwrap();
        self.shards += 1;
        self.cases.clear();
    }
}

/// Minimal JSON value + printer (no external crates).
#[derive(Clone, Debug)]
pub enum J {
    Null,
    B(bool),
    I(i128),
    S(String),
    A(Vec<J>),
    O(BTreeMap<String, J>),
}

impl J {
    pub fn obj() -> J {
        J::O(BTreeMap::new())
    }
    pub fn set(&mut self, k: &str, v: J) -> &mut Self {
        if let J::O(m) = self {
            m.insert(k.to_string(), v);
        }
        self
    }
    pub fn s<T: Into<String>>(x: T) -> J {
        J::S(x.into())
    }
    pub fn render(&self, out: &mut String) {
        match self {
            J::Null => out.push_str("null"),
            J::B(b) => out.push_str(if *b { "true" } else { "false" }),
            J::I(i) => {
                let _ = write!(out, "{}", i);
            }
            J::S(s) => {
                out.push('"');
                for ch in s.chars() {
                    match ch {
                        '"' => out.push_str("\\\""),
                        '\\' => out.push_str("\\\\"),
                        '\n' => out.push_str("\\n"),
                        '\r' => out.push_str("\\r"),
                        '\t' => out.push_str("\\t"),
                        c if (c as u32) < 0x20 => {
                            let _ = write!(out, "\\u{:04x}", c as u32);
                        }
                        c => out.push(c),
                    }
                }
                out.push('"');
            }
            J::A(v) => {
                out.push('[');
                for (i, x) in v.iter().enumerate() {
                    if i > 0 {
                        out.push(',');
                    }
                    x.render(out);
                }
                out.push(']');
            }
            J::O(m) => {
                out.push('{');
                for (i, (k, v)) in m.iter().enumerate() {
                    if i > 0 {
                        out.push(',');
                    }
                    J::S(k.clone()).render(out);
                    out.push(':');
                    v.render(out);
                }
                out.push('}');
            }
        }
    }
    pub fn to_string(&self) -> String {
        let mut s = String::new();
        self.render(&mut s);
        s
    }
}

/// A violation of the property observed on the implementation itself (stage 5).
pub struct ImplViolation {
    /// stable key used to match known findings
    pub key: String,
    pub input: String,
    pub expected: String,
    pub observed: String,
}

pub struct Summary {
    pub j: J,
    pub violations: Vec<ImplViolation>,
    pub histogram: BTreeMap<String, i128>,
    pub samples: Vec<J>,
    pub distinct: std::collections::BTreeSet<String>,
}

impl Summary {
    pub fn new() -> Self {
        Summary {
            j: J::obj(),
            violations: vec![],
            histogram: BTreeMap::new(),
            samples: vec![],
            distinct: Default::default(),
        }
    }
    pub fn count(&mut self, k: &str) {
        *self.histogram.entry(k.to_string()).or_insert(0) += 1;
    }
    pub fn sample(&mut self, j: J) {
        if self.samples.len() < 8 {
            self.samples.push(j);
        }
    }
    /// records a distinct non-trivial case by its canonical text
    pub fn nontrivial(&mut self, canon: String) {
        self.distinct.insert(canon);
    }
    pub fn violation(&mut self, v: ImplViolation) {
        if self.violations.len() < 200 {
            self.violations.push(v);
        }
    }
    pub fn write(mut self, out: &Path, evaluations: usize, rule: &str) {
        let mut h = J::obj();
        for (k, v) in &self.histogram {
            h.set(k, J::I(*v));
        }
        let viol: Vec<J> = self
            .violations
            .iter()
            .map(|v| {
                let mut o = J::obj();
                o.set("key", J::s(&v.key))
                    .set("input", J::s(&v.input))
                    .set("expected", J::s(&v.expected))
                    .set("observed", J::s(&v.observed));
                o
            })
            .collect();
        self.j
            .set("evaluations", J::I(evaluations as i128))
            .set("distinct_nontrivial", J::I(self.distinct.len() as i128))
            .set("rule", J::s(rule))
            .set("distribution", h)
            .set("samples", J::A(self.samples.clone()))
            .set("impl_violations", J::A(viol));
        fs::write(out.join("summary.json"), self.j.to_string()).unwrap();
    }
}

pub struct Args {
    pub tier: String,
    pub seed: u64,
    pub out: PathBuf,
    pub extra: Vec<String>,
}

impl Args {
    pub fn thorough(&self) -> bool {
        self.tier == "thorough"
    }
}

/// Runs `f`, turning a Rust panic into `Err(message)`.
pub fn guard<T, F: FnOnce() -> T + std::panic::UnwindSafe>(f: F) -> Result<T, String> {
    match std::panic::catch_unwind(f) {
        Ok(v) => Ok(v),
        Err(e) => {
            let msg = if let Some(s) = e.downcast_ref::<&str>() {
                s.to_string()
            } else if let Some(s) = e.downcast_ref::<String>() {
                s.clone()
            } else {
                "panic".to_string()
            };
            Err(msg)
        }
    }
}

/// Silences the default panic message (panics are caught and reported as outcomes).
pub fn quiet_panics() {
    std::panic::set_hook(Box::new(|_| {}));
}
