//! Program sources shared by several properties:
//!  * `corpus()`  : every BASIC program text found in the repository itself (fixtures/*.BAS and the
//!                  raw string literals of the crates' test modules),
//!  * `PGen`      : a generator of terminating programs with SUBs, FUNCTIONs (by-reference and
//!                  by-value parameters, bounded recursion), GOSUB/RETURN, arrays, ON ERROR,
//!                  SELECT CASE, FOR/WHILE/DO and string built-ins.
use std::fmt::Write as _;
use std::fs;
use std::path::Path;

use crate::common::Rng;

fn walk(dir: &Path, out: &mut Vec<std::path::PathBuf>) {
    if let Ok(rd) = fs::read_dir(dir) {
        let mut entries: Vec<_> = rd.filter_map(|e| e.ok()).map(|e| e.path()).collect();
        entries.sort();
        for p in entries {
            if p.is_dir() {
                if p.file_name().map(|n| n == "target" || n == ".git").unwrap_or(false) {
                    continue;
                }
                walk(&p, out);
            } else {
                out.push(p);
            }
        }
    }
}

/// (origin, text) of every candidate program text in /repo; not all of them are meant to be accepted
pub fn corpus() -> Vec<(String, String)> {
    let mut files = vec![];
    walk(Path::new("/repo"), &mut files);
    let mut res: Vec<(String, String)> = vec![];
    for f in files {
        let name = f.to_string_lossy().to_string();
        let lower = name.to_lowercase();
        if lower.ends_with(".bas") {
            if let Ok(bytes) = fs::read(&f) {
                res.push((name.clone(), String::from_utf8_lossy(&bytes).to_string()));
            }
        } else if lower.ends_with(".rs") {
            if let Ok(text) = fs::read_to_string(&f) {
                // raw string literals r#"..."#
                let mut rest: &str = &text;
                let mut k = 0;
                while let Some(i) = rest.find("r#\"") {
                    let after = &rest[i + 3..];
                    match after.find("\"#") {
                        Some(j) => {
                            let body = &after[..j];
                            if body.len() > 3 && body.len() < 20_000 {
                                res.push((format!("{}#{}", name, k), body.to_string()));
                                k += 1;
                            }
                            rest = &after[j + 2..];
                        }
                        None => break,
                    }
                }
            }
        }
    }
    res
}

pub struct PGen<'a> {
    pub rng: &'a mut Rng,
    out: String,
    indent: usize,
    counter: usize,
    n_subs: usize,
    n_funs: usize,
    n_gosubs: usize,
    in_proc: bool,
    pub with_errors: bool,
}

const IVARS: [&str; 4] = ["A%", "B%", "C%", "N%"];

impl<'a> PGen<'a> {
    pub fn new(rng: &'a mut Rng) -> Self {
        PGen { rng, out: String::new(), indent: 0, counter: 0, n_subs: 0, n_funs: 0, n_gosubs: 0, in_proc: false, with_errors: false }
    }

    fn line(&mut self, s: &str) {
        for _ in 0..self.indent {
            self.out.push_str("  ");
        }
        self.out.push_str(s);
        self.out.push('\n');
    }

    fn fresh(&mut self) -> usize {
        self.counter += 1;
        self.counter
    }

    fn ivar(&mut self) -> String {
        self.rng.pick(&IVARS).to_string()
    }

    fn atom(&mut self) -> String {
        match self.rng.below(8) {
            0 | 1 => self.ivar(),
            2 => format!("{}", self.rng.range(0, 9)),
            3 => format!("ARR%({})", self.rng.range(0, 5)),
            4 => "LEN(S$)".to_string(),
            5 => format!("{}", self.rng.range(-3, 40)),
            6 if self.with_errors => format!("ARR%({})", self.rng.range(4, 8)), // may be out of range
            _ => self.ivar(),
        }
    }

    pub fn expr(&mut self, depth: u32) -> String {
        if depth == 0 || self.rng.chance(1, 3) {
            return self.atom();
        }
        match self.rng.below(9) {
            0 | 1 => format!("({} + {})", self.expr(depth - 1), self.expr(depth - 1)),
            2 => format!("({} - {})", self.expr(depth - 1), self.expr(depth - 1)),
            3 => format!("({} MOD {})", self.expr(depth - 1), self.rng.range(2, 7)),
            4 if self.n_funs > 0 => {
                let f = self.rng.below(self.n_funs as u64) + 1;
                format!("F{}%({}, {})", f, self.expr(depth - 1), self.atom())
            }
            5 => format!("({} * {})", self.atom(), self.rng.range(0, 4)),
            6 if self.with_errors => format!("({} / {})", self.expr(depth - 1), self.atom()),
            7 => format!("({} < {})", self.expr(depth - 1), self.expr(depth - 1)),
            _ => format!("({} + {})", self.atom(), self.atom()),
        }
    }

    fn cond(&mut self) -> String {
        let op = *self.rng.pick(&["<", "<=", "=", ">=", ">", "<>"]);
        format!("{} {} {}", self.expr(1), op, self.expr(1))
    }

    fn sexpr(&mut self) -> String {
        match self.rng.below(6) {
            0 => "S$".into(),
            1 => "\"ab\"".into(),
            2 => format!("LEFT$(S$ + \"xyz\", {})", self.rng.range(0, 4)),
            3 => format!("STR$({})", self.atom()),
            4 => "S$ + \"q\"".into(),
            _ => format!("MID$(\"hello\", {}, {})", self.rng.range(1, 5), self.rng.range(0, 3)),
        }
    }

    fn block(&mut self, depth: u32, n: usize) {
        self.indent += 1;
        let k = 1 + self.rng.below(n as u64) as usize;
        for _ in 0..k {
            self.stmt(depth);
        }
        self.indent -= 1;
    }

    pub fn stmt(&mut self, depth: u32) {
        let choice = self.rng.below(if depth == 0 { 6 } else { 14 });
        match choice {
            0 | 1 => {
                let v = self.ivar();
                let e = self.expr(2);
                self.line(&format!("{} = {}", v, e));
            }
            2 => {
                let e = self.expr(1);
                let sep = *self.rng.pick(&[";", ",", ""]);
                let tail = if sep.is_empty() { "".to_string() } else { format!(" {} {}", sep, self.atom()) };
                self.line(&format!("PRINT {}{}", e, tail));
            }
            3 => {
                let i = self.rng.range(0, 5);
                let e = self.expr(1);
                self.line(&format!("ARR%({}) = {}", i, e));
            }
            4 => {
                let e = self.sexpr();
                self.line(&format!("S$ = {}", e));
            }
            5 => {
                if self.n_subs > 0 {
                    let s = self.rng.below(self.n_subs as u64) + 1;
                    let a = if self.rng.chance(1, 2) { self.ivar() } else { format!("({})", self.expr(1)) };
                    let b = self.expr(1);
                    self.line(&format!("P{} {}, {}", s, a, b));
                } else {
                    self.line("PRINT S$");
                }
            }
            6 => {
                let c = self.cond();
                self.line(&format!("IF {} THEN", c));
                self.block(depth - 1, 2);
                if self.rng.chance(1, 3) {
                    let c2 = self.cond();
                    self.line(&format!("ELSEIF {} THEN", c2));
                    self.block(depth - 1, 2);
                }
                if self.rng.chance(1, 2) {
                    self.line("ELSE");
                    self.block(depth - 1, 2);
                }
                self.line("END IF");
            }
            7 => {
                let id = self.fresh();
                let v = format!("I{}%", id);
                let (lo, hi, step) = match self.rng.below(4) {
                    0 => (1, 3, ""),
                    1 => (3, 1, " STEP -1"),
                    2 => (0, 4, " STEP 2"),
                    _ => (2, 2, ""),
                };
                self.line(&format!("FOR {} = {} TO {}{}", v, lo, hi, step));
                self.block(depth - 1, 2);
                self.line("NEXT");
            }
            8 => {
                let id = self.fresh();
                let v = format!("W{}%", id);
                self.line(&format!("{} = 0", v));
                if self.rng.chance(1, 2) {
                    let lim = self.rng.range(1, 3);
                    self.line(&format!("WHILE {} < {}", v, lim));
                    self.block(depth - 1, 2);
                    self.indent += 1;
                    self.line(&format!("{} = {} + 1", v, v));
                    self.indent -= 1;
                    self.line("WEND");
                } else {
                    self.line("DO");
                    self.block(depth - 1, 2);
                    self.indent += 1;
                    self.line(&format!("{} = {} + 1", v, v));
                    self.indent -= 1;
                    let lim = self.rng.range(1, 3);
                    self.line(&format!("LOOP UNTIL {} >= {}", v, lim));
                }
            }
            9 => {
                let e = self.expr(1);
                self.line(&format!("SELECT CASE {}", e));
                let n = self.rng.below(4);
                for _ in 0..n {
                    let c = match self.rng.below(3) {
                        0 => format!("CASE {}", self.rng.range(0, 9)),
                        1 => format!("CASE {} TO {}", self.rng.range(0, 4), self.rng.range(4, 9)),
                        _ => format!("CASE IS > {}, {}", self.rng.range(3, 9), self.rng.range(0, 3)),
                    };
                    self.line(&c);
                    self.block(depth - 1, 2);
                }
                if self.rng.chance(1, 2) {
                    self.line("CASE ELSE");
                    self.block(depth - 1, 1);
                }
                self.line("END SELECT");
            }
            10 => {
                if !self.in_proc && self.n_gosubs > 0 {
                    let g = self.rng.below(self.n_gosubs as u64) + 1;
                    self.line(&format!("GOSUB Routine{}", g));
                } else {
                    let e = self.expr(2);
                    self.line(&format!("PRINT {}", e));
                }
            }
            11 => {
                if self.n_funs > 0 {
                    let f = self.rng.below(self.n_funs as u64) + 1;
                    let v = self.ivar();
                    let a = self.expr(1);
                    let w = self.ivar();
                    self.line(&format!("{} = F{}%({}, {})", v, f, a, w));
                } else {
                    self.line("PRINT \"x\"");
                }
            }
            12 => {
                let e = self.sexpr();
                self.line(&format!("PRINT {}; LEN(S$)", e));
            }
            _ => {
                let v = self.ivar();
                let e = self.expr(2);
                self.line(&format!("{} = {}", v, e));
            }
        }
    }

    /// a whole program; `depth` bounds the nesting of blocks
    pub fn program(mut self, depth: u32) -> String {
        self.n_subs = self.rng.below(3) as usize;
        self.n_funs = self.rng.below(3) as usize;
        self.n_gosubs = self.rng.below(3) as usize;
        self.line("DIM SHARED ARR%(5)");
        self.line("N% = 2");
        if self.with_errors {
            if self.rng.chance(1, 2) {
                self.line("ON ERROR GOTO Handler");
            } else {
                self.line("ON ERROR RESUME NEXT");
            }
        }
        let n = 2 + self.rng.below(5);
        for _ in 0..n {
            self.stmt(depth);
        }
        self.line("PRINT A%; B%; C%; N%; S$");
        self.line("END");
        for g in 1..=self.n_gosubs {
            self.line(&format!("Routine{}:", g));
            let saved = self.n_gosubs;
            self.n_gosubs = g - 1; // only earlier routines: no cycles
            self.block(1, 2);
            self.n_gosubs = saved;
            self.line("RETURN");
        }
        if self.with_errors {
            self.line("Handler:");
            self.line("  PRINT \"E\"; ERR");
            self.line("  RESUME NEXT");
        }
        let (ns, nf) = (self.n_subs, self.n_funs);
        self.in_proc = true;
        for s in 1..=ns {
            let _ = write!(self.out, "SUB P{} (X%, Y%)\n", s);
            self.n_subs = s - 1; // call only earlier subs: no recursion between subs
            self.indent = 1;
            self.line("X% = X% + 1");
            let k = 1 + self.rng.below(3);
            for _ in 0..k {
                self.stmt(1);
            }
            if self.rng.chance(1, 3) {
                self.line("IF Y% > 5 THEN EXIT SUB");
                self.line("PRINT \"sub\"; X%; Y%");
            }
            self.indent = 0;
            self.line("END SUB");
        }
        self.n_subs = ns;
        for f in 1..=nf {
            let _ = write!(self.out, "FUNCTION F{}% (X%, Y%)\n", f);
            self.n_funs = f - 1;
            self.indent = 1;
            // bounded recursion on the first parameter
            if self.rng.chance(1, 2) {
                self.line(&format!("IF X% > 0 AND X% < 4 THEN F{}% = F{}%(X% - 1, Y%) + 1 ELSE F{}% = Y% MOD 7", f, f, f));
            } else {
                let e = self.expr(1);
                self.line(&format!("F{}% = X% + ({}) MOD 5", f, e));
            }
            if self.rng.chance(1, 2) {
                self.line("Y% = Y% + 1");
            }
            self.indent = 0;
            self.line("END FUNCTION");
        }
        self.out
    }
}
