//! C12 - the static checker is sound for types and its verdicts are stable.
//!  * accepted programs (core generator, procedural generator, repository programs) never end with
//!    Type mismatch (13) and never panic on an operand of the wrong kind;
//!  * for core programs the checker's verdict is compared with `Typing.wt_program` in Coq, on accepted
//!    programs and on programs made ill-typed by one edit;
//!  * one local ill-forming edit is rejected with an error of the matching family in the edited line;
//!  * consistent renaming of identifiers changes neither the verdict nor the output.
use crate::c01::*;
use crate::common::*;
use crate::pgen::{PGen, corpus};
use crate::runner::*;

pub const HEADER12: &str = "From Coq Require Import List ZArith Bool NArith Floats.SpecFloat.\nFrom RB Require Import Base.Util Generated.Tables Val.Variant Lang.Ast Lang.Typing.\nImport ListNotations.\nLocal Open Scope nat_scope.\n";

fn family(msg: &str) -> &'static str {
    if msg.contains("ArgumentTypeMismatch") || msg.contains("TypeMismatch") {
        "type"
    } else if msg.contains("LabelNotDefined") {
        "label"
    } else if msg.contains("ArgumentCountMismatch") {
        "argcount"
    } else if msg.contains("DuplicateDefinition") {
        "duplicate"
    } else if msg.contains("NextWithoutFor") {
        "next"
    } else {
        "other"
    }
}

/// (class, row) of what happens to a program: "accepted", "parse", or a checker error family
fn verdict(o: &Outcome) -> (String, u32) {
    match o {
        Outcome::Ran(_) => ("accepted".into(), 0),
        Outcome::ParseError { row, .. } => ("parse".into(), *row),
        Outcome::LintError { row, msg, .. } => (family(msg).to_string(), *row),
        Outcome::FrontPanic { stage, msg } => (format!("panic in {}: {}", stage, msg.chars().take(80).collect::<String>()), 0),
    }
}

fn output_of(o: &Outcome) -> String {
    match o {
        Outcome::Ran(r) => format!("{:?}|{}", match &r.end { End::Ok => "ok".to_string(), End::Err(c, ..) => format!("error {}", c), End::Panic(m) => format!("panic {}", m), End::Budget => "budget".into() }, String::from_utf8_lossy(&r.stdout)),
        other => format!("{:?}", verdict(other)),
    }
}

/// applies `f` to the n-th statement (pre-order); returns true when it was applied
fn with_nth(block: &mut Vec<S>, n: &mut usize, f: &mut dyn FnMut(&mut S) -> bool) -> bool {
    for st in block.iter_mut() {
        if *n == 0 {
            return f(st);
        }
        *n -= 1;
        let done = match &mut st.k {
            SK::If(_, thn, elifs, els) => {
                let mut d = with_nth(thn, n, f);
                for (_, b) in elifs.iter_mut() {
                    if !d && *n != usize::MAX {
                        d = with_nth(b, n, f);
                    }
                }
                if let Some(b) = els {
                    if !d {
                        d = with_nth(b, n, f);
                    }
                }
                d
            }
            SK::While(_, b) | SK::Do(_, _, _, b) | SK::For(_, _, _, _, b) => with_nth(b, n, f),
            SK::Select(_, cases, els) => {
                let mut d = false;
                for (_, b) in cases.iter_mut() {
                    if !d {
                        d = with_nth(b, n, f);
                    }
                }
                if let Some(b) = els {
                    if !d {
                        d = with_nth(b, n, f);
                    }
                }
                d
            }
            _ => false,
        };
        if done {
            return true;
        }
    }
    false
}

fn count_stmts(block: &[S]) -> usize {
    block
        .iter()
        .map(|st| {
            1 + match &st.k {
                SK::If(_, thn, elifs, els) => count_stmts(thn) + elifs.iter().map(|(_, b)| count_stmts(b)).sum::<usize>() + els.as_ref().map(|b| count_stmts(b)).unwrap_or(0),
                SK::While(_, b) | SK::Do(_, _, _, b) | SK::For(_, _, _, _, b) => count_stmts(b),
                SK::Select(_, cases, els) => cases.iter().map(|(_, b)| count_stmts(b)).sum::<usize>() + els.as_ref().map(|b| count_stmts(b)).unwrap_or(0),
                _ => 0,
            }
        })
        .sum()
}

fn is_numeric_expr(x: &E) -> bool {
    match &x.k {
        EK::Lit(Lit::Str(_)) => false,
        EK::Lit(_) => true,
        EK::Var(n) => !n.ends_with('$'),
        EK::Bin(op, l, _) => *op < 6 || is_numeric_expr(l),
        EK::Un(..) => true,
        EK::Paren(c) => is_numeric_expr(c),
    }
}

/// makes one statement ill-typed; returns the kind of edit
fn ill_type(st: &mut S, choice: u64) -> bool {
    let strlit = || e(EK::Lit(Lit::Str("zz".into())));
    let plus = bop_index(rusty_parser::Operator::Plus);
    let times = bop_index(rusty_parser::Operator::Multiply);
    match &mut st.k {
        SK::Assign(n, x) => {
            if n.ends_with('$') {
                // a number into a string variable
                *x = e(EK::Lit(Lit::Int(5)));
            } else if choice % 2 == 0 && is_numeric_expr(x) {
                // string operand for arithmetic, nested in parentheses
                *x = e(EK::Bin(plus, Box::new(x.clone()), Box::new(e(EK::Paren(Box::new(e(EK::Bin(times, Box::new(e(EK::Lit(Lit::Int(2)))), Box::new(strlit())))))))));
            } else {
                *x = strlit();
            }
            true
        }
        SK::Print(args) => {
            // a PRINT list item with a string operand for arithmetic
            args.push(PArg::Semi);
            args.push(PArg::Expr(e(EK::Bin(times, Box::new(e(EK::Lit(Lit::Int(3)))), Box::new(strlit())))));
            true
        }
        SK::If(c, ..) | SK::While(c, _) | SK::Do(_, _, c, _) => {
            *c = strlit();
            true
        }
        SK::For(_, lo, hi, step, _) => {
            match choice % 3 {
                0 => *lo = strlit(),
                1 => *hi = strlit(),
                _ => *step = Some(strlit()),
            }
            true
        }
        SK::Select(x, cases, _) => {
            if cases.is_empty() || !is_numeric_expr(x) {
                return false;
            }
            // a CASE list item of the other kind
            cases[0].0.push(CaseE::Simple(strlit()));
            true
        }
        SK::IfLine(..) | SK::Data(_) | SK::Read(_) => false,
    }
}

fn rename(src: &str) -> String {
    // consistent renaming of the generator's identifiers; longest names first
    let pairs: [(&str, &str); 14] = [
        ("Routine", "ZLabel"),
        ("ARR%", "QARR%"),
        ("A%", "QA%"),
        ("B%", "QB%"),
        ("C%", "QC%"),
        ("N%", "QN%"),
        ("X%", "QX%"),
        ("Y%", "QY%"),
        ("S$", "QS$"),
        ("C&", "QC&"),
        ("D!", "QD!"),
        ("E#", "QE#"),
        ("F%", "QF%"),
        ("T$", "QT$"),
    ];
    let mut out = String::new();
    let b = src.as_bytes();
    let mut i = 0;
    'outer: while i < b.len() {
        let at_boundary = i == 0 || !(b[i - 1].is_ascii_alphanumeric());
        if at_boundary {
            for (from, to) in pairs.iter() {
                if src[i..].starts_with(from) {
                    out.push_str(to);
                    i += from.len();
                    continue 'outer;
                }
            }
        }
        out.push(b[i] as char);
        i += 1;
    }
    out
}

pub fn run(args: &Args) {
    let mut rng = Rng::new(args.seed);
    let mut sum = Summary::new();
    let mut w = CaseWriter::new(&args.out, "c12", HEADER12, 150);
    let mut evaluations = 0usize;

    // ---- 0: every operator on every pair of operand types, as variables and as literals: the
    // verdict is the language rule (strings concatenate and compare with strings; numbers take every
    // operator; nothing mixes), and an accepted statement never ends with Type mismatch
    {
        let ops = ["<", "<=", "=", ">=", ">", "<>", "+", "-", "*", "/", "MOD", "AND", "OR"];
        let vars = [("I%", "3"), ("L&", "100000"), ("S!", "2.5"), ("D#", "0.25#"), ("T$", "\"ab\"")];
        for (li, (lv, ll)) in vars.iter().enumerate() {
            for (ri, (rv, rl)) in vars.iter().enumerate() {
                for op in ops.iter() {
                    let l_str = li == 4;
                    let r_str = ri == 4;
                    let expect_accept = if l_str && r_str { ["<", "<=", "=", ">=", ">", "<>", "+"].contains(op) } else { !l_str && !r_str };
                    for form in 0..2 {
                        let (a, b) = if form == 0 { (lv.to_string(), rv.to_string()) } else { (ll.to_string(), rl.to_string()) };
                        let src = format!("I% = 3\nL& = 100000\nS! = 2.5\nD# = 0.25\nT$ = \"ab\"\nPRINT {} {} {}\n", a, op, b);
                        evaluations += 1;
                        let o = run_program(&src, &RunOpts::default());
                        let accepted = matches!(o, Outcome::Ran(_));
                        sum.count(if expect_accept { "operator_pairs_accepted_by_rule" } else { "operator_pairs_rejected_by_rule" });
                        if accepted != expect_accept {
                            sum.violation(ImplViolation { key: format!("operator-verdict:{}", op), input: src.replace('\n', " | "), expected: if expect_accept { "accepted".into() } else { "Type mismatch from the checker".into() }, observed: format!("{:?}", verdict(&o)) });
                        } else if let Outcome::Ran(r) = &o {
                            if let End::Err(13, ..) = r.end {
                                sum.violation(ImplViolation { key: format!("type-mismatch-at-run-time:{}", op), input: src.replace('\n', " | "), expected: "no Type mismatch in an accepted program".into(), observed: format!("{:?}", r.end) });
                            }
                        } else if let Outcome::LintError { msg, .. } = &o {
                            if family(msg) != "type" {
                                sum.violation(ImplViolation { key: format!("operator-verdict:{}", op), input: src.replace('\n', " | "), expected: "an error of the type family".into(), observed: msg.clone() });
                            }
                        }
                    }
                }
            }
        }
    }

    // ---- 0b: what may stand as a condition: numbers of every type; never strings, records, whole arrays
    {
        let pre = "TYPE Card\nValue AS INTEGER\nInner AS Pt\nEND TYPE\n";
        let pre = format!("TYPE Pt\nX AS INTEGER\nEND TYPE\n{}DIM c AS Card\nDIM deck(1 TO 2) AS Card\nDIM nums(1 TO 2) AS INTEGER\nDIM fs AS STRING * 3\ns$ = \"a\"\ni% = 1\nl& = 1\nf! = 1\nd# = 1\n", pre);
        let values: [(&str, bool); 14] = [
            ("i%", true), ("l&", true), ("f!", true), ("d#", true), ("c.Value", true), ("deck(1).Value", true), ("nums(1)", true), ("c.Inner.X", true),
            ("c", false), ("deck(2)", false), ("c.Inner", false), ("s$", false), ("fs", false), ("\"x\"", false),
        ];
        let shapes = [
            "IF {V} THEN\nPRINT 1\nEND IF\n",
            "IF 0 THEN\nPRINT 1\nELSEIF {V} THEN\nPRINT 2\nEND IF\n",
            "IF {V} THEN PRINT 1\n",
            "K9% = 0\nWHILE {V}\nK9% = K9% + 1\nIF K9% > 1 THEN EXIT WHILE\nWEND\n",
            "K9% = 0\nDO WHILE {V}\nK9% = K9% + 1\nIF K9% > 1 THEN GOTO Out9\nLOOP\nOut9:\n",
            "K9% = 0\nDO UNTIL {V}\nK9% = K9% + 1\nIF K9% > 1 THEN GOTO Out9\nLOOP\nOut9:\n",
            "K9% = 0\nDO\nK9% = K9% + 1\nIF K9% > 1 THEN GOTO Out9\nLOOP WHILE {V}\nOut9:\n",
            "K9% = 0\nDO\nK9% = K9% + 1\nIF K9% > 1 THEN GOTO Out9\nLOOP UNTIL {V}\nOut9:\n",
        ];
        for (v, ok) in values.iter() {
            for (si, shape) in shapes.iter().enumerate() {
                // EXIT WHILE is not BASIC: the WHILE shape leaves through its own condition instead
                let body = if si == 3 { "K9% = 0\nWHILE {V}\nK9% = K9% + 1\nIF K9% > 1 THEN GOTO Out9\nWEND\nOut9:\n".to_string() } else { shape.to_string() };
                let src = format!("{}{}", pre, body.replace("{V}", v));
                evaluations += 1;
                let o = run_program(&src, &RunOpts { budget: 5_000, ..Default::default() });
                sum.count(if *ok { "conditions_numeric" } else { "conditions_not_numeric" });
                match &o {
                    Outcome::Ran(r) => {
                        if !*ok {
                            sum.violation(ImplViolation { key: "condition-verdict".into(), input: src.replace('\n', " | "), expected: "Type mismatch from the checker".into(), observed: format!("accepted, then {:?}", r.end).chars().take(160).collect() });
                        } else if let End::Err(13, ..) = r.end {
                            sum.violation(ImplViolation { key: "type-mismatch-at-run-time:condition".into(), input: src.replace('\n', " | "), expected: "no Type mismatch in an accepted program".into(), observed: format!("{:?}", r.end) });
                        }
                    }
                    Outcome::LintError { msg, .. } => {
                        if *ok || family(msg) != "type" {
                            sum.violation(ImplViolation { key: "condition-verdict".into(), input: src.replace('\n', " | "), expected: if *ok { "accepted".into() } else { "an error of the type family".into() }, observed: msg.clone() });
                        }
                    }
                    other => {
                        sum.violation(ImplViolation { key: "condition-verdict".into(), input: src.replace('\n', " | "), expected: "accepted or Type mismatch".into(), observed: format!("{:?}", verdict(other)) });
                    }
                }
            }
        }
    }

    // ---- 0c: what may count a FOR loop: a numeric variable of any type; never a string or a record
    {
        let pre = "TYPE Card\nValue AS INTEGER\nEND TYPE\nDIM c AS Card\nDIM fs AS STRING * 3\nDIM l AS LONG\n";
        for (v, ok) in [("i%", true), ("k&", true), ("f!", true), ("d#", true), ("l", true), ("n", true), ("c", false), ("s$", false), ("fs", false)] {
            for step in ["", " STEP 1", " STEP -1"] {
                let src = format!("{}FOR {} = 1 TO 2{}\nPRINT 1\nNEXT\n", pre, v, step);
                evaluations += 1;
                sum.count(if ok { "for_counters_numeric" } else { "for_counters_not_numeric" });
                match &run_program(&src, &RunOpts { budget: 5_000, ..Default::default() }) {
                    Outcome::Ran(r) => {
                        if !ok {
                            sum.violation(ImplViolation { key: "for-counter-verdict".into(), input: src.replace('\n', " | "), expected: "Type mismatch from the checker".into(), observed: format!("accepted, then {:?}", r.end).chars().take(160).collect() });
                        } else if let End::Err(13, ..) = r.end {
                            sum.violation(ImplViolation { key: "type-mismatch-at-run-time:for".into(), input: src.replace('\n', " | "), expected: "no Type mismatch in an accepted program".into(), observed: format!("{:?}", r.end) });
                        }
                    }
                    Outcome::LintError { msg, .. } => {
                        if ok || family(msg) != "type" {
                            sum.violation(ImplViolation { key: "for-counter-verdict".into(), input: src.replace('\n', " | "), expected: if ok { "accepted".into() } else { "an error of the type family".into() }, observed: msg.clone() });
                        }
                    }
                    other => sum.violation(ImplViolation { key: "for-counter-verdict".into(), input: src.replace('\n', " | "), expected: "accepted or Type mismatch".into(), observed: format!("{:?}", verdict(other)) }),
                }
            }
        }
    }

    // ---- A/B: core programs, verdict against the Coq typing model
    let n_core = if args.thorough() { 1200 } else { 350 };
    for k in 0..n_core {
        let mut g = Gen { rng: &mut rng, loop_counter: 0 };
        let mut prog = g.program(2 + (k % 2) as u32, 4);
        let src = print_program(&mut prog);
        evaluations += 1;
        let o = run_program(&src, &RunOpts { budget: 30_000, ..Default::default() });
        let one_line = src.replace('\n', " | ");
        match &o {
            Outcome::Ran(r) => {
                sum.count("core_accepted");
                if let End::Err(13, ..) = r.end {
                    sum.violation(ImplViolation { key: "type-mismatch-at-run-time".into(), input: one_line.clone(), expected: "no Type mismatch in an accepted program".into(), observed: format!("{:?}", r.end) });
                }
                if let End::Panic(m) = &r.end {
                    sum.violation(ImplViolation { key: "panic-at-run-time".into(), input: one_line.clone(), expected: "no panic in an accepted program".into(), observed: m.clone() });
                }
                w.push(Case { agree: format!("Bool.eqb (wt_program {}) true", coq_program(&prog)), desc: format!("accepted {}", one_line), model_expr: format!("wt_program {}", coq_program(&prog)) });
            }
            other => {
                sum.violation(ImplViolation { key: "generated-program-rejected".into(), input: one_line.clone(), expected: "accepted".into(), observed: format!("{:?}", verdict(other)) });
                continue;
            }
        }
        // one ill-typing edit
        let total = count_stmts(&prog);
        let mut edited = prog.clone();
        let mut target = rng.below(total as u64) as usize;
        let choice = rng.next();
        let mut row_probe: Option<usize> = None;
        let picked = target;
        let applied = with_nth(&mut edited, &mut target, &mut |st: &mut S| ill_type(st, choice));
        if !applied {
            sum.count("edit_not_applicable");
            continue;
        }
        let esrc = print_program(&mut edited);
        // the row of the edited statement (positions are filled in by the printer)
        {
            let mut t = picked;
            let mut probe = edited.clone();
            with_nth(&mut probe, &mut t, &mut |st: &mut S| {
                row_probe = Some(st.pos.0 as usize);
                true
            });
        }
        evaluations += 1;
        let eo = run_program(&esrc, &RunOpts { budget: 30_000, ..Default::default() });
        let (class, row) = verdict(&eo);
        let eline = esrc.replace('\n', " | ");
        sum.count(&format!("ill_typed_{}", class.split(' ').next().unwrap()));
        if class != "type" {
            sum.violation(ImplViolation { key: format!("ill-typed-program-not-rejected:{}", class.split(' ').next().unwrap()), input: eline.clone(), expected: "rejected with Type mismatch".into(), observed: format!("{} {}", class, output_of(&eo).chars().take(200).collect::<String>()) });
        } else if let Some(r) = row_probe {
            // the error is located in the edited statement (a block statement spans several rows: its first row or below)
            if (row as usize) < r {
                sum.violation(ImplViolation { key: "type-error-located-before-the-edit".into(), input: eline.clone(), expected: format!("row >= {}", r), observed: format!("row {}", row) });
            }
        }
        w.push(Case { agree: format!("Bool.eqb (wt_program {}) false", coq_program(&edited)), desc: format!("ill-typed {}", eline), model_expr: format!("wt_program {}", coq_program(&edited)) });
        sum.nontrivial(esrc.clone());
        // renaming keeps the verdict
        let ro = run_program(&rename(&esrc), &RunOpts { budget: 30_000, ..Default::default() });
        if verdict(&ro) != (class.clone(), row) {
            sum.violation(ImplViolation { key: "verdict-changes-under-renaming".into(), input: eline.clone(), expected: format!("{:?}", (class, row)), observed: format!("{:?}", verdict(&ro)) });
        }
        let ro2 = run_program(&rename(&src), &RunOpts { budget: 30_000, ..Default::default() });
        if output_of(&ro2) != output_of(&o) {
            sum.violation(ImplViolation { key: "behaviour-changes-under-renaming".into(), input: one_line.clone(), expected: output_of(&o).chars().take(200).collect(), observed: output_of(&ro2).chars().take(200).collect() });
        }
    }

    // ---- C/D: programs with procedures; line edits
    let n_proc = if args.thorough() { 900 } else { 300 };
    for k in 0..n_proc {
        let g = PGen::new(&mut rng);
        let src = g.program(1 + (k % 3) as u32);
        evaluations += 1;
        let o = run_program(&src, &RunOpts { budget: 40_000, ..Default::default() });
        let one_line: String = src.replace('\n', " | ").chars().take(600).collect();
        match &o {
            Outcome::Ran(r) => {
                sum.count("procedural_accepted");
                if let End::Err(13, ..) = r.end {
                    sum.violation(ImplViolation { key: "type-mismatch-at-run-time".into(), input: one_line.clone(), expected: "no Type mismatch in an accepted program".into(), observed: format!("{:?}", r.end) });
                }
                if let End::Panic(m) = &r.end {
                    sum.violation(ImplViolation { key: "panic-at-run-time".into(), input: one_line.clone(), expected: "no panic".into(), observed: m.clone() });
                }
            }
            other => {
                sum.violation(ImplViolation { key: "generated-program-rejected".into(), input: one_line.clone(), expected: "accepted".into(), observed: format!("{:?}", verdict(other)) });
                continue;
            }
        }
        let ro = run_program(&rename(&src), &RunOpts { budget: 40_000, ..Default::default() });
        if output_of(&ro) != output_of(&o) {
            sum.violation(ImplViolation { key: "behaviour-changes-under-renaming".into(), input: one_line.clone(), expected: output_of(&o).chars().take(200).collect(), observed: output_of(&ro).chars().take(200).collect() });
        }
        // line edits
        let lines: Vec<&str> = src.lines().collect();
        let mut edits: Vec<(&'static str, usize, Vec<String>)> = vec![]; // expected family, row (1-based), new lines
        for (i, l) in lines.iter().enumerate() {
            let t = l.trim();
            let mk = |new_line: String| -> Vec<String> {
                let mut v: Vec<String> = lines.iter().map(|x| x.to_string()).collect();
                v[i] = new_line;
                v
            };
            if t.starts_with('P') && t.len() > 2 && t.as_bytes()[1].is_ascii_digit() && t.contains(',') {
                edits.push(("argcount", i + 1, mk(format!("{}, 1", l))));
                let name = t.split(' ').next().unwrap();
                edits.push(("type", i + 1, mk(format!("{} S$, 1", name))));
            }
            if t.starts_with("GOSUB ") {
                edits.push(("label", i + 1, mk("GOSUB NoSuchLabel".to_string())));
            }
            if t == "NEXT" {
                edits.push(("next", i + 1, mk("NEXT ZZ%".to_string())));
            }
            if t.starts_with("A% = ") || t.starts_with("B% = ") {
                edits.push(("type", i + 1, mk(format!("{} + (\"a\")", l))));
            }
            if t.starts_with("SUB P1 ") {
                let mut v: Vec<String> = lines.iter().map(|x| x.to_string()).collect();
                v.push("SUB P1 (X%, Y%)".to_string());
                v.push("END SUB".to_string());
                edits.push(("duplicate", lines.len() + 1, v));
            }
        }
        // ill-typed calls in nested positions: inserted as a new row 3 (after DIM and N% = 2)
        {
            let insert = |stmts: &[&str], extra_tail: &[&str]| -> Vec<String> {
                let mut v: Vec<String> = lines.iter().map(|x| x.to_string()).collect();
                for (j, st) in stmts.iter().enumerate() {
                    v.insert(2 + j, st.to_string());
                }
                for t in extra_tail {
                    v.push(t.to_string());
                }
                v
            };
            edits.push(("type", 3, insert(&["PRINT (UCASE$(N%))"], &[])));
            edits.push(("type", 3, insert(&["PRINT LEN((UCASE$(N% + 1)))"], &[])));
            edits.push(("type", 3, insert(&["ARR%(LEN(UCASE$(N%))) = 1"], &[])));
            edits.push(("type", 3, insert(&["PRINT 1 ; (2 + LEN(LCASE$(N%)))"], &[])));
            if src.contains("FUNCTION F1%") {
                edits.push(("type", 3, insert(&["A% = F1%(LEN(UCASE$(N%)), 1)"], &[])));
                edits.push(("argcount", 3, insert(&["A% = (F1%(1, 2, 3))"], &[])));
                edits.push(("argcount", 3, insert(&["PRINT LEN(STR$(F1%(1)))"], &[])));
            }
            // a whole array passed to an array parameter of another element type
            edits.push(("type", 4, insert(&["DIM QZ%(3)", "PARR QZ%()"], &["SUB PARR (Z!())", "END SUB"])));
            edits.push(("accepted", 0, insert(&["DIM QZ!(3)", "PARR QZ!()"], &["SUB PARR (Z!())", "END SUB"])));
        }
        let n_try = edits.len().min(if args.thorough() { 10 } else { 5 });
        for _ in 0..n_try {
            let idx = rng.below(edits.len() as u64) as usize;
            let (fam, row, v) = edits.swap_remove(idx);
            let esrc = v.join("\n") + "\n";
            evaluations += 1;
            let eo = run_program(&esrc, &RunOpts { budget: 40_000, ..Default::default() });
            let (class, erow) = verdict(&eo);
            sum.count(&format!("edit_{}", fam));
            let eline: String = format!("[{} at row {}] {}", fam, row, esrc.replace('\n', " | ")).chars().take(700).collect();
            if class != fam {
                sum.violation(ImplViolation { key: format!("edit-not-rejected-as-expected:{}", fam), input: eline.clone(), expected: format!("{} error at row {}", fam, row), observed: format!("{} at row {}", class, erow) });
            } else if erow as usize != row {
                sum.violation(ImplViolation { key: format!("edit-error-in-wrong-row:{}", fam), input: eline.clone(), expected: format!("row {}", row), observed: format!("row {}", erow) });
            }
            sum.nontrivial(esrc.clone());
            let ro = run_program(&rename(&esrc), &RunOpts { budget: 40_000, ..Default::default() });
            if verdict(&ro) != (class.clone(), erow) {
                sum.violation(ImplViolation { key: "verdict-changes-under-renaming".into(), input: eline, expected: format!("{:?}", (class, erow)), observed: format!("{:?}", verdict(&ro)) });
            }
        }
        if sum.samples.len() < 3 {
            sum.sample(J::s(one_line));
        }
    }

    // ---- value level: no operator answers Type mismatch on numeric operands (boundary values of all four types)
    {
        use rusty_variant::{Variant, VariantError};
        let vals: Vec<Variant> = crate::c06::boundary_values();
        let n_pairs = if args.thorough() { 60000 } else { 8000 };
        for k in 0..n_pairs {
            let a = rng.pick(&vals).clone();
            let b = rng.pick(&vals).clone();
            let (a2, b2) = (a.clone(), b.clone());
            let which = k % 7;
            let r = guard(move || match which {
                0 => a2.plus(b2).map(|_| ()),
                1 => a2.minus(b2).map(|_| ()),
                2 => a2.multiply(b2).map(|_| ()),
                3 => a2.divide(b2).map(|_| ()),
                4 => a2.modulo(b2).map(|_| ()),
                5 => a2.try_cmp(&b2).map(|_| ()),
                _ => a2.negate().map(|_| ()),
            });
            evaluations += 1;
            let name = ["+", "-", "*", "/", "MOD", "compare", "negate"][which];
            match r {
                Ok(Err(VariantError::TypeMismatch)) => {
                    sum.violation(ImplViolation { key: format!("operator-type-mismatch-on-numbers:{}", name), input: format!("{:?} {} {:?}", a, name, b), expected: "a value, Overflow or Division by zero".into(), observed: "Type mismatch".into() });
                }
                Err(m) => {
                    sum.violation(ImplViolation { key: format!("operator-panic:{}", name), input: format!("{:?} {} {:?}", a, name, b), expected: "no panic".into(), observed: m });
                }
                _ => {}
            }
        }
        sum.count("value_level_operator_probes");
    }

    // ---- the repository's own programs never end with Type mismatch unless they convert external data
    for (origin, text) in corpus() {
        let up = text.to_uppercase();
        if up.contains("INPUT") || up.contains("READ ") || up.contains("USING") || up.contains("OPEN ") {
            continue;
        }
        if let Outcome::Ran(r) = run_program(&text, &RunOpts { budget: 40_000, ..Default::default() }) {
            evaluations += 1;
            sum.count("corpus_accepted");
            if let End::Err(13, ..) = r.end {
                sum.violation(ImplViolation { key: "type-mismatch-at-run-time".into(), input: format!("{} {}", origin, text.replace('\n', " | ").chars().take(300).collect::<String>()), expected: "no Type mismatch in an accepted program".into(), observed: format!("{:?}", r.end) });
            }
        }
    }
    w.flush();
    sum.write(
        &args.out,
        evaluations,
        "core programs (all statement kinds, nesting 2-3): verdict vs Typing.wt_program in Coq on the accepted program and on the program after one ill-typing edit at a random statement (string operand for arithmetic nested in parentheses, wrong-kind assignment, string condition, string FOR bound/step, wrong-kind CASE item, ill-typed PRINT item); procedural programs (SUB/FUNCTION/GOSUB/arrays): line edits {wrong argument count, by-reference argument of the wrong type, missing label, NEXT for the wrong counter, duplicate SUB, string operand} expected to be rejected with the matching family in the edited row; every program and every edited program also under consistent renaming of all identifiers (same verdict, same output); accepted programs (generated and the repository's own without INPUT/READ/USING) run and must not end with error 13 or a panic. Non-trivial = distinct edited programs.",
    );
}
