//! C18 - files read back what was written; handles follow the open/close protocol.
//! Sequences of OPEN / PRINT # / LINE INPUT # / EOF / CLOSE / KILL / PUT / GET over three handles and
//! three file names (per program, in the scratch directory of the run), including sequences that
//! violate the protocol. Each sequence becomes a program that prints a marker after every operation;
//! the program stops at its first error. The observed results (line read, EOF value, record read,
//! error code) are compared with `Files.frun` in Coq.
use crate::common::*;
use crate::runner::*;

pub const HEADER18: &str = "From Coq Require Import List Arith Bool NArith.\nFrom RB Require Import RT.Files RT.ReadInput.\nImport ListNotations.\n";

#[derive(Clone, Debug)]
enum Op {
    Open(usize, usize, u8), // name, handle, mode 0 input 1 output 2 append 3 random
    Print(usize, String),
    LineInput(usize),
    Eof(usize),
    Close(usize),
    CloseAll,
    Kill(usize),
    Put(usize, usize, String),
    Get(usize, usize),
}

fn coq_line(s: &str) -> String {
    format!("[{}]", s.bytes().map(|b| b.to_string()).collect::<Vec<_>>().join("; "))
}

fn coq_op(o: &Op) -> String {
    match o {
        Op::Open(n, h, m) => format!("FOpen {} {} {}", n, h, ["MInput", "MOutput", "MAppend", "MRandom"][*m as usize]),
        Op::Print(h, t) => format!("FPrint {} {}", h, coq_line(t)),
        Op::LineInput(h) => format!("FLineInput {}", h),
        Op::Eof(h) => format!("FEof {}", h),
        Op::Close(h) => format!("FClose {}", h),
        Op::CloseAll => "FCloseAll".into(),
        Op::Kill(n) => format!("FKill {}", n),
        // the record written is the field buffer: the text followed by NUL bytes up to the field width
        // (LSET does not pad with blanks in this implementation; the record itself round-trips)
        Op::Put(h, r, d) => {
            let mut b: Vec<u8> = d.bytes().collect();
            b.resize(8, 0);
            format!("FPut {} {} [{}]", h, r, b.iter().map(|x| x.to_string()).collect::<Vec<_>>().join("; "))
        }
        Op::Get(h, r) => format!("FGet {} {}", h, r),
    }
}

fn basic(o: &Op, prog_id: usize) -> String {
    let name = |n: usize, random: bool| format!("\"P{}{}{}\"", prog_id, if random { "R" } else { "T" }, n);
    match o {
        Op::Open(n, h, 3) => format!("OPEN {} FOR RANDOM AS #{} LEN = 8\nFIELD #{}, 8 AS R{}$", name(*n, true), h, h, h),
        Op::Open(n, h, m) => format!("OPEN {} FOR {} AS #{}", name(*n, false), ["INPUT", "OUTPUT", "APPEND"][*m as usize], h),
        Op::Print(h, t) => format!("PRINT #{}, \"{}\"", h, t),
        Op::LineInput(h) => format!("LINE INPUT #{}, A$\nPRINT \"L[\"; A$; \"]\"", h),
        Op::Eof(h) => format!("IF EOF({}) THEN PRINT \"E1\" ELSE PRINT \"E0\"", h),
        Op::Close(h) => format!("CLOSE #{}", h),
        Op::CloseAll => "CLOSE".into(),
        Op::Kill(n) => format!("KILL {}", name(*n, false)),
        Op::Put(h, r, d) => format!("LSET R{}$ = \"{}\"\nPUT #{}, {}", h, d, h, r),
        Op::Get(h, r) => format!("GET #{}, {}\nPRINT \"G[\"; R{}$; \"]\"", h, r, h),
    }
}

/// tracks enough state to generate mostly-valid sequences
struct Track {
    open: [Option<(usize, u8)>; 4], // handle -> (name, mode)
    exists: [bool; 4],
    random_exists: [bool; 4],
}

fn gen_sequence(rng: &mut Rng, violate: bool) -> Vec<Op> {
    let mut t = Track { open: [None; 4], exists: [false; 4], random_exists: [false; 4] };
    let mut ops = vec![];
    let words = ["alpha", "b", "c d", "12", "x=1", "Hello there", "z"];
    let n = 4 + rng.below(14) as usize;
    for _ in 0..n {
        let h = 1 + rng.below(3) as usize;
        let nm = 1 + rng.below(3) as usize;
        // a name is open at most once at a time
        let name_open = |t: &Track, nm: usize, random: bool| t.open.iter().any(|o| matches!(o, Some((x, m)) if *x == nm && ((*m == 3) == random)));
        let op = match rng.below(12) {
            0 | 1 => {
                if t.open[h].is_none() && !name_open(&t, nm, false) {
                    let m = if t.exists[nm] { rng.below(3) as u8 } else { 1 + rng.below(2) as u8 };
                    t.open[h] = Some((nm, m));
                    if m != 0 {
                        t.exists[nm] = true;
                    }
                    Some(Op::Open(nm, h, m))
                } else {
                    None
                }
            }
            2 | 3 | 4 => match t.open[h] {
                Some((_, 1)) | Some((_, 2)) => Some(Op::Print(h, rng.pick(&words).to_string())),
                _ => None,
            },
            5 | 6 => match t.open[h] {
                Some((_, 0)) => Some(if rng.chance(1, 2) { Op::Eof(h) } else { Op::LineInput(h) }),
                _ => None,
            },
            7 => {
                if t.open[h].is_some() {
                    t.open[h] = None;
                    Some(Op::Close(h))
                } else {
                    None
                }
            }
            8 => {
                if rng.chance(1, 3) {
                    t.open = [None; 4];
                    Some(Op::CloseAll)
                } else {
                    None
                }
            }
            9 => {
                if t.exists[nm] && !name_open(&t, nm, false) && rng.chance(1, 2) {
                    t.exists[nm] = false;
                    Some(Op::Kill(nm))
                } else {
                    None
                }
            }
            10 => {
                if t.open[h].is_none() && !name_open(&t, nm, true) {
                    t.open[h] = Some((nm, 3));
                    t.random_exists[nm] = true;
                    Some(Op::Open(nm, h, 3))
                } else {
                    None
                }
            }
            _ => match t.open[h] {
                Some((_, 3)) => {
                    let r = 1 + rng.below(4) as usize;
                    Some(if rng.chance(1, 2) { Op::Put(h, r, rng.pick(&["ab", "record", "12345678", "q"]).to_string()) } else { Op::Get(h, r) })
                }
                _ => None,
            },
        };
        if let Some(o) = op {
            // LINE INPUT at the end of the data is an error (62) that ends the program: allow it only as a violation
            ops.push(o);
        }
    }
    if violate {
        let h = 1 + rng.below(3) as usize;
        let nm = 1 + rng.below(3) as usize;
        ops.push(match rng.below(7) {
            0 => Op::Open(nm, h, 1),     // maybe a busy handle -> 55
            1 => Op::Open(nm, h, 0),     // maybe a missing file -> 53, or a busy handle -> 55
            2 => Op::LineInput(h),       // maybe closed / wrong mode / past the end
            3 => Op::Print(h, "late".into()),
            4 => Op::Eof(h),
            5 => Op::Kill(nm),
            _ => Op::Get(h, 1),
        });
    }
    ops
}

/// a session on one random-access file: many PUTs and GETs with record numbers that often follow
/// one another, then everything is read back after the file was closed and opened again
fn gen_random_session(rng: &mut Rng) -> Vec<Op> {
    let h = 1 + rng.below(3) as usize;
    let nm = 1 + rng.below(3) as usize;
    let mut ops = vec![Op::Open(nm, h, 3)];
    let mut last: usize = 1 + rng.below(3) as usize;
    for _ in 0..(5 + rng.below(10)) {
        let r = match rng.below(5) {
            0 | 1 => last + 1,
            2 => last,
            _ => 1 + rng.below(5) as usize,
        }
        .clamp(1, 6);
        if rng.chance(3, 5) {
            ops.push(Op::Put(h, r, rng.pick(&["ab", "record", "12345678", "q", "ONE1TWO2", ""]).to_string()));
            last = r;
        } else {
            ops.push(Op::Get(h, r));
        }
    }
    ops.push(Op::Close(h));
    let h2 = 1 + rng.below(3) as usize;
    ops.push(Op::Open(nm, h2, 3));
    for r in 1..=6 {
        ops.push(Op::Get(h2, r));
    }
    ops
}

/// the same random-access session with a record length larger than what FIELD lays out: the
/// unused tail of the records changes nothing about what is read back
fn longer_records(src: &str, k: usize) -> String {
    src.replace(" LEN = 8\n", " LEN = 13\n").replace(&format!("\"P{}R", k), &format!("\"Q{}R", k))
}

/// ---- read sequences over byte streams: the stream is given to the implementation as a file and as
/// the console's input; INPUT / LINE INPUT / EOF results are compared with ReadInput.rrun in Coq and
/// the console form with the file form.
fn read_streams(args: &Args, rng: &mut Rng, w: &mut CaseWriter, sum: &mut Summary, evaluations: &mut usize) {
    let alphabet: [u8; 12] = [b' ', b' ', b'a', b'b', b',', b',', 13, 10, 9, 11, b'"', b'x'];
    let n = if args.thorough() { 3000 } else { 400 };
    // directed streams first: every line-end form, blanks around fields, empty fields, the end of the stream
    let directed: Vec<(&[u8], &str)> = vec![
        (b"a,b\r\nc\r\n", "IIIE"), (b"a,b\nc\n", "IILE"), (b"a\rb\rc", "LLLE"), (b"a\r\n\r\nb", "LLLL"),
        (b"  a  ,  b  \r\n", "IIE"), (b",,\r\n", "IIII"), (b"a", "IE"), (b"a", "LI"), (b"", "I"), (b"", "L"), (b"", "E"),
        (b" \t a \x0b,b\r\n", "II"), (b"a,b", "LE"), (b"   ", "IE"), (b"\r\n", "IE"), (b"\n\r", "LLE"), (b"a,\r\nb", "III"),
        (b"\"a,b\",c\r\n", "III"), (b"a b,c d\r\n", "II"), (b"x\r", "LE"), (b"x\r\r\n", "LLE"),
    ];
    for k in 0..(n + directed.len()) {
        let (bytes, ops): (Vec<u8>, Vec<char>) = if k < directed.len() {
            (directed[k].0.to_vec(), directed[k].1.chars().collect())
        } else {
            let len = rng.below(14) as usize;
            let bytes: Vec<u8> = (0..len).map(|_| *rng.pick(&alphabet)).collect();
            let n_ops = 1 + rng.below(6) as usize;
            let ops: Vec<char> = (0..n_ops).map(|_| *rng.pick(&['I', 'I', 'L', 'L', 'E'])).collect();
            (bytes, ops)
        };
        let fname = format!("RS{}T", k);
        let _ = std::fs::remove_file(&fname);
        if std::fs::write(&fname, &bytes).is_err() {
            continue;
        }
        let mut file_prog = format!("OPEN \"{}\" FOR INPUT AS #1\n", fname);
        let mut con_prog = String::new();
        for o in &ops {
            match o {
                'I' => {
                    file_prog.push_str("INPUT #1, A$\nPRINT \"<\"; A$; \">\"\n");
                    con_prog.push_str("INPUT A$\nPRINT \"<\"; A$; \">\"\n");
                }
                'L' => {
                    file_prog.push_str("LINE INPUT #1, A$\nPRINT \"<\"; A$; \">\"\n");
                    con_prog.push_str("LINE INPUT A$\nPRINT \"<\"; A$; \">\"\n");
                }
                _ => file_prog.push_str("PRINT \"<\"; EOF(1); \">\"\n"),
            }
        }
        file_prog.push_str("CLOSE\n");
        // results: the texts between < and >, then the error code if any
        let observe = |prog: &str, stdin: Vec<u8>| -> Result<Vec<String>, String> {
            match run_program(prog, &RunOpts { stdin, budget: 50_000, trace: false }) {
                Outcome::Ran(r) => {
                    let mut res = vec![];
                    let out = &r.stdout;
                    let mut i = 0;
                    while i < out.len() {
                        if out[i] == b'<' {
                            let j = out[i + 1..].iter().position(|c| *c == b'>').map(|j| i + 1 + j).unwrap_or(out.len());
                            res.push(format!("RLine [{}]", out[i + 1..j].iter().map(|b| b.to_string()).collect::<Vec<_>>().join("; ")));
                            i = j;
                        }
                        i += 1;
                    }
                    match &r.end {
                        End::Ok => Ok(res),
                        End::Err(c, ..) => {
                            res.push(format!("RErr {}", c));
                            Ok(res)
                        }
                        End::Panic(m) => Err(format!("panic: {}", m.chars().take(160).collect::<String>())),
                        End::Budget => Err("budget".into()),
                    }
                }
                other => Err(format!("{:?}", other).chars().take(160).collect()),
            }
        };
        let one_line = format!("bytes {:?} ops {}", bytes, ops.iter().collect::<String>());
        let file_res = observe(&file_prog, vec![]);
        let con_res = observe(&con_prog, bytes.clone());
        let _ = std::fs::remove_file(&fname);
        *evaluations += 2;
        sum.count("read_stream_programs");
        let file_res = match file_res {
            Ok(r) => r,
            Err(m) => {
                sum.violation(ImplViolation { key: "read-stream-program-failed".into(), input: one_line.clone(), expected: "a BASIC-level outcome".into(), observed: m });
                continue;
            }
        };
        // EOF prints -1 / 0: turn those results into booleans (they come from the E operations, in order)
        let mut shown = vec![];
        let mut it = file_res.iter();
        let mut stopped = false;
        for o in &ops {
            match it.next() {
                None => {
                    stopped = true;
                    break;
                }
                Some(r) if r.starts_with("RErr") => {
                    shown.push(r.clone());
                    stopped = true;
                    break;
                }
                Some(r) => {
                    if *o == 'E' {
                        // "<-1 >" or "< 0 >"
                        shown.push(if r == "RLine [45; 49; 32]" { "RBool true".to_string() } else if r == "RLine [32; 48; 32]" { "RBool false".to_string() } else { r.clone() });
                    } else {
                        shown.push(r.clone());
                    }
                }
            }
        }
        if !stopped {
            if let Some(r) = it.next() {
                shown.push(r.clone());
            }
        }
        let coq_bytes = format!("[{}]", bytes.iter().map(|b| b.to_string()).collect::<Vec<_>>().join("; "));
        let coq_ops = format!("[{}]", ops.iter().map(|o| match o { 'I' => "OInput", 'L' => "OLine", _ => "OEof" }).collect::<Vec<_>>().join("; "));
        w.push(Case {
            agree: format!("fres_list_eqb (rrun {} {}) [{}]", coq_bytes, coq_ops, shown.join("; ")),
            desc: format!("reads {} => [{}]", one_line, shown.join("; ")),
            model_expr: format!("rrun {} {}", coq_bytes, coq_ops),
        });
        sum.nontrivial(one_line.clone());
        // console form: the same reads without the EOF operations
        match con_res {
            Err(m) => sum.violation(ImplViolation { key: "read-stream-console-failed".into(), input: one_line.clone(), expected: "a BASIC-level outcome".into(), observed: m }),
            Ok(c) => {
                // the file results without the EOF answers, cut at the first error
                let mut expect = vec![];
                let mut fi = file_res.iter();
                for o in &ops {
                    match fi.next() {
                        None => break,
                        Some(r) if r.starts_with("RErr") => {
                            expect.push(r.clone());
                            break;
                        }
                        Some(r) => {
                            if *o != 'E' {
                                expect.push(r.clone());
                            }
                        }
                    }
                }
                // the console echoes nothing here, but INPUT may print a prompt: results are the <...> texts only
                if c != expect {
                    sum.violation(ImplViolation { key: "console-vs-file:read-stream".into(), input: one_line.clone(), expected: format!("file form: {}", expect.join("; ")), observed: format!("console form: {}", c.join("; ")) });
                }
                sum.count("console_vs_file_read_stream");
            }
        }
    }
}

pub fn run(args: &Args) {
    let mut rng = Rng::new(args.seed);
    let mut sum = Summary::new();
    let mut w = CaseWriter::new(&args.out, "c18", HEADER18, 150);
    let mut evaluations = 0usize;
    let n = if args.thorough() { 5000 } else { 600 };
    for k in 0..n {
        // the files of this program must not exist yet (a random-access file keeps its records when reopened)
        for n in 1..=3 {
            let _ = std::fs::remove_file(format!("P{}R{}", k, n));
            let _ = std::fs::remove_file(format!("P{}T{}", k, n));
        }
        let ops = if k % 4 == 2 { gen_random_session(&mut rng) } else { gen_sequence(&mut rng, k % 2 == 1) };
        if ops.is_empty() {
            continue;
        }
        let mut src = String::new();
        for (i, o) in ops.iter().enumerate() {
            src.push_str(&basic(o, k));
            src.push_str(&format!("\nPRINT \"#{}\"\n", i));
        }
        src.push_str("CLOSE\n");
        evaluations += 1;
        let one_line = src.replace('\n', " | ");
        let r = match run_program(&src, &RunOpts { budget: 50_000, ..Default::default() }) {
            Outcome::Ran(r) => r,
            other => {
                sum.violation(ImplViolation { key: "file-program-rejected".into(), input: one_line, expected: "accepted".into(), observed: format!("{:?}", other).chars().take(200).collect() });
                continue;
            }
        };
        let out = String::from_utf8_lossy(&r.stdout).to_string();
        if k % 4 == 2 {
            for n in 1..=3 {
                let _ = std::fs::remove_file(format!("Q{}R{}", k, n));
            }
            let src2 = longer_records(&src, k);
            evaluations += 1;
            sum.count("random_sessions_with_longer_records");
            match run_program(&src2, &RunOpts { budget: 50_000, ..Default::default() }) {
                Outcome::Ran(r2) => {
                    let out2 = String::from_utf8_lossy(&r2.stdout).to_string();
                    if out2 != out || r2.end != r.end {
                        sum.violation(ImplViolation { key: "record-length-changes-contents".into(), input: src2.replace('\n', " | "), expected: format!("as with LEN = 8: {:?}", out.replace("\r\n", " | ")), observed: format!("{:?} then {:?}", out2.replace("\r\n", " | "), r2.end) });
                    }
                }
                other => sum.violation(ImplViolation { key: "record-length-changes-contents".into(), input: src2.replace('\n', " | "), expected: "accepted".into(), observed: format!("{:?}", other).chars().take(200).collect() }),
            }
        }
        // observed results, operation by operation
        let mut observed: Vec<String> = vec![];
        let lines: Vec<&str> = out.split("\r\n").collect();
        let mut li = 0;
        let mut complete = true;
        for (i, o) in ops.iter().enumerate() {
            let marker = format!("#{}", i);
            let mut payload: Option<String> = None;
            let mut found = false;
            while li < lines.len() {
                let l = lines[li];
                li += 1;
                if l == marker {
                    found = true;
                    break;
                }
                payload = Some(l.to_string());
            }
            if !found {
                complete = false;
                break;
            }
            observed.push(match o {
                Op::LineInput(_) => match &payload {
                    Some(p) if p.starts_with("L[") && p.ends_with(']') => format!("RLine {}", coq_line(&p[2..p.len() - 1])),
                    _ => "RErr 0".into(),
                },
                Op::Get(..) => match &payload {
                    Some(p) if p.starts_with("G[") && p.ends_with(']') => format!("RLine {}", coq_line(&p[2..p.len() - 1])),
                    _ => "RErr 0".into(),
                },
                Op::Eof(_) => match payload.as_deref() {
                    Some("E1") => "RBool true".into(),
                    Some("E0") => "RBool false".into(),
                    _ => "RErr 0".into(),
                },
                _ => "ROk".into(),
            });
        }
        match &r.end {
            End::Ok => {
                if !complete {
                    sum.violation(ImplViolation { key: "file-program-output-incomplete".into(), input: one_line.clone(), expected: "a marker after every operation".into(), observed: out.replace("\r\n", " | ") });
                    continue;
                }
                sum.count("ended_normally");
            }
            End::Err(code, ..) => {
                observed.push(format!("RErr {}", code));
                sum.count(&format!("ended_error_{}", code));
            }
            End::Panic(m) => {
                sum.violation(ImplViolation { key: "file-program-panic".into(), input: one_line.clone(), expected: "a BASIC-level outcome".into(), observed: m.chars().take(200).collect() });
                continue;
            }
            End::Budget => continue,
        }
        for o in &ops {
            sum.count(&format!("op_{}", coq_op(o).split(' ').next().unwrap()));
        }
        let ops_text = ops.iter().map(coq_op).collect::<Vec<_>>().join("; ");
        w.push(Case {
            agree: format!("fres_list_match (snd (frun fs0 [{}])) [{}]", ops_text, observed.join("; ")),
            desc: format!("files {} => [{}]", one_line.chars().take(600).collect::<String>(), observed.join("; ")),
            model_expr: format!("snd (frun fs0 [{}])", ops_text),
        });
        sum.nontrivial(ops_text);
        if sum.samples.len() < 2 {
            sum.sample(J::s(src.clone()));
        }
    }
    // ---- console LINE INPUT / INPUT split lines and fields exactly as their file forms do
    let texts = ["plain", "x, y", "a,b,c", "  lead", "trail  ", "one two", "q;r", "1, 2", "", "a , b", "x,y , z"];
    for (k, t) in texts.iter().enumerate() {
        let fname = format!("\"CON{}T\"", k);
        // LINE INPUT
        let file_prog = format!("OPEN {f} FOR OUTPUT AS #1\nPRINT #1, \"{t}\"\nCLOSE #1\nOPEN {f} FOR INPUT AS #1\nLINE INPUT #1, A$\nPRINT \"[\"; A$; \"]\"\nCLOSE\n", f = fname, t = t);
        let con_prog = "LINE INPUT A$\nPRINT \"[\"; A$; \"]\"\n".to_string();
        let bracket = |out: &str| -> String { out.rfind('[').map(|i| out[i..].trim_end().to_string()).unwrap_or_else(|| out.to_string()) };
        let a = match run_program(&file_prog, &RunOpts { budget: 20_000, ..Default::default() }) {
            Outcome::Ran(r) => format!("{}{}", bracket(&String::from_utf8_lossy(&r.stdout)), if matches!(r.end, End::Ok) { String::new() } else { format!(" {:?}", r.end) }),
            other => format!("{:?}", other).chars().take(80).collect(),
        };
        let b = match run_program(&con_prog, &RunOpts { stdin: format!("{}\r\n", t).into_bytes(), budget: 20_000, trace: false }) {
            Outcome::Ran(r) => format!("{}{}", bracket(&String::from_utf8_lossy(&r.stdout)), if matches!(r.end, End::Ok) { String::new() } else { format!(" {:?}", r.end) }),
            other => format!("{:?}", other).chars().take(80).collect(),
        };
        evaluations += 1;
        sum.count("console_vs_file_line_input");
        if a != b {
            sum.violation(ImplViolation { key: "console-vs-file:line-input".into(), input: format!("{:?}", t), expected: format!("file form reads {}", a), observed: format!("console form reads {}", b) });
        }
        // INPUT of two string fields (only texts with exactly one comma, where both forms must split at it)
        if t.matches(',').count() == 1 {
            let file_prog = format!("OPEN {f} FOR OUTPUT AS #1\nPRINT #1, \"{t}\"\nCLOSE #1\nOPEN {f} FOR INPUT AS #1\nINPUT #1, A$, B$\nPRINT \"[\"; A$; \"|\"; B$; \"]\"\nCLOSE\n", f = fname, t = t);
            let con_prog = "INPUT A$, B$\nPRINT \"[\"; A$; \"|\"; B$; \"]\"\n".to_string();
            let a = match run_program(&file_prog, &RunOpts { budget: 20_000, ..Default::default() }) {
                Outcome::Ran(r) => format!("{}{}", bracket(&String::from_utf8_lossy(&r.stdout)), if matches!(r.end, End::Ok) { String::new() } else { format!(" {:?}", r.end) }),
                other => format!("{:?}", other).chars().take(80).collect(),
            };
            let b = match run_program(&con_prog, &RunOpts { stdin: format!("{}\r\n", t).into_bytes(), budget: 20_000, trace: false }) {
                Outcome::Ran(r) => format!("{}{}", bracket(&String::from_utf8_lossy(&r.stdout)), if matches!(r.end, End::Ok) { String::new() } else { format!(" {:?}", r.end) }),
                other => format!("{:?}", other).chars().take(80).collect(),
            };
            evaluations += 1;
            sum.count("console_vs_file_input");
            if a != b {
                sum.violation(ImplViolation { key: "console-vs-file:input".into(), input: format!("{:?}", t), expected: format!("file form reads {}", a), observed: format!("console form reads {}", b) });
            }
        }
    }
    read_streams(args, &mut rng, &mut w, &mut sum, &mut evaluations);
    w.flush();
    sum.write(
        &args.out,
        evaluations,
        "seeded sequences of 4-18 operations over handles 1-3 and three text-file and three random-file names private to each program: OPEN FOR INPUT / OUTPUT / APPEND / RANDOM (LEN = 8, FIELD), PRINT #, LINE INPUT #, EOF, CLOSE #n, CLOSE, KILL, LSET+PUT, GET; generated mostly valid (a name open at most once), half of them with one protocol-violating operation appended (busy handle, missing file, closed handle, wrong mode, read past the end); every fourth program is a session on one random-access file (5-14 PUTs and GETs whose record numbers often follow one another, close, reopen, all records read back), run a second time with LEN = 13 for the same 8-character FIELD (same results expected). The program prints a marker after every operation and stops at its first error; lines read, EOF values, records read and the error code are compared with Files.frun in Coq. Then byte streams (0-13 bytes over blank, letters, comma, CR, LF, TAB, VT, quote; 21 directed ones first) with 1-6 reads (INPUT / LINE INPUT / EOF), given to the implementation as a file and as the console's input: results compared with ReadInput.rrun in Coq, console form compared with file form. Non-trivial = distinct operation sequences and distinct stream/read pairs.",
    );
}
