//! C04: arrays, records, fixed-length strings.
//! Unit level: VArray / fix_length against coq/theories/RT/ArrayVal.v.
//! Program level: generated programs against a reference computed here (independent of the model).
use rusty_basic::interpreter::verif::fix_length;
use rusty_variant::{VArray, Variant};

use crate::common::*;
use crate::runner::*;

const HEADER: &str = "From Coq Require Import List ZArith Bool NArith.\nFrom RB Require Import Base.Util RT.ArrayVal.\nImport ListNotations.\nOpen Scope Z_scope.\n";

fn coq_dims(ds: &[(i32, i32)]) -> String {
    format!("[{}]", ds.iter().map(|(l, u)| format!("({}, {})", z(*l as i128), z(*u as i128))).collect::<Vec<_>>().join("; "))
}

fn tuples(ds: &[(i32, i32)]) -> Vec<Vec<i32>> {
    match ds.split_first() {
        None => vec![vec![]],
        Some(((lb, ub), rest)) => {
            let tails = tuples(rest);
            let mut out = vec![];
            for a in (lb - 1)..=(ub + 1) {
                for t in &tails {
                    let mut v = vec![a];
                    v.extend(t.iter().cloned());
                    out.push(v);
                }
            }
            out
        }
    }
}

fn in_bounds(ds: &[(i32, i32)], idx: &[i32]) -> bool {
    ds.iter().zip(idx.iter()).all(|((l, u), a)| l <= a && a <= u)
}

fn int_text(v: i64) -> String {
    if v >= 0 { format!(" {} ", v) } else { format!("{} ", v) }
}

fn shape_case(ds: &[(i32, i32)], w: &mut CaseWriter, sum: &mut Summary, evaluations: &mut usize) {
    let ds_v = ds.to_vec();
    let res = guard(move || {
        let mut arr = VArray::new(ds_v.clone(), Variant::VInteger(0));
        let all = tuples(&ds_v);
        let flat: Vec<Option<usize>> = all.iter().map(|t| arr.abs_index(t).ok()).collect();
        // write a distinct value through every in-bounds tuple, then read everything back
        let mut next = 1;
        let mut written: Vec<(Vec<i32>, i32)> = vec![];
        for t in &all {
            if let Ok(v) = arr.get_element_mut(t) {
                *v = Variant::VInteger(next);
                written.push((t.clone(), next));
                next += 1;
            }
        }
        let read: Vec<(Vec<i32>, Option<i32>)> = all
            .iter()
            .map(|t| {
                (t.clone(), match arr.get_element(t) {
                    Ok(Variant::VInteger(i)) => Some(*i),
                    _ => None,
                })
            })
            .collect();
        let bounds: Vec<Option<(i32, i32)>> = (0..ds_v.len() + 1).map(|d| arr.get_dimension_bounds(d).cloned()).collect();
        (all, flat, written, read, arr.len(), bounds)
    });
    *evaluations += 1;
    let shape = format!("{:?}", ds);
    match res {
        Err(msg) => sum.violation(ImplViolation { key: "array-panic".into(), input: shape, expected: "no panic".into(), observed: msg }),
        Ok((all, flat, written, read, len, bounds)) => {
            let expect_len: i64 = ds.iter().map(|(l, u)| (u - l + 1) as i64).product();
            if len as i64 != expect_len {
                sum.violation(ImplViolation { key: "array-len".into(), input: shape.clone(), expected: format!("{}", expect_len), observed: format!("{}", len) });
            }
            for (t, f) in all.iter().zip(flat.iter()) {
                if f.is_some() != in_bounds(ds, t) {
                    sum.violation(ImplViolation { key: "subscript-check".into(), input: format!("{} index {:?}", shape, t), expected: format!("in range = {}", in_bounds(ds, t)), observed: format!("{:?}", f) });
                }
            }
            let wmap: std::collections::HashMap<Vec<i32>, i32> = written.into_iter().collect();
            for (t, r) in &read {
                let exp = wmap.get(t).cloned();
                if *r != exp {
                    sum.violation(ImplViolation { key: "array-alias".into(), input: format!("{}: write a distinct value to every element, read {:?}", shape, t), expected: format!("{:?}", exp), observed: format!("{:?}", r) });
                }
            }
            for (d, b) in bounds.iter().enumerate() {
                let exp = ds.get(d).cloned();
                if *b != exp {
                    sum.violation(ImplViolation { key: "bounds".into(), input: format!("{} dimension {}", shape, d + 1), expected: format!("{:?}", exp), observed: format!("{:?}", b) });
                }
            }
            let flat_coq: Vec<String> = flat.iter().map(|f| match f { Some(k) => format!("Some {}", k), None => "None".into() }).collect();
            w.push(Case {
                agree: format!("oz_list_eqb (map (abs_index {d}) (tuples {d})) [{f}] && (array_len {d} =? {l})", d = coq_dims(ds), f = flat_coq.join("; "), l = len),
                desc: format!("abs_index on every tuple of shape {}", shape),
                model_expr: format!("map (abs_index {d}) (tuples {d})", d = coq_dims(ds)),
            });
            if ds.len() >= 2 && expect_len > 1 {
                sum.nontrivial(format!("shape{}", shape));
            }
            sum.count(&format!("shapes_rank{}", ds.len()));
            if sum.samples.len() < 3 {
                sum.sample(J::s(format!("shape {} : flat indices {:?}", shape, flat)));
            }
        }
    }
}

fn fix_length_cases(w: &mut CaseWriter, sum: &mut Summary, evaluations: &mut usize, thorough: bool) {
    let alphabet: [u8; 3] = [b'a', b' ', 0];
    let maxlen = if thorough { 5 } else { 4 };
    let mut strings: Vec<Vec<u8>> = vec![vec![]];
    let mut frontier: Vec<Vec<u8>> = vec![vec![]];
    for _ in 0..maxlen {
        let mut next = vec![];
        for s in &frontier {
            for c in alphabet {
                let mut t = s.clone();
                t.push(c);
                next.push(t);
            }
        }
        strings.extend(next.iter().cloned());
        frontier = next;
    }
    for s in strings {
        for n in 0..=(maxlen + 1) {
            let mut st = String::from_utf8(s.clone()).unwrap();
            fix_length(&mut st, n);
            *evaluations += 1;
            let out = st.as_bytes().to_vec();
            if out.len() != n {
                sum.violation(ImplViolation { key: "fix-length".into(), input: format!("fix_length({:?}, {})", s, n), expected: format!("{} characters", n), observed: format!("{:?}", out) });
            }
            w.push(Case {
                agree: format!("list_eqb Z.eqb (fix_length {} {}%nat) {}", bytes(&s), n, bytes(&out)),
                desc: format!("fix_length({:?}, {}) = {:?}", s, n, out),
                model_expr: format!("fix_length {} {}%nat", bytes(&s), n),
            });
            if !s.is_empty() && s.len() != n {
                sum.nontrivial(format!("fl{:?}{}", s, n));
            }
        }
    }
    sum.count("fix_length_strings_x_lengths");
}

// ------------------------------------------------------------------ program level

struct Prog {
    src: String,
    expected_stdout: String,
    expected_end: End,
    key: String,
}

fn type_suffix(t: u64) -> (&'static str, &'static str) {
    match t {
        0 => ("INTEGER", "%"),
        1 => ("LONG", "&"),
        2 => ("SINGLE", "!"),
        _ => ("DOUBLE", "#"),
    }
}

fn array_program(rng: &mut Rng, ds: &[(i32, i32)], fault: bool) -> Prog {
    let (tname, _) = type_suffix(rng.below(4));
    let rank = ds.len();
    let vars = ["I", "J", "K"];
    let mut src = String::new();
    let dim_list: Vec<String> = ds.iter().map(|(l, u)| if *l == 0 && rng.chance(1, 2) { format!("{}", u) } else { format!("{} TO {}", l, u) }).collect();
    src.push_str(&format!("DIM A({}) AS {}\n", dim_list.join(", "), tname));
    src.push_str("N% = 0\n");
    for (d, (l, u)) in ds.iter().enumerate() {
        src.push_str(&format!("FOR {}% = {} TO {}\n", vars[d], l, u));
    }
    let idx: Vec<String> = (0..rank).map(|d| format!("{}%", vars[d])).collect();
    src.push_str("N% = N% + 1\n");
    src.push_str(&format!("A({}) = N%\n", idx.join(", ")));
    for _ in 0..rank {
        src.push_str("NEXT\n");
    }
    // reference store
    let mut store: std::collections::BTreeMap<Vec<i32>, i64> = Default::default();
    let mut n = 0;
    let all_in: Vec<Vec<i32>> = tuples(ds).into_iter().filter(|t| in_bounds(ds, t)).collect();
    for t in &all_in {
        n += 1;
        store.insert(t.clone(), n);
    }
    // a few overwrites at random places
    let n_over = rng.range(1, 3);
    for k in 0..n_over {
        let t = rng.pick(&all_in).clone();
        let v = 100 + k;
        let lit: Vec<String> = t.iter().map(|a| format!("{}", a)).collect();
        src.push_str(&format!("A({}) = {}\n", lit.join(", "), v));
        store.insert(t, v);
    }
    let mut expected = String::new();
    // read everything back in order
    for (d, (l, u)) in ds.iter().enumerate() {
        src.push_str(&format!("FOR {}% = {} TO {}\n", vars[d], l, u));
    }
    src.push_str(&format!("PRINT A({});\n", idx.join(", ")));
    for _ in 0..rank {
        src.push_str("NEXT\n");
    }
    src.push_str("PRINT\n");
    for t in &all_in {
        expected.push_str(&int_text(store[t]));
    }
    expected.push_str("\r\n");
    for d in 0..rank {
        src.push_str(&format!("PRINT LBOUND(A, {}); UBOUND(A, {})\n", d + 1, d + 1));
        expected.push_str(&format!("{}{}\r\n", int_text(ds[d].0 as i64), int_text(ds[d].1 as i64)));
    }
    let mut end = End::Ok;
    if fault {
        // one index just outside one face of the box
        let d = rng.below(rank as u64) as usize;
        let mut t = rng.pick(&all_in).clone();
        t[d] = if rng.chance(1, 2) { ds[d].0 - 1 } else { ds[d].1 + 1 };
        let lit: Vec<String> = t.iter().map(|a| format!("{}", a)).collect();
        let row = src.matches('\n').count() as u32 + 1;
        if rng.chance(1, 2) {
            src.push_str(&format!("A({}) = 1\n", lit.join(", ")));
        } else {
            src.push_str(&format!("X = A({})\n", lit.join(", ")));
        }
        src.push_str("PRINT \"not reached\"\n");
        end = End::Err(9, vec![(row, 0)], String::new());
    }
    Prog { src, expected_stdout: expected, expected_end: end, key: format!("array-program-rank{}", rank) }
}

fn fixed_string_program(rng: &mut Rng) -> Prog {
    let n = rng.range(1, 6) as usize;
    let texts = ["", "a", "abc", "hello world", "xy"];
    let mut src = String::new();
    let mut expected = String::new();
    let fix = |s: &str| -> String {
        let mut t: String = s.chars().take(n).collect();
        while t.len() < n {
            t.push(' ');
        }
        t
    };
    src.push_str("DECLARE SUB SetIt(S AS STRING)\n");
    src.push_str(&format!("TYPE Rec\nTag AS INTEGER\nNm AS STRING * {}\nEND TYPE\n", n));
    src.push_str(&format!("DIM F AS STRING * {}\nDIM R AS Rec\nDIM Arr(1 TO 2) AS STRING * {}\n", n, n));
    // initial value: n spaces
    src.push_str("PRINT \"[\"; F; \"]\"; LEN(F)\n");
    expected.push_str(&format!("[{}]{}\r\n", fix(""), int_text(n as i64)));
    let t1 = *rng.pick(&texts);
    src.push_str(&format!("F = \"{}\"\nPRINT \"[\"; F; \"]\"; LEN(F)\n", t1));
    expected.push_str(&format!("[{}]{}\r\n", fix(t1), int_text(n as i64)));
    let t2 = *rng.pick(&texts);
    src.push_str(&format!("R.Nm = \"{}\"\nR.Tag = 7\nPRINT \"[\"; R.nm; \"]\"; LEN(R.NM); R.TAG\n", t2));
    expected.push_str(&format!("[{}]{}{}\r\n", fix(t2), int_text(n as i64), int_text(7)));
    let t3 = *rng.pick(&texts);
    src.push_str(&format!("Arr(2) = \"{}\"\nPRINT \"[\"; Arr(1); \"][\"; Arr(2); \"]\"; LEN(Arr(2))\n", t3));
    expected.push_str(&format!("[{}][{}]{}\r\n", fix(""), fix(t3), int_text(n as i64)));
    // through a by-reference parameter
    src.push_str("SetIt F\nPRINT \"[\"; F; \"]\"; LEN(F)\n");
    expected.push_str(&format!("[{}]{}\r\n", fix("0123456789"), int_text(n as i64)));
    src.push_str("SetIt R.Nm\nPRINT \"[\"; R.Nm; \"]\"; R.Tag\n");
    expected.push_str(&format!("[{}]{}\r\n", fix("0123456789"), int_text(7)));
    src.push_str("SetIt Arr(1)\nPRINT \"[\"; Arr(1); \"][\"; Arr(2); \"]\"\n");
    expected.push_str(&format!("[{}][{}]\r\n", fix("0123456789"), fix(t3)));
    src.push_str("END\nSUB SetIt(S AS STRING)\nS = \"0123456789\"\nEND SUB\n");
    Prog { src, expected_stdout: expected, expected_end: End::Ok, key: "fixed-string-program".into() }
}

/// STRING * n targets assigned from sources of every kind: a fixed-length variable, field or
/// element of ANOTHER length, an ordinary string variable, a concatenation
fn fixed_string_sources_program(rng: &mut Rng) -> Prog {
    let n = rng.range(1, 7) as usize;
    let mut m = rng.range(1, 7) as usize;
    if rng.chance(1, 4) {
        m = n;
    }
    let texts = ["", "a", "abc", "hello world", "xy", "q r"];
    let fixk = |s: &str, k: usize| -> String {
        let mut t: String = s.chars().take(k).collect();
        while t.len() < k {
            t.push(' ');
        }
        t
    };
    let mut src = String::new();
    let mut expected = String::new();
    src.push_str(&format!("TYPE RecN\nTag AS INTEGER\nNm AS STRING * {}\nEND TYPE\nTYPE RecM\nNm AS STRING * {}\nEND TYPE\n", n, m));
    src.push_str(&format!("DIM F AS STRING * {}\nDIM R AS RecN\nDIM Arr(1 TO 2) AS STRING * {}\n", n, n));
    src.push_str(&format!("DIM S AS STRING * {}\nDIM Q AS RecM\nDIM A2(1 TO 2) AS STRING * {}\n", m, m));
    let ts = *rng.pick(&texts);
    let tq = *rng.pick(&texts);
    let ta = *rng.pick(&texts);
    let tv = *rng.pick(&texts);
    src.push_str(&format!("S = \"{}\"\nQ.Nm = \"{}\"\nA2(2) = \"{}\"\nV$ = \"{}\"\nR.Tag = 5\n", ts, tq, ta, tv));
    // (source expression, its value)
    let sources: Vec<(String, String)> = vec![
        ("S".into(), fixk(ts, m)),
        ("Q.Nm".into(), fixk(tq, m)),
        ("A2(2)".into(), fixk(ta, m)),
        ("A2(1)".into(), fixk("", m)),
        ("V$".into(), tv.to_string()),
        ("S + \"z\"".into(), format!("{}z", fixk(ts, m))),
        ("V$ + Q.Nm".into(), format!("{}{}", tv, fixk(tq, m))),
    ];
    let targets = ["F", "R.Nm", "Arr(1)", "Arr(2)"];
    let mut cur: Vec<String> = vec![fixk("", n); 4];
    for _ in 0..rng.range(4, 9) {
        let ti = rng.below(4) as usize;
        let (se, sv) = rng.pick(&sources).clone();
        src.push_str(&format!("{} = {}\n", targets[ti], se));
        cur[ti] = fixk(&sv, n);
        src.push_str("PRINT \"[\"; F; \"][\"; R.Nm; \"][\"; Arr(1); \"][\"; Arr(2); \"]\"; LEN(F); LEN(R.Nm); LEN(Arr(1)); LEN(Arr(2)); R.Tag\n");
        expected.push_str(&format!("[{}][{}][{}][{}]{}{}{}{}{}\r\n", cur[0], cur[1], cur[2], cur[3],
            int_text(n as i64), int_text(n as i64), int_text(n as i64), int_text(n as i64), int_text(5)));
    }
    // the sources are unchanged
    src.push_str("PRINT \"[\"; S; \"][\"; Q.Nm; \"][\"; A2(2); \"]\"; LEN(S)\n");
    expected.push_str(&format!("[{}][{}][{}]{}\r\n", fixk(ts, m), fixk(tq, m), fixk(ta, m), int_text(m as i64)));
    Prog { src, expected_stdout: expected, expected_end: End::Ok, key: "fixed-string-sources-program".into() }
}

/// REDIM with an element type, writes, then REDIM again with and without the AS clause: the element
/// type stays, the contents start from the default, the bounds are the new ones
fn redim_program(rng: &mut Rng) -> Prog {
    let kinds = ["INTEGER", "LONG", "STRING", "FIXED"];
    let kind = *rng.pick(&kinds);
    let n = rng.range(2, 6) as usize;
    let as_clause = match kind {
        "FIXED" => format!("STRING * {}", n),
        k => k.to_string(),
    };
    let fixk = |t: &str| -> String {
        let mut x: String = t.chars().take(n).collect();
        while x.len() < n {
            x.push(' ');
        }
        x
    };
    let is_str = kind == "STRING" || kind == "FIXED";
    let show = |v: &str| -> String {
        if is_str { format!("[{}]", if kind == "FIXED" { fixk(v) } else { v.to_string() }) } else { int_text(v.parse::<i64>().unwrap_or(0)) }
    };
    let default = if is_str { "" } else { "0" };
    let mut src = String::new();
    let mut expected = String::new();
    let (lb1, ub1) = (rng.range(-1, 2) as i32, rng.range(3, 5) as i32);
    src.push_str(&format!("REDIM A({} TO {}) AS {}\n", lb1, ub1, as_clause));
    let vals = if is_str { vec!["abcdefgh", "x", "", "hello"] } else { vec!["7", "-3", "120", "0"] };
    let print_elem = |src: &mut String, idx: i32| {
        if is_str {
            src.push_str(&format!("PRINT \"[\"; A({i}); \"]\"; LEN(A({i}))\n", i = idx));
        } else {
            src.push_str(&format!("PRINT A({})\n", idx));
        }
    };
    let expect_elem = |expected: &mut String, v: &str| {
        if is_str {
            let shown = if kind == "FIXED" { fixk(v) } else { v.to_string() };
            expected.push_str(&format!("[{}]{}\r\n", shown, int_text(shown.len() as i64)));
        } else {
            expected.push_str(&format!("{}\r\n", show(v)));
        }
    };
    let v1 = *rng.pick(&vals);
    let lit = |v: &str| if is_str { format!("\"{}\"", v) } else { v.to_string() };
    src.push_str(&format!("A({}) = {}\n", lb1, lit(v1)));
    print_elem(&mut src, lb1);
    expect_elem(&mut expected, v1);
    print_elem(&mut src, ub1);
    expect_elem(&mut expected, default);
    // again, with or without the AS clause
    let (lb2, ub2) = (rng.range(0, 2) as i32, rng.range(3, 7) as i32);
    if rng.chance(1, 2) {
        src.push_str(&format!("REDIM A({} TO {})\n", lb2, ub2));
    } else {
        src.push_str(&format!("REDIM A({} TO {}) AS {}\n", lb2, ub2, as_clause));
    }
    src.push_str("PRINT LBOUND(A); UBOUND(A)\n");
    expected.push_str(&format!("{}{}\r\n", int_text(lb2 as i64), int_text(ub2 as i64)));
    print_elem(&mut src, ub2);
    expect_elem(&mut expected, default);
    print_elem(&mut src, lb2);
    expect_elem(&mut expected, default);
    let v2 = *rng.pick(&vals);
    let v3 = *rng.pick(&vals);
    src.push_str(&format!("A({}) = {}\nA({}) = {}\n", lb2, lit(v2), ub2, lit(v3)));
    print_elem(&mut src, lb2);
    expect_elem(&mut expected, v2);
    print_elem(&mut src, ub2);
    expect_elem(&mut expected, v3);
    // beyond the new bounds
    let row = src.lines().count() as u32 + 1;
    src.push_str(&format!("A({}) = {}\n", ub2 + 1, lit(v1)));
    Prog { src, expected_stdout: expected, expected_end: End::Err(9, vec![(row, 1)], String::new()), key: "redim-program".into() }
}

fn record_program(rng: &mut Rng) -> Prog {
    let mut src = String::new();
    let mut expected = String::new();
    src.push_str("TYPE Inner\nP AS INTEGER\nQ AS LONG\nEND TYPE\nTYPE Outer\nA AS INTEGER\nIn1 AS Inner\nB AS SINGLE\nIn2 AS Inner\nEND TYPE\n");
    src.push_str("DIM X AS Outer\nDIM Ys(0 TO 2) AS Outer\n");
    // reference: field path -> value
    let fields = ["A", "In1.P", "In1.Q", "B", "In2.P", "In2.Q"];
    let mut vals: Vec<i64> = vec![0; fields.len()];
    let mut yvals: Vec<Vec<i64>> = vec![vec![0; fields.len()]; 3];
    let spell = |rng: &mut Rng, f: &str| -> String {
        match rng.below(3) {
            0 => f.to_uppercase(),
            1 => f.to_lowercase(),
            _ => f.to_string(),
        }
    };
    for step in 0..rng.range(3, 8) {
        let k = rng.below(fields.len() as u64) as usize;
        let v = 10 + step;
        if rng.chance(1, 2) {
            src.push_str(&format!("X.{} = {}\n", spell(rng, fields[k]), v));
            vals[k] = v;
        } else {
            let e = rng.below(3) as usize;
            src.push_str(&format!("Ys({}).{} = {}\n", e, spell(rng, fields[k]), v));
            yvals[e][k] = v;
        }
    }
    src.push_str("PRINT ");
    for (k, f) in fields.iter().enumerate() {
        src.push_str(&format!("{}X.{}", if k > 0 { "; " } else { "" }, f));
        expected.push_str(&int_text(vals[k]));
    }
    src.push_str("\n");
    expected.push_str("\r\n");
    for e in 0..3 {
        src.push_str("PRINT ");
        for (k, f) in fields.iter().enumerate() {
            src.push_str(&format!("{}Ys({}).{}", if k > 0 { "; " } else { "" }, e, f));
            expected.push_str(&int_text(yvals[e][k]));
        }
        src.push_str("\n");
        expected.push_str("\r\n");
    }
    Prog { src, expected_stdout: expected, expected_end: End::Ok, key: "record-program".into() }
}

fn run_prog(p: &Prog, sum: &mut Summary, evaluations: &mut usize) {
    *evaluations += 1;
    sum.count(&p.key);
    let o = run_program(&p.src, &RunOpts::default());
    let (end, out) = match &o {
        Outcome::Ran(r) => (Some(r.end.clone()), text(&r.stdout)),
        _ => (None, String::new()),
    };
    let ok = match (&end, &p.expected_end) {
        (Some(End::Ok), End::Ok) => out == p.expected_stdout,
        (Some(End::Err(c, pos, _)), End::Err(c2, pos2, _)) => c == c2 && pos.first().map(|x| x.0) == pos2.first().map(|x| x.0) && out == p.expected_stdout,
        _ => false,
    };
    if !ok {
        sum.violation(ImplViolation {
            key: p.key.clone(),
            input: p.src.clone(),
            expected: format!("{:?} with output {:?}", p.expected_end, p.expected_stdout),
            observed: match &o {
                Outcome::Ran(r) => format!("{:?} with output {:?}", r.end, out),
                other => format!("{:?}", other),
            },
        });
    }
    sum.nontrivial(p.src.clone());
    if sum.samples.len() < 6 {
        sum.sample(J::s(p.src.clone()));
    }
}

pub fn run(args: &Args) {
    let mut rng = Rng::new(args.seed);
    let mut sum = Summary::new();
    let mut w = CaseWriter::new(&args.out, "c04", HEADER, 300);
    let mut evaluations = 0usize;
    let (blo, bhi) = if args.thorough() { (-2, 3) } else { (-2, 2) };
    let mut dims1: Vec<(i32, i32)> = vec![];
    for l in blo..=bhi {
        for u in l..=bhi {
            dims1.push((l, u));
        }
    }
    // rank 1 and 2 exhaustive, rank 3 exhaustive in thorough and sampled in quick
    for d in &dims1 {
        shape_case(&[*d], &mut w, &mut sum, &mut evaluations);
    }
    for a in &dims1 {
        for b in &dims1 {
            shape_case(&[*a, *b], &mut w, &mut sum, &mut evaluations);
        }
    }
    if args.thorough() {
        for a in &dims1 {
            for b in &dims1 {
                for c in &dims1 {
                    shape_case(&[*a, *b, *c], &mut w, &mut sum, &mut evaluations);
                }
            }
        }
    } else {
        for _ in 0..400 {
            let s = [*rng.pick(&dims1), *rng.pick(&dims1), *rng.pick(&dims1)];
            shape_case(&s, &mut w, &mut sum, &mut evaluations);
        }
    }
    // larger bounds, random
    for _ in 0..(if args.thorough() { 300 } else { 60 }) {
        let rank = rng.range(1, 3) as usize;
        let ds: Vec<(i32, i32)> = (0..rank)
            .map(|_| {
                let l = rng.range(-300, 300) as i32;
                (l, l + rng.range(0, 6) as i32)
            })
            .collect();
        shape_case(&ds, &mut w, &mut sum, &mut evaluations);
    }
    fix_length_cases(&mut w, &mut sum, &mut evaluations, args.thorough());

    // programs
    let n_prog = if args.thorough() { 1500 } else { 150 };
    for k in 0..n_prog {
        let rank = 1 + (k % 3);
        let ds: Vec<(i32, i32)> = (0..rank)
            .map(|_| {
                let l = rng.range(-3, 2) as i32;
                (l, l + rng.range(0, 3) as i32)
            })
            .collect();
        let p = array_program(&mut rng, &ds, k % 2 == 1);
        run_prog(&p, &mut sum, &mut evaluations);
    }
    for _ in 0..(n_prog / 3) {
        let p = fixed_string_program(&mut rng);
        run_prog(&p, &mut sum, &mut evaluations);
        let p = fixed_string_sources_program(&mut rng);
        run_prog(&p, &mut sum, &mut evaluations);
        let p = redim_program(&mut rng);
        run_prog(&p, &mut sum, &mut evaluations);
        let p = record_program(&mut rng);
        run_prog(&p, &mut sum, &mut evaluations);
    }
    w.flush();
    sum.write(
        &args.out,
        evaluations,
        "unit level: every shape of rank 1-2 with bounds in -2..2 (quick) / -2..3 (thorough), rank 3 sampled (quick) / exhaustive (thorough), random shapes with large lower bounds; for each shape abs_index on every tuple with components in lb-1..ub+1 (all in- and out-of-range tuples on and one beyond every face), a distinct value written through every in-bounds tuple and everything read back; fix_length on all strings over {a, blank, NUL} up to length 4/5 x all lengths. Program level: generated DIM/write/read/LBOUND/UBOUND programs over all five numeric element types with an out-of-range access in every second one, records with nested records and arrays of records with case-varied field names, STRING * n variables/fields/elements assigned from literals, through a by-reference parameter, and from fixed-length variables/fields/elements of another length, ordinary strings and concatenations; REDIM with an element type (numbers, strings, STRING * n), writes, a second REDIM with or without the AS clause, defaults, new bounds, padding and the first subscript beyond them; expected output computed by an independent reference in the harness. Non-trivial = shape with rank >= 2 and more than one element, string length differs from target, every program; distinct by text.",
    );
}
