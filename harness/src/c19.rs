//! C19: bit-level primitives. Implementation side of the correspondence with
//! coq/theories/Val/Bits.v and the independent evaluation of the property
//! (native i16 / to_le_bytes as oracle).
use rusty_bit_vec::BitVec;
use rusty_variant::{Variant, bytes_to_f64, bytes_to_i32, f64_to_bytes, i32_to_bytes, qb_and, qb_or};

use crate::common::*;

const HEADER: &str = "From Coq Require Import List ZArith Bool.\nFrom RB Require Import Base.Util Val.Bits.\nImport ListNotations.\nOpen Scope Z_scope.\n";

fn bits_of(a: i32) -> Vec<bool> {
    BitVec::from(a).into()
}

pub fn boundary_ints() -> Vec<i32> {
    let mut v: Vec<i32> = vec![0, 1, -1, 2, -2, 255, 256, -255, -256, 257, 32767, -32768, 32766, -32767, 0x5555, -0x5556, 0x00FF, -0x0100, 0x0F0F, 0x7F00];
    for k in 0..15 {
        v.push(1 << k); // one-hot
        v.push(!(1 << k)); // complement of one-hot
        v.push((1 << k) - 1);
    }
    v.push(-32768); // the one-hot of the sign bit
    v.sort();
    v.dedup();
    v
}

pub fn special_doubles(rng: &mut Rng, thorough: bool) -> Vec<u64> {
    let mut v: Vec<u64> = vec![];
    // every power of two 2^-1074 .. 2^1023: subnormals are 1<<k, normals have a zero mantissa
    for k in 0..52 {
        v.push(1u64 << k);
    }
    for e in 1..=2046u64 {
        v.push(e << 52);
    }
    // boundary mantissas at a spread of exponents
    let mant: [u64; 6] = [1, (1 << 52) - 1, 1 << 51, (1 << 51) - 1, (1 << 51) + 1, 0x000A_AAAA_AAAA_AAAA];
    let step = if thorough { 1 } else { 37 };
    let mut e = 0u64;
    while e <= 2046 {
        for m in mant {
            v.push((e << 52) | m);
        }
        e += step;
    }
    // values around 2^53, 2^63, 2^64, max finite, min normal, max subnormal, zeros, infinities, a NaN
    for f in [
        9007199254740992.0f64,
        9007199254740993.0,
        9007199254740991.0,
        9223372036854775808.0,
        9223372036854775807.0,
        9223372036854777856.0,
        18446744073709551616.0,
        1.6e20,
        f64::MAX,
        f64::MIN_POSITIVE,
        2.2250738585072009e-308,
        5e-324,
        0.0,
        0.1,
        1.0 / 3.0,
        f64::INFINITY,
    ] {
        v.push(f.to_bits());
    }
    let n = v.len();
    for i in 0..n {
        v.push(v[i] | (1u64 << 63)); // negatives, incl. -0.0
    }
    v.push(0x7FF8_0000_0000_0001); // a NaN with payload: pure bit shuffling must keep it
    let nrand = if thorough { 60000 } else { 3000 };
    for _ in 0..nrand {
        v.push(rng.next());
    }
    v
}

pub fn run(args: &Args) {
    let mut rng = Rng::new(args.seed);
    let mut sum = Summary::new();
    let mut w = CaseWriter::new(&args.out, "c19", HEADER, 4096);
    let mut evaluations = 0usize;

    // ---- 1. all 65536 INTEGERs: bit vector, bytes, NOT, and all 65536 byte pairs
    for a in -32768i32..=32767 {
        let bits = bits_of(a);
        let back: i32 = BitVec::from(a).into();
        let by = i32_to_bytes(a);
        let by_back = bytes_to_i32(by);
        let n = match Variant::VInteger(a).unary_not() {
            Ok(Variant::VInteger(n)) => n,
            other => {
                sum.violation(ImplViolation { key: "not-nonint".into(), input: format!("NOT {}", a), expected: "VInteger".into(), observed: format!("{:?}", other) });
                0
            }
        };
        let word = (a + 32768) as u32; // enumerate byte pairs by an independent index
        let (lo, hi) = ((word & 255) as u8, (word >> 8) as u8);
        let from_bytes = bytes_to_i32([lo, hi]);
        let word_of_bits: u32 = bits.iter().fold(0u32, |acc, b| (acc << 1) | (*b as u32));
        w.push(Case {
            agree: format!(
                "list_eqb Bool.eqb (from_i32 {a}) (word_bits 16 {wb}) && (bits_to_int (from_i32 {a}) =? {back}) && list_eqb Z.eqb (i32_to_bytes {a}) {by} && (qb_not {a} =? {n}) && (bytes_to_i32 {pair} =? {fb})",
                a = z(a as i128),
                wb = z(word_of_bits as i128),
                back = z(back as i128),
                by = bytes(&by),
                n = z(n as i128),
                pair = bytes(&[lo, hi]),
                fb = z(from_bytes as i128)
            ),
            desc: format!("a={} bits={:04x} bytes={:?} not={} bytes_to_i32([{},{}])={}", a, word_of_bits, by, n, lo, hi, from_bytes),
            model_expr: format!("(from_i32 {a}, i32_to_bytes {a}, qb_not {a}, bytes_to_i32 {p})", a = z(a as i128), p = bytes(&[lo, hi])),
        });
        evaluations += 1;
        // property on the implementation, oracle = native two's complement
        let a16 = a as i16;
        if bits.len() != 16 || word_of_bits != (a16 as u16) as u32 {
            sum.violation(ImplViolation { key: "bitvec".into(), input: format!("BitVec::from({})", a), expected: format!("{:016b}", a16 as u16), observed: format!("{:0b}", word_of_bits) });
        }
        if back != a {
            sum.violation(ImplViolation { key: "bitvec-roundtrip".into(), input: format!("{}", a), expected: format!("{}", a), observed: format!("{}", back) });
        }
        if by != a16.to_le_bytes() || by_back != a {
            sum.violation(ImplViolation { key: "int-bytes".into(), input: format!("i32_to_bytes({})", a), expected: format!("{:?}", a16.to_le_bytes()), observed: format!("{:?} back {}", by, by_back) });
        }
        if n != (!a16) as i32 {
            sum.violation(ImplViolation { key: "not".into(), input: format!("NOT {}", a), expected: format!("{}", !a16), observed: format!("{}", n) });
        }
        if from_bytes != i16::from_le_bytes([lo, hi]) as i32 || i32_to_bytes(from_bytes) != [lo, hi] {
            sum.violation(ImplViolation { key: "bytes-int".into(), input: format!("bytes_to_i32([{},{}])", lo, hi), expected: format!("{}", i16::from_le_bytes([lo, hi])), observed: format!("{}", from_bytes) });
        }
        if a != 0 && a != -1 {
            sum.nontrivial(format!("u{}", a));
        }
    }
    sum.count("unary_all_65536");
    sum.sample(J::s("a=-2: bits=fffe bytes=[254,255] not=1"));

    // ---- 2. AND / OR: boundary set squared + random pairs
    let bset = boundary_ints();
    let mut pairs: Vec<(i32, i32)> = vec![];
    for a in &bset {
        for b in &bset {
            pairs.push((*a, *b));
        }
    }
    *sum.histogram.entry("andor_boundary_pairs".into()).or_insert(0) += pairs.len() as i128;
    let nrand = if args.thorough() { 150_000 } else { 6_000 };
    for _ in 0..nrand {
        pairs.push((rng.range(-32768, 32767) as i32, rng.range(-32768, 32767) as i32));
    }
    *sum.histogram.entry("andor_random_pairs".into()).or_insert(0) += nrand as i128;
    for (a, b) in pairs {
        let ra = qb_and(a, b);
        let ro = qb_or(a, b);
        // through the Variant API as the VM calls it
        let va = match Variant::VInteger(a).and(Variant::VInteger(b)) {
            Ok(Variant::VInteger(x)) => x,
            _ => i32::MIN,
        };
        let vo = match Variant::VInteger(a).or(Variant::VInteger(b)) {
            Ok(Variant::VInteger(x)) => x,
            _ => i32::MIN,
        };
        w.push(Case {
            agree: format!("(qb_and {a} {b} =? {ra}) && (qb_or {a} {b} =? {ro})", a = z(a as i128), b = z(b as i128), ra = z(ra as i128), ro = z(ro as i128)),
            desc: format!("{} AND {} = {}; OR = {}", a, b, ra, ro),
            model_expr: format!("(qb_and {a} {b}, qb_or {a} {b})", a = z(a as i128), b = z(b as i128)),
        });
        evaluations += 1;
        let ea = ((a as i16) & (b as i16)) as i32;
        let eo = ((a as i16) | (b as i16)) as i32;
        if ra != ea || va != ea {
            sum.violation(ImplViolation { key: "and".into(), input: format!("{} AND {}", a, b), expected: format!("{}", ea), observed: format!("{} (variant {})", ra, va) });
        }
        if ro != eo || vo != eo {
            sum.violation(ImplViolation { key: "or".into(), input: format!("{} OR {}", a, b), expected: format!("{}", eo), observed: format!("{} (variant {})", ro, vo) });
        }
        if a != b && a != 0 && b != 0 {
            sum.nontrivial(format!("p{},{}", a, b));
        }
        if sum.samples.len() < 4 {
            sum.sample(J::s(format!("{} AND {} = {}, OR = {}", a, b, ra, ro)));
        }
    }

    // ---- 3. doubles: word -> bytes and bytes -> word
    let doubles = special_doubles(&mut rng, args.thorough());
    *sum.histogram.entry("doubles".into()).or_insert(0) += doubles.len() as i128;
    for word in doubles {
        let x = f64::from_bits(word);
        // decode direction on an independent byte string (the reversed bytes, so exponent/mantissa roles swap)
        let mut other = word.to_le_bytes();
        other.reverse();
        let (by, back, dec) = match guard(move || {
            let by = f64_to_bytes(x);
            (by, bytes_to_f64(&by), bytes_to_f64(&other))
        }) {
            Ok(t) => t,
            Err(msg) => {
                evaluations += 1;
                if x.is_finite() {
                    sum.violation(ImplViolation { key: "mkd-panic".into(), input: format!("MKD$/CVD of bits {:016x} ({:e})", word, x), expected: "8 bytes".into(), observed: format!("panic: {}", msg) });
                } else {
                    sum.count("double_nonfinite_panic_ignored");
                }
                continue;
            }
        };
        let dec_is_nan = dec.is_nan();
        let mut agree = format!("list_eqb Z.eqb (f64_word_to_bytes {w}) {by}", w = z(word as i128), by = bytes(&by));
        if !dec_is_nan {
            // NaN payloads may be quietened by the FPU on some targets; outside the property (finite doubles)
            agree.push_str(&format!(" && (bytes_to_f64_word {o} =? {d})", o = bytes(&other), d = z(dec.to_bits() as i128)));
        }
        w.push(Case {
            agree,
            desc: format!("x=bits {:016x} ({:e}) f64_to_bytes={:?}; bytes_to_f64({:?})=bits {:016x}", word, x, by, other, dec.to_bits()),
            model_expr: format!("(f64_word_to_bytes {w}, bytes_to_f64_word {o})", w = z(word as i128), o = bytes(&other)),
        });
        evaluations += 1;
        let class = if x.is_nan() { "nan" } else if x.is_infinite() { "inf" } else if x == 0.0 { "zero" } else if x.is_subnormal() { "subnormal" } else if x.abs() >= 9.223372036854775807e18 { "normal>=2^63" } else { "normal" };
        sum.count(&format!("double_{}", class));
        if x.is_finite() {
            if by != x.to_le_bytes() {
                sum.violation(ImplViolation { key: format!("mkd-{}", class), input: format!("MKD$ of bits {:016x} ({:e})", word, x), expected: format!("{:?}", x.to_le_bytes()), observed: format!("{:?}", by) });
            }
            if back.to_bits() != word {
                sum.violation(ImplViolation { key: format!("cvd-mkd-{}", class), input: format!("CVD(MKD$(x)) for bits {:016x} ({:e})", word, x), expected: format!("{:016x}", word), observed: format!("{:016x} ({:e})", back.to_bits(), back) });
            }
            sum.nontrivial(format!("d{:x}", word));
        }
        if dec.is_finite() && dec.to_bits() != u64::from_le_bytes(other) {
            sum.violation(ImplViolation { key: "cvd".into(), input: format!("CVD of bytes {:?}", other), expected: format!("{:016x}", u64::from_le_bytes(other)), observed: format!("{:016x}", dec.to_bits()) });
        }
        if sum.samples.len() < 8 {
            sum.sample(J::s(format!("MKD$({:e}) = {:?}", x, by)));
        }
    }
    // ---- 4. PEEK / POKE through whole programs: both bytes of every INTEGER, and POKE of boundary
    // and random bytes into boundary and random INTEGERs
    {
        use crate::runner::{End, Outcome, RunOpts, run_program};
        let src = "DEFINT A-Z\nFOR V& = -32768 TO 32767\nA = V&\nPRINT PEEK(VARPTR(A)); PEEK(VARPTR(A) + 1)\nNEXT\n";
        evaluations += 1;
        match run_program(src, &RunOpts { budget: 20_000_000, ..Default::default() }) {
            Outcome::Ran(r) if r.end == End::Ok => {
                let out = String::from_utf8_lossy(&r.stdout).to_string();
                let lines: Vec<&str> = out.lines().collect();
                if lines.len() != 65536 {
                    sum.violation(ImplViolation { key: "peek-program".into(), input: src.replace('\n', " | "), expected: "65536 lines".into(), observed: format!("{} lines", lines.len()) });
                }
                for (k, l) in lines.iter().enumerate() {
                    let v = k as i32 - 32768;
                    let word = (v as i64 & 0xffff) as u32;
                    let (lo, hi) = (word & 255, word >> 8);
                    let got: Vec<i64> = l.split_whitespace().filter_map(|t| t.parse().ok()).collect();
                    evaluations += 1;
                    if got != vec![lo as i64, hi as i64] {
                        sum.violation(ImplViolation { key: "peek-bytes".into(), input: format!("A% = {} : PRINT PEEK(VARPTR(A%)); PEEK(VARPTR(A%) + 1)", v), expected: format!("{} {}", lo, hi), observed: l.trim().to_string() });
                    }
                    // the model on a sample (every 97th value and the boundaries)
                    if got.len() == 2 && (k % 97 == 0 || v.abs() <= 2 || v >= 32766 || v <= -32767 || (v & 255) == 0 || (v & 255) == 255) {
                        w.push(Case {
                            agree: format!("match peek_byte {} 0, peek_byte {} 1 with Some a, Some b => (a =? {}) && (b =? {}) | _, _ => false end", z(v as i128), z(v as i128), got[0], got[1]),
                            desc: format!("PEEK of both bytes of {} = {:?}", v, got),
                            model_expr: format!("(peek_byte {} 0, peek_byte {} 1)", z(v as i128), z(v as i128)),
                        });
                    }
                }
                sum.count("peek_all_integers_both_bytes");
            }
            other => sum.violation(ImplViolation { key: "peek-program".into(), input: src.replace('\n', " | "), expected: "runs".into(), observed: format!("{:?}", other).chars().take(200).collect() }),
        }
        let vals: Vec<i32> = vec![0, 1, -1, 2, -2, 255, 256, 257, -255, -256, -257, 32767, -32768, -32767, 127, 128, -128, -129, 4660, -4660];
        let bytes_: Vec<i32> = vec![0, 1, 127, 128, 254, 255];
        let mut triples: Vec<(i32, i32, i32)> = vec![];
        for v in vals.iter() {
            for k in 0..2 {
                for b in bytes_.iter() {
                    triples.push((*v, k, *b));
                }
            }
        }
        for _ in 0..(if args.thorough() { 3000 } else { 400 }) {
            triples.push((rng.range(-32768, 32767) as i32, rng.below(2) as i32, rng.below(256) as i32));
        }
        let mut src = String::from("DEFINT A-Z\n");
        for (v, k, b) in triples.iter() {
            src.push_str(&format!("A = {}\nPOKE VARPTR(A) + {}, {}\nPRINT A\n", v, k, b));
        }
        evaluations += 1;
        match run_program(&src, &RunOpts { budget: 20_000_000, ..Default::default() }) {
            Outcome::Ran(r) if r.end == End::Ok => {
                let out = String::from_utf8_lossy(&r.stdout).to_string();
                let lines: Vec<&str> = out.lines().collect();
                if lines.len() != triples.len() {
                    sum.violation(ImplViolation { key: "poke-program".into(), input: "POKE program".into(), expected: format!("{} lines", triples.len()), observed: format!("{} lines", lines.len()) });
                }
                for ((v, k, b), l) in triples.iter().zip(lines.iter()) {
                    let word = (*v as i64 & 0xffff) as u32;
                    let nw = if *k == 0 { (word & 0xff00) | (*b as u32) } else { (word & 0x00ff) | ((*b as u32) << 8) };
                    let expect = if nw >= 32768 { nw as i64 - 65536 } else { nw as i64 };
                    let got: Option<i64> = l.trim().parse().ok();
                    evaluations += 1;
                    if got != Some(expect) {
                        sum.violation(ImplViolation { key: "poke-byte".into(), input: format!("A% = {} : POKE VARPTR(A%) + {}, {} : PRINT A%", v, k, b), expected: format!("{}", expect), observed: l.trim().to_string() });
                    }
                    if let Some(g) = got {
                        w.push(Case {
                            agree: format!("match poke_byte {} {}%nat {} with Some r => r =? {} | None => false end", z(*v as i128), k, b, z(g as i128)),
                            desc: format!("POKE byte {} of {} with {} = {}", k, v, b, g),
                            model_expr: format!("poke_byte {} {}%nat {}", z(*v as i128), k, b),
                        });
                    }
                }
                sum.count("poke_triples");
            }
            other => sum.violation(ImplViolation { key: "poke-program".into(), input: "POKE program".into(), expected: "runs".into(), observed: format!("{:?}", other).chars().take(200).collect() }),
        }
    }
    w.flush();
    sum.write(
        &args.out,
        evaluations,
        "exhaustive over all 65536 INTEGERs (bit vector, bytes both ways, NOT); AND/OR on (boundary u one-hot u complement)^2 plus seeded random pairs; doubles: every power of two, boundary mantissas across exponents, subnormals, +-0, around 2^53/2^63/2^64, max finite, random bit patterns; PEEK of both bytes of all 65536 INTEGERs through a running program (against an independent two's-complement oracle, a sample against Bits.peek_byte), POKE of boundary and random bytes into boundary and random INTEGERs (oracle and Bits.poke_byte). Non-trivial = not 0/-1 (unary), distinct non-zero operands (pairs), finite (doubles); distinct by value.",
    );
}
