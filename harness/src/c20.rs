//! C20: parser combinators. Interprets the same `Pexp` terms as coq/theories/PC/Model.v into real
//! rusty_pc parsers and records `(result, position)` for every input.
use std::cell::Cell;
use std::rc::Rc;

use rusty_pc::boxed::BoxedParser;
use rusty_pc::*;

use crate::common::*;

#[derive(Clone, Debug, PartialEq, Default)]
pub enum Val {
    Sym(u8),
    #[default]
    Unit,
    None_,
    Some_(Box<Val>),
    List(Vec<Val>),
    Pair(Box<Val>, Box<Val>),
    Tag(u32, Box<Val>),
}

#[derive(Clone, Debug, PartialEq)]
pub enum TErr {
    Soft(u32),
    Fatal(u32),
}

impl Default for TErr {
    fn default() -> Self {
        TErr::Soft(0)
    }
}

impl ParserErrorTrait for TErr {
    fn is_fatal(&self) -> bool {
        matches!(self, TErr::Fatal(_))
    }
    fn to_fatal(self) -> Self {
        match self {
            TErr::Soft(t) | TErr::Fatal(t) => TErr::Fatal(t),
        }
    }
}

pub struct TIn {
    s: Vec<u8>,
    i: usize,
}

impl InputTrait for TIn {
    type Output = Val;
    fn peek(&self) -> Val {
        Val::Sym(self.s[self.i])
    }
    fn read(&mut self) -> Val {
        let v = Val::Sym(self.s[self.i]);
        self.i += 1;
        v
    }
    fn get_position(&self) -> usize {
        self.i
    }
    fn is_eof(&self) -> bool {
        self.i >= self.s.len()
    }
    fn set_position(&mut self, position: usize) {
        self.i = position;
    }
}

#[derive(Clone, Debug, PartialEq)]
pub enum Pred {
    IsSym(u8),
    NotSym(u8),
    True,
    False,
}

fn eval_pred(p: &Pred, v: &Val) -> bool {
    match (p, v) {
        (Pred::IsSym(a), Val::Sym(b)) => a == b,
        (Pred::IsSym(_), _) => false,
        (Pred::NotSym(a), Val::Sym(b)) => a != b,
        (Pred::NotSym(_), _) => true,
        (Pred::True, _) => true,
        (Pred::False, _) => false,
    }
}

#[derive(Clone, Debug, PartialEq)]
pub enum VFun {
    Ok(u32),
    Err(TErr),
    OkIf(Pred, TErr),
}

#[derive(Clone, Debug, PartialEq)]
pub enum EFun {
    Keep,
    Ok(Val),
    Err(TErr),
}

#[derive(Clone, Debug, PartialEq)]
pub enum Pexp {
    Read,
    PeekTop,
    Supplier(Val),
    ErrSupplier(TErr),
    Filter(Box<Pexp>, Pred),
    FilterMap(Box<Pexp>, Pred),
    And(Box<Pexp>, Box<Pexp>),
    Or(Vec<Pexp>),
    Or2(Box<Pexp>, Box<Pexp>),
    Many(Box<Pexp>, bool),
    Peek(Box<Pexp>),
    ToOption(Box<Pexp>),
    OrDefault(Box<Pexp>),
    Surround(Box<Pexp>, Box<Pexp>, Box<Pexp>, bool),
    Delimited(Box<Pexp>, Box<Pexp>, TErr, bool),
    Seq(Box<Pexp>, Vec<Pexp>),
    AndThen(Box<Pexp>, VFun),
    AndThenErr(Box<Pexp>, EFun),
    Map(Box<Pexp>, u32),
    WithSoftErr(Box<Pexp>, TErr),
    MapFatalErr(Box<Pexp>, TErr),
    ToFatal(Box<Pexp>),
    Wrap(Box<Pexp>, bool), // true: boxed again, false: lazy
}

type P = BoxedParser<TIn, (), Val, TErr>;

/// A transparent parser that records whether the wrapped parser returned a fatal error.
struct Probe {
    inner: P,
    flag: Rc<Cell<bool>>,
}

impl Parser<TIn, ()> for Probe {
    type Output = Val;
    type Error = TErr;
    fn parse(&mut self, input: &mut TIn) -> Result<Val, TErr> {
        let r = self.inner.parse(input);
        if let Err(e) = &r {
            if e.is_fatal() {
                self.flag.set(true);
            }
        }
        r
    }
    fn set_context(&mut self, _ctx: &()) {}
}

fn probe(p: P, flag: &Rc<Cell<bool>>) -> P {
    Probe { inner: p, flag: flag.clone() }.boxed()
}

pub fn build(e: &Pexp, flag: &Rc<Cell<bool>>) -> P {
    let b = |x: &Pexp| build(x, flag);
    let p: P = match e {
        Pexp::Read => read_p::<TIn, TErr>().boxed(),
        Pexp::PeekTop => peek_p::<TIn, TErr>().boxed(),
        Pexp::Supplier(v) => {
            let v = v.clone();
            supplier::<TIn, (), _, Val, TErr>(move || v.clone()).boxed()
        }
        Pexp::ErrSupplier(err) => {
            let err = err.clone();
            err_supplier::<TIn, (), _, Val, TErr>(move || err.clone()).boxed()
        }
        Pexp::Filter(q, f) => {
            let f = f.clone();
            b(q).filter(move |v: &Val| eval_pred(&f, v)).boxed()
        }
        Pexp::FilterMap(q, f) => {
            let f = f.clone();
            b(q).filter_map(move |v: &Val| if eval_pred(&f, v) { Some(v.clone()) } else { None }).boxed()
        }
        Pexp::And(l, r) => b(l).and_tuple(b(r)).map(|(x, y)| Val::Pair(Box::new(x), Box::new(y))).boxed(),
        Pexp::Or(ps) => {
            let v: Vec<Box<dyn Parser<TIn, (), Output = Val, Error = TErr>>> =
                ps.iter().map(|x| Box::new(b(x)) as Box<dyn Parser<TIn, (), Output = Val, Error = TErr>>).collect();
            OrParser::new(v).boxed()
        }
        Pexp::Or2(l, r) => b(l).or(b(r)).boxed(),
        Pexp::Many(q, allow) => {
            if *allow {
                b(q).zero_or_more().map(Val::List).boxed()
            } else {
                b(q).one_or_more().map(Val::List).boxed()
            }
        }
        Pexp::Peek(q) => b(q).peek().boxed(),
        Pexp::ToOption(q) => b(q)
            .to_option()
            .map(|o| match o {
                Some(v) => Val::Some_(Box::new(v)),
                None => Val::None_,
            })
            .boxed(),
        Pexp::OrDefault(q) => b(q).or_default().boxed(),
        Pexp::Surround(l, q, r, mandatory) => surround(
            b(l),
            b(q),
            b(r),
            if *mandatory { SurroundMode::Mandatory } else { SurroundMode::Optional },
        )
        .boxed(),
        Pexp::Delimited(q, d, trailing, allow_missing) => {
            if *allow_missing {
                b(q).delimited_by_allow_missing(b(d), trailing.clone())
                    .map(|v: Vec<Option<Val>>| {
                        Val::List(
                            v.into_iter()
                                .map(|o| match o {
                                    Some(x) => Val::Some_(Box::new(x)),
                                    None => Val::None_,
                                })
                                .collect(),
                        )
                    })
                    .boxed()
            } else {
                b(q).delimited_by(b(d), trailing.clone()).map(Val::List).boxed()
            }
        }
        Pexp::Seq(first, rest) => match rest.len() {
            1 => seq2(b(first), b(&rest[0]), |a, b1| Val::List(vec![a, b1])).boxed(),
            2 => seq3(b(first), b(&rest[0]), b(&rest[1]), |a, b1, c| Val::List(vec![a, b1, c])).boxed(),
            3 => seq4(b(first), b(&rest[0]), b(&rest[1]), b(&rest[2]), |a, b1, c, d| Val::List(vec![a, b1, c, d])).boxed(),
            4 => seq5(b(first), b(&rest[0]), b(&rest[1]), b(&rest[2]), b(&rest[3]), |a, b1, c, d, e| Val::List(vec![a, b1, c, d, e])).boxed(),
            5 => seq6(b(first), b(&rest[0]), b(&rest[1]), b(&rest[2]), b(&rest[3]), b(&rest[4]), |a, b1, c, d, e, f| {
                Val::List(vec![a, b1, c, d, e, f])
            })
            .boxed(),
            _ => panic!("seq arity"),
        },
        Pexp::AndThen(q, f) => {
            let f = f.clone();
            b(q).and_then(move |v: Val| match &f {
                VFun::Ok(t) => Ok(Val::Tag(*t, Box::new(v))),
                VFun::Err(e) => Err(e.clone()),
                VFun::OkIf(p, e) => {
                    if eval_pred(p, &v) {
                        Ok(v)
                    } else {
                        Err(e.clone())
                    }
                }
            })
            .boxed()
        }
        Pexp::AndThenErr(q, f) => {
            let f = f.clone();
            b(q).and_then_err(move |e: TErr| match &f {
                EFun::Keep => Err(e),
                EFun::Ok(v) => Ok(v.clone()),
                EFun::Err(e2) => Err(e2.clone()),
            })
            .boxed()
        }
        Pexp::Map(q, t) => {
            let t = *t;
            b(q).map(move |v| Val::Tag(t, Box::new(v))).boxed()
        }
        Pexp::WithSoftErr(q, e2) => b(q).with_soft_err(e2.clone()).boxed(),
        Pexp::MapFatalErr(q, e2) => b(q).map_fatal_err(e2.clone()).boxed(),
        Pexp::ToFatal(q) => b(q).to_fatal().boxed(),
        Pexp::Wrap(q, boxed_again) => {
            if *boxed_again {
                b(q).boxed()
            } else {
                let q2 = (**q).clone();
                let fl = flag.clone();
                lazy(move || build(&q2, &fl)).boxed()
            }
        }
    };
    probe(p, flag)
}

// ---------------------------------------------------------------- syntactic classes

/// every success consumes at least one symbol
pub fn consuming(e: &Pexp) -> bool {
    match e {
        Pexp::Read => true,
        Pexp::PeekTop | Pexp::Supplier(_) | Pexp::ErrSupplier(_) => false,
        Pexp::Filter(q, _) | Pexp::FilterMap(q, _) | Pexp::Map(q, _) | Pexp::WithSoftErr(q, _) | Pexp::MapFatalErr(q, _) | Pexp::ToFatal(q) | Pexp::Wrap(q, _) => consuming(q),
        Pexp::AndThen(q, _) => consuming(q),
        Pexp::AndThenErr(q, f) => consuming(q) && !matches!(f, EFun::Ok(_)),
        Pexp::And(l, r) => consuming(l) || consuming(r),
        Pexp::Or(ps) => ps.iter().all(consuming),
        Pexp::Or2(l, r) => consuming(l) && consuming(r),
        Pexp::Many(q, allow) => !*allow && consuming(q),
        Pexp::Peek(_) | Pexp::ToOption(_) | Pexp::OrDefault(_) => false,
        Pexp::Surround(_, q, _, _) => consuming(q),
        Pexp::Delimited(q, _, _, allow_missing) => !*allow_missing && consuming(q),
        Pexp::Seq(first, rest) => consuming(first) || rest.iter().any(consuming),
    }
}

/// the loops inside terminate on every input
pub fn productive(e: &Pexp) -> bool {
    match e {
        Pexp::Read | Pexp::PeekTop | Pexp::Supplier(_) | Pexp::ErrSupplier(_) => true,
        Pexp::Filter(q, _) | Pexp::FilterMap(q, _) | Pexp::Map(q, _) | Pexp::WithSoftErr(q, _) | Pexp::MapFatalErr(q, _) | Pexp::ToFatal(q) | Pexp::Wrap(q, _) | Pexp::AndThen(q, _) | Pexp::AndThenErr(q, _) | Pexp::Peek(q) | Pexp::ToOption(q) | Pexp::OrDefault(q) => productive(q),
        Pexp::And(l, r) | Pexp::Or2(l, r) => productive(l) && productive(r),
        Pexp::Or(ps) => ps.iter().all(productive),
        Pexp::Many(q, _) => productive(q) && consuming(q),
        Pexp::Surround(l, q, r, _) => productive(l) && productive(q) && productive(r),
        Pexp::Delimited(q, d, _, _) => productive(q) && productive(d) && consuming(d),
        Pexp::Seq(first, rest) => productive(first) && rest.iter().all(productive),
    }
}

/// the class of DESIGN 5/C20 (mirrors `restoring` in PC/Proofs.v): a soft failure leaves the input where it started
pub fn restoring(e: &Pexp) -> bool {
    match e {
        Pexp::Read | Pexp::PeekTop | Pexp::Supplier(_) | Pexp::ErrSupplier(_) => true,
        Pexp::Filter(q, _) | Pexp::FilterMap(q, _) | Pexp::Map(q, _) | Pexp::WithSoftErr(q, _) | Pexp::MapFatalErr(q, _) | Pexp::Wrap(q, _) | Pexp::Peek(q) | Pexp::Many(q, _) => restoring(q),
        Pexp::ToFatal(_) | Pexp::ToOption(_) | Pexp::OrDefault(_) => true,
        Pexp::And(l, _) => restoring(l),
        Pexp::Or(ps) => ps.last().map(restoring).unwrap_or(true),
        Pexp::Or2(l, r) => restoring(l) && restoring(r),
        Pexp::Surround(l, _, _, mandatory) => !*mandatory || restoring(l),
        Pexp::Delimited(q, d, _, _) => restoring(q) && restoring(d),
        Pexp::Seq(first, _) => restoring(first),
        Pexp::AndThen(_, _) | Pexp::AndThenErr(_, _) => false,
    }
}

fn top(e: &Pexp) -> &'static str {
    match e {
        Pexp::Read => "read",
        Pexp::PeekTop => "peek_p",
        Pexp::Supplier(_) => "supplier",
        Pexp::ErrSupplier(_) => "err_supplier",
        Pexp::Filter(..) => "filter",
        Pexp::FilterMap(..) => "filter_map",
        Pexp::And(..) => "and",
        Pexp::Or(..) => "or",
        Pexp::Or2(..) => "or2",
        Pexp::Many(..) => "many",
        Pexp::Peek(..) => "peek",
        Pexp::ToOption(..) => "to_option",
        Pexp::OrDefault(..) => "or_default",
        Pexp::Surround(_, _, _, true) => "surround_mandatory",
        Pexp::Surround(_, _, _, false) => "surround_optional",
        Pexp::Delimited(..) => "delimited",
        Pexp::Seq(..) => "seq",
        Pexp::AndThen(..) => "and_then",
        Pexp::AndThenErr(..) => "and_then_err",
        Pexp::Map(..) => "map",
        Pexp::WithSoftErr(..) => "with_soft_err",
        Pexp::MapFatalErr(..) => "map_fatal_err",
        Pexp::ToFatal(..) => "to_fatal",
        Pexp::Wrap(..) => "wrap",
    }
}

// ---------------------------------------------------------------- Coq printers

fn coq_val(v: &Val) -> String {
    match v {
        Val::Sym(a) => format!("(VSym {})", a),
        Val::Unit => "VUnit".into(),
        Val::None_ => "VNone".into(),
        Val::Some_(x) => format!("(VSome {})", coq_val(x)),
        Val::List(l) => format!("(VList [{}])", l.iter().map(coq_val).collect::<Vec<_>>().join("; ")),
        Val::Pair(a, b) => format!("(VPair {} {})", coq_val(a), coq_val(b)),
        Val::Tag(t, x) => format!("(VTag {} {})", t, coq_val(x)),
    }
}

fn coq_err(e: &TErr) -> String {
    match e {
        TErr::Soft(t) => format!("(Soft {})", t),
        TErr::Fatal(t) => format!("(Fatal {})", t),
    }
}

fn coq_pred(p: &Pred) -> String {
    match p {
        Pred::IsSym(a) => format!("(IsSym {})", a),
        Pred::NotSym(a) => format!("(NotSym {})", a),
        Pred::True => "PTrue".into(),
        Pred::False => "PFalse".into(),
    }
}

fn coq_bool(b: bool) -> &'static str {
    if b { "true" } else { "false" }
}

pub fn coq_pexp(e: &Pexp) -> String {
    let l = |ps: &Vec<Pexp>| format!("[{}]", ps.iter().map(coq_pexp).collect::<Vec<_>>().join("; "));
    match e {
        Pexp::Read => "PRead".into(),
        Pexp::PeekTop => "PPeekTop".into(),
        Pexp::Supplier(v) => format!("(PSupplier {})", coq_val(v)),
        Pexp::ErrSupplier(e) => format!("(PErrSupplier {})", coq_err(e)),
        Pexp::Filter(q, f) => format!("(PFilter {} {})", coq_pexp(q), coq_pred(f)),
        Pexp::FilterMap(q, f) => format!("(PFilterMap {} {})", coq_pexp(q), coq_pred(f)),
        Pexp::And(a, b) => format!("(PAnd {} {})", coq_pexp(a), coq_pexp(b)),
        Pexp::Or(ps) => format!("(POr {})", l(ps)),
        Pexp::Or2(a, b) => format!("(POr2 {} {})", coq_pexp(a), coq_pexp(b)),
        Pexp::Many(q, a) => format!("(PMany {} {})", coq_pexp(q), coq_bool(*a)),
        Pexp::Peek(q) => format!("(PPeek {})", coq_pexp(q)),
        Pexp::ToOption(q) => format!("(PToOption {})", coq_pexp(q)),
        Pexp::OrDefault(q) => format!("(POrDefault {})", coq_pexp(q)),
        Pexp::Surround(a, q, b, m) => format!("(PSurround {} {} {} {})", coq_pexp(a), coq_pexp(q), coq_pexp(b), coq_bool(*m)),
        Pexp::Delimited(q, d, t, a) => format!("(PDelimited {} {} {} {})", coq_pexp(q), coq_pexp(d), coq_err(t), coq_bool(*a)),
        Pexp::Seq(f, r) => format!("(PSeq {} {})", coq_pexp(f), l(r)),
        Pexp::AndThen(q, f) => format!(
            "(PAndThen {} {})",
            coq_pexp(q),
            match f {
                VFun::Ok(t) => format!("(FOk {})", t),
                VFun::Err(e) => format!("(FErr {})", coq_err(e)),
                VFun::OkIf(p, e) => format!("(FOkIf {} {})", coq_pred(p), coq_err(e)),
            }
        ),
        Pexp::AndThenErr(q, f) => format!(
            "(PAndThenErr {} {})",
            coq_pexp(q),
            match f {
                EFun::Keep => "EKeep".to_string(),
                EFun::Ok(v) => format!("(EOk {})", coq_val(v)),
                EFun::Err(e) => format!("(EErr {})", coq_err(e)),
            }
        ),
        Pexp::Map(q, t) => format!("(PMap {} {})", coq_pexp(q), t),
        Pexp::WithSoftErr(q, e) => format!("(PWithSoftErr {} {})", coq_pexp(q), coq_err(e)),
        Pexp::MapFatalErr(q, e) => format!("(PMapFatalErr {} {})", coq_pexp(q), coq_err(e)),
        Pexp::ToFatal(q) => format!("(PToFatal {})", coq_pexp(q)),
        Pexp::Wrap(q, _) => format!("(PWrap {})", coq_pexp(q)),
    }
}

// ---------------------------------------------------------------- generation

fn leaves() -> Vec<Pexp> {
    vec![
        Pexp::Read,
        Pexp::Filter(Box::new(Pexp::Read), Pred::IsSym(0)),
        Pexp::Filter(Box::new(Pexp::Read), Pred::IsSym(1)),
        Pexp::PeekTop,
        Pexp::Supplier(Val::Unit),
        Pexp::ErrSupplier(TErr::Soft(1)),
        Pexp::ErrSupplier(TErr::Fatal(2)),
    ]
}

/// all expressions obtained by applying one combinator to the given sub-expressions
fn grow(subs: &[Pexp], out: &mut Vec<Pexp>) {
    let bx = |e: &Pexp| Box::new(e.clone());
    for q in subs {
        out.push(Pexp::Filter(bx(q), Pred::NotSym(1)));
        out.push(Pexp::FilterMap(bx(q), Pred::IsSym(0)));
        out.push(Pexp::Many(bx(q), false));
        out.push(Pexp::Many(bx(q), true));
        out.push(Pexp::Peek(bx(q)));
        out.push(Pexp::ToOption(bx(q)));
        out.push(Pexp::OrDefault(bx(q)));
        out.push(Pexp::AndThen(bx(q), VFun::OkIf(Pred::IsSym(0), TErr::Soft(3))));
        out.push(Pexp::AndThen(bx(q), VFun::Err(TErr::Fatal(4))));
        out.push(Pexp::AndThen(bx(q), VFun::Ok(5)));
        out.push(Pexp::AndThenErr(bx(q), EFun::Ok(Val::None_)));
        out.push(Pexp::AndThenErr(bx(q), EFun::Err(TErr::Fatal(6))));
        out.push(Pexp::AndThenErr(bx(q), EFun::Keep));
        out.push(Pexp::Map(bx(q), 7));
        out.push(Pexp::WithSoftErr(bx(q), TErr::Soft(8)));
        out.push(Pexp::WithSoftErr(bx(q), TErr::Fatal(9)));
        out.push(Pexp::MapFatalErr(bx(q), TErr::Fatal(10)));
        out.push(Pexp::ToFatal(bx(q)));
        out.push(Pexp::Wrap(bx(q), true));
        out.push(Pexp::Wrap(bx(q), false));
    }
    for a in subs {
        for b in subs {
            out.push(Pexp::And(bx(a), bx(b)));
            out.push(Pexp::Or2(bx(a), bx(b)));
            out.push(Pexp::Or(vec![a.clone(), b.clone()]));
            out.push(Pexp::Seq(bx(a), vec![b.clone()]));
            out.push(Pexp::Delimited(bx(a), bx(b), TErr::Fatal(11), false));
            out.push(Pexp::Delimited(bx(a), bx(b), TErr::Fatal(11), true));
        }
    }
}

fn random_pexp(rng: &mut Rng, depth: u32) -> Pexp {
    if depth == 0 || rng.chance(1, 6) {
        return rng.pick(&leaves()).clone();
    }
    let sub = |rng: &mut Rng| Box::new(random_pexp(rng, depth - 1));
    let errs = [TErr::Soft(1), TErr::Soft(3), TErr::Fatal(2), TErr::Fatal(4)];
    let fatals = [TErr::Fatal(2), TErr::Fatal(4)];
    let preds = [Pred::IsSym(0), Pred::IsSym(2), Pred::NotSym(1), Pred::True, Pred::False];
    match rng.below(26) {
        0 => Pexp::Filter(sub(rng), rng.pick(&preds).clone()),
        1 => Pexp::FilterMap(sub(rng), rng.pick(&preds).clone()),
        2 | 3 => Pexp::And(sub(rng), sub(rng)),
        4 | 5 => {
            let n = rng.range(1, 4) as usize;
            Pexp::Or((0..n).map(|_| random_pexp(rng, depth - 1)).collect())
        }
        6 => Pexp::Or2(sub(rng), sub(rng)),
        7 | 8 => Pexp::Many(sub(rng), rng.chance(1, 2)),
        9 => Pexp::Peek(sub(rng)),
        10 => Pexp::ToOption(sub(rng)),
        11 => Pexp::OrDefault(sub(rng)),
        12 | 13 => Pexp::Surround(sub(rng), sub(rng), sub(rng), rng.chance(1, 2)),
        14 | 15 => Pexp::Delimited(sub(rng), sub(rng), rng.pick(&fatals).clone(), rng.chance(1, 2)),
        16 | 17 => {
            let n = rng.range(1, 5) as usize;
            Pexp::Seq(sub(rng), (0..n).map(|_| random_pexp(rng, depth.saturating_sub(2))).collect())
        }
        18 => Pexp::AndThen(
            sub(rng),
            match rng.below(3) {
                0 => VFun::Ok(5),
                1 => VFun::Err(rng.pick(&errs).clone()),
                _ => VFun::OkIf(rng.pick(&preds).clone(), rng.pick(&errs).clone()),
            },
        ),
        19 => Pexp::AndThenErr(
            sub(rng),
            match rng.below(3) {
                0 => EFun::Keep,
                1 => EFun::Ok(Val::None_),
                _ => EFun::Err(rng.pick(&errs).clone()),
            },
        ),
        20 => Pexp::Map(sub(rng), 7),
        21 => Pexp::WithSoftErr(sub(rng), rng.pick(&errs).clone()),
        22 => Pexp::MapFatalErr(sub(rng), rng.pick(&fatals).clone()),
        23 => Pexp::ToFatal(sub(rng)),
        _ => Pexp::Wrap(sub(rng), rng.chance(1, 2)),
    }
}

fn inputs_of_len(k: u8, n: usize) -> Vec<Vec<u8>> {
    if n == 0 {
        return vec![vec![]];
    }
    let mut out = vec![];
    for a in 0..k {
        for rest in inputs_of_len(k, n - 1) {
            let mut v = vec![a];
            v.extend(rest);
            out.push(v);
        }
    }
    out
}

fn all_inputs(k: u8, n: usize) -> Vec<Vec<u8>> {
    (0..=n).flat_map(|l| inputs_of_len(k, l)).collect()
}

const HEADER: &str = "From Coq Require Import List Arith Bool NArith.\nFrom RB Require Import PC.Model.\nImport ListNotations.\n";

pub fn run(args: &Args) {
    let mut rng = Rng::new(args.seed);
    let mut sum = Summary::new();
    let mut w = CaseWriter::new(&args.out, "c20", HEADER, 400);
    let maxlen = if args.thorough() { 6 } else { 4 };
    let inputs = all_inputs(3, maxlen);
    let fuel = 64;

    // expressions: exhaustive depth <= 2 over the fixed parameter set, random deeper ones
    let mut exprs: Vec<Pexp> = leaves();
    let mut d2 = vec![];
    grow(&leaves(), &mut d2);
    exprs.extend(d2.iter().cloned());
    // choice: every alternative list [x; y] and [w; x; y] where x is a depth-2 expression that can fail
    // softly AFTER consuming input (does not restore the position itself) and y, w are leaves
    let lv = leaves();
    for x in d2.iter().filter(|x| !restoring(x) && consuming(x)) {
        for y in lv.iter() {
            exprs.push(Pexp::Or(vec![x.clone(), y.clone()]));
            exprs.push(Pexp::Or(vec![lv[1].clone(), x.clone(), y.clone()]));
            exprs.push(Pexp::Or(vec![x.clone(), x.clone(), y.clone()]));
        }
    }
    let n_exh = exprs.len();
    let n_rand = if args.thorough() { 12000 } else { 2500 };
    let mut seen = std::collections::BTreeSet::new();
    let mut tries = 0;
    while exprs.len() < n_exh + n_rand && tries < n_rand * 20 {
        tries += 1;
        let depth = if args.thorough() { rng.range(2, 4) } else { rng.range(2, 3) } as u32;
        let e = random_pexp(&mut rng, depth);
        let key = coq_pexp(&e);
        if key.len() > 1500 || !seen.insert(key) {
            continue;
        }
        exprs.push(e);
    }
    let mut evaluations = 0usize;
    let mut skipped_unproductive = 0;
    for e in exprs.iter() {
        if !productive(e) {
            // a repetition whose element can succeed without consuming loops forever in the
            // implementation; outside the property (and the model answers OutOfFuel)
            skipped_unproductive += 1;
            continue;
        }
        let restoring_e = restoring(e);
        let mut results = vec![];
        let mut nontrivial = false;
        let mut kinds = std::collections::BTreeSet::new();
        for s in inputs.iter() {
            let flag = Rc::new(Cell::new(false));
            let e2 = e.clone();
            let s2 = s.clone();
            let fl = flag.clone();
            let r = guard(std::panic::AssertUnwindSafe(move || {
                let mut p = build(&e2, &fl);
                let mut input = TIn { s: s2, i: 0 };
                let r = p.parse(&mut input);
                (r, input.get_position())
            }));
            evaluations += 1;
            match r {
                Err(msg) => {
                    sum.violation(ImplViolation { key: format!("panic:{}", top(e)), input: format!("{} on {:?}", coq_pexp(e), s), expected: "a result".into(), observed: format!("panic: {}", msg) });
                    results.push("(RErr (Fatal 999), 0)".to_string());
                }
                Ok((res, pos)) => {
                    match &res {
                        Ok(_) => {
                            kinds.insert("ok");
                        }
                        Err(TErr::Soft(_)) => {
                            kinds.insert("soft");
                            if restoring_e && pos != 0 {
                                sum.violation(ImplViolation { key: format!("softfail-moves:{}", top(e)), input: format!("{} on {:?}", coq_pexp(e), s), expected: "position 0 after a soft failure".into(), observed: format!("{:?} at position {}", res, pos) });
                            }
                        }
                        Err(TErr::Fatal(_)) => {
                            kinds.insert("fatal");
                        }
                    }
                    if flag.get() && !matches!(res, Err(TErr::Fatal(_))) {
                        sum.violation(ImplViolation { key: format!("fatal-swallowed:{}", top(e)), input: format!("{} on {:?}", coq_pexp(e), s), expected: "a fatal error (a sub-parser returned one)".into(), observed: format!("{:?}", res) });
                    }
                    if pos > s.len() {
                        sum.violation(ImplViolation { key: format!("position-out-of-range:{}", top(e)), input: format!("{} on {:?}", coq_pexp(e), s), expected: format!("position <= {}", s.len()), observed: format!("{}", pos) });
                    }
                    let r = match &res {
                        Ok(v) => format!("(ROk {}, {})", coq_val(v), pos),
                        Err(e) => format!("(RErr {}, {})", coq_err(e), pos),
                    };
                    results.push(r);
                }
            }
            if kinds.len() >= 2 {
                nontrivial = true;
            }
        }
        sum.count(&format!("top_{}", top(e)));
        if nontrivial {
            sum.nontrivial(coq_pexp(e));
        }
        let pe = coq_pexp(e);
        if sum.samples.len() < 6 && nontrivial {
            sum.sample(J::s(format!("{} on all {} inputs of length <= {} over {{0,1,2}}", pe, inputs.len(), maxlen)));
        }
        w.push(Case {
            agree: format!("check_case {} {} 3 {} [{}]", fuel, pe, maxlen, results.join("; ")),
            desc: pe.clone(),
            model_expr: format!("map (fun s => run {} {} s 0) (all_inputs 3 2)", fuel, pe),
        });
    }
    *sum.histogram.entry("skipped_unproductive".into()).or_insert(0) += skipped_unproductive;
    *sum.histogram.entry("inputs_per_expression".into()).or_insert(0) += inputs.len() as i128;
    *sum.histogram.entry("expressions_exhaustive_depth_le_2".into()).or_insert(0) += n_exh as i128;
    w.flush();
    sum.write(
        &args.out,
        evaluations,
        "parser expressions: all leaves and all single applications of every combinator to leaves (depth <= 2, exhaustive over the fixed parameter set), every n-ary choice [x; y], [w; x; y], [x; x; y] with x a depth-2 expression that fails softly after consuming input and y a leaf, plus seeded random expressions of depth <= 3 (quick) / 4 (thorough); each run on all inputs over a 3-letter alphabet up to length 4 (quick) / 6 (thorough). Non-trivial = the expression produces at least two different kinds of result (ok/soft/fatal) across the inputs; distinct by expression text.",
    );
}
