//! Runs BASIC program text through the real pipeline (parse, lint, generate, interpret)
//! with in-memory devices, turning every way a run can end into an `Outcome` value.
use rusty_basic::instruction_generator::{generate_instructions, unwrap_linter_context};
use rusty_basic::interpreter::verif::{BUDGET_EXHAUSTED, RunOutcome, Step, run_in_memory};
use rusty_basic::RuntimeError;
use rusty_linter::core::lint;
use rusty_parser::parse_main_str;
use rusty_variant::Variant;

use crate::common::guard;

#[derive(Clone, Debug, PartialEq)]
pub enum End {
    /// normal termination
    Ok,
    /// BASIC run-time error: code, positions (failing position first, then call sites)
    Err(i32, Vec<(u32, u32)>, String),
    /// a Rust panic (message)
    Panic(String),
    /// instruction budget exhausted
    Budget,
}

#[derive(Clone, Debug)]
pub enum Outcome {
    ParseError { row: u32, col: u32, msg: String },
    LintError { row: u32, col: u32, msg: String },
    /// panic inside parser / linter / generator
    FrontPanic { stage: &'static str, msg: String },
    Ran(Ran),
}

#[derive(Clone, Debug)]
pub struct Ran {
    pub end: End,
    pub stdout: Vec<u8>,
    pub lpt1: Vec<u8>,
    pub globals: Vec<(String, Variant)>,
    pub steps: u64,
    pub trace: Option<Vec<Step>>,
    pub final_context: (usize, usize),
    pub n_instructions: usize,
    pub statement_addresses: Vec<usize>,
}

pub fn positions_of_debug(s: &str) -> Vec<(u32, u32)> {
    let mut v = vec![];
    let mut rest = s;
    while let Some(i) = rest.find("Position { row: ") {
        rest = &rest[i + 16..];
        let row: String = rest.chars().take_while(|c| c.is_ascii_digit()).collect();
        if let Some(j) = rest.find("col: ") {
            let col: String = rest[j + 5..].chars().take_while(|c| c.is_ascii_digit()).collect();
            v.push((row.parse().unwrap_or(0), col.parse().unwrap_or(0)));
        }
    }
    v
}

pub fn code_of(e: &RuntimeError) -> Result<i32, String> {
    let e2 = e.clone();
    guard(move || e2.get_code())
}

pub struct RunOpts {
    pub stdin: Vec<u8>,
    pub budget: u64,
    pub trace: bool,
}

impl Default for RunOpts {
    fn default() -> Self {
        RunOpts { stdin: vec![], budget: 200_000, trace: false }
    }
}

pub fn run_program(src: &str, opts: &RunOpts) -> Outcome {
    let text = src.to_string();
    let parsed = match guard(move || parse_main_str(text)) {
        Err(msg) => return Outcome::FrontPanic { stage: "parse", msg },
        Ok(Err(e)) => {
            return Outcome::ParseError { row: e.pos.row(), col: e.pos.col(), msg: format!("{:?}", e.element) };
        }
        Ok(Ok(p)) => p,
    };
    let linted = match guard(move || lint(parsed)) {
        Err(msg) => return Outcome::FrontPanic { stage: "lint", msg },
        Ok(Err(e)) => {
            return Outcome::LintError { row: e.pos.row(), col: e.pos.col(), msg: format!("{:?}", e.element) };
        }
        Ok(Ok(x)) => x,
    };
    let (program, ctx) = linted;
    let generated = match guard(move || {
        let (names, udts) = unwrap_linter_context(ctx);
        (generate_instructions(program, names), udts)
    }) {
        Err(msg) => return Outcome::FrontPanic { stage: "generate", msg },
        Ok(x) => x,
    };
    let (igr, udts) = generated;
    Outcome::Ran(run_compiled(igr, udts, opts))
}

/// runs an already generated instruction list
pub fn run_compiled(igr: rusty_basic::instruction_generator::InstructionGeneratorResult, udts: rusty_parser::UserDefinedTypes, opts: &RunOpts) -> Ran {
    let n_instructions = igr.instructions.len();
    let statement_addresses = igr.statement_addresses.clone();
    let stdin = opts.stdin.clone();
    let budget = opts.budget;
    let trace = opts.trace;
    let r = guard(std::panic::AssertUnwindSafe(move || run_in_memory(igr, udts, &stdin, budget, trace)));
    match r {
        Err(msg) => {
            let end = if msg.contains(BUDGET_EXHAUSTED) { End::Budget } else { End::Panic(msg) };
            Ran { end, stdout: vec![], lpt1: vec![], globals: vec![], steps: 0, trace: None, final_context: (0, 0), n_instructions, statement_addresses }
        }
        Ok(RunOutcome { result, stdout, lpt1, globals, steps, trace, final_context }) => {
            let end = match result {
                Ok(()) => End::Ok,
                Err(e) => {
                    let dbg = format!("{:?}", e);
                    match code_of(e.err()) {
                        Ok(code) => End::Err(code, positions_of_debug(&dbg), format!("{:?}", e.err())),
                        Err(msg) => End::Panic(msg),
                    }
                }
            };
            Ran { end, stdout, lpt1, globals, steps, trace, final_context, n_instructions, statement_addresses }
        }
    }
}

/// stdout as text (lossy), for messages
pub fn text(b: &[u8]) -> String {
    String::from_utf8_lossy(b).to_string()
}
