//! Runs BASIC program text through the real pipeline (parse, lint, generate, interpret)
//! with in-memory devices, turning every way a run can end into an `Outcome` value.
use rusty_basic::instruction_generator::{generate_instructions, unwrap_linter_context};
use rusty_basic::interpreter::verif::{BUDGET_EXHAUSTED, RunOutcome, Step, run_in_memory};
use rusty_basic::RuntimeError;
use rusty_linter::core::lint;
use rusty_parser::parse_main_str;
use rusty_variant::Variant;

use crate::common::guard;

#[derive(Clone, Debug, PartialEq)]
pub enum End {
    /// normal termination
    Ok,
    /// BASIC run-time error: code, positions (failing position first, then call sites)
    Err(i32, Vec<(u32, u32)>, String),
    /// a Rust panic (message)
    Panic(String),
    /// instruction budget exhausted
    Budget,
}

#[derive(Clone, Debug)]
pub enum Outcome {
    ParseError { row: u32, col: u32, msg: String },
    LintError { row: u32, col: u32, msg: String },
    /// panic inside parser / linter / generator
    FrontPanic { stage: &'static str, msg: String },
    Ran(Ran),
}

#[derive(Clone, Debug)]
pub struct Ran {
    pub end: End,
    pub stdout: Vec<u8>,
    pub lpt1: Vec<u8>,
    pub globals: Vec<(String, Variant)>,
    pub steps: u64,
    pub trace: Option<Vec<Step>>,
    pub final_context: (usize, usize),
    pub n_instructions: usize,
    pub statement_addresses: Vec<usize>,
    /// source rows of the instructions that failed during the run, in order (also when the run panicked)
    pub error_rows: Vec<u32>,
}

pub fn positions_of_debug(s: &str) -> Vec<(u32, u32)> {
    let mut v = vec![];
    let mut rest = s;
    while let Some(i) = rest.find("Position { row: ") {
        rest = &rest[i + 16..];
        let row: String = rest.chars().take_while(|c| c.is_ascii_digit()).collect();
        if let Some(j) = rest.find("col: ") {
            let col: String = rest[j + 5..].chars().take_while(|c| c.is_ascii_digit()).collect();
            v.push((row.parse().unwrap_or(0), col.parse().unwrap_or(0)));
        }
    }
    v
}

pub fn code_of(e: &RuntimeError) -> Result<i32, String> {
    let e2 = e.clone();
    guard(move || e2.get_code())
}

pub struct RunOpts {
    pub stdin: Vec<u8>,
    pub budget: u64,
    pub trace: bool,
}

impl Default for RunOpts {
    fn default() -> Self {
        RunOpts { stdin: vec![], budget: 200_000, trace: false }
    }
}

pub fn run_program(src: &str, opts: &RunOpts) -> Outcome {
    let text = src.to_string();
    let parsed = match guard(move || parse_main_str(text)) {
        Err(msg) => return Outcome::FrontPanic { stage: "parse", msg },
        Ok(Err(e)) => {
            return Outcome::ParseError { row: e.pos.row(), col: e.pos.col(), msg: format!("{:?}", e.element) };
        }
        Ok(Ok(p)) => p,
    };
    let linted = match guard(move || lint(parsed)) {
        Err(msg) => return Outcome::FrontPanic { stage: "lint", msg },
        Ok(Err(e)) => {
            return Outcome::LintError { row: e.pos.row(), col: e.pos.col(), msg: format!("{:?}", e.element) };
        }
        Ok(Ok(x)) => x,
    };
    let (program, ctx) = linted;
    let generated = match guard(move || {
        let (names, udts) = unwrap_linter_context(ctx);
        (generate_instructions(program, names), udts)
    }) {
        Err(msg) => return Outcome::FrontPanic { stage: "generate", msg },
        Ok(x) => x,
    };
    let (igr, udts) = generated;
    Outcome::Ran(run_compiled(igr, udts, opts))
}

/// runs an already generated instruction list
pub fn run_compiled(igr: rusty_basic::instruction_generator::InstructionGeneratorResult, udts: rusty_parser::UserDefinedTypes, opts: &RunOpts) -> Ran {
    let n_instructions = igr.instructions.len();
    let statement_addresses = igr.statement_addresses.clone();
    let rows: Vec<u32> = igr.instructions.iter().map(|ip| ip.pos.row()).collect();
    let rows_of = |pcs: Vec<usize>| -> Vec<u32> { pcs.into_iter().map(|pc| rows.get(pc).copied().unwrap_or(0)).collect() };
    let stdin = opts.stdin.clone();
    let budget = opts.budget;
    let trace = opts.trace;
    let r = guard(std::panic::AssertUnwindSafe(move || run_in_memory(igr, udts, &stdin, budget, trace)));
    match r {
        Err(msg) => {
            let end = if msg.contains(BUDGET_EXHAUSTED) { End::Budget } else { End::Panic(msg) };
            let error_rows = rows_of(rusty_basic::interpreter::verif::error_pcs());
            Ran { end, stdout: vec![], lpt1: vec![], globals: vec![], steps: 0, trace: None, final_context: (0, 0), n_instructions, statement_addresses, error_rows }
        }
        Ok(RunOutcome { result, stdout, lpt1, globals, steps, trace, final_context, error_pcs }) => {
            let end = match result {
                Ok(()) => End::Ok,
                Err(e) => {
                    let dbg = format!("{:?}", e);
                    match code_of(e.err()) {
                        Ok(code) => End::Err(code, positions_of_debug(&dbg), format!("{:?}", e.err())),
                        Err(msg) => End::Panic(msg),
                    }
                }
            };
            let error_rows = rows_of(error_pcs);
            Ran { end, stdout, lpt1, globals, steps, trace, final_context, n_instructions, statement_addresses, error_rows }
        }
    }
}

/// stdout as text (lossy), for messages
pub fn text(b: &[u8]) -> String {
    String::from_utf8_lossy(b).to_string()
}


/// What kind of source line the last failed instruction before the end of the run belongs to
/// (used to key internal failures that follow a handled error): the statement keyword or
/// assignment / call, with `+call` when the line contains a call or subscript inside another one,
/// and `:in-sub` when the line stands inside a SUB or FUNCTION.
pub fn last_error_kind(src: &str, r: &Ran) -> String {
    // an error in the header of a block (SELECT CASE subject, FOR bounds) is the one that matters
    // when there is one: the run resumes inside the block; otherwise the last error before the end
    let header = r.error_rows.iter().copied().find(|row| {
        *row > 0 && {
            let l = src.lines().nth(*row as usize - 1).map(|l| l.trim().to_uppercase()).unwrap_or_default();
            l.starts_with("SELECT CASE") || l.starts_with("FOR ")
        }
    });
    let row = match header.or(r.error_rows.last().copied()) {
        Some(x) if x > 0 => x as usize,
        _ => return "no-error-before".into(),
    };
    let lines: Vec<&str> = src.lines().collect();
    let line = lines.get(row - 1).map(|l| l.trim().to_uppercase()).unwrap_or_default();
    let first = line.split(|c: char| !c.is_ascii_alphanumeric() && c != '$' && c != '%' && c != '&' && c != '!' && c != '#').next().unwrap_or("");
    let kind = if line.starts_with("SELECT CASE") {
        "select-subject"
    } else if first == "FOR" {
        "for-header"
    } else if first == "CASE" {
        "case-test"
    } else if first == "IF" || first == "ELSEIF" {
        "if-condition"
    } else if first == "WHILE" || first == "LOOP" || first == "DO" {
        "loop-condition"
    } else if ["PRINT", "LPRINT", "INPUT", "READ", "OPEN", "CLOSE", "NEXT", "GOSUB", "GOTO", "RETURN", "SWAP", "DIM", "REDIM", "POKE", "FIELD", "GET", "PUT", "LINE", "WRITE", "LSET", "MID$", "KILL", "NAME", "LOCATE", "COLOR", "VIEW", "WIDTH", "DEF", "ENVIRON", "RESUME", "ON", "DATA", "CONST"].contains(&first) {
        "statement"
    } else {
        // assignment: an = outside parentheses before anything else of interest
        let mut depth = 0;
        let mut assign = false;
        for c in line.chars() {
            match c {
                '(' => depth += 1,
                ')' => depth -= 1,
                '=' if depth == 0 => {
                    assign = true;
                    break;
                }
                '"' => break,
                _ => {}
            }
        }
        if assign { "assignment" } else { "call" }
    };
    // a call or subscript nested in the arguments of another one
    let mut depth = 0;
    let mut nested = false;
    let chars: Vec<char> = line.chars().collect();
    for (i, c) in chars.iter().enumerate() {
        match c {
            '(' => {
                let named = i > 0 && (chars[i - 1].is_ascii_alphanumeric() || "$%&!#".contains(chars[i - 1]));
                if named && depth >= 1 {
                    // the enclosing parenthesis must belong to a name too
                    nested = true;
                }
                if named { depth += 1 } else { depth += 0 }
            }
            ')' => {
                if depth > 0 {
                    depth -= 1
                }
            }
            _ => {}
        }
    }
    let in_sub = {
        let mut inside = false;
        for l in lines.iter().take(row - 1) {
            let u = l.trim().to_uppercase();
            if u.starts_with("SUB ") || u.starts_with("FUNCTION ") {
                inside = true;
            } else if u.starts_with("END SUB") || u.starts_with("END FUNCTION") {
                inside = false;
            }
        }
        inside
    };
    // how errors are handled in this program: inline (ON ERROR RESUME NEXT) or by a handler (ON ERROR GOTO)
    let up = src.to_uppercase();
    let mode = match (up.contains("ON ERROR RESUME NEXT"), up.contains("ON ERROR GOTO")) {
        (true, false) => "inline",
        (false, true) => "handler",
        (true, true) => "both",
        _ => "none",
    };
    format!("{}:{}{}{}", mode, kind, if nested { "+call" } else { "" }, if in_sub { ":in-sub" } else { "" })
}
