//! C05 - GOTO/GOSUB/RETURN and ON ERROR/RESUME transfer control exactly as written.
//!  * the real statement finder against RT/Control.v find_current / find_next (value level);
//!  * every control transfer of real runs (GOSUB, RETURN, ON ERROR, the dispatch of every failing
//!    instruction, RESUME in its three forms) replayed through `Control.check_control` in Coq;
//!  * scenario programs with outputs known by construction (labels, nesting of GOSUBs, every statement
//!    kind as the failing statement, handlers enabled/disabled in all orders, loops left by GOTO).
use rusty_basic::instruction_generator::{AddressOrLabel, Instruction, InstructionGeneratorResult};
use rusty_basic::interpreter::verif::{Step, verif_nearest_statement};

use crate::c01::compile_with_types;
use crate::common::*;
use crate::pgen::{PGen, corpus};
use crate::runner::*;

pub const HEADER: &str = "From Coq Require Import List Arith Bool NArith.\nFrom RB Require Import RT.Control.\nImport ListNotations.\n";

fn addr(a: &AddressOrLabel) -> usize {
    match a {
        AddressOrLabel::Resolved(x) => *x,
        AddressOrLabel::Unresolved(_) => usize::MAX,
    }
}

fn opt(o: Option<usize>) -> String {
    match o {
        Some(x) => format!("(Some {})", x),
        None => "None".to_string(),
    }
}

/// what matters of an instruction for control transfers
#[derive(Clone, Debug)]
pub enum Ctl {
    Other,
    GoSub(usize),
    Return(Option<usize>),
    OnErrorGoTo(usize),
    OnErrorResumeNext,
    OnErrorGoToZero,
    Resume,
    ResumeNext,
    ResumeLabel(usize),
}

pub fn summarize(igr: &InstructionGeneratorResult) -> Vec<Ctl> {
    igr.instructions
        .iter()
        .map(|ip| match &ip.element {
            Instruction::GoSub(a) => Ctl::GoSub(addr(a)),
            Instruction::Return(l) => Ctl::Return(l.as_ref().map(addr)),
            Instruction::OnErrorGoTo(a) => Ctl::OnErrorGoTo(addr(a)),
            Instruction::OnErrorResumeNext => Ctl::OnErrorResumeNext,
            Instruction::OnErrorGoToZero => Ctl::OnErrorGoToZero,
            Instruction::Resume => Ctl::Resume,
            Instruction::ResumeNext => Ctl::ResumeNext,
            Instruction::ResumeLabel(a) => Ctl::ResumeLabel(addr(a)),
            _ => Ctl::Other,
        })
        .collect()
}

/// the control events of a run, as Coq terms
pub fn control_events(code: &[Ctl], trace: &[Step]) -> Vec<String> {
    let mut ev = vec![];
    let n = trace.len();
    for k in 0..n {
        let st = &trace[k];
        let next_entry = if k + 1 < n { Some(&trace[k + 1]) } else { None };
        // the next executed instruction (skipping an error marker)
        let next_pc = |from: usize| -> Option<usize> {
            let mut j = from;
            while j < n {
                if trace[j].error.is_none() {
                    return Some(trace[j].pc);
                }
                j += 1;
            }
            None
        };
        if let Some(code) = st.error {
            ev.push(format!("CError {} {} {}", st.pc, code, opt(next_pc(k + 1))));
            continue;
        }
        if st.pc >= code.len() {
            continue;
        }
        let fails_here = matches!(next_entry, Some(s) if s.error.is_some() && s.pc == st.pc);
        match &code[st.pc] {
            Ctl::GoSub(t) => {
                if let Some(nx) = next_pc(k + 1) {
                    ev.push(format!("CGoSub {} {} {}", st.pc, t, nx));
                }
            }
            Ctl::Return(l) => {
                if fails_here {
                    ev.push(format!("CReturnFail {}", st.pc));
                } else if let Some(nx) = next_pc(k + 1) {
                    ev.push(format!("CReturn {} {} {}", st.pc, opt(*l), nx));
                }
            }
            Ctl::OnErrorGoTo(a) => ev.push(format!("COnError (HAddr {})", a)),
            Ctl::OnErrorResumeNext => ev.push("COnError HNext".to_string()),
            Ctl::OnErrorGoToZero => ev.push("COnError HNone".to_string()),
            Ctl::Resume | Ctl::ResumeNext | Ctl::ResumeLabel(_) => {
                if fails_here {
                    ev.push(format!("CResumeFail {}", st.pc));
                } else if let Some(nx) = next_pc(k + 1) {
                    let kind = match &code[st.pc] {
                        Ctl::Resume => "RCurrent".to_string(),
                        Ctl::ResumeNext => "RNext".to_string(),
                        Ctl::ResumeLabel(a) => format!("(RLabel {})", a),
                        _ => unreachable!(),
                    };
                    ev.push(format!("CResume {} {} {}", kind, st.pc, nx));
                }
            }
            Ctl::Other => {}
        }
    }
    ev
}

/// programs built around control transfers; every statement prints a tag so the path is visible
struct CGen<'a> {
    rng: &'a mut Rng,
}

impl<'a> CGen<'a> {
    fn failing(&mut self) -> &'static str {
        // statements that raise an error when Z% = 0 and ARR%(5) is the last element
        *self.rng.pick(&["X% = 10 / Z%", "ARR%(9) = 1", "X% = 32767 + W%", "PRINT 1 / Z%", "X% = ARR%(6 + W%)", "S$ = LEFT$(\"abc\", -1 + Z%)"])
    }

    fn program(&mut self) -> String {
        let mut s = String::new();
        s.push_str("DIM SHARED ARR%(5)\nZ% = 0\nW% = 1\n");
        let handler_kind = self.rng.below(4); // 0 none, 1 goto+resume next, 2 resume next, 3 goto + resume (fixes the cause)
        match handler_kind {
            1 | 3 => s.push_str("ON ERROR GOTO Handler\n"),
            2 => s.push_str("ON ERROR RESUME NEXT\n"),
            _ => {}
        }
        let n = 2 + self.rng.below(4);
        let n_routines = 1 + self.rng.below(3) as usize;
        for k in 0..n {
            match self.rng.below(9) {
                0 => s.push_str(&format!("PRINT \"m{}\"\n", k)),
                1 => s.push_str(&format!("GOSUB R{}\n", 1 + self.rng.below(n_routines as u64))),
                2 => {
                    // a failing statement at top level
                    if handler_kind != 0 {
                        s.push_str(self.failing());
                        s.push('\n');
                        s.push_str(&format!("PRINT \"after{}\"\n", k));
                    }
                }
                3 => {
                    // failing statement as the last statement of a loop body
                    if handler_kind != 0 {
                        s.push_str(&format!("FOR I{}% = 1 TO 2\nPRINT \"loop\"; I{}%\n{}\nNEXT\n", k, k, self.failing()));
                    } else {
                        s.push_str(&format!("FOR I{}% = 1 TO 2\nPRINT \"loop\"; I{}%\nNEXT\n", k, k));
                    }
                }
                4 => {
                    // failing statement as the last statement of an IF / CASE block
                    if handler_kind != 0 {
                        if self.rng.chance(1, 2) {
                            s.push_str(&format!("IF W% = 1 THEN\nPRINT \"then\"\n{}\nELSE\nPRINT \"else\"\nEND IF\nPRINT \"endif{}\"\n", self.failing(), k));
                        } else {
                            s.push_str(&format!("SELECT CASE W%\nCASE 1\nPRINT \"case1\"\n{}\nCASE ELSE\nPRINT \"caseelse\"\nEND SELECT\nPRINT \"endselect{}\"\n", self.failing(), k));
                        }
                    }
                }
                5 => {
                    // backward GOTO with a counter
                    s.push_str(&format!("C{}% = 0\nL{}:\nC{}% = C{}% + 1\nPRINT \"g\"; C{}%\nIF C{}% < 3 THEN GOTO L{}\n", k, k, k, k, k, k, k));
                }
                6 => {
                    // forward GOTO over a statement
                    s.push_str(&format!("GOTO F{}\nPRINT \"skipped\"\nF{}:\nPRINT \"f{}\"\n", k, k, k));
                }
                7 => {
                    // switching handlers
                    match self.rng.below(3) {
                        0 => s.push_str("ON ERROR GOTO 0\n"),
                        1 => s.push_str("ON ERROR RESUME NEXT\n"),
                        _ => s.push_str("ON ERROR GOTO Handler\n"),
                    }
                    s.push_str(self.failing());
                    s.push('\n');
                    s.push_str(&format!("PRINT \"sw{}\"\n", k));
                }
                _ => {
                    // a SUB whose last statement fails
                    s.push_str(&format!("PS {}\nPRINT \"back{}\"\n", k, k));
                }
            }
        }
        s.push_str("PRINT \"end\"; X%\nEND\n");
        for r in 1..=n_routines {
            s.push_str(&format!("R{}:\nPRINT \"r{}\"\n", r, r));
            if r > 1 && self.rng.chance(1, 2) {
                s.push_str(&format!("GOSUB R{}\n", r - 1));
            }
            if handler_kind != 0 && self.rng.chance(1, 3) {
                s.push_str(self.failing());
                s.push('\n');
            }
            s.push_str("RETURN\n");
        }
        s.push_str("Handler:\nPRINT \"H\"; ERR\n");
        if handler_kind == 3 {
            s.push_str("Z% = 1\nW% = 0\nIF ERR = 9 THEN RESUME NEXT\nRESUME\n");
        } else if self.rng.chance(1, 4) {
            s.push_str("RESUME Tail\n");
        } else {
            s.push_str("RESUME NEXT\n");
        }
        s.push_str("Tail:\nPRINT \"tail\"\nEND\n");
        s.push_str("SUB PS (N%)\nPRINT \"sub\"; N%\nIF N% > 100 THEN EXIT SUB\n");
        if handler_kind != 0 {
            s.push_str("Y% = 5 / Z%\n");
        }
        s.push_str("END SUB\n");
        s
    }
}

/// scenario programs with outputs known by construction: (name, source, expected stdout, expected end)
fn scenarios() -> Vec<(&'static str, String, String, &'static str)> {
    let crlf = |v: &[&str]| -> String { v.iter().map(|l| format!("{}\r\n", l)).collect() };
    vec![
        ("gosub-nesting", "GOSUB A\nPRINT \"m\"\nEND\nA:\nPRINT \"a1\"\nGOSUB B\nPRINT \"a2\"\nRETURN\nB:\nPRINT \"b\"\nRETURN\n".into(), crlf(&["a1", "b", "a2", "m"]), "ok"),
        ("return-without-gosub", "PRINT \"x\"\nRETURN\n".into(), crlf(&["x"]), "error 3"),
        ("return-without-gosub-after-balanced", "GOSUB A\nRETURN\nEND\nA:\nRETURN\n".into(), "".into(), "error 3"),
        ("resume-reexecutes", "ON ERROR GOTO H\nZ% = 0\nPRINT \"a\"\nX% = 10 / Z%\nPRINT \"b\"; X%\nEND\nH:\nPRINT \"h\"; ERR\nZ% = 2\nRESUME\n".into(), crlf(&["a", "h 11 ", "b 5 "]), "ok"),
        ("resume-next-skips", "ON ERROR GOTO H\nZ% = 0\nX% = 7\nX% = 10 / Z%\nPRINT \"b\"; X%\nEND\nH:\nPRINT \"h\"; ERR\nRESUME NEXT\n".into(), crlf(&["h 11 ", "b 7 "]), "ok"),
        ("resume-label", "ON ERROR GOTO H\nZ% = 0\nX% = 10 / Z%\nPRINT \"not here\"\nT:\nPRINT \"t\"\nEND\nH:\nRESUME T\n".into(), crlf(&["t"]), "ok"),
        ("on-error-goto-0", "ON ERROR GOTO H\nON ERROR GOTO 0\nZ% = 0\nPRINT \"a\"\nX% = 10 / Z%\nPRINT \"b\"\nEND\nH:\nPRINT \"h\"\nRESUME NEXT\n".into(), crlf(&["a"]), "error 11"),
        ("no-handler", "Z% = 0\nPRINT \"a\"\nX% = 10 / Z%\nPRINT \"b\"\n".into(), crlf(&["a"]), "error 11"),
        ("err-cleared-after-resume", "ON ERROR GOTO H\nZ% = 0\nX% = 10 / Z%\nPRINT \"e\"; ERR\nEND\nH:\nRESUME NEXT\n".into(), crlf(&["e 0 "]), "ok"),
        ("handler-keeps-variables", "ON ERROR GOTO H\nZ% = 0\nA% = 1\nX% = 10 / Z%\nPRINT A%\nEND\nH:\nA% = 42\nRESUME NEXT\n".into(), crlf(&[" 42 "]), "ok"),
        ("resume-next-last-of-loop", "ON ERROR GOTO H\nZ% = 0\nFOR I% = 1 TO 2\nPRINT I%\nX% = 10 / Z%\nNEXT\nPRINT \"out\"\nEND\nH:\nRESUME NEXT\n".into(), crlf(&[" 1 ", " 2 ", "out"]), "ok"),
        ("resume-next-last-of-if", "ON ERROR GOTO H\nZ% = 0\nIF Z% = 0 THEN\nPRINT \"t\"\nX% = 10 / Z%\nELSE\nPRINT \"e\"\nEND IF\nPRINT \"out\"\nEND\nH:\nRESUME NEXT\n".into(), crlf(&["t", "out"]), "ok"),
        ("resume-next-last-of-sub", "ON ERROR GOTO H\nZ% = 0\nP\nPRINT \"back\"\nEND\nH:\nRESUME NEXT\nSUB P\nPRINT \"in\"\nY% = 10 / Z%\nEND SUB\n".into(), crlf(&["in", "back"]), "ok"),
        ("on-error-resume-next", "ON ERROR RESUME NEXT\nZ% = 0\nX% = 3\nX% = 10 / Z%\nPRINT X%; ERR\n".into(), crlf(&[" 3  11 "]), "ok"),
        ("goto-out-of-inner-for", "FOR I = 1 TO 3\nFOR J = 10 TO 30 STEP 10\nIF J = 20 THEN GOTO Out1\nNEXT\nOut1:\nPRINT I\nNEXT\n".into(), crlf(&[" 1 ", " 2 ", " 3 "]), "ok"),
        ("exit-sub-inside-for", "FOR I = 1 TO 3\nP\nPRINT I\nNEXT\nEND\nSUB P\nFOR J = 10 TO 50 STEP 20\nEXIT SUB\nNEXT\nEND SUB\n".into(), crlf(&[" 1 ", " 2 ", " 3 "]), "ok"),
        ("exit-function-inside-select", "PRINT 100 + F%(2)\nEND\nFUNCTION F% (N%)\nF% = N%\nSELECT CASE N%\nCASE 2\nEXIT FUNCTION\nEND SELECT\nEND FUNCTION\n".into(), crlf(&[" 102 "]), "ok"),
        ("exit-sub-inside-select", "X% = 5\nPRINT 100 + X%;\nP 2\nPRINT 200 + X%\nEND\nSUB P (N%)\nSELECT CASE N%\nCASE 2\nEXIT SUB\nEND SELECT\nEND SUB\n".into(), crlf(&[" 105  205 "]), "ok"),
        ("goto-out-of-while", "I% = 0\nWHILE I% < 5\nI% = I% + 1\nIF I% = 2 THEN GOTO Done\nWEND\nDone:\nPRINT I%\n".into(), crlf(&[" 2 "]), "ok"),
        ("return-label-pops-the-gosub", "GOSUB Outer\nPRINT \"main\"\nEND\nOuter:\nPRINT \"o1\"\nGOSUB Inner\nPRINT \"skipped\"\nAfter:\nPRINT \"o2\"\nRETURN\nInner:\nPRINT \"i\"\nRETURN After\n".into(), crlf(&["o1", "i", "o2", "main"]), "ok"),
        ("return-label-then-stray-return", "GOSUB A\nPRINT \"m\"\nRETURN\nEND\nA:\nRETURN B\nB:\nPRINT \"b\"\nRETURN\n".into(), crlf(&["b"]), "error 3"),
        ("resume-without-error", "PRINT \"a\"\nRESUME NEXT\n".into(), crlf(&["a"]), "error 20"),
    ]
}

/// inserts `E9% = 1 / Z9%` (Division by zero: Z9% is never assigned) at the end of blocks and at
/// random places; returns how many were inserted
fn insert_failing(block: &mut Vec<crate::c01::S>, rng: &mut Rng) -> usize {
    use crate::c01::{E, EK, Lit, S, SK, bop_index, e, s};
    let failing = || -> S {
        let x: E = e(EK::Bin(bop_index(rusty_parser::Operator::Divide), Box::new(e(EK::Lit(Lit::Int(1)))), Box::new(e(EK::Var("Z9%".into())))));
        s(SK::Assign("E9%".into(), x))
    };
    let mut n = 0;
    for st in block.iter_mut() {
        match &mut st.k {
            SK::If(_, thn, elifs, els) => {
                n += insert_failing(thn, rng);
                for (_, b) in elifs.iter_mut() {
                    n += insert_failing(b, rng);
                }
                if let Some(b) = els {
                    n += insert_failing(b, rng);
                }
            }
            SK::While(_, b) | SK::Do(_, _, _, b) | SK::For(_, _, _, _, b) => n += insert_failing(b, rng),
            SK::Select(_, cases, els) => {
                for (_, b) in cases.iter_mut() {
                    n += insert_failing(b, rng);
                }
                if let Some(b) = els {
                    n += insert_failing(b, rng);
                }
            }
            _ => {}
        }
    }
    if rng.chance(1, 2) {
        block.push(failing());
        n += 1;
    }
    if rng.chance(1, 4) {
        let i = rng.below(block.len() as u64 + 1) as usize;
        block.insert(i, failing());
        n += 1;
    }
    n
}

/// ON ERROR RESUME NEXT around statements that fail as a whole: the program behaves as if the failing
/// statements were not there - same output, normal end, the same stack depths at the end
pub fn error_skip(rng: &mut Rng, n: usize, depth3: bool, sum: &mut Summary, evaluations: &mut usize) {
    use crate::c01::{Gen, print_program};
    let mut done = 0;
    let mut tries = 0;
    while done < n && tries < n * 6 {
        tries += 1;
        let mut g = Gen { rng: &mut *rng, loop_counter: 0 };
        let depth = if depth3 && tries % 2 == 0 { 3 } else { 2 };
        let mut prog = g.program(depth, 4);
        let plain = print_program(&mut prog.clone());
        *evaluations += 1;
        let r0 = match run_program(&plain, &RunOpts { budget: 30_000, trace: true, ..Default::default() }) {
            Outcome::Ran(r) if r.end == End::Ok => r,
            _ => continue, // only programs that run without any error of their own
        };
        let k = insert_failing(&mut prog, rng);
        if k == 0 {
            continue;
        }
        let with_err = format!("ON ERROR RESUME NEXT\n{}", print_program(&mut prog));
        *evaluations += 1;
        done += 1;
        sum.count("error_skip_programs");
        *sum.histogram.entry("error_skip_failing_statements".into()).or_insert(0) += k as i128;
        let one_line: String = with_err.replace('\n', " | ").chars().take(900).collect();
        match run_program(&with_err, &RunOpts { budget: 60_000, trace: true, ..Default::default() }) {
            Outcome::Ran(r) => {
                if let End::Panic(m) = &r.end {
                    sum.violation(ImplViolation { key: "error-skip:panic".into(), input: one_line, expected: "normal end".into(), observed: m.chars().take(200).collect() });
                } else if r.end != End::Ok {
                    sum.violation(ImplViolation { key: "error-skip:end".into(), input: one_line, expected: "normal end".into(), observed: format!("{:?}", r.end) });
                } else if r.stdout != r0.stdout {
                    sum.violation(ImplViolation { key: "error-skip:output".into(), input: one_line, expected: format!("{:?}", String::from_utf8_lossy(&r0.stdout)), observed: format!("{:?}", String::from_utf8_lossy(&r.stdout)) });
                } else {
                    let d0 = r0.trace.as_ref().and_then(|t| t.iter().rev().find(|s| s.error.is_none()).map(|s| s.depths));
                    let d1 = r.trace.as_ref().and_then(|t| t.iter().rev().find(|s| s.error.is_none()).map(|s| s.depths));
                    if let (Some(a), Some(b)) = (d0, d1) {
                        if a[..6] != b[..6] {
                            sum.violation(ImplViolation { key: "error-skip:stack-depth".into(), input: one_line, expected: format!("stack depths {:?} at the end", &a[..6]), observed: format!("{:?}", &b[..6]) });
                        }
                    }
                }
            }
            other => {
                sum.violation(ImplViolation { key: "error-skip:rejected".into(), input: one_line, expected: "accepted".into(), observed: format!("{:?}", other).chars().take(200).collect() });
            }
        }
    }
}

fn end_text(e: &End) -> String {
    match e {
        End::Ok => "ok".into(),
        End::Err(c, ..) => format!("error {}", c),
        End::Panic(m) => format!("panic {}", m.chars().take(80).collect::<String>()),
        End::Budget => "budget".into(),
    }
}

pub fn run(args: &Args) {
    let mut rng = Rng::new(args.seed);
    let mut sum = Summary::new();
    let mut evaluations = 0usize;

    // ---- 1. the statement finder, value level
    {
        let mut w = CaseWriter::new(&args.out, "c05f", HEADER, 2000);
        let n = if args.thorough() { 20000 } else { 3000 };
        for _ in 0..n {
            let len = 1 + rng.below(8) as usize;
            let mut marks: Vec<usize> = vec![];
            let mut cur = rng.below(4) as usize;
            for _ in 0..len {
                marks.push(cur);
                cur += 1 + rng.below(5) as usize;
            }
            let a = rng.below((cur + 3) as u64) as usize;
            let (m1, m2) = (marks.clone(), marks.clone());
            let c = guard(move || verif_nearest_statement(m1, a, false)).ok();
            let nx = guard(move || verif_nearest_statement(m2, a, true)).ok();
            evaluations += 1;
            let ml = format!("[{}]", marks.iter().map(|x| x.to_string()).collect::<Vec<_>>().join("; "));
            w.push(Case {
                agree: format!("oeqb (find_current {} {}) {} && oeqb (find_next {} {}) {}", ml, a, opt(c), ml, a, opt(nx)),
                desc: format!("finder {:?} at {} -> current {:?} next {:?}", marks, a, c, nx),
                model_expr: format!("(find_current {} {}, find_next {} {})", ml, a, ml, a),
            });
        }
        w.flush();
        sum.count("finder_cases");
    }

    // ---- 2. replay of the control transfers of real runs
    let mut w = CaseWriter::new(&args.out, "c05", HEADER, 60);
    let mut programs: Vec<(String, String)> = vec![];
    let n_gen = if args.thorough() { 4000 } else { 400 };
    for k in 0..n_gen {
        let mut g = CGen { rng: &mut rng };
        programs.push((format!("control:{}", k), g.program()));
    }
    let n_pg = if args.thorough() { 1500 } else { 150 };
    for k in 0..n_pg {
        let mut g = PGen::new(&mut rng);
        g.with_errors = true;
        programs.push((format!("generated:{}", k), g.program(1 + (k % 3) as u32)));
    }
    for (origin, text) in corpus() {
        let up = text.to_uppercase();
        if up.contains("GOSUB") || up.contains("ON ERROR") || up.contains("RESUME") || up.contains("GOTO") {
            programs.push((format!("corpus:{}", origin.replace("/repo/", "")), text));
        }
    }
    for (sname, src, _, _) in scenarios() {
        programs.push((format!("scenario:{}", sname), src));
    }
    for (origin, src) in programs.iter() {
        let (igr, udts) = match compile_with_types(src) {
            Ok(x) => x,
            Err(e) => {
                if !origin.starts_with("corpus") {
                    sum.violation(ImplViolation { key: "generated-program-rejected".into(), input: format!("{} {}", origin, src.replace('\n', " | ")), expected: "accepted".into(), observed: e.chars().take(200).collect() });
                }
                continue;
            }
        };
        let code_copy = summarize(&igr);
        let marks_copy = igr.statement_addresses.clone();
        let r = run_compiled(igr, udts, &RunOpts { stdin: b"1\n2\n".to_vec(), budget: 20_000, trace: true });
        evaluations += 1;
        sum.count(origin.split(':').next().unwrap());
        let one_line: String = src.replace('\n', " | ").chars().take(700).collect();
        match &r.end {
            End::Panic(m) => {
                let class = if m.contains("underflow") || m.contains("Should have") {
                    "stack"
                } else if m.contains("Expected normal state") || m.contains("Expected argument state") || m.contains("Not collecting arguments") {
                    "context"
                } else {
                    "other"
                };
                sum.violation(ImplViolation { key: format!("vm-panic:{}:{}", class, last_error_kind(src, &r)), input: format!("{} {}", origin, one_line), expected: "a BASIC-level outcome".into(), observed: m.chars().take(200).collect() });
                continue;
            }
            End::Budget => {
                sum.count("budget_exhausted");
                continue;
            }
            _ => {}
        }
        if let Some(tr) = &r.trace {
            let ev = control_events(&code_copy, tr);
            if ev.is_empty() {
                continue;
            }
            *sum.histogram.entry("control_events_total".into()).or_insert(0) += ev.len() as i128;
            for e in &ev {
                sum.count(&format!("event_{}", e.split(' ').next().unwrap()));
            }
            let marks = format!("[{}]", marks_copy.iter().map(|x| x.to_string()).collect::<Vec<_>>().join("; "));
            let expr = format!("check_control {} [{}]", marks, ev.join("; "));
            w.push(Case { agree: format!("Nat.eqb ({}) 0", expr), desc: format!("replay {} {}", origin, one_line), model_expr: expr });
            sum.nontrivial(ev.join(";"));
        }
        if sum.samples.len() < 3 && origin.starts_with("control") {
            sum.sample(J::s(src.clone()));
        }
    }
    w.flush();

    // ---- 3. scenarios with known outputs
    for (sname, src, expected_out, expected_end) in scenarios() {
        evaluations += 1;
        match run_program(&src, &RunOpts { budget: 20_000, ..Default::default() }) {
            Outcome::Ran(r) => {
                let out = String::from_utf8_lossy(&r.stdout).to_string();
                let end = end_text(&r.end);
                if out != expected_out || !end.starts_with(expected_end) {
                    sum.violation(ImplViolation { key: format!("scenario:{}", sname), input: src.replace('\n', " | "), expected: format!("{:?} then {}", expected_out, expected_end), observed: format!("{:?} then {}", out, end) });
                }
            }
            other => {
                sum.violation(ImplViolation { key: format!("scenario:{}", sname), input: src.replace('\n', " | "), expected: "accepted".into(), observed: format!("{:?}", other).chars().take(200).collect() });
            }
        }
        sum.count("scenarios");
    }
    // ---- 3b. an error while the arguments of (nested) calls are being collected, handled by a handler
    // that ends in RESUME NEXT: the statement is abandoned, everything else goes on - in the main
    // module, in a SUB and in a FUNCTION, for calls nested one to three deep, as a statement and
    // inside an expression
    for depth in 1..=3usize {
        for place in 0..3 {
            for form in 0..3 {
                let mut call = String::from("3 / Z%");
                for d in 0..depth {
                    call = if d % 2 == 0 { format!("Add%({}, {})", d + 1, call) } else { format!("Add%({}, {})", call, d + 1) };
                }
                let stmt = match form {
                    0 => format!("T% = {}", call),
                    1 => format!("PRINT {}", call),
                    _ => format!("Show {}", call),
                };
                let body = format!("Z% = 0\nT% = 5\n{}\nPRINT \"after\"; T%\n", stmt);
                let (main, subs) = match place {
                    0 => (body.clone(), String::new()),
                    1 => ("Work\n".to_string(), format!("SUB Work\n{}END SUB\n", body)),
                    _ => ("Q% = Fw%\n".to_string(), format!("FUNCTION Fw%\n{}Fw% = 1\nEND FUNCTION\n", body)),
                };
                let src = format!("ON ERROR GOTO H\nR% = 7\n{}PRINT \"back\"; R%\nEND\nH:\nPRINT \"err\"\nRESUME NEXT\n{}SUB Show (X%)\nPRINT \"show\"; X%\nEND SUB\nFUNCTION Add% (A%, B%)\nAdd% = A% + B%\nEND FUNCTION\n", main, subs);
                let expected = "err\r\nafter 5 \r\nback 7 \r\n";
                evaluations += 1;
                sum.count("scenarios_error_in_call_arguments");
                let name = format!("error-in-call-arguments:depth{}:{}:{}", depth, ["main", "sub", "function"][place], ["assignment", "print", "sub-call"][form]);
                match run_program(&src, &RunOpts { budget: 20_000, ..Default::default() }) {
                    Outcome::Ran(r) => {
                        let out = String::from_utf8_lossy(&r.stdout).to_string();
                        if out != expected || r.end != End::Ok {
                            sum.violation(ImplViolation { key: format!("scenario:{}", name), input: src.replace('\n', " | "), expected: format!("{:?} then normal end", expected), observed: format!("{:?} then {}", out, end_text(&r.end)) });
                        }
                    }
                    other => sum.violation(ImplViolation { key: format!("scenario:{}", name), input: src.replace('\n', " | "), expected: "accepted".into(), observed: format!("{:?}", other).chars().take(200).collect() }),
                }
            }
        }
    }
    // ---- 3c. the failing statement is the last one of the main module (with and without an END, with
    // subprograms behind it): RESUME NEXT ends the program there
    for with_end in [false, true] {
        for mode in 0..2 {
            for subs in 0..3 {
                let mut src = String::new();
                src.push_str(if mode == 0 { "ON ERROR GOTO H\n" } else { "ON ERROR RESUME NEXT\n" });
                src.push_str("PRINT \"start\"\nZ% = 0\n");
                if mode == 0 && !with_end {
                    // the handler has to stand somewhere: jump over it
                    src.push_str("GOTO Last\nH:\nPRINT \"handled\"\nRESUME NEXT\nLast:\nX% = 1 / Z%\n");
                } else {
                    src.push_str("X% = 1 / Z%\n");
                    if with_end {
                        src.push_str("END\n");
                    }
                    if mode == 0 {
                        src.push_str("H:\nPRINT \"handled\"\nRESUME NEXT\n");
                    }
                }
                if mode == 0 && with_end == false {
                } else if !with_end && mode == 1 {
                }
                for k in 0..subs {
                    src.push_str(&format!("SUB Helper{} (N%)\nPRINT \"inside helper - never called\"\nEND SUB\n", k));
                }
                if mode == 0 && with_end {
                    // END before the handler: the error is in the statement right before END
                }
                let expected = if mode == 0 { "start\r\nhandled\r\n" } else { "start\r\n" };
                evaluations += 1;
                sum.count("scenarios_error_in_last_statement");
                let name = format!("error-in-last-main-statement:{}:{}:{}subs", if with_end { "end" } else { "no-end" }, ["handler", "inline"][mode], subs);
                match run_program(&src, &RunOpts { budget: 20_000, ..Default::default() }) {
                    Outcome::Ran(r) => {
                        let out = String::from_utf8_lossy(&r.stdout).to_string();
                        if out != expected || r.end != End::Ok {
                            sum.violation(ImplViolation { key: format!("scenario:{}", name), input: src.replace('\n', " | "), expected: format!("{:?} then normal end", expected), observed: format!("{:?} then {}", out, end_text(&r.end)) });
                        }
                    }
                    other => sum.violation(ImplViolation { key: format!("scenario:{}", name), input: src.replace('\n', " | "), expected: "accepted".into(), observed: format!("{:?}", other).chars().take(200).collect() }),
                }
            }
        }
    }
    // ---- 4. statements that fail as a whole under ON ERROR RESUME NEXT are skipped, nothing else changes
    error_skip(&mut rng, if args.thorough() { 1500 } else { 250 }, args.thorough(), &mut sum, &mut evaluations);
    sum.write(
        &args.out,
        evaluations,
        "value level: the real NearestStatementFinder (hook verif_nearest_statement) on random ascending address lists and addresses vs Control.find_current / find_next. Run level: generated control programs (labels, backward/forward GOTO, nested GOSUB, failing statements of six kinds at top level / last in a loop body / last in an IF or CASE block / last in a SUB / inside GOSUB routines, handlers ON ERROR GOTO / RESUME NEXT / GOTO 0 switched in all orders, RESUME / RESUME NEXT / RESUME label), procedural programs with error handlers, repository programs using GOTO/GOSUB/ON ERROR; for each run every control transfer (from the observer trace incl. the error events) is replayed by Control.check_control in Coq. Scenarios: 20 programs whose output and end are known by construction, and 27 programs with an error while the arguments of calls nested one to three deep are being collected (main module, SUB, FUNCTION; assignment, PRINT, SUB call) under a handler that ends in RESUME NEXT; 12 programs whose failing statement is the last one of the main module (with / without END, 0-2 subprograms behind it, handler / inline). Error skipping: core programs (IF/SELECT/FOR/WHILE/DO nests that run without error) with statements that fail as a whole (E9% = 1 / Z9%) inserted at the end of blocks and at random places under ON ERROR RESUME NEXT: same output, normal end and the same stack depths at the end as the program without them. Non-trivial = distinct event sequences.",
    );
}
