//! C16: PRINT layout on screen, printer and files; PRINT USING. Whole programs through the real
//! pipeline; compared with coq/theories/RT/{Printer,Using}.v and with a small independent
//! re-statement of the column rules here.
use crate::common::*;
use crate::runner::*;

const HEADER: &str = "From Coq Require Import List ZArith Bool NArith.\nFrom RB Require Import Base.Util RT.Printer RT.Using.\nImport ListNotations.\n";

#[derive(Clone, Debug)]
enum Item {
    Str(Vec<u8>),
    Num { neg: bool, abs_text: String, src: String },
}

#[derive(Clone, Debug)]
enum Arg {
    Comma,
    Semi,
    Item(Item),
}

#[derive(Clone, Copy, Debug, PartialEq)]
enum Dev {
    Screen,
    Lpt1,
    File(u8),
}

fn str_expr(b: &[u8]) -> String {
    // printable runs as literals, CR / LF through CHR$
    let mut parts: Vec<String> = vec![];
    let mut cur = String::new();
    for c in b {
        if *c == 13 || *c == 10 {
            if !cur.is_empty() {
                parts.push(format!("\"{}\"", cur));
                cur.clear();
            }
            parts.push(format!("CHR$({})", c));
        } else {
            cur.push(*c as char);
        }
    }
    if !cur.is_empty() || parts.is_empty() {
        parts.push(format!("\"{}\"", cur));
    }
    parts.join(" + ")
}

fn item_src(i: &Item) -> String {
    match i {
        Item::Str(b) => str_expr(b),
        Item::Num { src, .. } => src.clone(),
    }
}

fn item_text(i: &Item) -> Vec<u8> {
    match i {
        Item::Str(b) => b.clone(),
        Item::Num { neg, abs_text, .. } => {
            let mut v = vec![if *neg { b'-' } else { b' ' }];
            v.extend(abs_text.bytes());
            v.push(b' ');
            v
        }
    }
}

fn stmt_src(d: Dev, args: &[Arg]) -> String {
    let mut s = match d {
        Dev::Screen => "PRINT".to_string(),
        Dev::Lpt1 => "LPRINT".to_string(),
        Dev::File(h) => format!("PRINT #{},", h),
    };
    for a in args {
        match a {
            Arg::Comma => s.push_str(" ,"),
            Arg::Semi => s.push_str(" ;"),
            Arg::Item(i) => {
                s.push(' ');
                s.push_str(&item_src(i));
            }
        }
    }
    s
}

// ---- independent re-statement of the rules (not the Coq model)

#[derive(Default, Clone)]
struct RefDev {
    out: Vec<u8>,
    col: usize,
}

impl RefDev {
    fn emit(&mut self, text: &[u8]) {
        for c in text {
            if *c == 13 || *c == 10 {
                self.out.extend_from_slice(b"\r\n");
                self.col = 0;
            } else {
                self.out.push(*c);
                self.col += 1;
            }
        }
    }
    fn stmt(&mut self, args: &[Arg]) {
        let mut ends_with_sep = false;
        for a in args {
            match a {
                Arg::Comma => {
                    let target = (self.col / 14 + 1) * 14;
                    while self.col < target {
                        self.out.push(b' ');
                        self.col += 1;
                    }
                    ends_with_sep = true;
                }
                Arg::Semi => ends_with_sep = true,
                Arg::Item(i) => {
                    self.emit(&item_text(i));
                    ends_with_sep = false;
                }
            }
        }
        if !ends_with_sep {
            self.out.extend_from_slice(b"\r\n");
            self.col = 0;
        }
    }
}

// ---- Coq printers

fn coq_item(i: &Item) -> String {
    match i {
        Item::Str(b) => format!("(IStr {})", zbytes(b)),
        Item::Num { neg, abs_text, .. } => format!("(INum {} {})", if *neg { "true" } else { "false" }, zbytes(abs_text.as_bytes())),
    }
}

fn zbytes(b: &[u8]) -> String {
    format!("[{}]%Z", b.iter().map(|c| c.to_string()).collect::<Vec<_>>().join("; "))
}

fn coq_args(args: &[Arg]) -> String {
    let v: Vec<String> = args
        .iter()
        .map(|a| match a {
            Arg::Comma => "AComma".to_string(),
            Arg::Semi => "ASemi".to_string(),
            Arg::Item(i) => format!("AItem {}", coq_item(i)),
        })
        .collect();
    format!("[{}]", v.join("; "))
}

fn coq_dev(d: Dev) -> String {
    match d {
        Dev::Screen => "DScreen".into(),
        Dev::Lpt1 => "DLpt1".into(),
        Dev::File(h) => format!("(DFile {})", h),
    }
}

fn items_pool() -> Vec<Item> {
    let num = |neg: bool, abs: &str, src: &str| Item::Num { neg, abs_text: abs.to_string(), src: src.to_string() };
    vec![
        num(false, "5", "5"),
        num(true, "7", "-7"),
        num(false, "0", "0"),
        num(false, "32767", "32767"),
        num(false, "32768", "32768"),
        num(true, "2147483648", "-2147483648"),
        num(false, "1.5", "1.5"),
        num(true, "2.5", "-2.5"),
        num(false, "0.25", ".25#"),
        num(false, "123456.75", "123456.75#"),
        Item::Str(b"".to_vec()),
        Item::Str(b"a".to_vec()),
        Item::Str(b"hello world".to_vec()),
        Item::Str(b"1234567890123".to_vec()),
        Item::Str(b"12345678901234".to_vec()),
        Item::Str(b"123456789012345".to_vec()),
        Item::Str(b"ab\rcd".to_vec()),
        Item::Str(b"ab\ncd".to_vec()),
        Item::Str(b"ab\r\ncd".to_vec()),
        Item::Str(b"x\n".to_vec()),
        Item::Str(b"\ry".to_vec()),
        Item::Str(b"tail\r".to_vec()),
    ]
}

fn random_args(rng: &mut Rng, pool: &[Item], max_items: usize) -> Vec<Arg> {
    let mut args = vec![];
    let n = rng.range(0, max_items as i64) as usize;
    // leading separators
    while rng.chance(1, 6) {
        args.push(if rng.chance(1, 2) { Arg::Comma } else { Arg::Semi });
    }
    for k in 0..n {
        args.push(Arg::Item(rng.pick(pool).clone()));
        let last = k + 1 == n;
        let nsep = if last { if rng.chance(1, 2) { 1 } else { 0 } } else { 1 + if rng.chance(1, 8) { 1 } else { 0 } };
        for _ in 0..nsep {
            args.push(if rng.chance(1, 2) { Arg::Comma } else { Arg::Semi });
        }
    }
    args
}

fn history_case(hist: &[(Dev, Vec<Arg>)], w: &mut CaseWriter, sum: &mut Summary, evaluations: &mut usize, tag: usize) {
    let f1 = format!("c16a{}.txt", tag % 4);
    let f2 = format!("c16b{}.txt", tag % 4);
    let _ = std::fs::remove_file(&f1);
    let _ = std::fs::remove_file(&f2);
    let mut src = format!("OPEN \"{}\" FOR OUTPUT AS #1\nOPEN \"{}\" FOR OUTPUT AS #2\n", f1, f2);
    for (d, args) in hist {
        src.push_str(&stmt_src(*d, args));
        src.push('\n');
    }
    src.push_str("CLOSE\n");
    *evaluations += 1;
    let o = run_program(&src, &RunOpts::default());
    match &o {
        Outcome::ParseError { .. } | Outcome::LintError { .. } => {
            // a separator layout the grammar does not take: outside the quantifier, counted
            sum.count("history_rejected_by_front_end");
            return;
        }
        _ => {}
    }
    let r = match o {
        Outcome::Ran(r) if r.end == End::Ok => r,
        other => {
            sum.violation(ImplViolation { key: "print-program-failed".into(), input: src, expected: "normal termination".into(), observed: format!("{:?}", other).chars().take(400).collect() });
            return;
        }
    };
    let fa = std::fs::read(&f1).unwrap_or_default();
    let fb = std::fs::read(&f2).unwrap_or_default();
    // reference
    let mut refs = [RefDev::default(), RefDev::default(), RefDev::default(), RefDev::default()];
    for (d, args) in hist {
        let k = match d {
            Dev::Screen => 0,
            Dev::Lpt1 => 1,
            Dev::File(1) => 2,
            _ => 3,
        };
        refs[k].stmt(args);
    }
    let observed: [&Vec<u8>; 4] = [&r.stdout, &r.lpt1, &fa, &fb];
    let names = ["screen", "lpt1", "file1", "file2"];
    for k in 0..4 {
        if *observed[k] != refs[k].out {
            sum.violation(ImplViolation {
                key: format!("print-layout-{}", names[k]),
                input: src.clone(),
                expected: format!("{:?}", String::from_utf8_lossy(&refs[k].out)),
                observed: format!("{:?}", String::from_utf8_lossy(observed[k])),
            });
        }
    }
    let h: Vec<String> = hist.iter().map(|(d, a)| format!("({}, {})", coq_dev(*d), coq_args(a))).collect();
    w.push(Case {
        agree: format!(
            "let r := run_history [{}] devs0 in str_eqb (out (r DScreen)) {} && str_eqb (out (r DLpt1)) {} && str_eqb (out (r (DFile 1))) {} && str_eqb (out (r (DFile 2))) {}",
            h.join("; "),
            zbytes(&r.stdout),
            zbytes(&r.lpt1),
            zbytes(&fa),
            zbytes(&fb)
        ),
        desc: src.replace('\n', " | "),
        model_expr: format!("let r := run_history [{}] devs0 in (out (r DScreen), out (r DLpt1), out (r (DFile 1)), out (r (DFile 2)))", h.join("; ")),
    });
    sum.count("print_histories");
    if hist.len() >= 2 {
        sum.nontrivial(src.clone());
    }
    if sum.samples.len() < 3 && hist.len() >= 3 {
        sum.sample(J::s(src));
    }
    let _ = std::fs::remove_file(&f1);
    let _ = std::fs::remove_file(&f2);
}

// ---- PRINT USING

#[derive(Clone, Debug)]
enum UVal {
    Str(String),
    Int(i64),
}

fn using_case(fmt: &str, vals: &[UVal], w: &mut CaseWriter, sum: &mut Summary, evaluations: &mut usize) {
    let vs: Vec<String> = vals
        .iter()
        .map(|v| match v {
            UVal::Str(s) => format!("\"{}\"", s),
            UVal::Int(i) => format!("{}", i),
        })
        .collect();
    let src = format!("PRINT USING \"{}\"; {}\n", fmt, vs.join("; "));
    *evaluations += 1;
    let o = run_program(&src, &RunOpts::default());
    let (code, out): (u32, Vec<u8>) = match &o {
        Outcome::Ran(r) => match &r.end {
            End::Ok => (0, r.stdout.clone()),
            End::Err(c, _, _) => (*c as u32, vec![]),
            other => {
                sum.violation(ImplViolation { key: "using-internal-failure".into(), input: src.clone(), expected: "output or error 5/13".into(), observed: format!("{:?}", other) });
                return;
            }
        },
        Outcome::ParseError { .. } | Outcome::LintError { .. } => {
            sum.count("using_rejected_by_front_end");
            return;
        }
        other => {
            sum.violation(ImplViolation { key: "using-internal-failure".into(), input: src.clone(), expected: "output or error 5/13".into(), observed: format!("{:?}", other) });
            return;
        }
    };
    let text: Vec<u8> = if code == 0 { out.strip_suffix(b"\r\n").map(|x| x.to_vec()).unwrap_or(out.clone()) } else { vec![] };
    if code == 0 && !out.ends_with(b"\r\n") {
        sum.violation(ImplViolation { key: "using-no-newline".into(), input: src.clone(), expected: "CR LF at the end".into(), observed: format!("{:?}", String::from_utf8_lossy(&out)) });
    }
    // two defining facts checked directly: a \ \ only format gives exactly the field width; a format
    // without fields and at least one value is an error
    if code == 0 && vals.len() == 1 {
        if let UVal::Str(_) = &vals[0] {
            if fmt.len() >= 2 && fmt.starts_with('\\') && fmt.ends_with('\\') && fmt[1..fmt.len() - 1].bytes().all(|c| c == b' ') && text.len() != fmt.len() {
                sum.violation(ImplViolation { key: "using-string-field-width".into(), input: src.clone(), expected: format!("{} characters", fmt.len()), observed: format!("{:?}", String::from_utf8_lossy(&text)) });
            }
        }
    }
    if !fmt.contains('#') && !fmt.contains('\\') && !fmt.contains('!') && code == 0 {
        sum.violation(ImplViolation { key: "using-no-field".into(), input: src.clone(), expected: "Illegal function call".into(), observed: format!("{:?}", String::from_utf8_lossy(&text)) });
    }
    let cv: Vec<String> = vals
        .iter()
        .map(|v| match v {
            UVal::Str(s) => format!("UStr {}", zbytes(s.as_bytes())),
            UVal::Int(i) => format!("UNum {}", zbytes(i.to_string().as_bytes())),
        })
        .collect();
    w.push(Case {
        agree: format!("ures_str_eqb (using_values {} 0 [{}] []) {} {}", zbytes(fmt.as_bytes()), cv.join("; "), code, zbytes(&text)),
        desc: format!("{} -> code {} {:?}", src.trim(), code, String::from_utf8_lossy(&text)),
        model_expr: format!("using_values {} 0 [{}] []", zbytes(fmt.as_bytes()), cv.join("; ")),
    });
    sum.count(if code == 0 { "using_ok" } else { "using_error" });
    sum.nontrivial(src.clone());
    if sum.samples.len() < 6 && code == 0 && fmt.len() > 3 {
        sum.sample(J::s(format!("{} => {:?}", src.trim(), String::from_utf8_lossy(&text))));
    }
}

pub fn run(args: &Args) {
    let mut rng = Rng::new(args.seed);
    let mut sum = Summary::new();
    let mut w = CaseWriter::new(&args.out, "c16", HEADER, 250);
    let mut evaluations = 0usize;
    let pool = items_pool();
    let devs = [Dev::Screen, Dev::Lpt1, Dev::File(1), Dev::File(2)];
    // 1. single statements: every item alone with every trailing separator, on every device
    let mut tag = 0;
    for d in devs {
        for it in &pool {
            for tail in [vec![], vec![Arg::Comma], vec![Arg::Semi]] {
                let mut a = vec![Arg::Item(it.clone())];
                a.extend(tail);
                // followed by a second statement on the same device, to observe the kept column
                let hist = vec![(d, a), (d, vec![Arg::Item(pool[1].clone()), Arg::Comma, Arg::Item(pool[11].clone())])];
                history_case(&hist, &mut w, &mut sum, &mut evaluations, tag);
                tag += 1;
            }
        }
    }
    // 2. pairs of items with each separator (zone boundaries 13/14/15)
    for a in &pool {
        for b in &pool {
            if !rng.chance(1, if args.thorough() { 1 } else { 3 }) {
                continue;
            }
            for sep in [Arg::Comma, Arg::Semi] {
                let hist = vec![(Dev::Screen, vec![Arg::Item(a.clone()), sep.clone(), Arg::Item(b.clone())]), (Dev::Screen, vec![Arg::Comma, Arg::Item(pool[0].clone())])];
                history_case(&hist, &mut w, &mut sum, &mut evaluations, tag);
                tag += 1;
            }
        }
    }
    // 3. random histories interleaved across the four devices
    for _ in 0..(if args.thorough() { 6000 } else { 500 }) {
        let n = rng.range(1, 6) as usize;
        let hist: Vec<(Dev, Vec<Arg>)> = (0..n).map(|_| (*rng.pick(&devs), random_args(&mut rng, &pool, 4))).collect();
        history_case(&hist, &mut w, &mut sum, &mut evaluations, tag);
        tag += 1;
    }

    // 4. PRINT USING: all format strings over the field alphabet up to length 4 (quick) / 5 (thorough)
    let alphabet: [u8; 7] = [b'#', b',', b'.', b'\\', b'!', b' ', b'a'];
    let maxlen = if args.thorough() { 5 } else { 4 };
    let mut fmts: Vec<String> = vec![];
    let mut frontier: Vec<String> = vec![String::new()];
    for _ in 0..maxlen {
        let mut next = vec![];
        for f in &frontier {
            for c in alphabet {
                let mut t = f.clone();
                t.push(c as char);
                next.push(t);
            }
        }
        fmts.extend(next.iter().cloned());
        frontier = next;
    }
    let value_sets: Vec<Vec<UVal>> = vec![
        vec![UVal::Int(5)],
        vec![UVal::Int(-42)],
        vec![UVal::Int(1234567)],
        vec![UVal::Str("xyz".into())],
        vec![UVal::Str("".into())],
        vec![UVal::Int(7), UVal::Str("q".into())],
        vec![UVal::Str("hello".into()), UVal::Int(12)],
        vec![UVal::Int(1), UVal::Int(22), UVal::Int(333)],
    ];
    for f in &fmts {
        // every format with two value sets chosen by the seed; short formats with all of them
        if f.len() <= 2 {
            for vs in &value_sets {
                using_case(f, vs, &mut w, &mut sum, &mut evaluations);
            }
        } else {
            for _ in 0..(if args.thorough() { 2 } else { 1 }) {
                let vs = rng.pick(&value_sets).clone();
                if args.thorough() || rng.chance(1, 2) {
                    using_case(f, &vs, &mut w, &mut sum, &mut evaluations);
                }
            }
        }
    }
    // longer, mostly valid formats
    for f in ["###", "#,###", "##.##", "a ## b", "\\  \\", "\\\\", "!", "x!y", "## \\ \\ !", "#,###.## units", "\\   \\#", "total: ###", "##,##"] {
        for vs in &value_sets {
            using_case(f, vs, &mut w, &mut sum, &mut evaluations);
        }
    }
    // 5. every PRINT USING statement stands alone: a sequence of statements (the same format or
    // another one, value counts that do or do not fill all fields, also inside a loop) prints the
    // concatenation of what each statement prints when it is the whole program
    {
        let seq_fmts = ["A: # B: #", "[##] [##] [##]", "##", "\\ \\ x", "#,### !", "v=## w=##;"];
        let seq_vals: Vec<Vec<UVal>> = vec![
            vec![UVal::Int(1)],
            vec![UVal::Int(1), UVal::Int(2)],
            vec![UVal::Int(1), UVal::Int(2), UVal::Int(3)],
            vec![UVal::Int(5), UVal::Int(6), UVal::Int(7), UVal::Int(8)],
            vec![UVal::Str("ab".into())],
            vec![UVal::Str("ab".into()), UVal::Str("c".into()), UVal::Str("d".into())],
        ];
        let stmt = |f: &str, vals: &[UVal]| -> String {
            let vs: Vec<String> = vals.iter().map(|v| match v { UVal::Str(s) => format!("\"{}\"", s), UVal::Int(i) => format!("{}", i) }).collect();
            format!("PRINT USING \"{}\"; {}\n", f, vs.join("; "))
        };
        let alone = |src: &str| -> Option<Vec<u8>> {
            match run_program(src, &RunOpts::default()) {
                Outcome::Ran(r) if r.end == End::Ok => Some(r.stdout.clone()),
                _ => None,
            }
        };
        let mut seqs: Vec<Vec<String>> = vec![];
        for f in seq_fmts.iter() {
            for v1 in seq_vals.iter() {
                for v2 in seq_vals.iter().take(3) {
                    seqs.push(vec![stmt(f, v1), stmt(f, v2)]);
                }
                let g = *rng.pick(&seq_fmts);
                seqs.push(vec![stmt(f, v1), stmt(g, &seq_vals[1]), stmt(f, v1)]);
            }
        }
        let budget = if args.thorough() { seqs.len() } else { 90 };
        let step = (seqs.len() / budget).max(1);
        for (k, sq) in seqs.iter().enumerate() {
            if k % step != 0 {
                continue;
            }
            let parts: Vec<Option<Vec<u8>>> = sq.iter().map(|x| alone(x)).collect();
            evaluations += sq.len() + 1;
            if parts.iter().any(|p| p.is_none()) {
                sum.count("using_sequence_skipped_error");
                continue;
            }
            let expected: Vec<u8> = parts.into_iter().flat_map(|p| p.unwrap()).collect();
            let whole = sq.concat();
            sum.count("using_sequences");
            match alone(&whole) {
                Some(out) if out == expected => {}
                other => sum.violation(ImplViolation { key: "using-statement-depends-on-previous".into(), input: whole.clone(), expected: format!("{:?}", String::from_utf8_lossy(&expected)), observed: format!("{:?}", other.map(|o| String::from_utf8_lossy(&o).to_string())) }),
            }
        }
        // a field without a decimal point shows a fraction rounded to the nearest whole number, halves
        // away from zero: the output is that of the rounded whole number itself
        for f in ["##", "###", "#,###", "total ### units", "####"] {
            for (txt, whole) in [("2.5", 3i64), ("0.5", 1), ("8.5#", 9), ("98.5", 99), ("1.5", 2), ("99.5", 100), ("2.4", 2), ("2.6", 3), ("0.4", 0), ("7.5#", 8), ("12.5", 13), ("0.25#", 0), ("123.5", 124)] {
                let a = alone(&format!("PRINT USING \"{}\"; {}\n", f, txt));
                let b = alone(&format!("PRINT USING \"{}\"; {}\n", f, whole));
                evaluations += 2;
                sum.count("using_fraction_in_whole_field");
                if a.is_none() || a != b {
                    sum.violation(ImplViolation { key: "using-fraction-rounding".into(), input: format!("PRINT USING \"{}\"; {}", f, txt), expected: format!("as for {}: {:?}", whole, b.map(|o| String::from_utf8_lossy(&o).to_string())), observed: format!("{:?}", a.map(|o| String::from_utf8_lossy(&o).to_string())) });
                }
            }
        }
        // the same statement executed repeatedly by a loop
        for f in seq_fmts.iter() {
            let one = format!("I% = 1\nPRINT USING \"{}\"; I%\n", f);
            let looped = format!("FOR I% = 1 TO 3\nPRINT USING \"{}\"; I%\nNEXT\n", f);
            let unrolled = format!("PRINT USING \"{0}\"; 1\nPRINT USING \"{0}\"; 2\nPRINT USING \"{0}\"; 3\n", f);
            evaluations += 3;
            if alone(&one).is_none() {
                continue;
            }
            sum.count("using_sequences");
            let a = alone(&looped);
            let b = alone(&unrolled);
            let first = alone(&one).unwrap();
            if a.is_none() || a != b || !a.as_ref().unwrap().starts_with(&first) {
                sum.violation(ImplViolation { key: "using-statement-depends-on-previous".into(), input: looped.clone(), expected: format!("the output of the three statements alone, starting with {:?}", String::from_utf8_lossy(&first)), observed: format!("{:?} / unrolled {:?}", a.map(|o| String::from_utf8_lossy(&o).to_string()), b.map(|o| String::from_utf8_lossy(&o).to_string())) });
            }
        }
    }
    w.flush();
    sum.write(
        &args.out,
        evaluations,
        "PRINT histories as whole programs over screen, LPT1 and two files: every item of the pool (numbers of every type and sign, empty/short/13/14/15-byte strings, strings with CR, LF, CRLF inside and at either end) alone with every trailing separator on every device, followed by a second statement on the same device; pairs of items with each separator; seeded random histories of 1..6 statements with leading, trailing and consecutive separators interleaved across the four devices. PRINT USING: every format string over {# , . \\ ! blank a} up to length 4 (quick, sampled beyond length 2) / 5 (thorough) with integer and string values, plus longer valid formats; sequences of two or three PRINT USING statements (same or other format, value counts that do and do not fill all fields, also repeated by a loop) against the concatenation of the statements run alone; fractions (ties and others, SINGLE and DOUBLE) in fields without a decimal point against the rounded whole number. Output bytes of each device are compared with the Coq model and with an independent re-statement of the column rules. Non-trivial = history of >= 2 statements / every USING case; distinct by program text.",
    );
}
