//! C07 - parsing and checking any text ends with a program or a located error.
//! Inputs: random bytes (decoded lossily), token soups over the lexer's alphabet, and byte / token
//! level mutations (delete, duplicate, swap, truncate at every prefix) of valid programs. For each:
//! parse + check must return, within a time bound, a program or ONE error whose row/column - checked
//! in Coq against `RowCol.position_in_text` on the actual text - is the position of a character of
//! the text or of its end; no panic. Deep nesting (a few hundred levels) runs in a child process so
//! that a stack overflow is observed instead of killing the harness.
use std::time::Instant;

use rusty_linter::core::lint;
use rusty_parser::parse_main_str;

use crate::c11::coq_chars;
use crate::common::*;
use crate::pgen::{PGen, corpus};

const TOKENS: [&str; 78] = [
    "PRINT", "IF", "THEN", "ELSE", "ELSEIF", "END", "END IF", "FOR", "TO", "STEP", "NEXT", "WHILE", "WEND", "DO", "LOOP", "UNTIL", "SELECT", "CASE", "END SELECT", "IS",
    "SUB", "END SUB", "FUNCTION", "END FUNCTION", "DIM", "SHARED", "AS", "INTEGER", "STRING", "TYPE", "END TYPE", "CONST", "GOTO", "GOSUB", "RETURN", "ON", "ERROR", "RESUME",
    "DATA", "READ", "INPUT", "LINE", "OPEN", "CLOSE", "DEFINT", "A-Z", "STATIC", "EXIT", "AND", "OR", "NOT", "MOD", "A", "B%", "C$", "X1", "F", "ARR", "1", "2.5", "32768", "&HFF",
    "\"s\"", "\"", "(", ")", ",", ";", ":", "=", "<", ">", "+", "-", "*", "/", ".", "'c",
];

pub enum Verdict {
    Accepted,
    Error(String, u32, u32),
    Panic(String),
}

pub fn front(text: &str) -> (Verdict, f64) {
    let t = text.to_string();
    let start = Instant::now();
    let r = guard(move || -> Result<(), (String, u32, u32)> {
        let program = parse_main_str(t).map_err(|e| ("parse".to_string(), e.pos.row(), e.pos.col()))?;
        lint(program).map(|_| ()).map_err(|e| (format!("lint {:?}", e.element).chars().take(40).collect::<String>(), e.pos.row(), e.pos.col()))
    });
    let secs = start.elapsed().as_secs_f64();
    (
        match r {
            Err(m) => Verdict::Panic(m),
            Ok(Ok(())) => Verdict::Accepted,
            Ok(Err((k, r, c))) => Verdict::Error(k, r, c),
        },
        secs,
    )
}

fn panic_key(m: &str) -> String {
    let t: String = m.chars().filter(|c| c.is_ascii_alphanumeric() || *c == ' ').take(40).collect();
    t.trim().replace(' ', "-").to_lowercase()
}

/// `vh parse <file>`: used for inputs that may exhaust the stack
pub fn parse_command(path: &str) {
    let text = std::fs::read_to_string(path).unwrap_or_default();
    match front(&text).0 {
        Verdict::Accepted => println!("accepted"),
        Verdict::Error(k, r, c) => println!("error {} {} {}", k, r, c),
        Verdict::Panic(m) => println!("panic {}", m),
    }
}

pub fn run(args: &Args) {
    let mut rng = Rng::new(args.seed);
    let mut sum = Summary::new();
    let mut w = CaseWriter::new(&args.out, "c07", crate::c11::HEADER11, 300);
    let mut evaluations = 0usize;
    let mut inputs: Vec<(String, String)> = vec![]; // (class, text)

    // random bytes
    let n_bytes = if args.thorough() { 3000 } else { 600 };
    for _ in 0..n_bytes {
        let len = rng.below(60) as usize;
        let bytes: Vec<u8> = (0..len)
            .map(|_| match rng.below(4) {
                0 => rng.below(256) as u8,
                1 => *rng.pick(&[b'\n', b'\r', b' ', b'"', b'(', b')', b',', b':', b'\'', b'=', b'%', b'$', b'&', b'#', b'!']),
                _ => 32 + rng.below(95) as u8,
            })
            .collect();
        inputs.push(("bytes".into(), String::from_utf8_lossy(&bytes).to_string()));
    }
    // token soups
    let n_soup = if args.thorough() { 10000 } else { 2500 };
    for _ in 0..n_soup {
        let len = 1 + rng.below(14) as usize;
        let mut s = String::new();
        for _ in 0..len {
            let t: &str = *rng.pick(&TOKENS);
            s.push_str(t);
            s.push_str(match rng.below(6) {
                0 => "\n",
                1 => "",
                _ => " ",
            });
        }
        inputs.push(("soup".into(), s));
    }
    // statement shapes with unusual sub-terms (each a syntactically plausible program)
    {
        let lvalues = ["A", "A%", "A$", "A(1)", "P.X", "A%(1, 2)", "F1%"];
        for lv in lvalues {
            for nx in ["", "A", "A(1)", "B", lv] {
                inputs.push(("shape".into(), format!("DIM A(3)\nFOR {} = 1 TO 2\nPRINT 1\nNEXT {}\n", lv, nx)));
            }
            inputs.push(("shape".into(), format!("INPUT {}\nREAD {}\nLINE INPUT {}\nDATA 1\n", lv, lv, lv)));
            inputs.push(("shape".into(), format!("{} = 1\nSWAP {}, B\nCONST {} = 1\n", lv, lv, lv)));
            inputs.push(("shape".into(), format!("SUB S ({})\nEND SUB\nFUNCTION {}\nEND FUNCTION\n", lv, lv)));
        }
        // a statement that starts like an assignment target or a call but is neither
        for head in ["A(1).B", "A(1).B.C", "A.B(1).C", "A$(1)", "A%.B", "F(1)(2)", "A().B", "P.X(1)", "A(1).B$", "A(1, 2).B.C(3)", "A.B.C", "A.B$"] {
            for tail in ["", " 5", " 5, 6", " = 1", " (1)", " : PRINT 1"] {
                inputs.push(("shape".into(), format!("{}{}\n", head, tail)));
                inputs.push(("shape".into(), format!("DIM A(3)\nSUB S\n{}{}\nEND SUB\n", head, tail)));
                inputs.push(("shape".into(), format!("TYPE T\nB AS INTEGER\nEND TYPE\nDIM A(3) AS T\nIF 1 THEN {}{}\n", head, tail)));
            }
        }
        // numeric literals of every length around the powers of two and ten, with every suffix
        {
            let mut nums: Vec<String> = vec![];
            for k in 0..70u32 {
                let p = 1u128 << k;
                for v in [p - 1, p, p + 1] {
                    nums.push(v.to_string());
                }
            }
            let mut t = 1u128;
            for _ in 0..30 {
                for v in [t - 1, t, t + 1, t * 9 / 2] {
                    nums.push(v.to_string());
                }
                t *= 10;
            }
            for n in ["4294967295", "4294967296", "9999999999", "10000000000", "2147483648", "32768", "0000000001", "00004294967296", "1.5", ".5", "5.", "1E5", "1D5", "1E40", "1D400", "1E-50", "123456789012345678901234567890", "0.00000000000000000001"] {
                nums.push(n.to_string());
            }
            for n in nums {
                for sfx in ["", "%", "&", "!", "#"] {
                    if sfx.is_empty() || n.len() < 12 {
                        inputs.push(("shape".into(), format!("X# = {}{}\n", n, sfx)));
                        inputs.push(("shape".into(), format!("PRINT -{}{}\n", n, sfx)));
                    }
                }
                inputs.push(("shape".into(), format!("X = &H{}\n", n)));
                inputs.push(("shape".into(), format!("X = &O{}\n", n)));
            }
        }
        let letters = ["A", "Z", "a", "z", "M", "m", "B"];
        for kw in ["DEFINT", "DEFLNG", "DEFSNG", "DEFDBL", "DEFSTR"] {
            for x in letters {
                for y in letters {
                    inputs.push(("shape".into(), format!("{} {}-{}\nx = 5\nPRINT x\n", kw, x, y)));
                }
                inputs.push(("shape".into(), format!("{} {}\nq = 1\n", kw, x)));
                inputs.push(("shape".into(), format!("{} {}-\n", kw, x)));
            }
        }
        for t in ["PRINT F2%(1)\nEND\nFUNCTION F2% (X%)\nF2% = 1\nF2 = 2\nEND FUNCTION\n", "FUNCTION G (X)\nG = 1\nG! = 2\nG# = 3\nEND FUNCTION\n", "SUB S\nS = 1\nEND SUB\n", "TYPE T\nEND TYPE\n", "TYPE T\nX AS T\nEND TYPE\nDIM V AS T\n", "DIM A(1 TO 0)\n", "DIM A(-1)\n", "DIM A(1, 2, 3, 4, 5, 6, 7, 8, 9)\nA(1) = 2\n", "GOTO 10\n10 PRINT 1\n", "ON ERROR GOTO 0\nRESUME\n",
                  "SELECT CASE 1\nCASE IS\nEND SELECT\n", "SELECT CASE\nEND SELECT\n", "IF 1 THEN ELSE\n", "IF 1 THEN 10 ELSE 20\n", "PRINT USING ; 1\n", "PRINT #1\n", "OPEN \"f\" FOR AS #1\n", "FIELD #1, 5 AS A$, 5 AS\n",
                  "DECLARE SUB S (A AS T)\nS 1\n", "DECLARE FUNCTION F% ()\nPRINT F%\n", "SUB S\nSUB T\nEND SUB\nEND SUB\n", "END SUB\n", "EXIT FOR\n", "NEXT\n", "WEND\n", "LOOP\n", "CASE 1\n", "ELSE\n", "END IF\n", "END SELECT\n",
                  "A(1)(2) = 3\n", "P.X.Y = 1\n", "A..B = 1\n", "X = 1.2.3\n", "X = &H\n", "X = &O9\n", "X = 1E\n", "X = 1D+\n", "X$ = \"abc\n", "PRINT 1 2\n", "PRINT ,,;;\n", "LET = 1\n", "X == 1\n", "DIM SHARED\n", "DIM X AS\n", "DIM X AS STRING * 0\n", "DIM X AS STRING * N\n",
                  "CONST K = K\n", "CONST K = 1 / 0\n", "CONST K% = 70000\n", "X = LEN()\n", "X = MID$()\n", "CHR$ 5\n", "PRINT CHR$\n", "CALL\n", "CALL S\n", "CALL S(1)\nSUB S (X)\nEND SUB\n", "DEF SEG =\n", "VIEW PRINT 1 TO\n", "LOCATE ,\n", "COLOR ,\n", "KILL\n", "NAME \"a\" AS\n"] {
            inputs.push(("shape".into(), t.to_string()));
        }
    }
    // mutations of valid programs
    let mut bases: Vec<String> = vec![];
    for k in 0..(if args.thorough() { 30 } else { 12 }) {
        let mut g = PGen::new(&mut rng);
        g.with_errors = k % 2 == 0;
        bases.push(g.program(1 + (k % 3) as u32));
    }
    for (_, t) in corpus().into_iter().filter(|(o, _)| o.to_lowercase().ends_with(".bas")).take(8) {
        if t.len() < 1500 {
            bases.push(t);
        }
    }
    for (bi, b) in bases.iter().enumerate() {
        let chars: Vec<char> = b.chars().collect();
        // truncate at every prefix (first base fully, the others sampled)
        let step = if bi == 0 { 1 } else if args.thorough() { 3 } else { 7 };
        let mut i = 0;
        while i < chars.len() {
            inputs.push(("prefix".into(), chars[..i].iter().collect()));
            i += step;
        }
        let n_mut = if args.thorough() { 80 } else { 40 };
        for _ in 0..n_mut {
            let mut c = chars.clone();
            if c.is_empty() {
                continue;
            }
            match rng.below(5) {
                0 => {
                    let i = rng.below(c.len() as u64) as usize;
                    c.remove(i);
                }
                1 => {
                    let i = rng.below(c.len() as u64) as usize;
                    let x = c[i];
                    c.insert(i, x);
                }
                2 => {
                    let i = rng.below(c.len() as u64) as usize;
                    let j = rng.below(c.len() as u64) as usize;
                    c.swap(i, j);
                }
                3 => {
                    // delete a whole line
                    let text: String = c.iter().collect();
                    let mut ls: Vec<&str> = text.lines().collect();
                    if ls.len() > 1 {
                        let i = rng.below(ls.len() as u64) as usize;
                        ls.remove(i);
                    }
                    c = ls.join("\n").chars().collect();
                }
                _ => {
                    // swap two lines
                    let text: String = c.iter().collect();
                    let mut ls: Vec<&str> = text.lines().collect();
                    if ls.len() > 1 {
                        let i = rng.below(ls.len() as u64) as usize;
                        let j = rng.below(ls.len() as u64) as usize;
                        ls.swap(i, j);
                    }
                    c = ls.join("\n").chars().collect();
                }
            }
            inputs.push(("mutation".into(), c.iter().collect()));
        }
    }
    let mut slowest = 0f64;
    for (class, text) in inputs.iter() {
        evaluations += 1;
        sum.count(&format!("class_{}", class));
        let (v, secs) = front(text);
        if secs > slowest {
            slowest = secs;
        }
        let shown: String = text.replace('\r', "\\r").replace('\n', "\\n").chars().take(3000).collect();
        if secs > 5.0 {
            sum.violation(ImplViolation { key: "slow".into(), input: shown.clone(), expected: "bounded time".into(), observed: format!("{:.1}s", secs) });
        }
        match v {
            Verdict::Accepted => sum.count("accepted"),
            Verdict::Panic(m) => {
                sum.violation(ImplViolation { key: format!("front-end-panic:{}", panic_key(&m)), input: shown, expected: "a program or a located error".into(), observed: m.chars().take(200).collect() });
            }
            Verdict::Error(kind, row, col) => {
                sum.count(if kind == "parse" { "syntax_error" } else { "checker_error" });
                // a checker error that has no position of its own (e.g. a missing label at end) must still be inside
                if text.chars().count() <= 400 {
                    w.push(Case {
                        agree: format!("position_in_text {} ({}, {})", coq_chars(text), row, col),
                        desc: format!("{} {} at {}:{} in {}", class, kind, row, col, shown),
                        model_expr: format!("(length {}, position_at {} (length {}))", coq_chars(text), coq_chars(text), coq_chars(text)),
                    });
                }
                sum.nontrivial(text.clone());
            }
        }
    }
    w.flush();
    sum.histogram.insert("slowest_ms".into(), (slowest * 1000.0) as i128);

    // deep nesting in a child process
    let exe = std::env::current_exe().unwrap();
    let depths: Vec<usize> = if args.thorough() { vec![50, 100, 200, 300, 400] } else { vec![50, 150, 300] };
    for d in depths {
        let nests: Vec<(String, String)> = vec![
            ("parentheses".into(), format!("X = {}1{}\n", "(".repeat(d), ")".repeat(d))),
            ("unary".into(), format!("X = {}1\n", "-(".repeat(d).to_string() + &")".repeat(0)).replace("-(", "NOT ")),
            ("if-blocks".into(), format!("{}PRINT 1\n{}", "IF 1 THEN\n".repeat(d), "END IF\n".repeat(d))),
            ("for-blocks".into(), format!("{}PRINT 1\n{}", (0..d).map(|k| format!("FOR I{} = 1 TO 1\n", k)).collect::<String>(), "NEXT\n".repeat(d))),
            ("unclosed-parentheses".into(), format!("X = {}1\n", "(".repeat(d))),
            ("calls".into(), format!("X = {}1{}\n", "LEN(STR$(".repeat(d), "))".repeat(d))),
        ];
        for (name, text) in nests {
            evaluations += 1;
            let path = args.out.join(format!("nest_{}_{}.bas", name, d));
            std::fs::write(&path, &text).unwrap();
            let start = Instant::now();
            let out = std::process::Command::new(&exe).arg("parse").arg(&path).output();
            let secs = start.elapsed().as_secs_f64();
            sum.count("deep_nesting_inputs");
            match out {
                Ok(o) => {
                    let so = String::from_utf8_lossy(&o.stdout).to_string();
                    if !o.status.success() || !(so.starts_with("accepted") || so.starts_with("error")) {
                        sum.violation(ImplViolation { key: format!("deep-nesting:{}", name), input: format!("{} levels of {}", d, name), expected: "a program or a located error".into(), observed: format!("status {:?} stdout {} stderr {}", o.status, so.chars().take(80).collect::<String>(), String::from_utf8_lossy(&o.stderr).chars().take(120).collect::<String>()) });
                    }
                    if secs > 20.0 {
                        sum.violation(ImplViolation { key: format!("deep-nesting-slow:{}", name), input: format!("{} levels of {}", d, name), expected: "bounded time".into(), observed: format!("{:.1}s", secs) });
                    }
                }
                Err(e) => sum.violation(ImplViolation { key: "deep-nesting-spawn".into(), input: name, expected: "child runs".into(), observed: format!("{}", e) }),
            }
            let _ = std::fs::remove_file(&path);
        }
    }
    sum.write(
        &args.out,
        evaluations,
        "random byte strings (0-59 bytes, lossy UTF-8), token soups (1-14 tokens from 78 keywords / identifiers / literals / punctuation with random separators), mutations of valid programs (generated procedural programs and the repository's fixtures): every prefix (first program) or every 7th (others), deletion / duplication / swap of a character, deletion / swap of a line. For each: parse + check under a panic guard with timing; an error's (row, col) is checked in Coq to be the model position of an index of the text or of its end (texts up to 400 characters). Deep nesting (50-300 levels of parentheses, NOT, IF, FOR, unclosed parentheses, nested calls) in a child process. Non-trivial = distinct rejected texts.",
    );
}
