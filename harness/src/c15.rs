//! C15 - generated code is well-formed.
//! The real instruction list of every program is abstracted to control effect + stack effects
//! (`abstract_code`), a depth certificate is inferred by a work-list pass (untrusted) and the Coq
//! function `wf_code` (WF/Verifier.v, soundness proved in WF/VerifierProofs.v) checks certificate,
//! labels, statement addresses and procedure regions. The abstraction itself (the stack-effect table
//! below) is validated against the running VM: every executed instruction must change the real
//! stack depths by exactly its table entry, and the real depths must be the certificate's.
use std::collections::BTreeMap;

use rusty_basic::instruction_generator::{AddressOrLabel, Instruction, InstructionGeneratorResult};

use crate::c01::compile_with_types;
use crate::common::*;
use crate::pgen::{PGen, corpus};
use crate::runner::*;

pub const HEADER: &str = "From Coq Require Import List Arith Bool NArith.\nFrom RB Require Import WF.Verifier.\nImport ListNotations.\n";

pub const NS: usize = 6; // value, register, var-path, context states, by-ref queue, stack trace
const V: usize = 0;
const R: usize = 1;
const P: usize = 2;
const C: usize = 3;
const B: usize = 4;
const S: usize = 5;

#[derive(Clone, Debug, PartialEq)]
pub enum AOp {
    Plain,
    Jump(usize),
    JumpIfFalse(usize),
    Call(usize, usize),
    Ret,
    Stop(u8),
    Handler(usize),
}

#[derive(Clone, Debug)]
pub struct AI {
    pub op: AOp,
    pub pops: [usize; NS],
    pub pushes: [usize; NS],
}

fn addr(a: &AddressOrLabel) -> Result<usize, String> {
    match a {
        AddressOrLabel::Resolved(x) => Ok(*x),
        AddressOrLabel::Unresolved(l) => Err(format!("unresolved label {}", l)),
    }
}

/// the abstraction of one instruction; `prev` is the instruction before it (call protocol)
pub fn abstract_instr(i: usize, ins: &Instruction, prev: Option<&Instruction>) -> Result<AI, String> {
    let mut pops = [0usize; NS];
    let mut pushes = [0usize; NS];
    let mut op = AOp::Plain;
    use Instruction::*;
    match ins {
        VarPathName(_) => pushes[P] = 1,
        VarPathIndex | VarPathProperty(_) | CopyVarPathToA => {
            pops[P] = 1;
            pushes[P] = 1;
        }
        CopyAToVarPath | PopVarPath => pops[P] = 1,
        PushAToValueStack => pushes[V] = 1,
        PopValueStackIntoA => pops[V] = 1,
        PushRegisters => pushes[R] = 1,
        PopRegisters => pops[R] = 1,
        BeginCollectArguments => pushes[C] = 1,
        PushNamed(_) | PushUnnamedByVal => {
            pops[C] = 1;
            pushes[C] = 1;
        }
        PushUnnamedByRef => {
            pops[P] = 1;
            pops[C] = 1;
            pushes[C] = 1;
        }
        PushStack | PushStaticStack(_) => {
            pops[C] = 1;
            pushes[C] = 1;
            pushes[S] = 1;
        }
        PopStack => {
            pops[C] = 1;
            pops[S] = 1;
        }
        AllocateArrayIntoA(_) => pops[C] = 1,
        EnqueueToReturnStack(_) => pushes[B] = 1,
        DequeueFromReturnStack => pops[B] = 1,
        BuiltInSub(_) | BuiltInFunction(_) => {
            pops[S] = 1;
            pushes[S] = 1;
        }
        Jump(a) => {
            let t = addr(a)?;
            op = match prev {
                Some(PushRet(ret)) => AOp::Call(t, *ret),
                _ => AOp::Jump(t),
            };
        }
        JumpIfFalse(a) => op = AOp::JumpIfFalse(addr(a)?),
        GoSub(a) => op = AOp::Call(addr(a)?, i + 1),
        Return(None) => op = AOp::Ret,
        Return(Some(_)) => op = AOp::Stop(3),
        PopRet => op = AOp::Ret,
        Halt => op = AOp::Stop(0),
        Throw(_) => op = AOp::Stop(1),
        Resume | ResumeNext | ResumeLabel(_) => op = AOp::Stop(2),
        OnErrorGoTo(a) => op = AOp::Handler(addr(a)?),
        _ => {}
    }
    Ok(AI { op, pops, pushes })
}

pub fn abstract_code(igr: &InstructionGeneratorResult) -> Result<Vec<AI>, String> {
    let mut v = vec![];
    for (i, ip) in igr.instructions.iter().enumerate() {
        let prev = if i > 0 { Some(&igr.instructions[i - 1].element) } else { None };
        v.push(abstract_instr(i, &ip.element, prev)?);
    }
    Ok(v)
}

fn apply(d: &[usize; NS], a: &AI) -> Option<[usize; NS]> {
    let mut r = *d;
    for k in 0..NS {
        if r[k] < a.pops[k] {
            return None;
        }
        r[k] = r[k] - a.pops[k] + a.pushes[k];
    }
    Some(r)
}

pub type Cert = Vec<Option<[usize; NS]>>;

/// work-list inference of the certificate; conflicts are reported, the first value is kept
pub fn infer(code: &[AI]) -> (Cert, Vec<String>) {
    let mut cert: Cert = vec![None; code.len()];
    let mut problems = vec![];
    let mut work: Vec<(usize, [usize; NS])> = vec![(0, [0; NS])];
    while let Some((pc, d)) = work.pop() {
        if pc >= code.len() {
            problems.push(format!("address {} outside the list", pc));
            continue;
        }
        match &cert[pc] {
            Some(old) => {
                if *old != d {
                    problems.push(format!("address {} reached with depths {:?} and {:?}", pc, old, d));
                }
                continue;
            }
            None => cert[pc] = Some(d),
        }
        let a = &code[pc];
        let nd = match apply(&d, a) {
            Some(x) => x,
            None => {
                problems.push(format!("underflow at {} with depths {:?}", pc, d));
                continue;
            }
        };
        match &a.op {
            AOp::Plain => work.push((pc + 1, nd)),
            AOp::Handler(t) => {
                work.push((pc + 1, nd));
                work.push((*t, [0; NS]));
            }
            AOp::Jump(t) => work.push((*t, nd)),
            AOp::JumpIfFalse(t) => {
                work.push((pc + 1, nd));
                work.push((*t, nd));
            }
            AOp::Call(t, ret) => {
                work.push((*t, [0; NS]));
                work.push((*ret, nd));
            }
            AOp::Ret => {
                if nd != [0; NS] {
                    problems.push(format!("return at {} with depths {:?}", pc, nd));
                }
            }
            AOp::Stop(_) => {}
        }
    }
    (cert, problems)
}

/// procedure regions: the main module, then one per `:sub:` / `:fun:` label
pub fn regions(igr: &InstructionGeneratorResult) -> Vec<(usize, usize)> {
    let mut starts = vec![0usize];
    for (i, ip) in igr.instructions.iter().enumerate() {
        if let Instruction::Label(l) = &ip.element {
            let s = l.to_string();
            if s.starts_with(":sub:") || s.starts_with(":fun:") {
                starts.push(i);
            }
        }
    }
    let n = igr.instructions.len();
    let mut v = vec![];
    for (k, s) in starts.iter().enumerate() {
        let e = if k + 1 < starts.len() { starts[k + 1] } else { n };
        v.push((*s, e));
    }
    v
}

pub fn label_ids(igr: &InstructionGeneratorResult) -> Vec<usize> {
    let mut map: BTreeMap<String, usize> = BTreeMap::new();
    let mut v = vec![];
    for ip in igr.instructions.iter() {
        if let Instruction::Label(l) = &ip.element {
            let key = l.to_string().to_uppercase();
            let n = map.len();
            let id = *map.entry(key).or_insert(n);
            v.push(id);
        }
    }
    v
}

fn coq_dvec(d: &[usize; NS]) -> String {
    format!("[{}]", d.iter().map(|x| x.to_string()).collect::<Vec<_>>().join("; "))
}

pub fn coq_acode(code: &[AI]) -> String {
    let zero = [0usize; NS];
    let mut s = String::from("[");
    for (k, a) in code.iter().enumerate() {
        if k > 0 {
            s.push_str("; ");
        }
        let op = match &a.op {
            AOp::Plain => "APlain".to_string(),
            AOp::Jump(t) => format!("AJump {}", t),
            AOp::JumpIfFalse(t) => format!("AJumpIfFalse {}", t),
            AOp::Call(t, r) => format!("ACall {} {}", t, r),
            AOp::Ret => "ARet".to_string(),
            AOp::Stop(k) => format!("AStop {}", k),
            AOp::Handler(t) => format!("AHandler {}", t),
        };
        if a.pops == zero && a.pushes == zero {
            s.push_str(&format!("mk_ai ({}) z6 z6", op));
        } else {
            s.push_str(&format!("mk_ai ({}) {} {}", op, coq_dvec(&a.pops), coq_dvec(&a.pushes)));
        }
    }
    s.push(']');
    s
}

pub fn coq_cert(c: &Cert) -> String {
    let zero = [0usize; NS];
    format!(
        "[{}]",
        c.iter()
            .map(|o| match o {
                None => "None".to_string(),
                Some(d) if *d == zero => "Some z6".to_string(),
                Some(d) => format!("Some {}", coq_dvec(d)),
            })
            .collect::<Vec<_>>()
            .join("; ")
    )
}

fn coq_nats(v: &[usize]) -> String {
    format!("[{}]", v.iter().map(|x| x.to_string()).collect::<Vec<_>>().join("; "))
}

fn coq_regions(v: &[(usize, usize)]) -> String {
    format!("[{}]", v.iter().map(|(a, b)| format!("({}, {})", a, b)).collect::<Vec<_>>().join("; "))
}

fn real_depths(s: &rusty_basic::interpreter::verif::Step) -> [usize; NS] {
    [s.depths[0], s.depths[1], s.depths[2], s.states, s.depths[3], s.depths[6]]
}

/// Replays the trace of a real run against the abstraction: every sequential step must change the
/// real depths by the table entry, and the real depths must be frame bases + certificate.
/// Returns (steps compared, first problem).
pub fn dynamic_check(code: &[AI], cert: &Cert, trace: &[rusty_basic::interpreter::verif::Step]) -> (usize, Option<String>) {
    if trace.is_empty() {
        return (0, None);
    }
    let base0 = real_depths(&trace[0]);
    let mut frames: Vec<[usize; NS]> = vec![]; // saved relative depths of the callers
    let mut compared = 0usize;
    for w in 0..trace.len() {
        let st = &trace[w];
        if st.error.is_some() {
            // an instruction failed: what follows is an error transfer, outside the abstraction
            return (compared, None);
        }
        let pc = st.pc;
        if pc >= code.len() {
            return (compared, Some(format!("executed address {} outside the list", pc)));
        }
        let real = real_depths(st);
        // predicted absolute depth = base + sum of frames + certificate
        let c = match &cert[pc] {
            Some(c) => *c,
            None => return (compared, Some(format!("executed address {} that the certificate claims unreachable", pc))),
        };
        let mut predicted = base0;
        for f in &frames {
            for k in 0..NS {
                predicted[k] += f[k];
            }
        }
        for k in 0..NS {
            predicted[k] += c[k];
        }
        if predicted != real {
            return (compared, Some(format!("at address {} the real stack depths are {:?}, the certificate gives {:?} (value, register, var-path, context, by-ref, stack trace)", pc, real, predicted)));
        }
        compared += 1;
        if w + 1 == trace.len() {
            break;
        }
        let a = &code[pc];
        if trace[w + 1].error.is_some() {
            return (compared, None);
        }
        let next = trace[w + 1].pc;
        let nd = match apply(&c, a) {
            Some(x) => x,
            None => return (compared, Some(format!("underflow at executed address {}", pc))),
        };
        // successor according to the abstraction
        let ok = match &a.op {
            AOp::Plain | AOp::Handler(_) => next == pc + 1,
            AOp::Jump(t) => next == *t,
            AOp::JumpIfFalse(t) => next == *t || next == pc + 1,
            AOp::Call(t, _) => {
                if next == *t {
                    frames.push(nd);
                    true
                } else {
                    false
                }
            }
            AOp::Ret => {
                // returns to the caller: the frame is dropped
                frames.pop().is_some()
            }
            AOp::Stop(_) => false,
        };
        if !ok {
            // an error transfer (ON ERROR), RESUME, or RETURN label: outside the abstraction; stop comparing
            return (compared, None);
        }
    }
    (compared, None)
}

pub fn run(args: &Args) {
    let mut rng = Rng::new(args.seed);
    let mut sum = Summary::new();
    let mut w = CaseWriter::new(&args.out, "c15", &format!("{}Definition z6 := vzero nstacks.\n", HEADER), 40);
    let mut evaluations = 0usize;
    let mut programs: Vec<(String, String)> = vec![];
    // 1. the repository's own programs
    for (origin, text) in corpus() {
        programs.push((format!("corpus:{}", origin.replace("/repo/", "")), text));
    }
    let n_corpus = programs.len();
    // 2. generated programs with procedures, GOSUB, arrays, error handlers
    let n_gen = if args.thorough() { 3000 } else { 300 };
    for k in 0..n_gen {
        let mut g = PGen::new(&mut rng);
        g.with_errors = k % 4 == 3;
        let depth = 1 + (k % 3) as u32;
        programs.push((format!("generated:{}", k), g.program(depth)));
    }
    // 3. generated core programs (nesting of block statements in all loop kinds)
    let n_core = if args.thorough() { 2000 } else { 200 };
    for k in 0..n_core {
        let mut g = crate::c01::Gen { rng: &mut rng, loop_counter: 0 };
        let mut prog = g.program(2 + (k % 2) as u32, 4);
        programs.push((format!("core:{}", k), crate::c01::print_program(&mut prog)));
    }
    // 4. constructs of the same kind at positions whose digits read alike, and the nesting matrix
    for (k, (mut prog, ind)) in crate::c01::lookalike_programs().into_iter().enumerate() {
        programs.push((format!("lookalike:{}", k), crate::c01::print_program_with_indents(&mut prog, &ind)));
    }
    for (k, mut prog) in crate::c01::empty_block_programs().into_iter().chain(crate::c01::case_list_programs().into_iter()).enumerate() {
        programs.push((format!("fixed:{}", k), crate::c01::print_program(&mut prog)));
    }
    for (name, mut prog) in crate::c01::nest_matrix(&mut rng, args.thorough(), 30) {
        programs.push((name.replace(' ', ":"), crate::c01::print_program(&mut prog)));
    }
    let mut accepted_corpus = 0usize;
    for (origin, src) in programs.iter() {
        let (igr, udts) = match compile_with_types(src) {
            Ok(x) => x,
            Err(e) => {
                if e.starts_with("parse") || e.starts_with("lint") {
                    sum.count("rejected_by_parser_or_checker");
                } else {
                    sum.count("front_end_panic");
                    // accepted by parser and checker, but no instruction list comes back (for instance a
                    // branch target that cannot be resolved): the code generator's part of the property
                    if e.starts_with("panic") && !origin.starts_with("corpus") {
                        sum.violation(ImplViolation { key: "no-instruction-list".into(), input: format!("{} {}", origin, src.replace('\n', " | ").chars().take(400).collect::<String>()), expected: "an instruction list with every target resolved".into(), observed: e.chars().take(200).collect() });
                    }
                }
                if std::env::var("VH_DEBUG").is_ok() {
                    eprintln!("REJECT {} :: {} :: {}", origin, e.chars().take(200).collect::<String>(), src.replace('\n', " | ").chars().take(300).collect::<String>());
                }
                continue;
            }
        };
        evaluations += 1;
        if origin.starts_with("corpus") {
            accepted_corpus += 1;
        }
        sum.count(origin.split(':').next().unwrap());
        let one_line: String = src.replace('\n', " | ").chars().take(400).collect();
        let code = match abstract_code(&igr) {
            Ok(c) => c,
            Err(e) => {
                sum.violation(ImplViolation { key: "unresolved-target".into(), input: format!("{} {}", origin, one_line), expected: "every branch target resolved to an address".into(), observed: e });
                continue;
            }
        };
        let (cert, problems) = infer(&code);
        let regs = regions(&igr);
        let labels = label_ids(&igr);
        let goto_out_of_for = src.to_uppercase().contains("GOTO") || src.to_uppercase().contains("EXIT ");
        if !problems.is_empty() {
            sum.violation(ImplViolation {
                key: format!("unbalanced-stack:{}", if goto_out_of_for { "goto-or-exit" } else { "structured" }),
                input: format!("{} {}", origin, one_line),
                expected: "every address has one stack depth on all paths, returns happen at depth 0, no underflow".into(),
                observed: problems[..problems.len().min(3)].join("; "),
            });
        }
        let expr = format!("wf_code {} {} {} {} {}", coq_acode(&code), coq_cert(&cert), coq_nats(&igr.statement_addresses), coq_regions(&regs), coq_nats(&labels));
        // the Coq side decides; a program with inference problems is expected to fail there too
        w.push(Case {
            agree: format!("Nat.eqb ({}) {}", expr, if problems.is_empty() { "0" } else { "1" }),
            desc: format!("wf {} {}", origin, one_line),
            model_expr: expr,
        });
        sum.nontrivial(format!("{:?}", code.iter().map(|a| format!("{:?}", a.op)).collect::<Vec<_>>()));
        *sum.histogram.entry("instructions_total".into()).or_insert(0) += code.len() as i128;
        *sum.histogram.entry("procedures_total".into()).or_insert(0) += (regs.len() - 1) as i128;
        // dynamic validation of the abstraction
        if problems.is_empty() {
            let r = run_compiled(igr, udts, &RunOpts { stdin: b"1\n2\n3\nabc\n".to_vec(), budget: 20_000, trace: true });
            if let Some(tr) = &r.trace {
                let (n, problem) = dynamic_check(&code, &cert, tr);
                *sum.histogram.entry("executed_instructions_compared".into()).or_insert(0) += n as i128;
                if let Some(p) = problem {
                    sum.violation(ImplViolation { key: "depth-differs-from-certificate".into(), input: format!("{} {}", origin, one_line), expected: "real stack depths = frame bases + certificate at every executed instruction".into(), observed: p });
                }
            }
            match &r.end {
                End::Panic(m) if m.contains("underflow") || m.contains("Should have") => {
                    sum.violation(ImplViolation { key: format!("vm-stack-panic:{}", if src.to_uppercase().contains("ON ERROR") { format!("on-error:{}", last_error_kind(src, &r)) } else { "plain".to_string() }), input: format!("{} {}", origin, one_line), expected: "no stack underflow".into(), observed: m.clone() });
                }
                _ => {}
            }
        }
        if sum.samples.len() < 3 && origin.starts_with("generated") {
            sum.sample(J::s(src.clone()));
        }
    }
    w.flush();
    sum.histogram.insert("corpus_candidates".into(), n_corpus as i128);
    sum.histogram.insert("corpus_accepted".into(), accepted_corpus as i128);
    // statements that fail as a whole under ON ERROR RESUME NEXT leave every stack as it was
    crate::c05::error_skip(&mut rng, if args.thorough() { 1000 } else { 200 }, args.thorough(), &mut sum, &mut evaluations);
    sum.write(
        &args.out,
        evaluations,
        "every accepted program among: all program texts of the repository (fixtures/*.BAS and the raw string literals of the crates' tests), generated programs with SUB/FUNCTION/GOSUB/arrays/ON ERROR, generated core programs, constructs of the same kind at positions whose digits read alike ((1, 11) and (11, 1) ...), a sample of the nesting matrix. For each: the instruction list is abstracted (control effect + pops/pushes on six stacks), a depth certificate is inferred and `wf_code` is evaluated in Coq (certificate check, labels defined once, statement addresses ascending and inside the list, regions cover the list, branches stay in their procedure, main ends with Halt and procedures with PopRet); the program is then run with the per-instruction observer and the real depths are compared with base + frames + certificate. Non-trivial = distinct abstract instruction lists.",
    );
}
