//! C02 - loops and branches mean the same wherever they are nested or however written.
//! Every generated core program is rewritten at every applicable site by every rule; original and
//! rewritten program are run on the real implementation and must print the same, end the same way
//! (error code) and leave the same values in the original's variables. Each rewritten program is
//! also a correspondence case against the reference semantics (Corr.check_sem), for which the
//! rules are theorems (Lang/Rewrites.v). Repository programs are rewritten textually (FOR without
//! STEP -> STEP 1, WHILE/WEND -> DO WHILE/LOOP).
use rusty_parser::Operator;

use crate::c01::*;
use crate::common::*;
use crate::pgen::corpus;
use crate::runner::*;

fn bin(op: Operator, l: E, r: E) -> E {
    e(EK::Bin(bop_index(op), Box::new(l), Box::new(r)))
}
fn var(n: &str) -> E {
    e(EK::Var(n.to_string()))
}
fn paren(x: E) -> E {
    e(EK::Paren(Box::new(x)))
}
fn int(i: i32) -> E {
    if i < 0 { e(EK::Un(0, Box::new(e(EK::Lit(Lit::Int(-i)))))) } else { e(EK::Lit(Lit::Int(i))) }
}

/// statements that can stand in a single-line IF: assignments and PRINTs that end with an expression
/// (the parser does not accept `PRINT 1 ; ELSE ...` nor an empty `PRINT ELSE ...`; that is a parser
/// limitation outside this property)
fn is_simple(b: &[S]) -> bool {
    !b.is_empty()
        && b.iter().all(|x| match &x.k {
            SK::Assign(..) => true,
            SK::Print(args) => matches!(args.last(), Some(PArg::Expr(_))),
            _ => false,
        })
}

fn is_relational(x: &E) -> bool {
    match &x.k {
        EK::Bin(op, _, _) => *op < 6,
        _ => false,
    }
}

/// sign of a literal step: Some(true) positive, Some(false) negative, None = not a literal
fn literal_sign(x: &E) -> Option<bool> {
    match &x.k {
        EK::Lit(Lit::Int(i)) => Some(*i > 0),
        EK::Lit(Lit::Long(i)) => Some(*i > 0),
        EK::Un(0, c) => literal_sign(c).map(|b| !b),
        _ => None,
    }
}

fn suffix_of(v: &str) -> &str {
    &v[v.len() - 1..]
}

/// the rewrites of ONE statement at its root: (rule, replacement statements)
fn root_rewrites(st: &S, fresh: &mut usize) -> Vec<(&'static str, Vec<S>)> {
    let mut out: Vec<(&'static str, Vec<S>)> = vec![];
    let wrap = |body: &Vec<S>| -> Vec<S> { vec![s(SK::If(int(-1), body.clone(), vec![], None))] };
    match &st.k {
        SK::For(v, lo, hi, step, body) => {
            // FOR as WHILE
            *fresh += 1;
            let sfx = suffix_of(v);
            let th = format!("TH{}{}", fresh, sfx);
            let ts = format!("TS{}{}", fresh, sfx);
            let step_e = step.clone().unwrap_or_else(|| int(1));
            let cond = match literal_sign(&step_e) {
                Some(true) => bin(Operator::LessOrEqual, var(v), var(&th)),
                Some(false) => bin(Operator::GreaterOrEqual, var(v), var(&th)),
                None => bin(
                    Operator::Or,
                    paren(bin(Operator::And, paren(bin(Operator::Greater, var(&ts), int(0))), paren(bin(Operator::LessOrEqual, var(v), var(&th))))),
                    paren(bin(Operator::And, paren(bin(Operator::Less, var(&ts), int(0))), paren(bin(Operator::GreaterOrEqual, var(v), var(&th))))),
                ),
            };
            let mut wbody = body.clone();
            wbody.push(s(SK::Assign(v.clone(), bin(Operator::Plus, var(v), var(&ts)))));
            out.push((
                "for-as-while",
                vec![
                    s(SK::Assign(v.clone(), lo.clone())),
                    s(SK::Assign(th.clone(), hi.clone())),
                    s(SK::Assign(ts.clone(), step_e)),
                    s(SK::While(cond, wbody)),
                ],
            ));
            if step.is_none() {
                out.push(("for-step-1", vec![s(SK::For(v.clone(), lo.clone(), hi.clone(), Some(int(1)), body.clone()))]));
            }
            out.push(("body-in-if-true", vec![s(SK::For(v.clone(), lo.clone(), hi.clone(), step.clone(), wrap(body)))]));
        }
        SK::While(c, body) => {
            out.push(("while-as-do-while", vec![s(SK::Do(true, false, c.clone(), body.clone()))]));
            out.push(("body-in-if-true", vec![s(SK::While(c.clone(), wrap(body)))]));
        }
        SK::Do(top, until, c, body) => {
            if *until && is_relational(c) {
                out.push(("do-until-as-do-while-not", vec![s(SK::Do(*top, false, e(EK::Un(1, Box::new(paren(c.clone())))), body.clone()))]));
            }
            if *top && !*until {
                out.push(("do-while-as-while", vec![s(SK::While(c.clone(), body.clone()))]));
            }
            out.push(("body-in-if-true", vec![s(SK::Do(*top, *until, c.clone(), wrap(body)))]));
        }
        SK::Select(x, cases, els) => {
            if matches!(x.k, EK::Var(_) | EK::Lit(_)) {
                let test = |c: &CaseE| -> E {
                    match c {
                        CaseE::Simple(v) => paren(bin(Operator::Equal, x.clone(), v.clone())),
                        CaseE::Is(op, v) => paren(e(EK::Bin(*op, Box::new(x.clone()), Box::new(v.clone())))),
                        CaseE::Range(a, b) => paren(bin(Operator::And, paren(bin(Operator::GreaterOrEqual, x.clone(), a.clone())), paren(bin(Operator::LessOrEqual, x.clone(), b.clone())))),
                    }
                };
                let conds: Vec<E> = cases
                    .iter()
                    .map(|(cs, _)| {
                        let mut it = cs.iter();
                        let mut acc = test(it.next().unwrap());
                        for c in it {
                            acc = bin(Operator::Or, acc, test(c));
                        }
                        acc
                    })
                    .collect();
                let repl: Vec<S> = if cases.is_empty() {
                    els.clone().unwrap_or_default()
                } else {
                    let elifs: Vec<(E, Vec<S>)> = conds.iter().skip(1).cloned().zip(cases.iter().skip(1).map(|(_, b)| b.clone())).collect();
                    vec![s(SK::If(conds[0].clone(), cases[0].1.clone(), elifs, els.clone()))]
                };
                out.push(("select-as-if-chain", repl));
            }
        }
        SK::If(c, thn, elifs, els) => {
            if elifs.is_empty() && is_simple(thn) && els.as_ref().map(|b| is_simple(b)).unwrap_or(true) {
                out.push(("block-if-as-single-line-if", vec![s(SK::IfLine(c.clone(), thn.clone(), els.clone()))]));
            }
        }
        _ => {}
    }
    out
}

/// all single-site rewrites of a statement list
pub fn rewrites(block: &[S], fresh: &mut usize) -> Vec<(&'static str, Vec<S>)> {
    let mut out = vec![];
    for i in 0..block.len() {
        let splice = |repl: Vec<S>| -> Vec<S> {
            let mut v: Vec<S> = block[..i].to_vec();
            v.extend(repl);
            v.extend(block[i + 1..].iter().cloned());
            v
        };
        for (rule, repl) in root_rewrites(&block[i], fresh) {
            out.push((rule, splice(repl)));
        }
        // inside the children
        let st = &block[i];
        let rebuild = |k: SK| -> Vec<S> { splice(vec![S { pos: (0, 0), k }]) };
        match &st.k {
            SK::If(c, thn, elifs, els) => {
                for (rule, b) in rewrites(thn, fresh) {
                    out.push((rule, rebuild(SK::If(c.clone(), b, elifs.clone(), els.clone()))));
                }
                for (j, (_, eb)) in elifs.iter().enumerate() {
                    for (rule, b) in rewrites(eb, fresh) {
                        let mut e2 = elifs.clone();
                        e2[j].1 = b;
                        out.push((rule, rebuild(SK::If(c.clone(), thn.clone(), e2, els.clone()))));
                    }
                }
                if let Some(eb) = els {
                    for (rule, b) in rewrites(eb, fresh) {
                        out.push((rule, rebuild(SK::If(c.clone(), thn.clone(), elifs.clone(), Some(b)))));
                    }
                }
            }
            SK::While(c, body) => {
                for (rule, b) in rewrites(body, fresh) {
                    out.push((rule, rebuild(SK::While(c.clone(), b))));
                }
            }
            SK::Do(t, u, c, body) => {
                for (rule, b) in rewrites(body, fresh) {
                    out.push((rule, rebuild(SK::Do(*t, *u, c.clone(), b))));
                }
            }
            SK::For(v, lo, hi, st2, body) => {
                for (rule, b) in rewrites(body, fresh) {
                    out.push((rule, rebuild(SK::For(v.clone(), lo.clone(), hi.clone(), st2.clone(), b))));
                }
            }
            SK::Select(x, cases, els) => {
                for (j, (_, cb)) in cases.iter().enumerate() {
                    for (rule, b) in rewrites(cb, fresh) {
                        let mut c2 = cases.clone();
                        c2[j].1 = b;
                        out.push((rule, rebuild(SK::Select(x.clone(), c2, els.clone()))));
                    }
                }
                if let Some(eb) = els {
                    for (rule, b) in rewrites(eb, fresh) {
                        out.push((rule, rebuild(SK::Select(x.clone(), cases.clone(), Some(b)))));
                    }
                }
            }
            _ => {}
        }
    }
    out
}

fn end_class(e: &End) -> String {
    match e {
        End::Ok => "ok".into(),
        End::Err(c, ..) => format!("error {}", c),
        End::Panic(m) => format!("panic {}", m.chars().take(60).collect::<String>()),
        End::Budget => "budget".into(),
    }
}

/// compares two runs on what the original program can observe
fn same_behaviour(a: &Ran, b: &Ran) -> Option<String> {
    if end_class(&a.end) != end_class(&b.end) {
        return Some(format!("ends differ: {} vs {}", end_class(&a.end), end_class(&b.end)));
    }
    if a.stdout != b.stdout {
        return Some(format!("output differs: {:?} vs {:?}", String::from_utf8_lossy(&a.stdout), String::from_utf8_lossy(&b.stdout)));
    }
    for (n, v) in &a.globals {
        match b.globals.iter().find(|(m, _)| m == n) {
            Some((_, w)) => {
                if format!("{:?}", v) != format!("{:?}", w) {
                    return Some(format!("variable {} differs: {:?} vs {:?}", n, v, w));
                }
            }
            None => {
                // a variable only read (never assigned) may not exist on the other side when it was optimised away by the rewrite
                if format!("{:?}", v) != format!("{:?}", default_like(v)) {
                    return Some(format!("variable {} missing after the rewrite", n));
                }
            }
        }
    }
    None
}

fn default_like(v: &rusty_variant::Variant) -> rusty_variant::Variant {
    use rusty_variant::Variant::*;
    match v {
        VInteger(_) => VInteger(0),
        VLong(_) => VLong(0),
        VSingle(_) => VSingle(0.0),
        VDouble(_) => VDouble(0.0),
        VString(_) => VString(String::new()),
        other => other.clone(),
    }
}

/// textual rewrites for programs we only have as text
fn text_rewrites(src: &str) -> Vec<(&'static str, String)> {
    let mut out = vec![];
    let lines: Vec<&str> = src.lines().collect();
    // FOR without STEP -> STEP 1
    let mut changed = false;
    let v: Vec<String> = lines
        .iter()
        .map(|l| {
            let u = l.trim().to_uppercase();
            if u.starts_with("FOR ") && u.contains(" TO ") && !u.contains(" STEP ") && !u.contains(':') && !u.contains('\'') {
                changed = true;
                format!("{} STEP 1", l.trim_end())
            } else {
                l.to_string()
            }
        })
        .collect();
    if changed {
        out.push(("for-step-1", v.join("\n") + "\n"));
    }
    // WHILE c / WEND -> DO WHILE c / LOOP
    let mut changed = false;
    let v: Vec<String> = lines
        .iter()
        .map(|l| {
            let t = l.trim();
            let u = t.to_uppercase();
            if u.starts_with("WHILE ") && !u.contains(':') {
                changed = true;
                format!("DO {}", t)
            } else if u == "WEND" {
                "LOOP".to_string()
            } else {
                l.to_string()
            }
        })
        .collect();
    if changed {
        out.push(("while-as-do-while", v.join("\n") + "\n"));
    }
    out
}

/// the same program with consecutive plain statement lines joined by " : " on one line (block IF,
/// SELECT, label, DATA and comment lines stay on lines of their own, and nothing follows a single-line IF)
fn joined_lines(src: &str) -> Option<String> {
    let alone = |l: &str| -> bool {
        let u = l.trim().to_uppercase();
        u.is_empty()
            || u.ends_with(':')
            || u.contains('\'')
            || ["IF ", "ELSEIF", "ELSE", "END IF", "DATA", "REM", "SELECT CASE", "CASE", "END SELECT", "SUB ", "FUNCTION ", "END SUB", "END FUNCTION", "DECLARE", "ON ERROR", "RESUME"]
                .iter()
                .any(|k| u.starts_with(k))
    };
    let mut out: Vec<String> = vec![];
    let mut open = false; // the last output line may take another statement
    let mut joins = 0;
    for l in src.lines() {
        if alone(l) {
            out.push(l.to_string());
            open = false;
        } else if open {
            let last = out.last_mut().unwrap();
            last.push_str(" : ");
            last.push_str(l.trim());
            joins += 1;
        } else {
            out.push(l.to_string());
            open = true;
        }
    }
    if joins == 0 {
        None
    } else {
        Some(out.join("\n") + "\n")
    }
}

pub fn run(args: &Args) {
    let mut rng = Rng::new(args.seed);
    let mut sum = Summary::new();
    let mut w = CaseWriter::new(&args.out, "c02", HEADER, 40);
    let mut evaluations = 0usize;
    let n = if args.thorough() { 1500 } else { 400 };
    let max_variants = if args.thorough() { 16 } else { 12 };
    let mut nests = nest_matrix(&mut rng, args.thorough(), 40);
    for (k, p) in case_list_programs().into_iter().enumerate() {
        nests.push((format!("case-list {}", k), p));
    }
    for (k, p) in empty_block_programs().into_iter().enumerate() {
        nests.push((format!("empty-block {}", k), p));
    }
    let n_nests = nests.len();
    let mut nests = nests.into_iter();
    for k in 0..(n + n_nests) {
        let mut prog = if let Some((_, p)) = nests.next() {
            sum.count("nesting_matrix_programs");
            p
        } else {
            let mut g = Gen { rng: &mut rng, loop_counter: 0 };
            let depth = 2 + (k % 2) as u32;
            g.program(depth, 4)
        };
        let src = print_program(&mut prog);
        let orig = match run_program(&src, &RunOpts { budget: 30_000, ..Default::default() }) {
            Outcome::Ran(r) => r,
            _ => {
                sum.count("original_not_accepted");
                continue;
            }
        };
        if matches!(orig.end, End::Budget) {
            sum.count("budget_exhausted");
            continue;
        }
        // the same statements on fewer lines
        if let Some(jsrc) = joined_lines(&src) {
            evaluations += 1;
            sum.count("rule_joined-lines");
            let one_line = format!("{}  ==>[joined-lines]  {}", src.replace('\n', " | "), jsrc.replace('\n', " | "));
            match run_program(&jsrc, &RunOpts { budget: 60_000, ..Default::default() }) {
                Outcome::Ran(r) => {
                    if !matches!(r.end, End::Budget) {
                        if let Some(diff) = same_behaviour(&orig, &r) {
                            sum.violation(ImplViolation { key: "rewrite-changes-behaviour:joined-lines".into(), input: one_line, expected: "same output, same end, same values in the original's variables".into(), observed: diff });
                        }
                    }
                }
                other => {
                    sum.violation(ImplViolation { key: "rewrite-rejected:joined-lines".into(), input: one_line, expected: "accepted like the original".into(), observed: format!("{:?}", other).chars().take(300).collect() });
                }
            }
        }
        let mut fresh = 0usize;
        let mut vs = rewrites(&prog, &mut fresh);
        // keep a bounded, seeded selection of the sites
        while vs.len() > max_variants {
            let i = rng.below(vs.len() as u64) as usize;
            vs.swap_remove(i);
        }
        for (rule, mut variant) in vs {
            let vsrc = print_program(&mut variant);
            evaluations += 1;
            sum.count(&format!("rule_{}", rule));
            let one_line = format!("{}  ==>[{}]  {}", src.replace('\n', " | "), rule, vsrc.replace('\n', " | "));
            let (igr, udts) = match compile_with_types(&vsrc) {
                Ok(x) => x,
                Err(err) => {
                    sum.violation(ImplViolation { key: format!("rewrite-rejected:{}", rule), input: one_line.clone(), expected: "the rewritten program is accepted like the original".into(), observed: err.chars().take(300).collect() });
                    continue;
                }
            };
            let dims = coq_dims(&igr);
            let r = run_compiled(igr, udts, &RunOpts { budget: 60_000, ..Default::default() });
            if matches!(r.end, End::Budget) {
                sum.count("budget_exhausted");
                continue;
            }
            // a FOR with a run-time step of 0 raises error 258; the WHILE spelling cannot
            if rule == "for-as-while" && matches!(orig.end, End::Err(258, ..)) {
                sum.count("skipped_zero_step");
                continue;
            }
            if let Some(diff) = same_behaviour(&orig, &r) {
                sum.violation(ImplViolation { key: format!("rewrite-changes-behaviour:{}", rule), input: one_line.clone(), expected: "same output, same end, same values in the original's variables".into(), observed: diff });
            }
            sum.nontrivial(format!("{}{}", rule, vsrc));
            // the rewritten program against the reference semantics
            if let Some(obs) = coq_obs(&r.end) {
                let so = r.stdout.iter().map(|b| b.to_string()).collect::<Vec<_>>().join("; ");
                let expr = format!("check_sem {} {} {} [{}]%Z {} {}", dims, coq_program(&variant), obs, so, coq_globals(&r.globals), r.steps + 50);
                w.push(Case { agree: format!("Nat.eqb ({}) 0", expr), desc: format!("sem [{}] {}", rule, vsrc.replace('\n', " | ")), model_expr: expr });
            }
            if sum.samples.len() < 4 {
                sum.sample(J::s(one_line));
            }
        }
    }
    // scenarios: a loop header whose expressions call a function that loops itself (output known by construction)
    let looping = "FUNCTION F% (N%)\nFOR J% = 1 TO 3\nNEXT\nF% = N%\nEND FUNCTION\n";
    for (name, head, expected) in [
        ("for-step-calls-looping-function", "FOR I% = 1 TO 10 STEP F%(2)", " 1  3  5  7  9 \r\n"),
        ("for-upper-calls-looping-function", "FOR I% = 1 TO F%(5)", " 1  2  3  4  5 \r\n"),
        ("for-lower-calls-looping-function", "FOR I% = F%(1) TO 5 STEP 2", " 1  3  5 \r\n"),
        ("for-all-call-looping-function", "FOR I% = F%(1) TO F%(7) STEP F%(3)", " 1  4  7 \r\n"),
    ] {
        let src = format!("{}\nPRINT I%;\nNEXT\nPRINT\nEND\n{}", head, looping);
        evaluations += 1;
        sum.count("scenarios");
        let observed = match run_program(&src, &RunOpts { budget: 30_000, ..Default::default() }) {
            Outcome::Ran(r) => format!("{:?} end {:?}", String::from_utf8_lossy(&r.stdout), r.end),
            other => format!("{:?}", other).chars().take(200).collect(),
        };
        if observed != format!("{:?} end Ok", expected) {
            sum.violation(ImplViolation { key: format!("scenario:{}", name), input: src.replace('\n', " | "), expected: format!("{:?}", expected), observed });
        }
    }
    // the repository's own programs, rewritten textually
    let mut corpus_pairs = 0usize;
    for (origin, text) in corpus() {
        let vs = text_rewrites(&text);
        let upper = text.to_uppercase();
        // programs that use files, the environment or the clock depend on more than their text
        if vs.is_empty() || upper.contains("OPEN ") || upper.contains("ENVIRON") || upper.contains("TIMER") || upper.contains("KILL ") || upper.contains("NAME ") {
            continue;
        }
        let stdin = b"1\n2\n3\nabc\n".to_vec();
        let orig = match run_program(&text, &RunOpts { stdin: stdin.clone(), budget: 50_000, trace: false }) {
            Outcome::Ran(r) => r,
            _ => continue,
        };
        if matches!(orig.end, End::Budget | End::Panic(_)) {
            continue;
        }
        for (rule, vsrc) in vs {
            evaluations += 1;
            corpus_pairs += 1;
            sum.count(&format!("corpus_rule_{}", rule));
            let one_line = format!("{} [{}] {}", origin, rule, vsrc.replace('\n', " | ").chars().take(300).collect::<String>());
            match run_program(&vsrc, &RunOpts { stdin: stdin.clone(), budget: 100_000, trace: false }) {
                Outcome::Ran(r) => {
                    if matches!(r.end, End::Budget) {
                        continue;
                    }
                    if let Some(diff) = same_behaviour(&orig, &r) {
                        sum.violation(ImplViolation { key: format!("rewrite-changes-behaviour:{}", rule), input: one_line, expected: "same output, same end, same variables".into(), observed: diff });
                    }
                }
                other => {
                    sum.violation(ImplViolation { key: format!("rewrite-rejected:{}", rule), input: one_line, expected: "accepted like the original".into(), observed: format!("{:?}", other).chars().take(200).collect() });
                }
            }
        }
    }
    sum.histogram.insert("corpus_pairs".into(), corpus_pairs as i128);
    w.flush();
    sum.write(
        &args.out,
        evaluations,
        "the nesting matrix (every loop-branch-loop triple over five loop kinds with different bounds and steps and five branch positions, plus a seeded sample of the other triples; all 1000 triples in the thorough tier) and every generated core program (nesting depth 2-3, all loop kinds incl. negative and run-time computed STEP, SELECT with 0-3 CASE blocks) x every applicable site x every rule {for-as-while, for-step-1, while-as-do-while, do-while-as-while, do-until-as-do-while-not, select-as-if-chain, block-if-as-single-line-if, body-in-if-true} (bounded, seeded selection of sites per program), and every program with its plain statement lines joined by ' : ' on one line (several loops starting on one source line); original and rewritten program run on the real implementation and compared on output, end (error code) and the original's variables; each rewritten program also compared with the reference semantics in Coq. Four scenarios: FOR headers whose bound / step expressions call a function that loops itself. Repository programs (fixtures + test literals) rewritten textually by for-step-1 and while-as-do-while. Non-trivial = distinct rewritten programs.",
    );
}
