//! C14 - a CONST has the value and type its expression would have at run time.
//! Chains of CONST definitions over literals and earlier constants. Observed on the implementation:
//! the checker's verdict, the literal that replaces a use of the constant (value AND type, read off
//! the checked program), what PRINT shows for the constant (bare, with its suffix, from inside a
//! SUB, defined inside a SUB) and what the inlined expression prints. The folded value is compared
//! with the Coq model `Const.const_chain` (for which agreement with run-time evaluation is proved).
use rusty_linter::core::lint;
use rusty_parser::parse_main_str;
use rusty_variant::Variant;

use crate::c01::coq_variant;
use crate::common::*;
use crate::runner::*;

pub const HEADER: &str = "From Coq Require Import List ZArith Bool NArith Floats.SpecFloat.\nFrom RB Require Import Base.Util Generated.Tables Val.Variant Val.Arith2 Lang.Const.\nImport ListNotations.\n";

#[derive(Clone, Debug)]
enum CE {
    Lit(Variant, String),       // value, source text
    Ref(usize, Option<char>),   // index of an earlier constant, suffix used
    Bin(&'static str, &'static str, Box<CE>, Box<CE>), // coq name, source text
    Un(bool, Box<CE>),          // true = NOT
    Paren(Box<CE>),
}

const BIN: [(&str, &str); 13] = [
    ("Plus", "+"), ("Minus", "-"), ("Multiply", "*"), ("Divide", "/"), ("Modulo", "MOD"), ("And", "AND"), ("Or", "OR"),
    ("Less", "<"), ("LessOrEqual", "<="), ("Equal", "="), ("GreaterOrEqual", ">="), ("Greater", ">"), ("NotEqual", "<>"),
];

struct Def {
    name: String,
    suffix: Option<char>,
    e: CE,
}

fn lit(rng: &mut Rng) -> CE {
    let (v, t): (Variant, &str) = match rng.below(22) {
        0 => (Variant::VInteger(0), "0"),
        1 => (Variant::VInteger(1), "1"),
        2 => (Variant::VInteger(2), "2"),
        3 => (Variant::VInteger(7), "7"),
        4 => (Variant::VInteger(32767), "32767"),
        5 => (Variant::VLong(32768), "32768"),
        6 => (Variant::VLong(100000), "100000"),
        7 => (Variant::VLong(2147483647), "2147483647"),
        8 => (Variant::VSingle(0.5), "0.5"),
        9 => (Variant::VSingle(2.5), "2.5"),
        10 => (Variant::VDouble(0.25), "0.25#"),
        11 => (Variant::VDouble(1000000.5), "1000000.5#"),
        12 => (Variant::VInteger(3), "3"),
        13 => (Variant::VInteger(10), "10"),
        14 => (Variant::VInteger(255), "255"),
        15 => (Variant::VSingle(1.5), "1.5"),
        16 => (Variant::VDouble(3000000000.0), "3000000000"),
        17 => (Variant::VInteger(4), "4"),
        18 => (Variant::VInteger(100), "100"),
        19 => (Variant::VDouble(1e20), "100000000000000000000"),
        _ => {
            let i = rng.range(0, 400) as i32;
            return CE::Lit(Variant::VInteger(i), format!("{}", i));
        }
    };
    CE::Lit(v, t.to_string())
}

fn slit(rng: &mut Rng) -> CE {
    let s = *rng.pick(&["", "a", "ab", "B", "hello"]);
    CE::Lit(Variant::VString(s.to_string()), format!("\"{}\"", s))
}

fn gen_ce(rng: &mut Rng, depth: u32, n_prev: usize, strings: bool) -> CE {
    if depth == 0 || rng.chance(1, 3) {
        if n_prev > 0 && rng.chance(1, 3) {
            return CE::Ref(rng.below(n_prev as u64) as usize, None);
        }
        return if strings { slit(rng) } else { lit(rng) };
    }
    if strings {
        return match rng.below(3) {
            0 => CE::Bin("Plus", "+", Box::new(gen_ce(rng, depth - 1, n_prev, true)), Box::new(gen_ce(rng, depth - 1, n_prev, true))),
            1 => CE::Paren(Box::new(gen_ce(rng, depth - 1, n_prev, true))),
            _ => slit(rng),
        };
    }
    match rng.below(10) {
        0 => CE::Un(false, Box::new(wrap(gen_ce(rng, depth - 1, n_prev, false)))),
        1 => CE::Un(true, Box::new(wrap(gen_ce(rng, depth - 1, n_prev, false)))),
        2 => CE::Paren(Box::new(gen_ce(rng, depth - 1, n_prev, false))),
        3 => {
            // comparison of strings gives a number
            let (c, t) = BIN[7 + rng.below(6) as usize];
            CE::Bin(c, t, Box::new(slit(rng)), Box::new(slit(rng)))
        }
        _ => {
            let (c, t) = BIN[rng.below(13) as usize];
            CE::Bin(c, t, Box::new(wrap(gen_ce(rng, depth - 1, n_prev, false))), Box::new(wrap(gen_ce(rng, depth - 1, n_prev, false))))
        }
    }
}

/// every binary operator with the extreme value of INTEGER and of LONG (held by an earlier constant)
/// on either side and a small, a LONG, a fractional or a negative value on the other
fn boundary_chains() -> Vec<Vec<Def>> {
    let l = |v: Variant, t: &str| CE::Lit(v, t.to_string());
    let neg = |x: CE| CE::Un(false, Box::new(x));
    let extremes: Vec<CE> = vec![
        neg(l(Variant::VLong(32768), "32768")),
        CE::Paren(Box::new(CE::Bin("Minus", "-", Box::new(neg(l(Variant::VLong(2147483647), "2147483647"))), Box::new(l(Variant::VInteger(1), "1"))))),
        l(Variant::VInteger(32767), "32767"),
        l(Variant::VLong(2147483647), "2147483647"),
    ];
    let mut out = vec![];
    for ex in &extremes {
        for (c, t) in BIN.iter() {
            let others: Vec<CE> = vec![
                neg(l(Variant::VInteger(1), "1")),
                l(Variant::VInteger(1), "1"),
                l(Variant::VLong(100000), "100000"),
                l(Variant::VSingle(0.5), "0.5"),
            ];
            for (j, o) in others.into_iter().enumerate() {
                let e = if j % 2 == 0 {
                    CE::Bin(c, t, Box::new(o), Box::new(CE::Ref(0, None)))
                } else {
                    CE::Bin(c, t, Box::new(CE::Ref(0, None)), Box::new(o))
                };
                out.push(vec![
                    Def { name: "K1".into(), suffix: None, e: ex.clone() },
                    Def { name: "K2".into(), suffix: None, e },
                ]);
            }
        }
    }
    // the same extremes held by a constant whose suffix converts them to a wider type: the later constant
    // must see the converted value and type (no Overflow for K1& + K1&), bare and with the suffix
    for (xi, ex) in extremes.iter().enumerate() {
        let sfxs: &[char] = if xi % 2 == 0 { &['&', '!', '#'] } else { &['!', '#'] };
        for sfx in sfxs {
            for (c, t) in [("Plus", "+"), ("Minus", "-"), ("Multiply", "*")] {
                for j in 0..3 {
                    let e = match j {
                        0 => CE::Bin(c, t, Box::new(CE::Ref(0, None)), Box::new(CE::Ref(0, None))),
                        1 => CE::Bin(c, t, Box::new(CE::Ref(0, Some(*sfx))), Box::new(l(Variant::VInteger(2), "2"))),
                        _ => CE::Bin(c, t, Box::new(neg(l(Variant::VInteger(2), "2"))), Box::new(CE::Ref(0, None))),
                    };
                    out.push(vec![
                        Def { name: "K1".into(), suffix: Some(*sfx), e: ex.clone() },
                        Def { name: "K2".into(), suffix: None, e },
                    ]);
                }
            }
        }
    }
    // a fractional value held by an integer constant
    for (sfx, v, t) in [('%', Variant::VSingle(2.5), "2.5"), ('&', Variant::VSingle(1.5), "1.5"), ('%', Variant::VDouble(0.25), "0.25#")] {
        for (c, tx) in [("Plus", "+"), ("Multiply", "*"), ("Divide", "/")] {
            out.push(vec![
                Def { name: "K1".into(), suffix: Some(sfx), e: l(v.clone(), t) },
                Def { name: "K2".into(), suffix: None, e: CE::Bin(c, tx, Box::new(CE::Ref(0, None)), Box::new(l(Variant::VInteger(2), "2"))) },
            ]);
        }
    }
    out
}

/// parenthesise compound operands so that the source text means the tree
fn wrap(x: CE) -> CE {
    match x {
        CE::Bin(..) | CE::Un(..) => CE::Paren(Box::new(x)),
        other => other,
    }
}

fn text(x: &CE, defs: &[Def]) -> String {
    match x {
        CE::Lit(_, t) => t.clone(),
        CE::Ref(i, sfx) => format!("{}{}", defs[*i].name, sfx.map(|c| c.to_string()).unwrap_or_default()),
        CE::Bin(_, t, l, r) => format!("{} {} {}", text(l, defs), t, text(r, defs)),
        CE::Un(true, c) => format!("NOT {}", text(c, defs)),
        CE::Un(false, c) => format!("-{}", text(c, defs)),
        CE::Paren(c) => format!("({})", text(c, defs)),
    }
}

/// the expression with every reference replaced by the defining expression in parentheses;
/// None when a referenced constant is converted by a suffix (then the inlined text is not equivalent)
fn inlined(x: &CE, defs: &[Def]) -> Option<String> {
    Some(match x {
        CE::Lit(_, t) => t.clone(),
        CE::Ref(i, _) => {
            if defs[*i].suffix.is_some() {
                return None;
            }
            format!("({})", inlined(&defs[*i].e, defs)?)
        }
        CE::Bin(_, t, l, r) => format!("{} {} {}", inlined(l, defs)?, t, inlined(r, defs)?),
        CE::Un(true, c) => format!("NOT {}", inlined(c, defs)?),
        CE::Un(false, c) => format!("-{}", inlined(c, defs)?),
        CE::Paren(c) => format!("({})", inlined(c, defs)?),
    })
}

fn coq(x: &CE, defs: &[Def]) -> String {
    match x {
        // the parser folds -literal into a literal; the folder then sees the literal
        CE::Un(false, c) if matches!(**c, CE::Lit(Variant::VInteger(_) | Variant::VLong(_) | Variant::VSingle(_) | Variant::VDouble(_), _)) => {
            if let CE::Lit(v, _) = &**c {
                let nv = match v {
                    Variant::VInteger(i) => Variant::VInteger(-*i),
                    Variant::VLong(l) if *l == 32768 => Variant::VInteger(-32768),
                    Variant::VLong(l) => Variant::VLong(-*l),
                    Variant::VSingle(f) => Variant::VSingle(-*f),
                    Variant::VDouble(d) => Variant::VDouble(-*d),
                    other => other.clone(),
                };
                format!("(CLit {})", coq_variant(&nv))
            } else {
                unreachable!()
            }
        }
        CE::Lit(v, _) => format!("(CLit {})", coq_variant(v)),
        CE::Ref(i, sfx) => format!(
            "(CRef {} {})",
            bytes(defs[*i].name.as_bytes()),
            match sfx {
                None => "None".to_string(),
                Some(c) => format!("(Some {})", qual_of(*c)),
            }
        ),
        CE::Bin(c, _, l, r) => format!("(CBin {} {} {})", c, coq(l, defs), coq(r, defs)),
        CE::Un(n, c) => format!("(CUn {} {})", if *n { "UNot" } else { "UMinus" }, coq(c, defs)),
        CE::Paren(c) => format!("(CParen {})", coq(c, defs)),
    }
}

fn qual_of(c: char) -> &'static str {
    match c {
        '%' => "QInteger",
        '&' => "QLong",
        '!' => "QSingle",
        '#' => "QDouble",
        _ => "QString",
    }
}

fn suffix_of_variant(v: &Variant) -> char {
    match v {
        Variant::VInteger(_) => '%',
        Variant::VLong(_) => '&',
        Variant::VSingle(_) => '!',
        Variant::VDouble(_) => '#',
        _ => '$',
    }
}

/// verdict of parse + check, and the last literal of the checked program (the replaced constant)
fn front(src: &str) -> Result<Option<Variant>, (i128, String)> {
    let text = src.to_string();
    let r = guard(move || -> Result<String, (i128, String)> {
        let program = parse_main_str(text).map_err(|e| (998, format!("parse: {:?}", e)))?;
        let (linted, _ctx) = lint(program).map_err(|e| {
            let d = format!("{:?}", e);
            let code = if d.contains("Overflow") {
                6
            } else if d.contains("DivisionByZero") {
                11
            } else if d.contains("TypeMismatch") {
                13
            } else if d.contains("InvalidConstant") {
                999
            } else {
                997
            };
            (code, d)
        })?;
        Ok(format!("{:?}", linted))
    });
    match r {
        Err(msg) => Err((996, format!("panic: {}", msg))),
        Ok(Err(e)) => Err(e),
        Ok(Ok(dbg)) => {
            // the last literal in the checked program
            let mut best: Option<(usize, Variant)> = None;
            for (kind, mk) in [
                ("IntegerLiteral(", 0),
                ("LongLiteral(", 1),
                ("SingleLiteral(", 2),
                ("DoubleLiteral(", 3),
                ("StringLiteral(", 4),
            ] {
                if let Some(i) = dbg.rfind(kind) {
                    let rest = &dbg[i + kind.len()..];
                    let v = if mk == 4 {
                        // Debug of a String: "..." with escapes; our strings have none
                        let end = rest[1..].find('"').map(|j| j + 1).unwrap_or(1);
                        Some(Variant::VString(rest[1..end].to_string()))
                    } else {
                        let end = rest.find(')').unwrap_or(0);
                        let t = &rest[..end];
                        match mk {
                            0 => t.parse::<i32>().ok().map(Variant::VInteger),
                            1 => t.parse::<i64>().ok().map(Variant::VLong),
                            2 => t.parse::<f32>().ok().map(Variant::VSingle),
                            _ => t.parse::<f64>().ok().map(Variant::VDouble),
                        }
                    };
                    if let Some(v) = v {
                        if best.as_ref().map(|(j, _)| i > *j).unwrap_or(true) {
                            best = Some((i, v));
                        }
                    }
                }
            }
            Ok(best.map(|x| x.1))
        }
    }
}

fn run_text(src: &str) -> String {
    match run_program(src, &RunOpts { budget: 20_000, ..Default::default() }) {
        Outcome::Ran(r) => match &r.end {
            End::Ok => format!("ok:{}", String::from_utf8_lossy(&r.stdout)),
            End::Err(c, ..) => format!("error {}:{}", c, String::from_utf8_lossy(&r.stdout)),
            End::Panic(m) => format!("panic {}", m),
            End::Budget => "budget".into(),
        },
        Outcome::ParseError { msg, .. } => format!("parse error {}", msg),
        Outcome::LintError { msg, .. } => format!("lint error {}", msg),
        Outcome::FrontPanic { stage, msg } => format!("front panic {} {}", stage, msg),
    }
}

pub fn run(args: &Args) {
    let mut rng = Rng::new(args.seed);
    let mut sum = Summary::new();
    let mut w = CaseWriter::new(&args.out, "c14", HEADER, 400);
    let mut evaluations = 0usize;
    let n = if args.thorough() { 6000 } else { 700 };
    let mut directed = boundary_chains();
    directed.reverse();
    let n = n + directed.len();
    for k in 0..n {
        let strings = k % 7 == 6;
        let n_defs = 1 + rng.below(3) as usize;
        let mut defs: Vec<Def> = vec![];
        if let Some(d) = directed.pop() {
            defs = d;
        } else {
            for i in 0..n_defs {
                let dep = 1 + rng.below(3) as u32;
                let e = gen_ce(&mut rng, dep, i, strings);
                let suffix = if rng.chance(1, 4) { Some(if strings { '$' } else { *rng.pick(&['%', '&', '!', '#']) }) } else { None };
                defs.push(Def { name: format!("K{}", i + 1), suffix, e });
            }
        }
        let last = defs.len() - 1;
        let mut head = String::new();
        for d in &defs {
            head.push_str(&format!("CONST {}{} = {}\n", d.name, d.suffix.map(|c| c.to_string()).unwrap_or_default(), text(&d.e, &defs)));
        }
        let prog_a = format!("{}PRINT {}\n", head, defs[last].name);
        evaluations += 1;
        let one_line = prog_a.replace('\n', " | ");
        let verdict = front(&prog_a);
        let chain = format!(
            "[{}]",
            defs.iter()
                .map(|d| format!(
                    "({}, {}, {})",
                    bytes(d.name.as_bytes()),
                    match d.suffix {
                        None => "None".to_string(),
                        Some(c) => format!("Some {}", qual_of(c)),
                    },
                    coq(&d.e, &defs)
                ))
                .collect::<Vec<_>>()
                .join("; ")
        );
        let (code, value): (i128, Variant) = match &verdict {
            Ok(Some(v)) => (0, v.clone()),
            Ok(None) => {
                sum.violation(ImplViolation { key: "const-not-replaced".into(), input: one_line.clone(), expected: "the use of the constant is replaced by a literal".into(), observed: "no literal in the checked program".into() });
                continue;
            }
            Err((c, msg)) => {
                if *c >= 996 && *c != 999 {
                    sum.violation(ImplViolation { key: format!("const-front-end:{}", c), input: one_line.clone(), expected: "accepted, or rejected with Overflow / Division by zero / Type mismatch".into(), observed: msg.chars().take(300).collect() });
                    continue;
                }
                (*c, Variant::VInteger(0))
            }
        };
        sum.count(match code {
            0 => "accepted",
            6 => "rejected_overflow",
            11 => "rejected_division_by_zero",
            13 => "rejected_type_mismatch",
            _ => "rejected_other",
        });
        w.push(Case {
            agree: format!("cres_eqb (const_chain [] {}) {}%Z {}", chain, code, coq_variant(&value)),
            desc: format!("const {} => {:?}", one_line, verdict.as_ref().map_err(|e| e.0)),
            model_expr: format!("const_chain [] {}", chain),
        });
        sum.nontrivial(one_line.clone());
        // run-time side
        let inl = inlined(&defs[last].e, &defs);
        match code {
            0 => {
                let out_a = run_text(&prog_a);
                // with the suffix of its type
                let sfx = suffix_of_variant(&value);
                let out_s = run_text(&format!("{}PRINT {}{}\n", head, defs[last].name, sfx));
                if out_s != out_a {
                    sum.violation(ImplViolation { key: "const-suffixed-use-differs".into(), input: one_line.clone(), expected: out_a.clone(), observed: out_s });
                }
                // from inside a SUB, and defined inside a SUB
                let out_sub = run_text(&format!("{}P\nEND\nSUB P\nPRINT {}\nEND SUB\n", head, defs[last].name));
                if out_sub != out_a {
                    sum.violation(ImplViolation { key: "const-in-sub-differs".into(), input: one_line.clone(), expected: out_a.clone(), observed: out_sub });
                }
                let indented: String = head.lines().map(|l| format!("  {}\n", l)).collect();
                let out_local = run_text(&format!("P\nEND\nSUB P\n{}  PRINT {}\nEND SUB\n", indented, defs[last].name));
                if out_local != out_a {
                    sum.violation(ImplViolation { key: "const-defined-in-sub-differs".into(), input: one_line.clone(), expected: out_a.clone(), observed: out_local });
                }
                // the chain defined in a SUB while a global constant of the first name exists: the local one wins
                let out_shadow = run_text(&format!("CONST K1 = 12345\nP\nEND\nSUB P\n{}  PRINT {}\nEND SUB\n", indented, defs[last].name));
                if out_shadow != out_a {
                    sum.violation(ImplViolation { key: "const-shadowing-global-differs".into(), input: one_line.clone(), expected: out_a.clone(), observed: out_shadow });
                }
                // the inlined expression (converted through a variable when the constant has a suffix)
                // (an assignment of an expression containing "/" is subject to the known finding
                //  C06-division-retag, so it cannot serve as the reference for the conversion)
                let usable = |t: &String| defs[last].suffix.is_none() || !t.contains('/');
                if let Some(t) = inl.filter(usable) {
                    let prog_b = match defs[last].suffix {
                        None => format!("PRINT {}\n", t),
                        Some(c) => format!("X{} = {}\nPRINT X{}\n", c, t, c),
                    };
                    let out_b = run_text(&prog_b);
                    if out_b != out_a {
                        sum.violation(ImplViolation { key: "const-differs-from-inlined-expression".into(), input: format!("{} vs {}", one_line, prog_b.replace('\n', " | ")), expected: out_b, observed: out_a });
                    }
                    sum.count("compared_with_inlined");
                }
            }
            6 | 11 => {
                // rejected for overflow / division by zero exactly when run-time evaluation raises it:
                // find the definition that is rejected (the first prefix of the chain that fails)
                let mut failing = last;
                for i in 0..defs.len() {
                    let mut h = String::new();
                    for d in &defs[..=i] {
                        h.push_str(&format!("CONST {}{} = {}\n", d.name, d.suffix.map(|c| c.to_string()).unwrap_or_default(), text(&d.e, &defs)));
                    }
                    if front(&format!("{}PRINT {}\n", h, defs[i].name)).is_err() {
                        failing = i;
                        break;
                    }
                }
                if let Some(t) = inlined(&defs[failing].e, &defs) {
                    let prog_b = match defs[failing].suffix {
                        None => format!("PRINT {}\n", t),
                        Some(c) => format!("X{} = {}\nPRINT X{}\n", c, t, c),
                    };
                    let out_b = run_text(&prog_b);
                    if !out_b.starts_with(&format!("error {}:", code)) {
                        sum.violation(ImplViolation { key: "const-rejected-but-evaluates".into(), input: format!("{} vs {}", one_line, prog_b.replace('\n', " | ")), expected: format!("run-time error {}", code), observed: out_b });
                    }
                    sum.count("rejection_compared_with_runtime");
                }
            }
            _ => {}
        }
        if sum.samples.len() < 4 {
            sum.sample(J::s(one_line));
        }
    }
    w.flush();
    sum.write(
        &args.out,
        evaluations,
        "chains of 1-3 CONST definitions (expression depth <= 3 over all 13 binary operators, unary minus and NOT, parentheses, boundary literals of all five types, earlier constants; optional type suffix on the constant), preceded by 307 boundary chains (every binary operator with -32768, -2147483647 - 1, 32767 or 2147483647 held by an earlier constant on either side; the same extremes and fractional values held by a constant whose suffix converts them, used bare and with the suffix). For each chain: checker verdict and the literal replacing a use (value and type) compared with Const.const_chain in Coq; PRINT of the constant bare / with suffix / from a SUB / defined in a SUB compared with each other and with PRINT of the inlined expression; rejections for Overflow / Division by zero compared with the run-time error of the inlined expression. Non-trivial = distinct chains.",
    );
}
