//! C17: string functions, driven through whole BASIC programs (arguments as literals,
//! variables and nested calls); results compared with coq/theories/RT/Strings.v and with the
//! defining equations evaluated directly here.
use crate::common::*;
use crate::runner::*;

const HEADER: &str = "From Coq Require Import List ZArith Bool NArith.\nFrom RB Require Import Base.Util RT.Strings.\nImport ListNotations.\nOpen Scope Z_scope.\n";

#[derive(Clone, Debug)]
enum Item {
    Left(i32),
    Right(i32),
    Mid1(i32),
    Mid2(i32, i32),
    Instr(i32, String),
    Len,
    LenCat(String),
    Ucase,
    Lcase,
    Ltrim,
    Rtrim,
    Space(i32),
    StringFn(i32, i32),
}

fn lit(s: &str) -> String {
    if s.bytes().all(|b| (32..127).contains(&b) && b != b'"') {
        return format!("\"{}\"", s);
    }
    // control characters are spelled with CHR$
    let mut parts: Vec<String> = vec![];
    let mut cur = String::new();
    for b in s.bytes() {
        if (32..127).contains(&b) && b != b'"' {
            cur.push(b as char);
        } else {
            if !cur.is_empty() {
                parts.push(format!("\"{}\"", cur));
                cur.clear();
            }
            parts.push(format!("CHR$({})", b));
        }
    }
    if !cur.is_empty() {
        parts.push(format!("\"{}\"", cur));
    }
    format!("({})", parts.join(" + "))
}

/// the BASIC expression for an item, in one of several argument styles
fn expr(item: &Item, s: &str, style: u64) -> String {
    let sv = match style {
        0 => lit(s),
        1 => "S$".to_string(),
        2 => format!("MID$({}, 1)", lit(s)),
        _ => "LEFT$(S$, 999)".to_string(),
    };
    let num = |n: i32| -> String {
        match style {
            0 => format!("{}", n),
            1 => format!("(N% + {})", n), // N% = 0
            2 => format!("LEN(SPACE$({}))", n.max(0)),
            _ => {
                if n >= 0 {
                    format!("{}.4", n)
                } else {
                    format!("{}", n)
                }
            }
        }
    };
    let num_any = |n: i32| -> String { if n < 0 && style == 2 { format!("{}", n) } else { num(n) } };
    match item {
        Item::Left(n) => format!("LEFT$({}, {})", sv, num_any(*n)),
        Item::Right(n) => format!("RIGHT$({}, {})", sv, num_any(*n)),
        Item::Mid1(a) => format!("MID$({}, {})", sv, num_any(*a)),
        Item::Mid2(a, b) => format!("MID$({}, {}, {})", sv, num_any(*a), num_any(*b)),
        Item::Instr(a, t) => format!("INSTR({}, {}, {})", num_any(*a), sv, lit(t)),
        Item::Len => format!("LEN({})", sv),
        Item::LenCat(t) => format!("LEN({} + {})", sv, lit(t)),
        Item::Ucase => format!("UCASE$({})", sv),
        Item::Lcase => format!("LCASE$({})", sv),
        Item::Ltrim => format!("LTRIM$({})", sv),
        Item::Rtrim => format!("RTRIM$({})", sv),
        Item::Space(n) => format!("SPACE$({})", num_any(*n)),
        Item::StringFn(n, c) => format!("STRING$({}, {})", num_any(*n), c),
    }
}

fn is_numeric(item: &Item) -> bool {
    matches!(item, Item::Instr(..) | Item::Len | Item::LenCat(_))
}

fn is_error(item: &Item) -> bool {
    match item {
        Item::Left(n) | Item::Right(n) | Item::Space(n) | Item::StringFn(n, _) => *n < 0,
        Item::Mid1(a) => *a <= 0,
        Item::Mid2(a, b) => *a <= 0 || *b < 0,
        Item::Instr(a, _) => *a <= 0,
        _ => false,
    }
}

/// the defining equations, written independently of the Coq model (Rust std as oracle)
fn reference(item: &Item, s: &str) -> Option<String> {
    if is_error(item) {
        return None;
    }
    let b = s.as_bytes();
    let clamp = |n: i32| (n as usize).min(b.len());
    Some(match item {
        Item::Left(n) => s[..clamp(*n)].to_string(),
        Item::Right(n) => s[b.len() - clamp(*n)..].to_string(),
        Item::Mid1(a) => {
            let st = (*a as usize - 1).min(b.len());
            s[st..].to_string()
        }
        Item::Mid2(a, l) => {
            let st = (*a as usize - 1).min(b.len());
            let e = (st + *l as usize).min(b.len());
            s[st..e].to_string()
        }
        Item::Instr(a, t) => {
            let st = *a as usize - 1;
            let r = if st <= b.len() { s[st..].find(t.as_str()).map(|p| p + st + 1).unwrap_or(0) } else { 0 };
            format!("{}", r)
        }
        Item::Len => format!("{}", b.len()),
        Item::LenCat(t) => format!("{}", b.len() + t.len()),
        Item::Ucase => s.chars().map(|c| if c.is_ascii_lowercase() { (c as u8 - 32) as char } else { c }).collect(),
        Item::Lcase => s.chars().map(|c| if c.is_ascii_uppercase() { (c as u8 + 32) as char } else { c }).collect(),
        Item::Ltrim => s.trim_start_matches(' ').to_string(),
        Item::Rtrim => s.trim_end_matches(' ').to_string(),
        Item::Space(n) => " ".repeat(*n as usize),
        Item::StringFn(n, c) => ((*c as u8) as char).to_string().repeat(*n as usize),
    })
}

fn coq_check(item: &Item, s: &str, observed: &Option<String>) -> (String, String) {
    let sb = bytes(s.as_bytes());
    let ostr = |o: &Option<String>| match o {
        Some(x) => format!("(Some {})", bytes(x.as_bytes())),
        None => "None".to_string(),
    };
    let oz = |o: &Option<String>| match o {
        Some(x) => format!("(Some {})", z(x.trim().parse::<i128>().unwrap_or(-999))),
        None => "None".to_string(),
    };
    match item {
        Item::Left(n) => (format!("sres_str_eqb (left_fn {} {}) {}", sb, z(*n as i128), ostr(observed)), format!("left_fn {} {}", sb, z(*n as i128))),
        Item::Right(n) => (format!("sres_str_eqb (right_fn {} {}) {}", sb, z(*n as i128), ostr(observed)), format!("right_fn {} {}", sb, z(*n as i128))),
        Item::Mid1(a) => (format!("sres_str_eqb (mid_fn {} {} None) {}", sb, z(*a as i128), ostr(observed)), format!("mid_fn {} {} None", sb, z(*a as i128))),
        Item::Mid2(a, l) => (
            format!("sres_str_eqb (mid_fn {} {} (Some {})) {}", sb, z(*a as i128), z(*l as i128), ostr(observed)),
            format!("mid_fn {} {} (Some {})", sb, z(*a as i128), z(*l as i128)),
        ),
        Item::Instr(a, t) => (
            format!("sres_z_eqb (instr_fn {} {} {}) {}", z(*a as i128), sb, bytes(t.as_bytes()), oz(observed)),
            format!("instr_fn {} {} {}", z(*a as i128), sb, bytes(t.as_bytes())),
        ),
        Item::Len => (format!("sres_z_eqb (SOk (len_fn {})) {}", sb, oz(observed)), format!("len_fn {}", sb)),
        Item::LenCat(t) => (
            format!("sres_z_eqb (SOk (len_fn ({} ++ {}))) {}", sb, bytes(t.as_bytes()), oz(observed)),
            format!("len_fn ({} ++ {})", sb, bytes(t.as_bytes())),
        ),
        Item::Ucase => (format!("sres_str_eqb (SOk (ucase {})) {}", sb, ostr(observed)), format!("ucase {}", sb)),
        Item::Lcase => (format!("sres_str_eqb (SOk (lcase {})) {}", sb, ostr(observed)), format!("lcase {}", sb)),
        Item::Ltrim => (format!("sres_str_eqb (SOk (ltrim {})) {}", sb, ostr(observed)), format!("ltrim {}", sb)),
        Item::Rtrim => (format!("sres_str_eqb (SOk (rtrim {})) {}", sb, ostr(observed)), format!("rtrim {}", sb)),
        Item::Space(n) => (format!("sres_str_eqb (space_fn {}) {}", z(*n as i128), ostr(observed)), format!("space_fn {}", z(*n as i128))),
        Item::StringFn(n, c) => (
            format!("sres_str_eqb (string_fn {} {}) {}", z(*n as i128), c, ostr(observed)),
            format!("string_fn {} {}", z(*n as i128), c),
        ),
    }
}

fn kind(item: &Item) -> &'static str {
    match item {
        Item::Left(_) => "LEFT$",
        Item::Right(_) => "RIGHT$",
        Item::Mid1(_) | Item::Mid2(..) => "MID$",
        Item::Instr(..) => "INSTR",
        Item::Len | Item::LenCat(_) => "LEN",
        Item::Ucase => "UCASE$",
        Item::Lcase => "LCASE$",
        Item::Ltrim => "LTRIM$",
        Item::Rtrim => "RTRIM$",
        Item::Space(_) => "SPACE$",
        Item::StringFn(..) => "STRING$",
    }
}

fn all_strings(alphabet: &[u8], maxlen: usize) -> Vec<String> {
    let mut out = vec![String::new()];
    let mut frontier = vec![String::new()];
    for _ in 0..maxlen {
        let mut next = vec![];
        for s in &frontier {
            for c in alphabet {
                let mut t = s.clone();
                t.push(*c as char);
                next.push(t);
            }
        }
        out.extend(next.iter().cloned());
        frontier = next;
    }
    out
}

fn record(item: &Item, s: &str, style: u64, observed: Option<String>, raw: &str, w: &mut CaseWriter, sum: &mut Summary) {
    let exp = reference(item, s);
    let e = expr(item, s, style);
    if observed != exp {
        sum.violation(ImplViolation {
            key: format!("{}{}", kind(item), if is_error(item) { "-illegal-count" } else { "" }),
            input: format!("{} with S$ = {:?}, N% = 0", e, s),
            expected: match &exp {
                Some(x) => format!("{:?}", x),
                None => "Illegal function call (5)".into(),
            },
            observed: format!("{:?} ({})", observed, raw),
        });
    }
    let (agree, model_expr) = coq_check(item, s, &observed);
    w.push(Case { agree, desc: format!("{} [S$={:?}] = {:?}", e, s, observed), model_expr });
    sum.count(kind(item));
    if !s.is_empty() {
        sum.nontrivial(format!("{:?}{:?}", item, s));
    }
}

pub fn run(args: &Args) {
    let mut rng = Rng::new(args.seed);
    let mut sum = Summary::new();
    let mut w = CaseWriter::new(&args.out, "c17", HEADER, 1500);
    let mut evaluations = 0usize;
    let maxlen = if args.thorough() { 5 } else { 4 };
    let mut strings = all_strings(&[b'a', b'B', b' '], maxlen);
    // longer random printable ASCII (no double quote)
    for _ in 0..(if args.thorough() { 300 } else { 40 }) {
        let l = rng.range(6, 40) as usize;
        let s: String = (0..l)
            .map(|_| {
                let c = rng.range(32, 126) as u8;
                if c == b'"' { ' ' } else { c as char }
            })
            .collect();
        strings.push(s);
    }
    // blanks versus other white-space (TAB, VT, FF): only blanks are trimmed
    for t in ["\ta", "a\t", "\t a \t", " \x0b", "\x0c\x0c", " \t ", "\t"] {
        strings.push(t.to_string());
    }
    let needles = ["a", "B ", "aB", " "];
    for s in strings.iter() {
        // the non-failing items of this string: one program, one PRINT per item
        let mut items: Vec<(Item, u64)> = vec![];
        let hi = if s.len() > 5 { s.len() as i32 + 1 } else { 7 };
        let ns: Vec<i32> = if s.len() > 5 { vec![0, 1, 2, (s.len() / 2) as i32, s.len() as i32 - 1, s.len() as i32, hi] } else { (0..=7).collect() };
        for n in &ns {
            items.push((Item::Left(*n), rng.below(4)));
            items.push((Item::Right(*n), rng.below(4)));
            if s.len() <= 5 {
                items.push((Item::Space(*n), rng.below(4)));
                items.push((Item::StringFn(*n, 66), rng.below(4)));
            }
            if *n >= 1 {
                items.push((Item::Mid1(*n), rng.below(4)));
                for m in &ns {
                    items.push((Item::Mid2(*n, *m), rng.below(4)));
                }
                for t in needles {
                    items.push((Item::Instr(*n, t.to_string()), rng.below(4)));
                }
                if !s.is_empty() {
                    // a needle taken from the string itself
                    let a = rng.below(s.len() as u64) as usize;
                    let b = a + 1 + rng.below((s.len() - a) as u64) as usize;
                    if s.is_char_boundary(a) && s.is_char_boundary(b.min(s.len())) {
                        items.push((Item::Instr(*n, s[a..b.min(s.len())].to_string()), rng.below(4)));
                    }
                }
            }
        }
        if s.len() <= 6 && s.is_ascii() {
            // every substring of length >= 2 as a needle (self-overlapping needles included)
            let mut seen = std::collections::BTreeSet::new();
            for a in 0..s.len() {
                for b in (a + 2)..=s.len() {
                    if seen.insert(s[a..b].to_string()) {
                        for n in [1, 2] {
                            items.push((Item::Instr(n, s[a..b].to_string()), rng.below(4)));
                        }
                    }
                }
            }
        }
        for it in [Item::Len, Item::LenCat("xy".into()), Item::Ucase, Item::Lcase, Item::Ltrim, Item::Rtrim] {
            items.push((it, rng.below(4)));
        }
        let mut src = format!("S$ = {}\nN% = 0\n", lit(s));
        for (it, style) in &items {
            src.push_str(&format!("PRINT \"<\"; {}; \">\"\n", expr(it, s, *style)));
        }
        let o = run_program(&src, &RunOpts { budget: 2_000_000, ..Default::default() });
        evaluations += 1;
        match o {
            Outcome::Ran(r) if r.end == End::Ok => {
                let out = text(&r.stdout);
                let lines: Vec<&str> = out.split("\r\n").collect();
                for (k, (it, style)) in items.iter().enumerate() {
                    let raw = lines.get(k).cloned().unwrap_or("");
                    let inner = raw.strip_prefix('<').and_then(|x| x.strip_suffix('>'));
                    let observed = inner.map(|x| if is_numeric(it) { x.trim().to_string() } else { x.to_string() });
                    record(it, s, *style, observed, raw, &mut w, &mut sum);
                    evaluations += 1;
                }
            }
            other => {
                sum.violation(ImplViolation { key: "batch-program-failed".into(), input: src.clone(), expected: "normal termination".into(), observed: format!("{:?}", other).chars().take(400).collect() });
            }
        }
        if sum.samples.len() < 2 {
            sum.sample(J::s(src.chars().take(600).collect::<String>()));
        }
        // the failing items: one program each, expecting Illegal function call (5)
        if s.len() <= 3 || rng.chance(1, 6) {
            let bad: Vec<Item> = vec![
                Item::Left(-1),
                Item::Right(-1),
                Item::Space(-1),
                Item::StringFn(-1, 66),
                Item::Mid1(0),
                Item::Mid1(-1),
                Item::Mid2(0, 1),
                Item::Mid2(1, -1),
                Item::Instr(0, "a".into()),
                Item::Instr(-1, "a".into()),
            ];
            for it in bad {
                let style = rng.below(4);
                let src = format!("S$ = {}\nN% = 0\nX$ = \"\"\nPRINT \"<\"; {}; \">\"\n", lit(s), expr(&it, s, style));
                let o = run_program(&src, &RunOpts::default());
                evaluations += 1;
                let (observed, raw) = match &o {
                    Outcome::Ran(r) => match &r.end {
                        End::Err(5, _, _) => (None, "error 5".to_string()),
                        End::Ok => {
                            let out = text(&r.stdout);
                            let l = out.split("\r\n").next().unwrap_or("").to_string();
                            (l.strip_prefix('<').and_then(|x| x.strip_suffix('>')).map(|x| x.to_string()), l)
                        }
                        other => (Some(format!("{:?}", other)), format!("{:?}", other)),
                    },
                    other => (Some(format!("{:?}", other)), "front-end".to_string()),
                };
                record(&it, s, style, observed, &raw, &mut w, &mut sum);
            }
        }
    }

    // VAL(STR$(k)) = k
    let mut ks: Vec<i64> = vec![0, 1, -1, 9, 10, 99, 100, 32767, 32768, -32768, -32769, 65535, 65536, 2147483647, -2147483648, 1000000, -999999];
    for _ in 0..(if args.thorough() { 3000 } else { 300 }) {
        ks.push(rng.range(-2147483648, 2147483647));
        ks.push(rng.range(-40000, 40000));
    }
    let mut src = String::new();
    for k in &ks {
        src.push_str(&format!("K& = {}\nPRINT \"<\"; STR$(K&); \">\"; VAL(STR$(K&)); VAL(STR$(K&)) = K&\n", k));
    }
    let o = run_program(&src, &RunOpts { budget: 5_000_000, ..Default::default() });
    evaluations += 1;
    match o {
        Outcome::Ran(r) if r.end == End::Ok => {
            let out = text(&r.stdout);
            for (line, k) in out.split("\r\n").zip(ks.iter()) {
                evaluations += 1;
                let close = line.find('>').unwrap_or(0);
                let s = &line[1.min(line.len())..close];
                let rest: Vec<&str> = line[close + 1..].split_whitespace().collect();
                let v: i64 = rest.first().and_then(|x| x.parse().ok()).unwrap_or(i64::MIN);
                let eq: i64 = rest.get(1).and_then(|x| x.parse().ok()).unwrap_or(0);
                let exp_s = if *k >= 0 { format!(" {}", k) } else { format!("{}", k) };
                if s != exp_s || v != *k || eq != -1 {
                    sum.violation(ImplViolation { key: "val-str".into(), input: format!("VAL(STR$({}))", k), expected: format!("STR$ = {:?}, VAL = {}", exp_s, k), observed: line.to_string() });
                }
                // the model on the string the implementation produced
                let tag = 2; // VAL returns a DOUBLE
                w.push(Case {
                    agree: format!("str_eqb (str_fn {k}) {s} && val_eqb (val_fn {s}) {tag} {v}", k = z(*k as i128), s = bytes(s.as_bytes()), tag = tag, v = z(v as i128)),
                    desc: format!("STR$({}) = {:?}, VAL = {}", k, s, v),
                    model_expr: format!("(str_fn {k}, val_fn (str_fn {k}))", k = z(*k as i128)),
                });
                sum.count("VAL(STR$)");
                sum.nontrivial(format!("k{}", k));
            }
        }
        other => sum.violation(ImplViolation { key: "val-str-program-failed".into(), input: "VAL(STR$(k)) batch".into(), expected: "normal termination".into(), observed: format!("{:?}", other).chars().take(400).collect() }),
    }
    w.flush();
    sum.write(
        &args.out,
        evaluations,
        "every string over {a,B,blank} up to length 4 (quick) / 5 (thorough) x all counts/positions in 0..7 (valid) and -1, 0 (invalid, one program each), plus random printable-ASCII strings of length 6..40; every function of the property; arguments in four styles chosen at random per call (literals, variables, nested calls, fractional literals that round to the count); VAL(STR$(k)) on boundary and random whole numbers. Each observed result is compared with the Coq model and, independently, with the defining equation evaluated with Rust std. Non-trivial = non-empty subject string; distinct by (call, string).",
    );
}
