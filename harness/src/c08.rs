//! C08 - a program the checker accepts always compiles and runs to a BASIC-level outcome.
//!  * core programs: the real instruction list, its abstraction and the inferred certificate are
//!    handed to `Safety.check_safe` in Coq; where it answers 0 the theorem
//!    `program_never_fails_internally` applies to that very list (no stack underflow, no unresolved
//!    label, no running off the list in the machine model, whatever the values);
//!  * search over the whole repertoire: calls of every built-in function and statement with arguments
//!    of every shape (literals of all types, variables, array elements, whole arrays, record values and
//!    fields, parenthesised, nested calls), random bytes on standard input, DATA of all kinds; every
//!    program the checker accepts must end normally or with a BASIC error;
//!  * the repository's own programs and the procedural generator's programs likewise.
use crate::c01::{Gen, coq_code, compile_with_types, print_program};
use crate::c15::{abstract_code, coq_acode, coq_cert, infer};
use crate::common::*;
use crate::pgen::{PGen, corpus};
use crate::runner::*;

pub const HEADER8: &str = "From Coq Require Import List ZArith Arith Bool NArith Floats.SpecFloat.\nFrom RB Require Import Base.Util Generated.Tables Val.Variant Lang.Ast VM.Instr WF.Verifier VM.Safety.\nImport ListNotations.\nLocal Open Scope nat_scope.\nDefinition z6 := vzero nstacks.\n";

const ARGS: [&str; 30] = [
    "1", "0", "-1", "255", "256", "32767", "70000", "1.5", "2.5#", "100000000000000000000", "\"ab\"", "\"\"", "\"12345678\"", "A%", "B&", "C!", "D#", "S$", "ARR%(1)",
    "ARR%()", "P", "P.X", "(S$)", "(A%)", "LEN(S$)", "F1%(2)", "T$", "SA$(1)", "-32768", "0.4",
];

const FUNCS: [(&str, usize); 27] = [
    ("CHR$", 1), ("CVD", 1), ("ENVIRON$", 1), ("EOF", 1), ("INSTR", 2), ("INSTR", 3), ("LBOUND", 1), ("LBOUND", 2), ("UBOUND", 1), ("UBOUND", 2), ("LCASE$", 1), ("UCASE$", 1),
    ("LEFT$", 2), ("RIGHT$", 2), ("LEN", 1), ("LTRIM$", 1), ("RTRIM$", 1), ("MID$", 2), ("MID$", 3), ("MKD$", 1), ("PEEK", 1), ("SPACE$", 1), ("STR$", 1), ("STRING$", 2), ("VAL", 1),
    ("VARPTR", 1), ("VARSEG", 1),
];

const SUBS: [(&str, usize); 12] = [
    ("BEEP", 0), ("CLS", 0), ("COLOR", 2), ("DEF SEG =", 1), ("ENVIRON", 1), ("LOCATE", 2), ("POKE", 2), ("WIDTH", 2), ("LOCATE", 1), ("COLOR", 1), ("CLS", 1), ("DEF SEG", 0),
];

fn arglist(rng: &mut Rng, n: usize) -> String {
    (0..n).map(|_| rng.pick(&ARGS).to_string()).collect::<Vec<_>>().join(", ")
}

/// one statement exercising a built-in with random argument shapes
fn repertoire_stmt(rng: &mut Rng) -> String {
    match rng.below(14) {
        0..=5 => {
            let (f, n) = *rng.pick(&FUNCS);
            let call = format!("{}({})", f, arglist(rng, n));
            match rng.below(4) {
                0 => format!("PRINT {}", call),
                1 => format!("S$ = {}", call),
                2 => format!("A% = {}", call),
                _ => format!("PRINT ({}); LEN(S$)", call),
            }
        }
        6 | 7 => {
            let (s, n) = *rng.pick(&SUBS);
            if n == 0 { s.to_string() } else { format!("{} {}", s, arglist(rng, n)) }
        }
        8 => format!("INPUT {}", rng.pick(&["A%", "B&", "C!", "D#", "S$", "ARR%(1)", "P.X", "A%, S$"])),
        9 => format!("LINE INPUT {}", rng.pick(&["S$", "T$", "SA$(1)"])),
        10 => format!("READ {}", rng.pick(&["A%", "B&", "C!", "D#", "S$", "ARR%(2)", "P.X", "A%, S$, D#"])),
        11 => format!("VIEW PRINT {} TO {}", rng.pick(&ARGS), rng.pick(&ARGS)),
        12 => format!("PRINT USING {}; {}", rng.pick(&["\"###.##\"", "\"&\"", "\"!\"", "S$", "\"\\ \\\"", "\"#,###\""]), rng.pick(&ARGS)),
        _ => format!("MID$(S$, {}) = {}", rng.pick(&ARGS), rng.pick(&ARGS)),
    }
}

fn repertoire_program(rng: &mut Rng) -> String {
    let mut s = String::new();
    s.push_str("TYPE PT\nX AS INTEGER\nN AS STRING * 4\nEND TYPE\nDIM P AS PT\nDIM SHARED ARR%(5)\nDIM SA$(3)\nDIM DD#(2, 2)\n");
    s.push_str("A% = 3\nB& = 70000\nC! = 1.5\nD# = 2.25\nS$ = \"hello\"\nT$ = \"\"\nP.X = 7\nSA$(1) = \"12345678\"\n");
    if rng.chance(1, 3) {
        s.push_str("ON ERROR RESUME NEXT\n");
    }
    let n = 1 + rng.below(6);
    for _ in 0..n {
        s.push_str(&repertoire_stmt(rng));
        s.push('\n');
    }
    s.push_str("PRINT \"end\"\nEND\n");
    s.push_str(match rng.below(4) {
        0 => "DATA 1, 2, 3, 4, 5, 6\n",
        1 => "DATA abc, \"d,e\", 7.5, -3, , 99999999999\n",
        2 => "DATA 70000, x, 1E+30, 2\n",
        _ => "",
    });
    s.push_str("FUNCTION F1% (N%)\nF1% = N% + 1\nEND FUNCTION\n");
    s
}

fn random_stdin(rng: &mut Rng) -> Vec<u8> {
    match rng.below(5) {
        0 => vec![],
        1 => b"1\n2\n3\nabc\n".to_vec(),
        2 => b"abc,def\n\n  7  , x\n99999999999\n".to_vec(),
        3 => b"1,2\n\"q,r\",5\n-32769\n1e400\n".to_vec(),
        _ => {
            let n = rng.below(40) as usize;
            (0..n).map(|_| *rng.pick(&[b'0', b'1', b'9', b',', b'\n', b'\r', b' ', b'"', b'-', b'.', b'e', b'a', 0u8, 200u8])).collect()
        }
    }
}

fn panic_key(m: &str) -> String {
    let t: String = m.chars().filter(|c| c.is_ascii_alphanumeric() || *c == ' ').take(48).collect();
    t.trim().replace(' ', "-").to_lowercase()
}

pub fn run(args: &Args) {
    let mut rng = Rng::new(args.seed);
    let mut sum = Summary::new();
    let mut w = CaseWriter::new(&args.out, "c08", HEADER8, 40);
    let mut evaluations = 0usize;

    // ---- core programs: the safety theorem applied to the real instruction list
    let n_core = if args.thorough() { 2500 } else { 250 };
    for k in 0..n_core {
        let mut g = Gen { rng: &mut rng, loop_counter: 0 };
        let mut prog = g.program(2 + (k % 2) as u32, 4);
        let src = print_program(&mut prog);
        let (igr, udts) = match compile_with_types(&src) {
            Ok(x) => x,
            Err(e) => {
                sum.violation(ImplViolation { key: "generated-program-rejected".into(), input: src.replace('\n', " | "), expected: "accepted".into(), observed: e.chars().take(200).collect() });
                continue;
            }
        };
        evaluations += 1;
        let (code, _marks) = coq_code(&igr);
        let acode = match abstract_code(&igr) {
            Ok(a) => a,
            Err(e) => {
                sum.violation(ImplViolation { key: "unresolved-target".into(), input: src.replace('\n', " | "), expected: "all targets resolved".into(), observed: e });
                continue;
            }
        };
        let (cert, _problems) = infer(&acode);
        let expr = format!("check_safe {} {} {}", code, coq_acode(&acode), coq_cert(&cert));
        w.push(Case { agree: format!("Nat.eqb ({}) 0", expr), desc: format!("safe {}", src.replace('\n', " | ")), model_expr: expr });
        sum.count("core_programs");
        let r = run_compiled(igr, udts, &RunOpts { budget: 20_000, ..Default::default() });
        if let End::Panic(m) = &r.end {
            sum.violation(ImplViolation { key: format!("panic:{}", panic_key(m)), input: src.replace('\n', " | "), expected: "a BASIC-level outcome".into(), observed: m.clone() });
        }
        sum.nontrivial(src);
    }
    w.flush();

    // ---- the repertoire
    let n_rep = if args.thorough() { 30000 } else { 3000 };
    let mut accepted = 0usize;
    for _ in 0..n_rep {
        let src = repertoire_program(&mut rng);
        let stdin = random_stdin(&mut rng);
        evaluations += 1;
        match run_program(&src, &RunOpts { stdin: stdin.clone(), budget: 20_000, trace: false }) {
            Outcome::Ran(r) => {
                accepted += 1;
                match &r.end {
                    End::Panic(m) => {
                        // after a handled error in the middle of a statement the VM's stacks are corrupt (known finding)
                        let on_error = src.contains("ON ERROR");
                        sum.violation(ImplViolation { key: format!("panic{}:{}{}", if on_error { "-with-on-error" } else { "" }, panic_key(m), if on_error { format!(":{}", last_error_kind(&src, &r)) } else { String::new() }), input: format!("{} [stdin {:?}]", src.replace('\n', " | "), String::from_utf8_lossy(&stdin)), expected: "a BASIC-level outcome".into(), observed: m.clone() });
                    }
                    End::Ok => sum.count("repertoire_ok"),
                    End::Err(c, ..) => sum.count(&format!("repertoire_error_{}", c)),
                    End::Budget => sum.count("budget_exhausted"),
                }
                sum.nontrivial(src.clone());
            }
            Outcome::FrontPanic { stage, msg } if stage == "generate" => {
                sum.violation(ImplViolation { key: format!("generator-panic:{}", panic_key(&msg)), input: src.replace('\n', " | "), expected: "an accepted program can be translated".into(), observed: msg });
            }
            Outcome::FrontPanic { .. } => sum.count("front_end_panic_(C07)"),
            _ => sum.count("rejected_by_checker"),
        }
        if sum.samples.len() < 3 {
            sum.sample(J::s(src));
        }
    }
    // ---- systematic sweep: every built-in function form x every argument position x every argument shape
    let preamble = "TYPE PT\nX AS INTEGER\nN AS STRING * 4\nEND TYPE\nDIM P AS PT\nDIM SHARED ARR%(5)\nDIM SA$(3)\nA% = 3\nB& = 70000\nC! = 1.5\nD# = 2.25\nS$ = \"hello\"\nT$ = \"\"\nSA$(1) = \"12345678\"\n";
    let tail = "END\nFUNCTION F1% (N%)\nF1% = N% + 1\nEND FUNCTION\n";
    for (f, n) in FUNCS.iter() {
        for pos in 0..*n {
            for a in ARGS.iter() {
                // the other positions take every combination of a small number, another small number and
                // a string, so that for every function some combination is well typed
                let defaults = ["1", "2", "S$"];
                let others = *n - 1;
                for combo in 0..3usize.pow(others as u32) {
                    let mut c = combo;
                    let mut picks: Vec<&str> = vec![];
                    for _ in 0..others {
                        picks.push(defaults[c % 3]);
                        c /= 3;
                    }
                    let mut it = picks.into_iter();
                    let args: Vec<&str> = (0..*n).map(|k| if k == pos { *a } else { it.next().unwrap() }).collect();
                    let src = format!("{}PRINT {}({})\n{}", preamble, f, args.join(", "), tail);
                    evaluations += 1;
                    match run_program(&src, &RunOpts { stdin: vec![], budget: 20_000, trace: false }) {
                        Outcome::Ran(r) => {
                            accepted += 1;
                            sum.count("sweep_accepted");
                            if let End::Panic(m) = &r.end {
                                sum.violation(ImplViolation { key: format!("panic:{}", panic_key(m)), input: format!("PRINT {}({})", f, args.join(", ")), expected: "a BASIC-level outcome".into(), observed: m.clone() });
                            }
                        }
                        Outcome::FrontPanic { stage, msg } if stage == "generate" => {
                            sum.violation(ImplViolation { key: format!("generator-panic:{}", panic_key(&msg)), input: format!("PRINT {}({})", f, args.join(", ")), expected: "an accepted program can be translated".into(), observed: msg });
                        }
                        _ => sum.count("sweep_rejected"),
                    }
                }
            }
        }
    }
    // ---- expression shapes in every expression position: an operand (incl. a call of an undefined name,
    // which the checker accepts and replaces by 0) under every wrapper, in every place a statement takes
    // an expression
    {
        let tail2 = "END\nFUNCTION F1% (N%)\nF1% = N% + 1\nEND FUNCTION\nSUB F2 (N%)\nEND SUB\n";
        let atoms = ["UNDEF9(1)", "UNDEF9(A%, 2)", "F1%(2)", "ARR%(1)", "A%", "LEN(S$)", "P.X"];
        let wrappers: [&dyn Fn(&str) -> String; 13] = [
            &|x| x.to_string(),
            &|x| format!("({})", x),
            &|x| format!("-{}", x),
            &|x| format!("NOT ({})", x),
            &|x| format!("{} + 1", x),
            &|x| format!("1 + ({})", x),
            &|x| format!("ARR%({})", x),
            &|x| format!("ARR%(({}))", x),
            &|x| format!("LEN(STR$({}))", x),
            &|x| format!("LEN(STR$(({})))", x),
            &|x| format!("F1%({})", x),
            &|x| format!("F1%(({}) + 0)", x),
            &|x| format!("LEN(SA$({}))", x),
        ];
        let positions: [&dyn Fn(&str) -> String; 10] = [
            &|w| format!("PRINT {}", w),
            &|w| format!("A% = {}", w),
            &|w| format!("ARR%({}) = 1", w),
            &|w| format!("ARR%(({})) = {}", w, w),
            &|w| format!("IF {} THEN PRINT 1", w),
            &|w| format!("FOR I% = {} TO 1\nNEXT", w),
            &|w| format!("SELECT CASE {}\nCASE 1\nPRINT 1\nEND SELECT", w),
            &|w| format!("F2 {}", w),
            &|w| format!("P.X = {}", w),
            &|w| format!("SA$({}) = \"x\"", w),
        ];
        for a in atoms.iter() {
            for wr in wrappers.iter() {
                for po in positions.iter() {
                    let stmt = po(&wr(a));
                    let src = format!("{}{}\n{}", preamble, stmt, tail2);
                    evaluations += 1;
                    sum.count("shape_position_programs");
                    match run_program(&src, &RunOpts { stdin: vec![], budget: 20_000, trace: false }) {
                        Outcome::Ran(r) => {
                            accepted += 1;
                            sum.count("shape_position_accepted");
                            if let End::Panic(m) = &r.end {
                                sum.violation(ImplViolation { key: format!("panic:{}", panic_key(m)), input: stmt.replace('\n', " | "), expected: "a BASIC-level outcome".into(), observed: m.clone() });
                            }
                            sum.nontrivial(src.clone());
                        }
                        Outcome::FrontPanic { stage, msg } if stage == "generate" => {
                            sum.violation(ImplViolation { key: format!("generator-panic:{}", panic_key(&msg)), input: stmt.replace('\n', " | "), expected: "an accepted program can be translated".into(), observed: msg });
                        }
                        Outcome::FrontPanic { .. } => sum.count("front_end_panic_(C07)"),
                        _ => sum.count("shape_position_rejected"),
                    }
                }
            }
        }
    }
    sum.histogram.insert("repertoire_accepted".into(), accepted as i128);

    // ---- procedural programs and the repository's programs
    let n_pg = if args.thorough() { 2000 } else { 200 };
    for k in 0..n_pg {
        let mut g = PGen::new(&mut rng);
        g.with_errors = k % 2 == 1;
        let src = g.program(1 + (k % 3) as u32);
        evaluations += 1;
        if let Outcome::Ran(r) = run_program(&src, &RunOpts { stdin: random_stdin(&mut rng), budget: 30_000, trace: false }) {
            sum.count("procedural_accepted");
            if let End::Panic(m) = &r.end {
                let on_error = src.contains("ON ERROR");
                sum.violation(ImplViolation { key: format!("panic{}:{}{}", if on_error { "-with-on-error" } else { "" }, panic_key(m), if on_error { format!(":{}", last_error_kind(&src, &r)) } else { String::new() }), input: src.replace('\n', " | ").chars().take(600).collect(), expected: "a BASIC-level outcome".into(), observed: m.clone() });
            }
        }
    }
    for (origin, text) in corpus() {
        let up = text.to_uppercase();
        if up.contains("OPEN ") || up.contains("KILL ") || up.contains("NAME ") {
            continue; // files are C18's
        }
        match run_program(&text, &RunOpts { stdin: b"1\n2\n3\nabc\n".to_vec(), budget: 30_000, trace: false }) {
            Outcome::Ran(r) => {
                evaluations += 1;
                sum.count("corpus_accepted");
                if let End::Panic(m) = &r.end {
                    sum.violation(ImplViolation { key: format!("panic:{}", panic_key(m)), input: format!("{} {}", origin, text.replace('\n', " | ").chars().take(400).collect::<String>()), expected: "a BASIC-level outcome".into(), observed: m.clone() });
                }
            }
            Outcome::FrontPanic { stage, msg } if stage == "generate" => {
                sum.violation(ImplViolation { key: format!("generator-panic:{}", panic_key(&msg)), input: origin, expected: "an accepted program can be translated".into(), observed: msg });
            }
            _ => {}
        }
    }
    // ---- statements the checker rejects at the top level, in every other position (one and two
    // levels deep): wherever such a statement is accepted, running it must still end at BASIC level
    {
        let pre = "TYPE Card\nValue AS INTEGER\nEND TYPE\nDIM SHARED c AS Card\nc.Value = 3\n";
        let bad = ["PRINT c", "LPRINT c", "PRINT 1; c", "X% = c", "PRINT c + 1", "c = 5", "PRINT LEN(c.Value.Z)", "FOR I9% = 1 TO 2\nNEXT J9%", "PRINT c.Nope"];
        let positions = [
            "{B}",
            "IF 1 = 1 THEN\n{B}\nEND IF",
            "IF 1 = 2 THEN\nPRINT 0\nELSEIF 1 = 1 THEN\n{B}\nEND IF",
            "IF 1 = 2 THEN\nPRINT 0\nELSE\n{B}\nEND IF",
            "SELECT CASE 2\nCASE 1\nPRINT 0\nCASE 2\n{B}\nEND SELECT",
            "SELECT CASE 7\nCASE 1\nPRINT 0\nCASE ELSE\n{B}\nEND SELECT",
            "FOR Q9% = 1 TO 1\n{B}\nNEXT",
            "W9% = 0\nWHILE W9% < 1\nW9% = 1\n{B}\nWEND",
            "DO\n{B}\nLOOP UNTIL 1 = 1",
        ];
        let in_sub = "P9\nEND\nSUB P9\n{B}\nEND SUB";
        let in_fn = "Z9% = F9%\nEND\nFUNCTION F9%\n{B}\nEND FUNCTION";
        for b in bad.iter() {
            // the statement alone must be rejected, otherwise it says nothing
            let alone = format!("{}{}\n", pre, b);
            evaluations += 1;
            if matches!(run_program(&alone, &RunOpts { budget: 10_000, ..Default::default() }), Outcome::Ran(_)) {
                sum.count("rejectable_statement_accepted_at_top_level_(skipped)");
                continue;
            }
            let mut bodies: Vec<String> = vec![];
            for p1 in positions.iter().skip(1) {
                bodies.push(p1.replace("{B}", b));
                for p2 in positions.iter().skip(1) {
                    bodies.push(p1.replace("{B}", &p2.replace("{B}", b).replace("Q9%", "R9%").replace("W9%", "V9%")));
                }
            }
            let mut progs: Vec<String> = vec![];
            for body in bodies.iter() {
                progs.push(format!("{}{}\n", pre, body));
                progs.push(format!("{}{}\n", pre, in_sub.replace("{B}", body)));
                if rng.chance(1, 3) {
                    progs.push(format!("{}{}\n", pre, in_fn.replace("{B}", body)));
                }
            }
            for src in progs {
                evaluations += 1;
                sum.count("rejectable_statement_positions");
                match run_program(&src, &RunOpts { budget: 10_000, ..Default::default() }) {
                    Outcome::Ran(r) => {
                        sum.count("rejectable_statement_accepted_somewhere");
                        if let End::Panic(m) = &r.end {
                            sum.violation(ImplViolation { key: format!("accepted-then-panic:{}", panic_key(m)), input: src.replace('\n', " | "), expected: "rejected by the checker (as at the top level), or a BASIC-level outcome".into(), observed: m.clone() });
                        }
                    }
                    Outcome::FrontPanic { stage, msg } => {
                        sum.violation(ImplViolation { key: format!("front-panic:{}:{}", stage, panic_key(&msg)), input: src.replace('\n', " | "), expected: "an error or an accepted program".into(), observed: msg });
                    }
                    _ => {}
                }
            }
        }
    }
    sum.write(
        &args.out,
        evaluations,
        "core programs: Safety.check_safe evaluated in Coq on the real instruction list (supported instructions only, the Coq abstraction equals the harness's, the certificate checks) so that the no-internal-failure theorem applies to it. Repertoire: generated programs calling 27 built-in function forms and 12 statement forms plus INPUT / LINE INPUT / READ+DATA / VIEW PRINT / PRINT USING / MID$ assignment with arguments drawn from 30 shapes (all literal types, boundary values, variables, array elements, whole arrays, record values and fields, parenthesised, nested calls), under optional ON ERROR RESUME NEXT, with 5 kinds of standard input incl. random bytes; procedural programs and the repository's programs; nine statements the checker rejects at the top level (PRINT of a record, a record in arithmetic, NEXT for another counter, an unknown member ...) placed in every block position one and two levels deep (THEN, ELSEIF, ELSE, CASE, CASE ELSE, FOR, WHILE, DO, SUB, FUNCTION). Every accepted program must end normally or with a BASIC error; panics are keyed by their message. Shape x position family: 7 operands (a call of an undefined name with one and two arguments, a user function, an array element, a variable, a built-in, a record field) under 13 wrappers (parentheses, unary minus, NOT, binary, array index, doubly parenthesised index, built-in and user-function arguments) in 10 expression positions of statements (PRINT, assignment, index of an assignment target, IF, FOR bound, SELECT, SUB argument, record field, string array index): no panic in the generator or the VM. Non-trivial = distinct accepted programs.",
    );
}
