//! C13 - names resolve by the documented bare/qualified/extended rules in every scope.
//! Two families of generated programs; the implementation's behaviour is turned into an observation
//! code which `Names.Resolve` must predict (evaluated in Coq):
//!  * relation of two spellings of a base name under a list of DEFtype statements and an optional
//!    extended declaration: 0 = one variable, 1 = two variables, 2 = the checker rejects the second;
//!  * where a name used inside a SUB lives: local, the SHARED global, or a constant.
use crate::common::*;
use crate::runner::*;

pub const HEADER13: &str = "From Coq Require Import List Arith Bool NArith.\nFrom RB Require Import Generated.Tables Lang.Ast Names.Resolve.\nImport ListNotations.\n";

const SUFFIXES: [(char, &str); 5] = [('%', "QInteger"), ('&', "QLong"), ('!', "QSingle"), ('#', "QDouble"), ('$', "QString")];

fn coq_name(n: &str) -> String {
    format!("[{}]", n.chars().map(|c| (c as u32).to_string()).collect::<Vec<_>>().join("; "))
}

fn coq_spelling(n: &str, sfx: Option<usize>) -> String {
    format!("({}, {})", coq_name(n), match sfx { Some(i) => format!("Some {}", SUFFIXES[i].1), None => "None".to_string() })
}

fn spell(n: &str, sfx: Option<usize>) -> String {
    format!("{}{}", n, sfx.map(|i| SUFFIXES[i].0.to_string()).unwrap_or_default())
}

/// harness-side expectation of the type of a spelling, only used to choose a literal of the right kind
fn is_string_spelling(defs: &[(char, char, usize)], ext: Option<usize>, n: &str, sfx: Option<usize>) -> bool {
    if let Some(t) = ext {
        return t == 4;
    }
    match sfx {
        Some(i) => i == 4,
        None => {
            let c = n.chars().next().unwrap().to_ascii_uppercase();
            let mut q = 2usize;
            for (lo, hi, t) in defs {
                if lo.to_ascii_uppercase() <= c && c <= hi.to_ascii_uppercase() {
                    q = *t;
                }
            }
            q == 4
        }
    }
}

fn case_variant(rng: &mut Rng, n: &str) -> String {
    n.chars().map(|c| if rng.chance(1, 2) { c.to_ascii_uppercase() } else { c.to_ascii_lowercase() }).collect()
}

pub fn run(args: &Args) {
    let mut rng = Rng::new(args.seed);
    let mut sum = Summary::new();
    let mut w = CaseWriter::new(&args.out, "c13", HEADER13, 400);
    let mut evaluations = 0usize;
    let def_kw = ["DEFINT", "DEFLNG", "DEFSNG", "DEFDBL", "DEFSTR"];
    let type_names = ["INTEGER", "LONG", "SINGLE", "DOUBLE", "STRING"];
    let bases = ["A", "ab", "Zed", "n", "mIx", "z", "Count", "i"];

    // ---- family 1: two spellings
    let n1 = if args.thorough() { 8000 } else { 900 };
    for k in 0..n1 {
        let base = *rng.pick(&bases);
        let n_defs = rng.below(4) as usize;
        let mut defs: Vec<(char, char, usize)> = vec![];
        for _ in 0..n_defs {
            let first = base.chars().next().unwrap().to_ascii_uppercase() as u8;
            // ranges around the first letter of the base so that they matter, ends included
            let lo = (b'A' + rng.below(26) as u8).min(first.max(b'A'));
            let lo = if rng.chance(1, 2) { lo } else { first.saturating_sub(rng.below(3) as u8).max(b'A') };
            let hi = if rng.chance(1, 2) { (first + rng.below(3) as u8).min(b'Z') } else { (lo + rng.below(5) as u8).min(b'Z') };
            let (lo, hi) = if lo <= hi { (lo, hi) } else { (hi, lo) };
            let lc = if rng.chance(1, 3) { (lo as char).to_ascii_lowercase() } else { lo as char };
            let hc = if lc.is_ascii_lowercase() { (hi as char).to_ascii_lowercase() } else { hi as char };
            defs.push((lc, hc, rng.below(5) as usize));
        }
        let ext: Option<usize> = if k % 4 == 3 { Some(rng.below(5) as usize) } else { None };
        let n_a = case_variant(&mut rng, base);
        let n_b = case_variant(&mut rng, base);
        let s_a: Option<usize> = if rng.chance(1, 3) { None } else { Some(rng.below(5) as usize) };
        let s_b: Option<usize> = if rng.chance(1, 3) { None } else { Some(rng.below(5) as usize) };
        let str_a = is_string_spelling(&defs, ext, &n_a, s_a);
        let str_b = is_string_spelling(&defs, ext, &n_b, s_b);
        let mut src = String::new();
        for (lo, hi, t) in &defs {
            if lo.to_ascii_uppercase() == hi.to_ascii_uppercase() {
                src.push_str(&format!("{} {}\n", def_kw[*t], lo));
            } else {
                src.push_str(&format!("{} {}-{}\n", def_kw[*t], lo, hi));
            }
        }
        if let Some(t) = ext {
            src.push_str(&format!("DIM {} AS {}\n", case_variant(&mut rng, base), type_names[t]));
        }
        let a = spell(&n_a, s_a);
        let b = spell(&n_b, s_b);
        src.push_str(&format!("{} = {}\n", a, if str_a { "\"1\"" } else { "1" }));
        src.push_str(&format!("{} = {}\n", b, if str_b { "\"2\"" } else { "2" }));
        src.push_str(&format!("PRINT {}\n", a));
        evaluations += 1;
        let one_line = src.replace('\n', " | ");
        // the first spelling alone must be accepted, otherwise the case says nothing about the second
        let first_alone = {
            let mut s1 = String::new();
            for l in src.lines() {
                if !l.starts_with(&format!("{} = ", b)) || l.starts_with(&format!("{} = {}", a, if str_a { "\"1\"" } else { "1" })) {
                    s1.push_str(l);
                    s1.push('\n');
                }
            }
            s1
        };
        let observed: i32 = match run_program(&src, &RunOpts { budget: 10_000, ..Default::default() }) {
            Outcome::Ran(r) => {
                let out = String::from_utf8_lossy(&r.stdout).to_string();
                if !matches!(r.end, End::Ok) {
                    -1
                } else if out.contains('2') {
                    0
                } else if out.contains('1') {
                    1
                } else {
                    -1
                }
            }
            Outcome::LintError { .. } => 2,
            Outcome::ParseError { .. } => -2,
            Outcome::FrontPanic { .. } => -3,
        };
        if observed < 0 {
            sum.violation(ImplViolation { key: format!("names-unexpected-outcome:{}", observed), input: one_line.clone(), expected: "one variable, two variables, or a checker error".into(), observed: format!("{}", observed) });
            continue;
        }
        if observed == 2 {
            // rejected: make sure it is the second spelling that is rejected, not the first
            if !matches!(run_program(&first_alone, &RunOpts { budget: 10_000, ..Default::default() }), Outcome::Ran(_)) {
                sum.count("first_spelling_rejected_(skipped)");
                // the model must then reject the first spelling too
                let d = format!("[{}]", defs.iter().map(|(lo, hi, t)| format!("({}, {}, {})", *lo as u32, *hi as u32, SUFFIXES[*t].1)).collect::<Vec<_>>().join("; "));
                let e = match ext { Some(t) => format!("[({}, {})]", coq_name(&base.to_uppercase()), SUFFIXES[t].1), None => "[]".to_string() };
                let expr = format!("resolve {} {} {}", d, e, coq_spelling(&n_a, s_a));
                w.push(Case { agree: format!("match {} with RRejected => true | _ => false end", expr), desc: format!("first-rejected {}", one_line), model_expr: expr });
                continue;
            }
        }
        sum.count(["same_variable", "different_variables", "second_rejected"][observed as usize]);
        let d = format!("[{}]", defs.iter().map(|(lo, hi, t)| format!("({}, {}, {})", *lo as u32, *hi as u32, SUFFIXES[*t].1)).collect::<Vec<_>>().join("; "));
        let e = match ext { Some(t) => format!("[({}, {})]", coq_name(&base.to_uppercase()), SUFFIXES[t].1), None => "[]".to_string() };
        let expr = format!("relation {} {} {} {}", d, e, coq_spelling(&n_a, s_a), coq_spelling(&n_b, s_b));
        w.push(Case { agree: format!("Nat.eqb ({}) {}", expr, observed), desc: format!("spellings {} => {}", one_line, observed), model_expr: expr });
        sum.nontrivial(src.clone());
        if sum.samples.len() < 3 {
            sum.sample(J::s(one_line));
        }
    }

    // ---- family 2: scopes
    let n2 = if args.thorough() { 3000 } else { 400 };
    for _ in 0..n2 {
        let base = *rng.pick(&["Total", "x", "Kk", "vol"]);
        let sfx = Some(rng.below(4) as usize); // numeric
        let shared = rng.chance(1, 3);
        let is_const = !shared && rng.chance(1, 4);
        let is_param = !shared && !is_const && rng.chance(1, 4);
        let local_dim = !shared && !is_const && !is_param && rng.chance(1, 4);
        let g = spell(&case_variant(&mut rng, base), sfx);
        let u = spell(&case_variant(&mut rng, base), if is_const && rng.chance(1, 2) { None } else { sfx });
        let mut src = String::new();
        if is_const {
            src.push_str(&format!("CONST {} = 5\n", g));
        } else if shared {
            src.push_str(&format!("DIM SHARED {}\n{} = 1\n", g, g));
        } else {
            src.push_str(&format!("{} = 1\n", g));
        }
        if is_param {
            let q = spell("Q", sfx);
            src.push_str(&format!("{} = 9\nP {}\n", q, q));
        } else {
            src.push_str("P 9\n");
        }
        if !is_const {
            src.push_str(&format!("PRINT \"main\"; {}\n", g));
        }
        src.push_str("END\n");
        src.push_str(&format!("SUB P ({})\n", if is_param { spell(&case_variant(&mut rng, base), sfx) } else { "Dummy%".to_string() }));
        if local_dim {
            src.push_str(&format!("  DIM {}\n", spell(&case_variant(&mut rng, base), sfx)));
        }
        // a variable of the same bare name with ANOTHER suffix is another variable: using it first
        // in the SUB changes nothing about where the name under test lives
        if !is_const && !is_param && !local_dim && rng.chance(1, 2) {
            let mut o = rng.below(5) as usize;
            if Some(o) == sfx {
                o = 4;
            }
            let other = spell(&case_variant(&mut rng, base), Some(o));
            src.push_str(&format!("  {} = {}\n", other, if o == 4 { "\"t\"" } else { "7" }));
            sum.count("scope_with_other_suffix_local");
        }
        // the use sits in different expression contexts: plain, argument of a built-in or of a user
        // function (by value), inside a larger expression
        let ctx = rng.below(5);
        let used = match ctx {
            0 => u.clone(),
            1 => format!("VAL(STR$({}))", u),
            2 => format!("({} + 0)", u),
            3 => format!("Idn#(({}))", u),
            _ => format!("VAL(STR$({})) + VAL(STR$({})) - {}", u, u, u),
        };
        sum.count(&format!("scope_use_context_{}", ctx));
        src.push_str(&format!("  PRINT \"sub\"; {}\n", used));
        if !is_const {
            src.push_str(&format!("  {} = 2\n", u));
        }
        src.push_str("END SUB\n");
        src.push_str("FUNCTION Idn# (N#)\n  Idn# = N#\nEND FUNCTION\n");
        evaluations += 1;
        let one_line = src.replace('\n', " | ");
        let out = match run_program(&src, &RunOpts { budget: 10_000, ..Default::default() }) {
            Outcome::Ran(r) if matches!(r.end, End::Ok) => String::from_utf8_lossy(&r.stdout).to_string(),
            other => {
                sum.violation(ImplViolation { key: "scope-program-not-accepted".into(), input: one_line.clone(), expected: "accepted and runs".into(), observed: format!("{:?}", other).chars().take(200).collect() });
                continue;
            }
        };
        // observation: 0 local, 1 global (shared), 2 constant
        let observed = if is_const {
            if out.contains("sub 5") { 2 } else { 9 }
        } else if out.contains("main 2") {
            1
        } else if out.contains("main 1") {
            0
        } else {
            9
        };
        if observed == 9 {
            sum.violation(ImplViolation { key: "scope-unexpected-output".into(), input: one_line.clone(), expected: "main 1 / main 2 / sub 5".into(), observed: out.replace("\r\n", " | ") });
            continue;
        }
        // with a by-reference parameter of the same name the SUB's writes go to the argument Q%, not to the global
        sum.count(["lives_local", "lives_global_shared", "is_constant"][observed]);
        let id = |n: &str, s: Option<usize>| format!("({}, {})", coq_name(&n.to_uppercase()), SUFFIXES[s.unwrap_or(2)].1);
        let base_sfx = sfx;
        let params = if is_param { format!("[{}]", id(base, base_sfx)) } else { "[]".to_string() };
        let locals = if local_dim { format!("[{}]", id(base, base_sfx)) } else { "[]".to_string() };
        let shared_l = if shared { format!("[{}]", id(base, base_sfx)) } else { "[]".to_string() };
        let consts = if is_const { format!("[{}]", coq_name(&base.to_uppercase())) } else { "[]".to_string() };
        let u_name: String = u.chars().filter(|c| c.is_ascii_alphabetic()).collect();
        let u_sfx = SUFFIXES.iter().position(|(c, _)| u.ends_with(*c));
        let expr = format!("home_of [] {} {} {} {} {}", params, locals, shared_l, consts, coq_spelling(&u_name, u_sfx));
        w.push(Case {
            agree: format!("match {} with HLocal => Nat.eqb {} 0 | HGlobal => Nat.eqb {} 1 | HConstant => Nat.eqb {} 2 end", expr, observed, observed, observed),
            desc: format!("scope {} => {}", one_line, observed),
            model_expr: expr,
        });
        sum.nontrivial(src.clone());
    }
    w.flush();
    sum.write(
        &args.out,
        evaluations,
        "family 1: 8 base names x random letter case of both spellings x suffix (none or one of % & ! # $) of both x 0-3 DEFtype statements (all five kinds, single letters and ranges around the first letter of the base, ends included, upper and lower case) x optional DIM base AS type; the program assigns 1 through the first spelling, 2 through the second and prints the first; observation (one variable / two variables / second rejected) vs Resolve.relation in Coq. Family 2: a name used inside a SUB while a global, DIM SHARED global, CONST, parameter or local DIM of that name exists, optionally after a local of the same bare name with another suffix was used in the SUB, the use being plain, an argument of a built-in or of a user function, or part of a larger expression; observation (local / shared global / constant) vs Resolve.home_of. Non-trivial = distinct programs.",
    );
}
