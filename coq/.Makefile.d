theories/Base/Util.vo theories/Base/Util.glob theories/Base/Util.v.beautified theories/Base/Util.required_vo: theories/Base/Util.v 
theories/Base/Util.vio: theories/Base/Util.v 
theories/Base/Util.vos theories/Base/Util.vok theories/Base/Util.required_vos: theories/Base/Util.v 
theories/Props/C19.vo theories/Props/C19.glob theories/Props/C19.v.beautified theories/Props/C19.required_vo: theories/Props/C19.v theories/Val/Bits.vo theories/Val/BitsProofs.vo theories/Val/F64Codec.vo
theories/Props/C19.vio: theories/Props/C19.v theories/Val/Bits.vio theories/Val/BitsProofs.vio theories/Val/F64Codec.vio
theories/Props/C19.vos theories/Props/C19.vok theories/Props/C19.required_vos: theories/Props/C19.v theories/Val/Bits.vos theories/Val/BitsProofs.vos theories/Val/F64Codec.vos
theories/Val/Bits.vo theories/Val/Bits.glob theories/Val/Bits.v.beautified theories/Val/Bits.required_vo: theories/Val/Bits.v 
theories/Val/Bits.vio: theories/Val/Bits.v 
theories/Val/Bits.vos theories/Val/Bits.vok theories/Val/Bits.required_vos: theories/Val/Bits.v 
theories/Val/BitsProofs.vo theories/Val/BitsProofs.glob theories/Val/BitsProofs.v.beautified theories/Val/BitsProofs.required_vo: theories/Val/BitsProofs.v theories/Base/Util.vo theories/Val/Bits.vo
theories/Val/BitsProofs.vio: theories/Val/BitsProofs.v theories/Base/Util.vio theories/Val/Bits.vio
theories/Val/BitsProofs.vos theories/Val/BitsProofs.vok theories/Val/BitsProofs.required_vos: theories/Val/BitsProofs.v theories/Base/Util.vos theories/Val/Bits.vos
theories/Val/F64Codec.vo theories/Val/F64Codec.glob theories/Val/F64Codec.v.beautified theories/Val/F64Codec.required_vo: theories/Val/F64Codec.v theories/Val/Bits.vo theories/Val/BitsProofs.vo
theories/Val/F64Codec.vio: theories/Val/F64Codec.v theories/Val/Bits.vio theories/Val/BitsProofs.vio
theories/Val/F64Codec.vos theories/Val/F64Codec.vok theories/Val/F64Codec.required_vos: theories/Val/F64Codec.v theories/Val/Bits.vos theories/Val/BitsProofs.vos
