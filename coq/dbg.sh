#!/bin/sh
# dbg.sh <file.v> <line>: show the goal before <line>
f=$1; n=$2
head -n $((n-1)) $f > /tmp/dbg_$$.v
echo "Show." >> /tmp/dbg_$$.v
cd /verif/coq && coqc -Q theories RB -noglob /tmp/dbg_$$.v 2>&1 | grep -v "^WARNING" | tail -${3:-40}
rm -f /tmp/dbg_$$.*
