#!/bin/sh
# regenerate _CoqProject / Makefile from the files present and build everything (full .vo build)
cd "$(dirname "$0")"
(echo "-Q theories RB"; echo "-arg -w -arg -notation-overridden,-deprecated-hint-without-locality,-deprecated-syntactic-definition,-deprecated-instance-without-locality"; find theories -name '*.v' | sort) > _CoqProject.new
if ! cmp -s _CoqProject _CoqProject.new; then mv _CoqProject.new _CoqProject; coq_makefile -f _CoqProject -o Makefile >/dev/null; else rm _CoqProject.new; fi
[ -f Makefile ] || coq_makefile -f _CoqProject -o Makefile >/dev/null
timeout 3000 make -j16 "$@" 2>&1 | grep -E "Error|rror:" -B3 -A14 | head -40
