(** MKD$ / CVD against IEEE-754 binary64 as formalised by Flocq ([Flocq.IEEE754.Bits]).
    Rust's [f64::to_bits] / [f64::from_bits] are identified with Flocq's [bits_of_b64] / [b64_of_bits]
    (trusted: Rust std implements IEEE-754 binary64 interchange encoding). *)
From Coq Require Import List ZArith Lia.
From Flocq Require Import IEEE754.Binary IEEE754.Bits.
From RB Require Import Val.Bits Val.BitsProofs.
Import ListNotations.
Open Scope Z_scope.

Definition mkd (x : binary64) : list Z := f64_word_to_bytes (bits_of_b64 x).
Definition cvd (bs : list Z) : binary64 := b64_of_bits (bytes_to_f64_word bs).

Lemma bits_of_b64_range x : 0 <= bits_of_b64 x < 2 ^ 64.
Proof. exact (bits_of_binary_float_range 52 11 eq_refl eq_refl x). Qed.

Theorem mkd_is_ieee_le x : mkd x = le_bytes 8 (bits_of_b64 x).
Proof. apply f64_word_to_bytes_spec. Qed.

Theorem cvd_mkd x : cvd (mkd x) = x.
Proof.
  unfold cvd, mkd. rewrite f64_word_bytes_roundtrip by apply bits_of_b64_range.
  exact (binary_float_of_bits_of_binary_float 52 11 eq_refl eq_refl eq_refl x).
Qed.

Theorem mkd_cvd bs : length bs = 8%nat -> Forall in_byte bs -> mkd (cvd bs) = bs.
Proof.
  intros Hl Hb. unfold cvd, mkd.
  assert (Hr : 0 <= bytes_to_f64_word bs < 2 ^ 64).
  { rewrite <- (f64_bytes_word_roundtrip bs Hl Hb) at 1 2.
    rewrite f64_word_to_bytes_spec, bytes_to_f64_word_spec by apply le_bytes_in_byte.
    rewrite of_le_bytes_le_bytes. change (256 ^ Z.of_nat 8) with (2 ^ 64).
    apply Z.mod_pos_bound. lia. }
  unfold b64_of_bits, bits_of_b64.
  rewrite (bits_of_binary_float_of_bits 52 11 eq_refl eq_refl eq_refl _ Hr).
  now apply f64_bytes_word_roundtrip.
Qed.
