(** Model of rusty_bit_vec/src/lib.rs and rusty_variant/src/bits.rs.
    Models only: no proofs in this file, so it still evaluates when a proof breaks.

    Rust i32/i64/u8 values are unbounded [Z]; every place where the Rust code depends on the
    machine width is written out (the 16-iteration cap of [From<i32> for BitVec]). *)
From Coq Require Import List ZArith Bool.
Import ListNotations.
Open Scope Z_scope.

(** ** BitVec: msb first *)

Definition INT_BITS : nat := 16.
Definition LONG_BITS : nat := 32.

(** [fill_pos n x] : the loop [while x > 0 && index > 0 { index -= 1; result[index] = (x & 1) == 1; x >>= 1 }]
    run on an array of [n] cells pre-filled with [dflt]; returned lsb first.
    [inv] is [false] for the positive branch, [true] for the complemented (negative) branch, where the
    cell receives [(x & 1) == 0]. *)
Fixpoint fill (n : nat) (x : Z) (inv : bool) : list bool :=
  match n with
  | O => []
  | S n' =>
      if 0 <? x
      then xorb inv (Z.odd x) :: fill n' (Z.shiftr x 1) inv
      else inv :: fill n' x inv      (* loop has stopped: the cell keeps its pre-filled value *)
  end.

(** [impl From<i32> for BitVec] *)
Definition from_i32 (a : Z) : list bool :=
  if 0 <? a then rev (fill INT_BITS a false)
  else if a <? 0 then rev (fill INT_BITS (- a - 1) true)
  else repeat false INT_BITS.

(** macro [bits_to_integer_type]: sign = bits[0]; x = 0; for the rest: x <<= 1; if bit != sign { x |= 1 } *)
Fixpoint bits_acc (sign : bool) (x : Z) (bits : list bool) : Z :=
  match bits with
  | [] => x
  | b :: rest => bits_acc sign (Z.lor (Z.shiftl x 1) (if xorb b sign then 1 else 0)) rest
  end.

Definition bits_to_int (bits : list bool) : Z :=
  match bits with
  | [] => 0 (* debug_assert!(!bits.is_empty()) - never reached from the modelled callers *)
  | sign :: rest => let x := bits_acc sign 0 rest in if sign then - x - 1 else x
  end.

(** [BitAnd] / [BitOr] (equal lengths; the callers below only build 16-bit vectors) *)
Fixpoint map2 {A B C} (f : A -> B -> C) (l : list A) (r : list B) : list C :=
  match l, r with
  | a :: l', b :: r' => f a b :: map2 f l' r'
  | _, _ => []
  end.

Definition bitand := map2 andb.
Definition bitor := map2 orb.

(** ** bits.rs *)

Definition qb_and (a b : Z) : Z := bits_to_int (bitand (from_i32 a) (from_i32 b)).
Definition qb_or (a b : Z) : Z := bits_to_int (bitor (from_i32 a) (from_i32 b)).

(** [Variant::unary_not] on VInteger: [-a - 1] *)
Definition qb_not (a : Z) : Z := - a - 1.

(** [msb_bits_to_byte]: mask starts at 0x80 and is shifted right after each bit but the last *)
Fixpoint msb_bits_to_byte_acc (mask : Z) (acc : Z) (bits : list bool) : Z :=
  match bits with
  | [] => acc
  | b :: rest => msb_bits_to_byte_acc (Z.shiftr mask 1) (if b then Z.lor acc mask else acc) rest
  end.
Definition msb_bits_to_byte (bits : list bool) : Z := msb_bits_to_byte_acc 128 0 bits.

(** [lsb_bytes_to_msb_bits]: walks the bytes from the last to the first, each byte msb first *)
Definition byte_bits (b : Z) : list bool :=
  map (fun k => Z.testbit b (Z.of_nat k)) [7;6;5;4;3;2;1;0]%nat.
Definition lsb_bytes_to_msb_bits (bytes : list Z) : list bool :=
  flat_map byte_bits (rev bytes).

Definition i32_to_bytes (i : Z) : list Z :=
  let v := from_i32 i in
  let high := msb_bits_to_byte (firstn 8 v) in
  let low := msb_bits_to_byte (firstn 8 (skipn 8 v)) in
  [low; high].

Definition bytes_to_i32 (b : list Z) : Z := bits_to_int (lsb_bytes_to_msb_bits b).

(** ** PEEK / POKE on an INTEGER variable ([PeekByte]/[PokeByte] for [Variant::VInteger]) *)
Definition peek_byte (i : Z) (address : nat) : option Z := nth_error (i32_to_bytes i) address.

Fixpoint set_nth {A} (n : nat) (v : A) (l : list A) : list A :=
  match l, n with
  | [], _ => []
  | _ :: t, O => v :: t
  | h :: t, S n' => h :: set_nth n' v t
  end.

Definition poke_byte (i : Z) (address : nat) (value : Z) : option Z :=
  if Nat.ltb address 2 then Some (bytes_to_i32 (set_nth address value (i32_to_bytes i))) else None.

(** ** MKD$ / CVD: the 64-bit word <-> 8 bytes layer.
    [f64_to_bits] = the 64 bits of [f64::to_bits(value)], msb first;
    [f64_to_bytes] takes the eight 8-bit groups from the last to the first. *)
Definition word_bits (n : nat) (w : Z) : list bool :=
  map (fun k => Z.testbit w (Z.of_nat k)) (rev (seq 0 n)).

Definition f64_word_to_bytes (w : Z) : list Z :=
  let bits := word_bits 64 w in
  map (fun k => msb_bits_to_byte (firstn 8 (skipn (8 * k) bits))) [7;6;5;4;3;2;1;0]%nat.

Fixpoint bits_to_word (acc : Z) (bits : list bool) : Z :=
  match bits with
  | [] => acc
  | b :: rest => bits_to_word (Z.lor (Z.shiftl acc 1) (if b then 1 else 0)) rest
  end.

Definition bytes_to_f64_word (bytes : list Z) : Z := bits_to_word 0 (lsb_bytes_to_msb_bits bytes).
