(** Proofs about the bit-level model (C19). *)
From Coq Require Import List ZArith Bool Lia.
From RB Require Import Base.Util Val.Bits.
Import ListNotations.
Open Scope Z_scope.
Ltac Zify.zify_post_hook ::= Z.div_mod_to_equations.

Definition in_int (z : Z) : Prop := -32768 <= z <= 32767.
Definition in_byte (z : Z) : Prop := 0 <= z < 256.
(** the 16-bit two's complement word of an INTEGER *)
Definition to_word (z : Z) : Z := z mod 65536.
(** the INTEGER a 16-bit word denotes *)
Definition of_word (w : Z) : Z := if w <? 32768 then w else w - 65536.

Lemma to_word_range z : 0 <= to_word z < 65536.
Proof. unfold to_word. apply Z.mod_pos_bound; lia. Qed.

Lemma of_to_word z : in_int z -> of_word (to_word z) = z.
Proof.
  unfold in_int, of_word, to_word; intros H.
  destruct (Z.ltb_spec (z mod 65536) 32768); lia.
Qed.

Lemma to_of_word w : 0 <= w < 65536 -> to_word (of_word w) = w /\ in_int (of_word w).
Proof.
  unfold in_int, of_word, to_word; intros H.
  destruct (Z.ltb_spec w 32768); lia.
Qed.

(** ** [From<i32> for BitVec] produces the 16 low bits, msb first *)

Lemma fill_spec n : forall x inv, 0 <= x ->
  fill n x inv = map (fun k => xorb inv (Z.testbit x (Z.of_nat k))) (seq 0 n).
Proof.
  induction n as [|n IH]; intros x inv Hx; [reflexivity|].
  cbn [fill seq map]. destruct (Z.ltb_spec 0 x) as [Hpos|Hzero].
  - rewrite Z.bit0_odd. f_equal. rewrite IH by (apply Z.shiftr_nonneg; lia).
    rewrite <- seq_shift, map_map. apply map_ext; intros k.
    rewrite Z.shiftr_spec by lia. do 2 f_equal. lia.
  - assert (x = 0) by lia; subst x. rewrite Z.bits_0, xorb_false_r. f_equal.
    rewrite IH by lia. rewrite <- seq_shift, map_map. apply map_ext; intros k.
    now rewrite !Z.bits_0.
Qed.

Theorem from_i32_spec a : from_i32 a = word_bits 16 a.
Proof.
  unfold from_i32, word_bits, INT_BITS.
  destruct (Z.ltb_spec 0 a) as [Hpos|Hnp].
  - rewrite fill_spec by lia. rewrite <- map_rev. apply map_ext; intros k. apply xorb_false_l.
  - destruct (Z.ltb_spec a 0) as [Hneg|Hnn].
    + rewrite fill_spec by lia. rewrite <- map_rev. apply map_ext; intros k.
      replace (- a - 1) with (Z.lnot a) by (unfold Z.lnot; lia).
      rewrite Z.lnot_spec by lia. now destruct (Z.testbit a (Z.of_nat k)).
    + assert (a = 0) by lia; subst a. cbn. reflexivity.
Qed.

(** [word_bits] depends only on the low bits *)
Lemma word_bits_mod n w : word_bits n (w mod 2 ^ Z.of_nat n) = word_bits n w.
Proof.
  unfold word_bits. apply map_ext_in; intros k Hk.
  apply in_rev, in_seq in Hk. apply Z.mod_pow2_bits_low. lia.
Qed.

(** ** Finite sweeps over all 65536 words (lifted by [all_below_spec]) *)

Lemma sweep16_bits_to_int :
  all_below 16 0 (fun w => bits_to_int (word_bits 16 w) =? of_word w) = true.
Proof. vm_compute. reflexivity. Qed.

Lemma bits_to_int_word16 w : 0 <= w < 65536 -> bits_to_int (word_bits 16 w) = of_word w.
Proof.
  intros H. apply Z.eqb_eq.
  apply (all_below_spec 16 0 (fun w => bits_to_int (word_bits 16 w) =? of_word w) sweep16_bits_to_int).
  change (2 ^ Z.of_nat 16) with 65536. lia.
Qed.

Lemma bits_to_int_word16_any c : bits_to_int (word_bits 16 c) = of_word (to_word c).
Proof.
  rewrite <- (word_bits_mod 16 c). change (2 ^ Z.of_nat 16) with 65536.
  apply bits_to_int_word16, to_word_range.
Qed.

Theorem bits_to_i32_from_i32 a : in_int a -> bits_to_int (from_i32 a) = a.
Proof. intros H. rewrite from_i32_spec, bits_to_int_word16_any. now apply of_to_word. Qed.

(** ** AND / OR / NOT are the bitwise operations on the 16-bit words *)

Lemma map2_map {A B C D} (f : B -> C -> D) (g h : A -> _) l :
  map2 f (map g l) (map h l) = map (fun x => f (g x) (h x)) l.
Proof. induction l as [|x l IH]; cbn; [reflexivity|now rewrite IH]. Qed.

Lemma bitand_word_bits n a b : bitand (word_bits n a) (word_bits n b) = word_bits n (Z.land a b).
Proof.
  unfold bitand, word_bits. rewrite map2_map. apply map_ext; intros k. now rewrite Z.land_spec.
Qed.

Lemma bitor_word_bits n a b : bitor (word_bits n a) (word_bits n b) = word_bits n (Z.lor a b).
Proof.
  unfold bitor, word_bits. rewrite map2_map. apply map_ext; intros k. now rewrite Z.lor_spec.
Qed.

Lemma to_word_land a b : to_word (Z.land a b) = Z.land (to_word a) (to_word b).
Proof.
  unfold to_word. change 65536 with (2 ^ 16). rewrite <- !Z.land_ones by lia.
  apply Z.bits_inj'; intros n Hn. rewrite !Z.land_spec.
  destruct (Z.testbit a n), (Z.testbit b n), (Z.testbit (Z.ones 16) n); reflexivity.
Qed.

Lemma to_word_lor a b : to_word (Z.lor a b) = Z.lor (to_word a) (to_word b).
Proof.
  unfold to_word. change 65536 with (2 ^ 16). rewrite <- !Z.land_ones by lia.
  apply Z.bits_inj'; intros n Hn. rewrite !Z.land_spec, !Z.lor_spec, !Z.land_spec.
  destruct (Z.testbit a n), (Z.testbit b n), (Z.testbit (Z.ones 16) n); reflexivity.
Qed.

Theorem qb_and_spec a b : qb_and a b = of_word (Z.land (to_word a) (to_word b)).
Proof.
  unfold qb_and. rewrite !from_i32_spec, bitand_word_bits, bits_to_int_word16_any.
  now rewrite to_word_land.
Qed.

Theorem qb_or_spec a b : qb_or a b = of_word (Z.lor (to_word a) (to_word b)).
Proof.
  unfold qb_or. rewrite !from_i32_spec, bitor_word_bits, bits_to_int_word16_any.
  now rewrite to_word_lor.
Qed.

Lemma land_word_range a b : 0 <= a < 65536 -> 0 <= b < 65536 -> 0 <= Z.land a b < 65536.
Proof.
  intros Ha Hb. split; [apply Z.land_nonneg; lia|].
  destruct (Z.eq_dec (Z.land a b) 0) as [->|Hnz]; [lia|].
  apply Z.log2_lt_cancel. change (Z.log2 65536) with 16.
  assert (Z.log2 (Z.land a b) <= Z.min (Z.log2 a) (Z.log2 b)) by (apply Z.log2_land; lia).
  assert (Z.log2 a < 16) by (destruct (Z.eq_dec a 0) as [->|]; [cbn; lia|apply Z.log2_lt_pow2; lia]).
  lia.
Qed.

Lemma lor_word_range a b : 0 <= a < 65536 -> 0 <= b < 65536 -> 0 <= Z.lor a b < 65536.
Proof.
  intros Ha Hb. split; [apply Z.lor_nonneg; lia|].
  destruct (Z.eq_dec (Z.lor a b) 0) as [->|Hnz]; [lia|].
  apply Z.log2_lt_cancel. change (Z.log2 65536) with 16.
  rewrite Z.log2_lor by lia.
  assert (Z.log2 a < 16) by (destruct (Z.eq_dec a 0) as [->|]; [cbn; lia|apply Z.log2_lt_pow2; lia]).
  assert (Z.log2 b < 16) by (destruct (Z.eq_dec b 0) as [->|]; [cbn; lia|apply Z.log2_lt_pow2; lia]).
  lia.
Qed.

(** The property as stated: the result is an INTEGER whose word is the AND / OR of the operand words. *)
Theorem qb_and_is_word_and a b : in_int a -> in_int b ->
  in_int (qb_and a b) /\ to_word (qb_and a b) = Z.land (to_word a) (to_word b).
Proof.
  intros _ _. rewrite qb_and_spec.
  destruct (to_of_word (Z.land (to_word a) (to_word b))) as [H1 H2];
    [apply land_word_range; apply to_word_range|]. split; assumption.
Qed.

Theorem qb_or_is_word_or a b : in_int a -> in_int b ->
  in_int (qb_or a b) /\ to_word (qb_or a b) = Z.lor (to_word a) (to_word b).
Proof.
  intros _ _. rewrite qb_or_spec.
  destruct (to_of_word (Z.lor (to_word a) (to_word b))) as [H1 H2];
    [apply lor_word_range; apply to_word_range|]. split; assumption.
Qed.

(** NOT: [-a-1] stays an INTEGER and its word is the complement [65535 - word] *)
Theorem qb_not_is_word_not a : in_int a ->
  in_int (qb_not a) /\ to_word (qb_not a) = 65535 - to_word a.
Proof.
  unfold in_int, qb_not, to_word; intros H. split; lia.
Qed.

(** ** The two bytes of an INTEGER: the word, low byte first *)

Lemma sweep16_i32_to_bytes :
  all_below 16 0 (fun w =>
     list_eqb Z.eqb [msb_bits_to_byte (firstn 8 (skipn 8 (word_bits 16 w)));
                     msb_bits_to_byte (firstn 8 (word_bits 16 w))]
                    [w mod 256; w / 256]) = true.
Proof. vm_compute. reflexivity. Qed.

Theorem i32_to_bytes_spec i : i32_to_bytes i = [to_word i mod 256; to_word i / 256].
Proof.
  unfold i32_to_bytes. rewrite from_i32_spec.
  rewrite <- (word_bits_mod 16 i). change (2 ^ Z.of_nat 16) with 65536. fold (to_word i).
  apply (list_eqb_eq Z.eqb); [intros; now apply Z.eqb_eq|].
  apply (all_below_spec 16 0 _ sweep16_i32_to_bytes).
  change (2 ^ Z.of_nat 16) with 65536. pose proof (to_word_range i). lia.
Qed.

Lemma sweep16_bytes_to_i32 :
  all_below 16 0 (fun w => bytes_to_i32 [w mod 256; w / 256] =? of_word w) = true.
Proof. vm_compute. reflexivity. Qed.

Theorem bytes_to_i32_spec lo hi : in_byte lo -> in_byte hi ->
  bytes_to_i32 [lo; hi] = of_word (lo + 256 * hi).
Proof.
  unfold in_byte; intros Hlo Hhi.
  assert (Hw : 0 <= lo + 256 * hi < 65536) by lia.
  pose proof (all_below_spec 16 0 _ sweep16_bytes_to_i32 (lo + 256 * hi)) as H.
  cbv beta in H. change (2 ^ Z.of_nat 16) with 65536 in H. specialize (H ltac:(lia)).
  apply Z.eqb_eq in H.
  replace ((lo + 256 * hi) mod 256) with lo in H by lia.
  replace ((lo + 256 * hi) / 256) with hi in H by lia.
  exact H.
Qed.

Theorem i32_bytes_roundtrip i : in_int i -> bytes_to_i32 (i32_to_bytes i) = i.
Proof.
  intros H. rewrite i32_to_bytes_spec.
  pose proof (to_word_range i) as Hr.
  rewrite bytes_to_i32_spec.
  - replace (to_word i mod 256 + 256 * (to_word i / 256)) with (to_word i) by lia.
    now apply of_to_word.
  - unfold in_byte. lia.
  - unfold in_byte. lia.
Qed.

Theorem bytes_i32_roundtrip lo hi : in_byte lo -> in_byte hi ->
  i32_to_bytes (bytes_to_i32 [lo; hi]) = [lo; hi] /\ in_int (bytes_to_i32 [lo; hi]).
Proof.
  intros Hlo Hhi. rewrite bytes_to_i32_spec by assumption. unfold in_byte in *.
  destruct (to_of_word (lo + 256 * hi)) as [Hw Hi]; [lia|]. split; [|exact Hi].
  rewrite i32_to_bytes_spec, Hw. f_equal; [|f_equal]; lia.
Qed.

(** ** PEEK / POKE *)

Theorem peek_bytes_are_word i : in_int i ->
  peek_byte i 0 = Some (to_word i mod 256) /\ peek_byte i 1 = Some (to_word i / 256).
Proof. intros _. unfold peek_byte. rewrite i32_to_bytes_spec. split; reflexivity. Qed.

Theorem poke_peek i k v : in_int i -> in_byte v -> (k < 2)%nat ->
  exists i', poke_byte i k v = Some i' /\ in_int i' /\
    peek_byte i' k = Some v /\
    (forall k', (k' < 2)%nat -> k' <> k -> peek_byte i' k' = peek_byte i k').
Proof.
  intros Hi Hv Hk. unfold poke_byte. destruct (Nat.ltb_spec k 2) as [_|]; [|lia].
  eexists; split; [reflexivity|].
  rewrite i32_to_bytes_spec.
  pose proof (to_word_range i) as Hr.
  assert (Hlo : in_byte (to_word i mod 256)) by (unfold in_byte; lia).
  assert (Hhi : in_byte (to_word i / 256)) by (unfold in_byte; lia).
  destruct k as [|[|k]]; [| |lia]; cbn [set_nth].
  - destruct (bytes_i32_roundtrip v (to_word i / 256) Hv Hhi) as [Hb Hin]. split; [exact Hin|].
    unfold peek_byte. rewrite Hb, i32_to_bytes_spec. split; [reflexivity|].
    intros [|[|k']] Hk' Hne; try lia. reflexivity.
  - destruct (bytes_i32_roundtrip (to_word i mod 256) v Hlo Hv) as [Hb Hin]. split; [exact Hin|].
    unfold peek_byte. rewrite Hb, i32_to_bytes_spec. split; [reflexivity|].
    intros [|[|k']] Hk' Hne; try lia. reflexivity.
Qed.

(** ** The 64-bit word <-> eight bytes layer of MKD$ / CVD *)

Fixpoint le_bytes (n : nat) (w : Z) : list Z :=
  match n with O => [] | S n' => w mod 256 :: le_bytes n' (w / 256) end.

Fixpoint of_le_bytes (l : list Z) : Z :=
  match l with [] => 0 | b :: t => b + 256 * of_le_bytes t end.

Lemma of_le_bytes_le_bytes n : forall w, of_le_bytes (le_bytes n w) = w mod 256 ^ Z.of_nat n.
Proof.
  induction n as [|n IH]; intros w.
  - cbn. now rewrite Z.mod_1_r.
  - cbn [le_bytes of_le_bytes]. rewrite IH, Nat2Z.inj_succ, Z.pow_succ_r by lia.
    rewrite Z.rem_mul_r by lia. reflexivity.
Qed.

Lemma le_bytes_in_byte n : forall w, Forall in_byte (le_bytes n w).
Proof.
  induction n as [|n IH]; intros w; cbn; constructor; [|apply IH].
  unfold in_byte. apply Z.mod_pos_bound; lia.
Qed.

Lemma sweep8_msb_bits_to_byte :
  all_below 8 0 (fun v => msb_bits_to_byte (byte_bits v) =? v) = true.
Proof. vm_compute. reflexivity. Qed.

Lemma byte_bits_mod v : byte_bits (v mod 256) = byte_bits v.
Proof.
  unfold byte_bits. apply map_ext_in; intros k Hk.
  change 256 with (2 ^ 8). apply Z.mod_pow2_bits_low.
  cbn in Hk. intuition subst; cbn; lia.
Qed.

Lemma msb_bits_to_byte_byte_bits v : msb_bits_to_byte (byte_bits v) = v mod 256.
Proof.
  rewrite <- byte_bits_mod. apply Z.eqb_eq.
  apply (all_below_spec 8 0 _ sweep8_msb_bits_to_byte).
  change (2 ^ Z.of_nat 8) with 256. pose proof (Z.mod_pos_bound v 256). lia.
Qed.

Lemma group_of_word_bits w k : (k < 8)%nat ->
  firstn 8 (skipn (8 * k) (word_bits 64 w)) = byte_bits (Z.shiftr w (Z.of_nat (8 * (7 - k)))).
Proof.
  intros Hk. unfold word_bits, byte_bits.
  do 8 (destruct k as [|k]; [cbn [seq rev app map Nat.mul Nat.add Nat.sub skipn firstn];
    rewrite !Z.shiftr_spec by lia; reflexivity|]).
  lia.
Qed.

Theorem f64_word_to_bytes_spec w : f64_word_to_bytes w = le_bytes 8 w.
Proof.
  unfold f64_word_to_bytes. cbn [map].
  rewrite !group_of_word_bits by lia. rewrite !msb_bits_to_byte_byte_bits.
  cbn [le_bytes Nat.mul Nat.sub Nat.add Z.of_nat Pos.of_succ_nat Pos.succ].
  rewrite !Z.shiftr_div_pow2 by lia.
  rewrite !Z.div_div by lia. change (2 ^ 0) with 1. rewrite Z.div_1_r. reflexivity.
Qed.

Lemma bits_to_word_app l1 : forall acc l2,
  bits_to_word acc (l1 ++ l2) = bits_to_word (bits_to_word acc l1) l2.
Proof. induction l1 as [|b l1 IH]; intros acc l2; cbn [bits_to_word app]; [reflexivity|apply IH]. Qed.

Lemma lor_shift_bit x (b : bool) : 0 <= x ->
  Z.lor (Z.shiftl x 1) (if b then 1 else 0) = 2 * x + (if b then 1 else 0).
Proof.
  intros Hx. rewrite Z.shiftl_mul_pow2 by lia. change (2 ^ 1) with 2.
  destruct b; [|rewrite Z.lor_0_r; lia].
  assert (HL : Z.land (x * 2) 1 = 0).
  { change 1 with (Z.ones 1). rewrite Z.land_ones by lia. change (2 ^ 1) with 2. lia. }
  rewrite <- Z.lxor_lor by exact HL. rewrite <- Z.add_nocarry_lxor by exact HL. lia.
Qed.

Lemma bits_to_word_nonneg l : forall acc, 0 <= acc -> 0 <= bits_to_word acc l.
Proof.
  induction l as [|b l IH]; intros acc Ha; cbn [bits_to_word]; [exact Ha|].
  apply IH. rewrite lor_shift_bit by lia. destruct b; lia.
Qed.

Lemma bits_to_word_acc l : forall acc, 0 <= acc ->
  bits_to_word acc l = acc * 2 ^ Z.of_nat (length l) + bits_to_word 0 l.
Proof.
  induction l as [|b l IH]; intros acc Ha.
  - cbn. lia.
  - cbn [bits_to_word length]. rewrite (IH (Z.lor (Z.shiftl acc 1) _)).
    2:{ rewrite lor_shift_bit by lia. destruct b; lia. }
    rewrite (IH (Z.lor (Z.shiftl 0 1) _)).
    2:{ rewrite lor_shift_bit by lia. destruct b; lia. }
    rewrite !lor_shift_bit by lia. rewrite Nat2Z.inj_succ, Z.pow_succ_r by lia. ring.
Qed.

Lemma sweep8_bits_to_word : all_below 8 0 (fun v => bits_to_word 0 (byte_bits v) =? v) = true.
Proof. vm_compute. reflexivity. Qed.

Lemma bits_to_word_byte_bits v : in_byte v -> bits_to_word 0 (byte_bits v) = v.
Proof.
  intros H. apply Z.eqb_eq. apply (all_below_spec 8 0 _ sweep8_bits_to_word).
  change (2 ^ Z.of_nat 8) with 256. exact H.
Qed.

Lemma bits_to_word_bytes l : Forall in_byte l -> forall acc, 0 <= acc ->
  bits_to_word acc (flat_map byte_bits (rev l)) = acc * 256 ^ Z.of_nat (length l) + of_le_bytes l.
Proof.
  induction 1 as [|b l Hb Hl IH]; intros acc Ha.
  - cbn [rev flat_map bits_to_word length of_le_bytes Z.of_nat]. rewrite Z.pow_0_r. lia.
  - cbn [rev]. rewrite flat_map_app, bits_to_word_app, IH by lia.
    cbn [flat_map]. rewrite app_nil_r, bits_to_word_acc.
    2:{ assert (0 <= of_le_bytes l).
        { clear -Hl. induction Hl as [|x l Hx _ IHl]; cbn [of_le_bytes]; [lia|]. unfold in_byte in Hx; lia. }
        assert (0 <= 256 ^ Z.of_nat (length l)) by (apply Z.pow_nonneg; lia). nia. }
    rewrite bits_to_word_byte_bits by assumption.
    change (length (byte_bits b)) with 8%nat. change (2 ^ Z.of_nat 8) with 256.
    cbn [length of_le_bytes]. rewrite Nat2Z.inj_succ, Z.pow_succ_r by lia. ring.
Qed.

Theorem bytes_to_f64_word_spec l : Forall in_byte l -> bytes_to_f64_word l = of_le_bytes l.
Proof.
  intros H. unfold bytes_to_f64_word, lsb_bytes_to_msb_bits.
  rewrite bits_to_word_bytes by (assumption || lia). lia.
Qed.

Theorem f64_word_bytes_roundtrip w : 0 <= w < 2 ^ 64 ->
  bytes_to_f64_word (f64_word_to_bytes w) = w.
Proof.
  intros Hw. rewrite f64_word_to_bytes_spec, bytes_to_f64_word_spec by apply le_bytes_in_byte.
  rewrite of_le_bytes_le_bytes. change (256 ^ Z.of_nat 8) with (2 ^ 64). apply Z.mod_small; exact Hw.
Qed.

Lemma le_bytes_of_le_bytes l : Forall in_byte l -> le_bytes (length l) (of_le_bytes l) = l.
Proof.
  induction 1 as [|b l Hb Hl IH]; [reflexivity|].
  cbn [length le_bytes of_le_bytes]. unfold in_byte in Hb.
  replace ((b + 256 * of_le_bytes l) mod 256) with b by lia.
  replace ((b + 256 * of_le_bytes l) / 256) with (of_le_bytes l) by lia.
  now rewrite IH.
Qed.

Theorem f64_bytes_word_roundtrip l : length l = 8%nat -> Forall in_byte l ->
  f64_word_to_bytes (bytes_to_f64_word l) = l.
Proof.
  intros Hlen Hb. rewrite f64_word_to_bytes_spec, bytes_to_f64_word_spec by assumption.
  rewrite <- Hlen. now apply le_bytes_of_le_bytes.
Qed.
