(** Conversions and arithmetic keep values inside their type (C06). *)
From Coq Require Import List ZArith Bool Lia Floats.SpecFloat.
From RB Require Import Val.Variant.
Import ListNotations.
Open Scope Z_scope.

Definition is_whole (q : qual) : bool := match q with QInteger | QLong => true | _ => false end.
Definition in_range (q : qual) (z : Z) : bool := match q with QInteger => in_int z | QLong => in_long z | _ => false end.

(** the whole number a numeric value converts to: itself, or the float rounded half away from zero *)
Definition to_whole (v : variant) : option Z :=
  match v with
  | VInteger z | VLong z => Some z
  | VSingle f | VDouble f => round_half_away f
  | VString _ => None
  end.

Definition whole_value (v : variant) : option Z :=
  match v with VInteger z | VLong z => Some z | _ => None end.

(** a whole-number source is inside its own type *)
Definition whole_ok (v : variant) : bool :=
  match v with VInteger z => in_int z | VLong z => in_long z | _ => true end.

Lemma in_int_long z : in_int z = true -> in_long z = true.
Proof. unfold in_int, in_long, MIN_INTEGER, MAX_INTEGER, MIN_LONG, MAX_LONG. intros H.
  apply andb_true_iff in H as [H1 H2]. apply Z.leb_le in H1, H2. apply andb_true_iff; split; apply Z.leb_le; lia. Qed.

(** Converting to INTEGER / LONG: the result has that type, lies in its range and is the source value
    rounded to the nearest whole number (half away from zero) *)
Theorem cast_whole_sound v q v' : is_whole q = true -> whole_ok v = true -> cast v q = Ok v' ->
  tag v' = q /\ holds v' q = true /\
  exists z, whole_value v' = Some z /\ to_whole v = Some z /\ in_range q z = true.
Proof.
  intros Hq Hok H. destruct q; try discriminate Hq; destruct v as [f|f|z|z|s]; cbn [cast] in H;
    unfold float_to_int, float_to_long in H; cbn [whole_ok] in Hok;
    try (destruct (round_half_away f) as [r|] eqn:Er; [|discriminate H]);
    try (destruct (in_int r) eqn:Ei; [|discriminate H]);
    try (destruct (in_long r) eqn:Ei; [|discriminate H]);
    try (destruct (in_int z) eqn:Ez; [|discriminate H]);
    try discriminate H; inversion H; subst; cbn [tag holds whole_value to_whole in_range];
    repeat split; eauto using in_int_long.
Qed.

(** ... and the conversion fails with Overflow exactly when the rounded value is outside the range *)
Theorem cast_whole_overflow_iff v q : is_whole q = true -> whole_ok v = true ->
  (cast v q = Err EOverflow <-> exists z, to_whole v = Some z /\ in_range q z = false).
Proof.
  intros Hq Hok. destruct q; try discriminate Hq; destruct v as [f|f|z|z|s];
    cbn [cast to_whole in_range whole_ok] in *; unfold float_to_int, float_to_long.
  all: try (destruct (round_half_away f) as [r|] eqn:Er).
  all: try match goal with |- context [in_int ?x] => destruct (in_int x) eqn:Ei1 end.
  all: try match goal with |- context [in_long ?x] => destruct (in_long x) eqn:Ei2 end.
  all: split; intros H; try discriminate H; try reflexivity.
  all: try (destruct H as (z' & H1 & H2); try discriminate H1; inversion H1; subst; congruence).
  all: try (eexists; split; [reflexivity|assumption]).
  all: try (apply in_int_long in Hok; destruct H as (z' & H1 & H2); inversion H1; subst; congruence).
Qed.

(** it never fails otherwise, except for a non-finite float (NotFiniteNumber) or a string (TypeMismatch) *)
Theorem cast_whole_total v q : is_whole q = true ->
  (exists v', cast v q = Ok v') \/ cast v q = Err EOverflow \/
  (cast v q = Err ENotFinite /\ to_whole v = None /\ tag v <> QString) \/
  (cast v q = Err ETypeMismatch /\ tag v = QString).
Proof.
  intros Hq. destruct q; try discriminate Hq; destruct v as [f|f|z|z|s]; cbn [cast to_whole tag];
    unfold float_to_int, float_to_long;
    try (destruct (round_half_away f) as [r|] eqn:Er);
    try (destruct (in_int r)); try (destruct (in_long r)); try (destruct (in_int z));
    eauto 6; right; right; left; repeat split; congruence.
Qed.

(** Converting to SINGLE / DOUBLE keeps the tag; a finite DOUBLE that does not fit a SINGLE is Overflow *)
Theorem cast_float_sound v q v' : (q = QSingle \/ q = QDouble) -> cast v q = Ok v' -> tag v' = q.
Proof.
  intros [->| ->] H; destruct v as [f|f|z|z|s]; cbn [cast] in H; try discriminate H;
    try (unfold double_to_single_checked in H; destruct (sf_finite (double_to_single f) || negb (sf_finite f)); [|discriminate H]);
    inversion H; reflexivity.
Qed.

Theorem cast_double_to_single_finite d v' : sf_finite d = true -> cast (VDouble d) QSingle = Ok v' -> holds v' QSingle = true.
Proof.
  intros Hd H. cbn [cast] in H. unfold double_to_single_checked in H. rewrite Hd in H. cbn [negb] in H.
  rewrite orb_false_r in H. destruct (sf_finite (double_to_single d)) eqn:E; [|discriminate H].
  inversion H; subst. exact E.
Qed.

(** + - * : when the operation succeeds the result has the type the checker assigns (the wider of the
    two operand types) and lies inside that type; for whole numbers it is the exact result *)
Definition numeric (v : variant) : bool := match v with VString _ => false | _ => true end.

Theorem arith_typed o a b v : numeric a = true -> numeric b = true -> arith o a b = Ok v ->
  bigger (tag a) (tag b) = Some (tag v) /\ holds v (tag v) = true.
Proof.
  intros Ha Hb H. destruct a as [x|x|x|x|x]; destruct b as [y|y|y|y|y]; try discriminate Ha; try discriminate Hb;
    cbn [arith] in H; unfold checked_integer, checked_long, checked_single, checked_double in H;
    match type of H with
    | (if ?c then _ else _) = _ => destruct c eqn:E; [|discriminate H]
    end; inversion H; subst; cbn [tag bigger holds]; split; auto.
Qed.

Theorem arith_whole_exact o x y :
  arith o (VInteger x) (VInteger y) = (if in_int (z_op o x y) then Ok (VInteger (z_op o x y)) else Err EOverflow) /\
  arith o (VLong x) (VLong y) = (if in_long (z_op o x y) then Ok (VLong (z_op o x y)) else Err EOverflow) /\
  arith o (VInteger x) (VLong y) = (if in_long (z_op o x y) then Ok (VLong (z_op o x y)) else Err EOverflow) /\
  arith o (VLong x) (VInteger y) = (if in_long (z_op o x y) then Ok (VLong (z_op o x y)) else Err EOverflow).
Proof. repeat split. Qed.

(** arithmetic never fails on numbers except by Overflow *)
Theorem arith_total o a b : numeric a = true -> numeric b = true ->
  (exists v, arith o a b = Ok v) \/ arith o a b = Err EOverflow.
Proof.
  intros Ha Hb. destruct a as [x|x|x|x|x]; destruct b as [y|y|y|y|y]; try discriminate Ha; try discriminate Hb;
    cbn [arith]; unfold checked_integer, checked_long, checked_single, checked_double;
    match goal with |- (exists v, (if ?c then _ else _) = _) \/ _ => destruct c end; eauto.
Qed.

(** Storing: the generator converts exactly when the static type of the source differs from the target.
    If the value really has its static type, what is stored in a whole-number target is inside that
    target's type - or the statement fails with Overflow. *)
Theorem store_whole_typed q qs v v' : is_whole q = true ->
  tag v = qs -> holds v qs = true -> store q qs v = Ok v' -> tag v' = q /\ holds v' q = true.
Proof.
  intros Hq Ht Hh H.
  assert (Hok : whole_ok v = true).
  { destruct v; cbn in *; subst; cbn in Hh; auto. }
  destruct q; try discriminate Hq; destruct qs; cbn [store] in H;
    try (apply cast_whole_sound in H as (H1 & H2 & _); [split; assumption|reflexivity|exact Hok]);
    inversion H; subst; split; assumption.
Qed.

Theorem store_whole_fails_only_by_overflow q qs v e : is_whole q = true ->
  tag v = qs -> holds v qs = true -> qs <> QString -> store q qs v = Err e -> e = EOverflow.
Proof.
  intros Hq Ht Hh Hs H.
  destruct (cast_whole_total v q Hq) as [[v' Hc]|[Hc|[(Hc & Hn & _)|(Hc & Hstr)]]].
  - destruct q; try discriminate Hq; destruct qs; cbn [store] in H; congruence.
  - destruct q; try discriminate Hq; destruct qs; cbn [store] in H; congruence.
  - exfalso. destruct v as [f|f|z|z|s]; cbn in Hn; try discriminate Hn; subst qs; cbn in Hh.
    all: try (destruct f; cbn in *; congruence).
    all: try (destruct q; cbn in *; congruence).
  - congruence.
Qed.

(** Storing into SINGLE / DOUBLE from a float of its static type: the result is finite or Overflow *)
Theorem store_float_from_float_typed q qs v v' : (q = QSingle \/ q = QDouble) -> (qs = QSingle \/ qs = QDouble) ->
  tag v = qs -> holds v qs = true -> store q qs v = Ok v' -> tag v' = q /\
  (q = QSingle -> holds v' q = true).
Proof.
  intros Hq Hqs Ht Hh H. destruct Hq as [->| ->]; destruct Hqs as [->| ->]; cbn [store] in H;
    destruct v as [f|f|z|z|s]; cbn in Ht; try discriminate Ht; cbn [holds] in Hh.
  - inversion H; subst. split; [reflexivity|auto].
  - split; [eapply cast_float_sound; eauto|]. intros _. eapply cast_double_to_single_finite; eauto.
  - cbn [cast] in H. inversion H. split; [reflexivity|discriminate].
  - inversion H; subst. split; [reflexivity|discriminate].
Qed.
