(** Model of rusty_variant::Variant (scalar part), of the numeric conversions
    (rusty_linter/src/core/qb_casting.rs: QBNumberCast, CastVariant) and of the arithmetic in
    rusty_variant/src/variant.rs and fit.rs. SINGLE and DOUBLE are [spec_float] values of
    binary32 / binary64 (Coq.Floats.SpecFloat: computable, proof free, round to nearest even).
    Models only. *)
From Coq Require Import List ZArith Bool Floats.SpecFloat.
From RB Require Export Generated.Tables.
Import ListNotations.
Open Scope Z_scope.

Inductive variant :=
| VSingle (f : spec_float)
| VDouble (f : spec_float)
| VInteger (z : Z)
| VLong (z : Z)
| VString (s : list Z).

Inductive verr := EOverflow | ETypeMismatch | ENotFinite | EDivisionByZero | EOutOfData.

Inductive vres (A : Type) := Ok (a : A) | Err (e : verr).
Arguments Ok {A}. Arguments Err {A}.

Definition MIN_INTEGER := -32768. Definition MAX_INTEGER := 32767.
Definition MIN_LONG := -2147483648. Definition MAX_LONG := 2147483647.
Definition in_int (z : Z) : bool := (MIN_INTEGER <=? z) && (z <=? MAX_INTEGER).
Definition in_long (z : Z) : bool := (MIN_LONG <=? z) && (z <=? MAX_LONG).

(** binary32 / binary64 *)
Definition p32 := 24. Definition e32 := 128. Definition p64 := 53. Definition e64 := 1024.

Definition sf_finite (f : spec_float) : bool :=
  match f with S754_zero _ | S754_finite _ _ _ => true | _ => false end.

(** [i as f32] / [i as f64] *)
Definition z_to_single (z : Z) : spec_float := binary_normalize p32 e32 z 0 false.
Definition z_to_double (z : Z) : spec_float := binary_normalize p64 e64 z 0 false.

(** [f as f64] (exact) and [d as f32] (round to nearest even, overflow to infinity) *)
Definition renorm (prec emax : Z) (f : spec_float) : spec_float :=
  match f with
  | S754_finite s m e => binary_normalize prec emax (cond_Zopp s (Zpos m)) e s
  | other => other
  end.
Definition single_to_double : spec_float -> spec_float := renorm p64 e64.
Definition double_to_single : spec_float -> spec_float := renorm p32 e32.

(** [f.round()] (half away from zero) as an integer; [None] for infinities and NaN *)
Definition round_half_away (f : spec_float) : option Z :=
  match f with
  | S754_zero _ => Some 0
  | S754_finite s m e =>
      let mag :=
        if 0 <=? e then Zpos m * 2 ^ e
        else let d := 2 ^ (- e) in
             let q := Zpos m / d in
             let r := Zpos m mod d in
             if d <=? 2 * r then q + 1 else q in
      Some (if s then - mag else mag)
  | _ => None
  end.

(** QBNumberCast<i32> / <i64> for f32, f64 *)
Definition float_to_int (f : spec_float) : vres Z :=
  match round_half_away f with
  | None => Err ENotFinite
  | Some r => if in_int r then Ok r else Err EOverflow
  end.
Definition float_to_long (f : spec_float) : vres Z :=
  match round_half_away f with
  | None => Err ENotFinite
  | Some r => if in_long r then Ok r else Err EOverflow
  end.

(** [double as f32]: Overflow when a finite double does not fit a single *)
Definition double_to_single_checked (d : spec_float) : vres spec_float :=
  let f := double_to_single d in
  if sf_finite f || negb (sf_finite d) then Ok f else Err EOverflow.

(** [CastVariant::cast] *)
Definition cast (v : variant) (q : qual) : vres variant :=
  match q, v with
  | QSingle, VSingle f => Ok (VSingle f)
  | QSingle, VDouble d => match double_to_single_checked d with Ok f => Ok (VSingle f) | Err e => Err e end
  | QSingle, VInteger z | QSingle, VLong z => Ok (VSingle (z_to_single z))
  | QDouble, VSingle f => Ok (VDouble (single_to_double f))
  | QDouble, VDouble d => Ok (VDouble d)
  | QDouble, VInteger z | QDouble, VLong z => Ok (VDouble (z_to_double z))
  | QInteger, VSingle f | QInteger, VDouble f => match float_to_int f with Ok z => Ok (VInteger z) | Err e => Err e end
  | QInteger, VInteger z => Ok (VInteger z)
  | QInteger, VLong z => if in_int z then Ok (VInteger z) else Err EOverflow
  | QLong, VSingle f | QLong, VDouble f => match float_to_long f with Ok z => Ok (VLong z) | Err e => Err e end
  | QLong, VInteger z => Ok (VLong z)
  | QLong, VLong z => Ok (VLong z)
  | QString, VString s => Ok (VString s)
  | _, _ => Err ETypeMismatch
  end.

Definition tag (v : variant) : qual :=
  match v with
  | VSingle _ => QSingle | VDouble _ => QDouble | VInteger _ => QInteger | VLong _ => QLong | VString _ => QString
  end.

(** a value of its type and range *)
Definition holds (v : variant) (q : qual) : bool :=
  match q, v with
  | QSingle, VSingle f | QDouble, VDouble f => sf_finite f
  | QInteger, VInteger z => in_int z
  | QLong, VLong z => in_long z
  | QString, VString _ => true
  | _, _ => false
  end.

(** ** Arithmetic (variant.rs), numeric operands *)
Definition checked_integer (z : Z) : vres variant := if in_int z then Ok (VInteger z) else Err EOverflow.
Definition checked_long (z : Z) : vres variant := if in_long z then Ok (VLong z) else Err EOverflow.
Definition checked_single (f : spec_float) : vres variant := if sf_finite f then Ok (VSingle f) else Err EOverflow.
Definition checked_double (f : spec_float) : vres variant := if sf_finite f then Ok (VDouble f) else Err EOverflow.

Inductive aop := APlus | AMinus | AMultiply.

Definition z_op (o : aop) : Z -> Z -> Z := match o with APlus => Z.add | AMinus => Z.sub | AMultiply => Z.mul end.
Definition f_op (o : aop) (prec emax : Z) : spec_float -> spec_float -> spec_float :=
  match o with APlus => SFadd prec emax | AMinus => SFsub prec emax | AMultiply => SFmul prec emax end.

(** the operand conversions of plus / minus / multiply: the result type is the wider of the two *)
Definition arith (o : aop) (a b : variant) : vres variant :=
  match a, b with
  | VInteger x, VInteger y => checked_integer (z_op o x y)
  | VInteger x, VLong y | VLong x, VInteger y | VLong x, VLong y => checked_long (z_op o x y)
  | VSingle x, VSingle y => checked_single (f_op o p32 e32 x y)
  | VSingle x, VInteger y | VSingle x, VLong y => checked_single (f_op o p32 e32 x (z_to_single y))
  | VInteger x, VSingle y | VLong x, VSingle y => checked_single (f_op o p32 e32 (z_to_single x) y)
  | VDouble x, VDouble y => checked_double (f_op o p64 e64 x y)
  | VDouble x, VSingle y => checked_double (f_op o p64 e64 x (single_to_double y))
  | VSingle x, VDouble y => checked_double (f_op o p64 e64 (single_to_double x) y)
  | VDouble x, VInteger y | VDouble x, VLong y => checked_double (f_op o p64 e64 x (z_to_double y))
  | VInteger x, VDouble y | VLong x, VDouble y => checked_double (f_op o p64 e64 (z_to_double x) y)
  | VString x, VString y => match o with APlus => Ok (VString (x ++ y)) | _ => Err ETypeMismatch end
  | _, _ => Err ETypeMismatch
  end.

(** [negate] *)
Definition negate (v : variant) : vres variant :=
  match v with
  | VSingle f => Ok (VSingle (SFopp f))
  | VDouble f => Ok (VDouble (SFopp f))
  | VInteger n => if n <=? MIN_INTEGER then Err EOverflow else Ok (VInteger (- n))
  | VLong n => if n <=? MIN_LONG then Err EOverflow else Ok (VLong (- n))
  | VString _ => Err ETypeMismatch
  end.

(** the type the checker assigns to [a op b] for + - * (bigger_numeric_type) *)
Definition bigger (a b : qual) : option qual :=
  match a, b with
  | QString, _ | _, QString => None
  | QDouble, _ | _, QDouble => Some QDouble
  | QSingle, _ | _, QSingle => Some QSingle
  | QLong, _ | _, QLong => Some QLong
  | QInteger, QInteger => Some QInteger
  end.

(** storing into a target of type [q] a value whose static type is [qs]: the generator emits [Cast q]
    iff the static types differ (instruction_generator/expression.rs, calls.rs, loops.rs) *)
Definition store (q qs : qual) (v : variant) : vres variant :=
  match q, qs with
  | QSingle, QSingle | QDouble, QDouble | QInteger, QInteger | QLong, QLong | QString, QString => Ok v
  | _, _ => cast v q
  end.

(** boolean equalities for the correspondence *)
Definition sf_eqb (a b : spec_float) : bool :=
  match a, b with
  | S754_zero s, S754_zero t => Bool.eqb s t
  | S754_infinity s, S754_infinity t => Bool.eqb s t
  | S754_nan, S754_nan => true
  | S754_finite s m e, S754_finite t n f => Bool.eqb s t && Pos.eqb m n && Z.eqb e f
  | _, _ => false
  end.

(** a float from its IEEE bit pattern (how the harness hands floats over) *)
Definition bits_to_sf (mw ew : Z) (bits : Z) : spec_float :=
  let s := Z.testbit bits (mw + ew) in
  let m := bits mod 2 ^ mw in
  let e := (bits / 2 ^ mw) mod 2 ^ ew in
  let bias := 2 ^ (ew - 1) - 1 in
  if e =? 0 then
    match m with Zpos p => S754_finite s p (1 - bias - mw) | _ => S754_zero s end
  else if e =? 2 ^ ew - 1 then
    match m with Z0 => S754_infinity s | _ => S754_nan end
  else match m + 2 ^ mw with Zpos p => S754_finite s p (e - bias - mw) | _ => S754_nan end.
Definition single_of_bits := bits_to_sf 23 8.
Definition double_of_bits := bits_to_sf 52 11.

(** canonical form of a finite float: odd mantissa or minimal exponent is NOT enforced by SpecFloat
    operations in the same way as IEEE bit patterns, so floats are compared after normalisation *)
Definition norm32 (f : spec_float) : spec_float := renorm p32 e32 f.
Definition norm64 (f : spec_float) : spec_float := renorm p64 e64 f.

Definition variant_eqb (a b : variant) : bool :=
  match a, b with
  | VSingle x, VSingle y => sf_eqb (norm32 x) (norm32 y)
  | VDouble x, VDouble y => sf_eqb (norm64 x) (norm64 y)
  | VInteger x, VInteger y | VLong x, VLong y => x =? y
  | VString x, VString y => (fix go (l r : list Z) := match l, r with [] , [] => true | a :: l', b :: r' => (a =? b) && go l' r' | _, _ => false end) x y
  | _, _ => false
  end.

Definition verr_code (e : verr) : Z :=
  match e with EOverflow => 6 | ETypeMismatch => 13 | ENotFinite => 1000 | EDivisionByZero => 11 | EOutOfData => 4 end.

Definition vres_eqb (a : vres variant) (code : Z) (b : variant) : bool :=
  match a with
  | Ok v => (code =? 0) && variant_eqb v b
  | Err e => verr_code e =? code
  end.
