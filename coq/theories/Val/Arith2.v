(** The rest of the value semantics used by the VM (rusty_variant/src/variant.rs, fit.rs):
    division with re-typing, MOD, comparisons with tolerance, AND / OR / NOT, truth test. *)
From Coq Require Import List ZArith Bool Floats.SpecFloat.
From RB Require Import Generated.Tables Val.Variant Val.Bits.
Import ListNotations.
Open Scope Z_scope.

(** constants: 0.0001 and 0.00001 as f32 / f64 (bit patterns computed by Rust) *)
Definition c1e4_32 := single_of_bits 953267991.
Definition c1e4_64 := double_of_bits 4547007122018943789.
Definition c1e5_32 := single_of_bits 925353388.
Definition c1e5_64 := double_of_bits 4532020583610935537.
Definition one32 := single_of_bits 1065353216.
Definition one64 := double_of_bits 4607182418800017408.

Definition sf_zero : spec_float := S754_zero false.

(** [x < y], [x > y] on floats (false when unordered) *)
Definition sf_lt (x y : spec_float) : bool := match SFcompare x y with Some Lt => true | _ => false end.
Definition sf_gt (x y : spec_float) : bool := match SFcompare x y with Some Gt => true | _ => false end.

(** [f.round()] as a float of the same format *)
Definition sf_round (prec emax : Z) (f : spec_float) : spec_float :=
  match round_half_away f with
  | Some z => match z with Z0 => (match f with S754_finite s _ _ | S754_zero s => S754_zero s | _ => f end)
                        | _ => binary_normalize prec emax z 0 false end
  | None => f
  end.

(** [FitToType] for i64 *)
Definition fit_z (z : Z) : variant :=
  if in_int z then VInteger z else if in_long z then VLong z else VDouble (z_to_double z).

(** [FitToType] for f32 / f64 *)
Definition fit_float (single : bool) (f : spec_float) : variant :=
  let prec := if single then p32 else p64 in
  let emax := if single then e32 else e64 in
  let r := sf_round prec emax f in
  let diff := SFabs (SFsub prec emax f r) in
  let has_fraction := sf_gt diff (if single then c1e4_32 else c1e4_64) in
  let keep := if single then VSingle f else VDouble f in
  if has_fraction then keep
  else match round_half_away f with
       | Some z => if in_long z then fit_z z else keep
       | None => keep
       end.

(** [approximate_eq(0)] *)
Definition approx_zero (v : variant) : option bool :=
  match v with
  | VInteger z | VLong z => Some (z =? 0)
  | VSingle f => Some (sf_lt (SFabs f) c1e5_32)
  | VDouble f => Some (sf_lt (SFabs f) c1e5_64)
  | VString _ => None
  end.

Definition to_single (v : variant) : option spec_float :=
  match v with
  | VSingle f => Some f | VDouble d => Some (double_to_single d)
  | VInteger z | VLong z => Some (z_to_single z) | VString _ => None
  end.
Definition to_double (v : variant) : option spec_float :=
  match v with
  | VSingle f => Some (single_to_double f) | VDouble d => Some d
  | VInteger z | VLong z => Some (z_to_double z) | VString _ => None
  end.

Definition is_double (v : variant) : bool := match v with VDouble _ => true | _ => false end.

(** [Variant::divide]: computed in f64 if either operand is a DOUBLE, else in f32 *)
Definition divide (a b : variant) : vres variant :=
  match a, b with
  | VString _, _ | _, VString _ => Err ETypeMismatch
  | _, _ =>
      match approx_zero b with
      | Some true => Err EDivisionByZero
      | _ =>
          if is_double a || is_double b then
            match to_double a, to_double b with
            | Some x, Some y => Ok (fit_float false (SFdiv p64 e64 x y))
            | _, _ => Err ETypeMismatch
            end
          else
            match to_single a, to_single b with
            | Some x, Some y => Ok (fit_float true (SFdiv p32 e32 x y))
            | _, _ => Err ETypeMismatch
            end
      end
  end.

(** [Variant::round] (private): floats are rounded and re-typed *)
Definition vround (v : variant) : vres variant :=
  match v with
  | VSingle f => Ok (fit_float true (sf_round p32 e32 f))
  | VDouble f => Ok (fit_float false (sf_round p64 e64 f))
  | VInteger _ | VLong _ => Ok v
  | VString _ => Err ETypeMismatch
  end.

(** [Variant::modulo] *)
Definition modulo (a b : variant) : vres variant :=
  match vround a with
  | Err e => Err e
  | Ok ra =>
      match vround b with
      | Err e => Err e
      | Ok rb =>
          match approx_zero rb with
          | Some true => Err EDivisionByZero
          | None => Err ETypeMismatch
          | Some false =>
              match ra, rb with
              | VInteger x, VInteger y => Ok (VInteger (Z.rem x y))
              | VInteger _, (VLong _ | VSingle _ | VDouble _) => Err EOverflow
              | (VLong _ | VSingle _ | VDouble _), _ => Err EOverflow
              | _, _ => Err ETypeMismatch
              end
          end
      end
  end.

(** [ApproximateCmp::cmp] *)
Definition approx_cmp (single : bool) (x y : spec_float) : comparison :=
  let prec := if single then p32 else p64 in
  let emax := if single then e32 else e64 in
  let diff := SFsub prec emax x y in
  let eps := if single then c1e5_32 else c1e5_64 in
  if sf_lt diff (SFopp eps) then Lt else if sf_gt diff eps then Gt else Eq.

Fixpoint str_cmp (a b : list Z) : comparison :=
  match a, b with
  | [], [] => Eq
  | [], _ => Lt
  | _, [] => Gt
  | x :: a', y :: b' => match Z.compare x y with Eq => str_cmp a' b' | c => c end
  end.

(** [Variant::try_cmp] *)
Definition try_cmp (a b : variant) : vres comparison :=
  match a, b with
  | VString x, VString y => Ok (str_cmp x y)
  | VString _, _ | _, VString _ => Err ETypeMismatch
  | VInteger x, VInteger y | VInteger x, VLong y | VLong x, VInteger y | VLong x, VLong y => Ok (Z.compare x y)
  | _, _ =>
      if is_double a || is_double b then
        match to_double a, to_double b with
        | Some x, Some y => Ok (approx_cmp false x y)
        | _, _ => Err ETypeMismatch
        end
      else
        match to_single a, to_single b with
        | Some x, Some y => Ok (approx_cmp true x y)
        | _, _ => Err ETypeMismatch
        end
  end.

Definition v_true := VInteger (-1).
Definition v_false := VInteger 0.
Definition of_bool (b : bool) : variant := if b then v_true else v_false.

(** the relational instructions *)
Definition relational (o : bop) (c : comparison) : bool :=
  match o, c with
  | Less, Lt => true
  | LessOrEqual, (Lt | Eq) => true
  | Equal, Eq => true
  | GreaterOrEqual, (Gt | Eq) => true
  | Greater, Gt => true
  | NotEqual, (Lt | Gt) => true
  | _, _ => false
  end.

(** AND / OR as executed by the VM: both operands are converted to INTEGER first *)
Definition logical (is_and : bool) (a b : variant) : vres variant :=
  match cast a QInteger with
  | Err e => Err e
  | Ok (VInteger x) =>
      match cast b QInteger with
      | Err e => Err e
      | Ok (VInteger y) => Ok (VInteger (if is_and then qb_and x y else qb_or x y))
      | Ok _ => Err ETypeMismatch
      end
  | Ok _ => Err ETypeMismatch
  end.

(** [unary_not] *)
Definition unary_not (v : variant) : vres variant :=
  match v with
  | VSingle f => Ok (VSingle (SFsub p32 e32 (SFopp (sf_round p32 e32 f)) one32))
  | VDouble f => Ok (VDouble (SFsub p64 e64 (SFopp (sf_round p64 e64 f)) one64))
  | VInteger n => Ok (VInteger (- n - 1))
  | VLong n => Ok (VLong (- n - 1))
  | VString _ => Err ETypeMismatch
  end.

(** [try_cast::<bool>] of JumpIfFalse *)
Definition truthy (v : variant) : vres bool :=
  match v with
  | VInteger z | VLong z => Ok (negb (z =? 0))
  | VSingle f | VDouble f => Ok (match f with S754_zero _ => false | _ => true end)
  | VString _ => Err ETypeMismatch
  end.

(** every binary operator of the VM on registers A, B *)
Definition binop (o : bop) (a b : variant) : vres variant :=
  match o with
  | Plus => arith APlus a b
  | Minus => arith AMinus a b
  | Multiply => arith AMultiply a b
  | Divide => divide a b
  | Modulo => modulo a b
  | And => logical true a b
  | Or => logical false a b
  | _ => match try_cmp a b with Ok c => Ok (of_bool (relational o c)) | Err e => Err e end
  end.
