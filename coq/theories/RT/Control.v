(** Control transfers of the VM (rusty_basic/src/interpreter/main.rs): the statement finder that
    RESUME / RESUME NEXT use, GOSUB / RETURN, and the dispatch of a failing instruction to the
    active error handler. The model replays the control events of a real run and accepts them only
    if every move is the one prescribed here. *)
From Coq Require Import List Arith Bool.
Import ListNotations.

(** ** NearestStatementFinder over the ascending list of statement start addresses *)

(** [find_current]: the address itself if it starts a statement, else the last start before it *)
Fixpoint find_current (marks : list nat) (a : nat) : option nat :=
  match marks with
  | [] => None
  | m :: t =>
      if Nat.ltb a m then None
      else match find_current t a with Some r => Some r | None => Some m end
  end.

(** [find_next]: the first start after the address; one past the last start when the address is it *)
Fixpoint find_next (marks : list nat) (a : nat) : option nat :=
  match marks with
  | [] => None
  | m :: t =>
      if Nat.ltb a m then Some m
      else match t with
           | [] => if Nat.eqb a m then Some (S m) else None
           | _ => find_next t a
           end
  end.

(** ** control state and events *)
Inductive hkind := HNone | HNext | HAddr (a : nat).
Inductive rkind := RCurrent | RNext | RLabel (t : nat).

Record cstate := mk_cs { gosubs : list nat; handler : hkind; last_err : option nat }.
Definition cs0 : cstate := mk_cs [] HNone None.

Inductive cevent :=
| CGoSub (pc target next : nat)
| CReturn (pc : nat) (lbl : option nat) (next : nat)
| CReturnFail (pc : nat)                       (* RETURN raised error 3 *)
| COnError (h : hkind)
| CError (pc : nat) (code : nat) (next : option nat)   (* the instruction at pc failed; where control went *)
| CResume (k : rkind) (pc next : nat)
| CResumeFail (pc : nat).                      (* RESUME raised error 20 *)

Definition opt_eqb (a b : option nat) : bool :=
  match a, b with Some x, Some y => Nat.eqb x y | None, None => true | _, _ => false end.

(** one event: the next control state, or None when the event is not what the model prescribes *)
Definition cstep (marks : list nat) (s : cstate) (e : cevent) : option cstate :=
  match e with
  | CGoSub pc t next => if Nat.eqb next t then Some (mk_cs (pc :: gosubs s) (handler s) (last_err s)) else None
  | CReturn pc lbl next =>
      match gosubs s with
      | [] => None
      | a :: rest =>
          let expected := match lbl with Some t => t | None => S a end in
          if Nat.eqb next expected then Some (mk_cs rest (handler s) (last_err s)) else None
      end
  | CReturnFail pc => match gosubs s with [] => Some s | _ => None end
  | COnError h => Some (mk_cs (gosubs s) h (last_err s))
  | CError pc code next =>
      match handler s with
      | HNone => if opt_eqb next None then Some s else None
      | HNext => if opt_eqb next (find_next marks pc) then Some s else None
      | HAddr h => if opt_eqb next (Some h) then Some (mk_cs (gosubs s) (handler s) (Some pc)) else None
      end
  | CResume k pc next =>
      match last_err s with
      | None => None
      | Some a =>
          let expected := match k with
                          | RCurrent => find_current marks a
                          | RNext => find_next marks a
                          | RLabel t => Some t
                          end in
          if opt_eqb (Some next) expected then Some (mk_cs (gosubs s) (handler s) None) else None
      end
  | CResumeFail pc => match last_err s with None => Some s | Some _ => None end
  end.

Fixpoint creplay (marks : list nat) (s : cstate) (es : list cevent) : option cstate :=
  match es with
  | [] => Some s
  | e :: t => match cstep marks s e with Some s' => creplay marks s' t | None => None end
  end.

(** number of the first event that is not accepted (0 = all accepted) *)
Fixpoint first_bad (marks : list nat) (s : cstate) (es : list cevent) (i : nat) : nat :=
  match es with
  | [] => 0
  | e :: t => match cstep marks s e with Some s' => first_bad marks s' t (S i) | None => S i end
  end.

(** statement addresses strictly ascending (what the theorems about the finder assume) *)
Fixpoint strict_asc (l : list nat) : bool :=
  match l with
  | x :: ((y :: _) as t) => Nat.ltb x y && strict_asc t
  | _ => true
  end.

(** a whole run: addresses ascending and every control event as prescribed (0 = yes) *)
Definition check_control (marks : list nat) (es : list cevent) : nat :=
  if negb (strict_asc marks) then 1000000 else first_bad marks cs0 es 0.

Definition oeqb (a b : option nat) : bool := opt_eqb a b.
