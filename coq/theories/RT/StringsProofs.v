(** Proofs of the defining equations of the string functions (C17). *)
From Coq Require Import List ZArith Bool Arith Lia.
From RB Require Import RT.Strings.
Import ListNotations.
Open Scope Z_scope.

(** ** LEFT$, RIGHT$, MID$ *)

Lemma left_spec s n : 0 <= n -> left_fn s n = SOk (firstn (Z.to_nat n) s).
Proof. intros H. unfold left_fn, non_negative. destruct (Z.ltb_spec n 0); [lia|reflexivity]. Qed.

Lemma slice_to_end s a : slice s a (length s) = skipn a s.
Proof.
  unfold slice. rewrite Nat.leb_refl, andb_true_r.
  destruct (Nat.leb_spec a (length s)).
  - rewrite firstn_all2; [reflexivity|]. rewrite skipn_length. lia.
  - symmetry. apply skipn_all2. lia.
Qed.

Lemma mid_to_end_spec s st : 0 < st -> mid_fn s st None = SOk (skipn (Z.to_nat st - 1) s).
Proof.
  intros H. unfold mid_fn, positive_arg. destruct (Z.leb_spec st 0); [lia|].
  unfold do_mid. now rewrite slice_to_end.
Qed.

Theorem left_mid_concat s n a b : 0 <= n ->
  left_fn s n = SOk a -> mid_fn s (n + 1) None = SOk b -> a ++ b = s.
Proof.
  intros Hn Hl Hm. rewrite left_spec in Hl by lia. rewrite mid_to_end_spec in Hm by lia.
  inversion Hl; inversion Hm; subst.
  replace (Z.to_nat (n + 1) - 1)%nat with (Z.to_nat n) by lia. apply firstn_skipn.
Qed.

Theorem left_is_prefix s n r : left_fn s n = SOk r ->
  0 <= n /\ exists rest, s = r ++ rest /\ length r = Nat.min (Z.to_nat n) (length s).
Proof.
  unfold left_fn, non_negative. destruct (Z.ltb_spec n 0) as [Hlt|Hge]; [discriminate|]. intros Heq; inversion Heq; subst.
  split; [lia|]. exists (skipn (Z.to_nat n) s). split; [symmetry; apply firstn_skipn|apply firstn_length].
Qed.

Theorem right_is_suffix s n r : right_fn s n = SOk r ->
  0 <= n /\ exists pre, s = pre ++ r /\ length r = Nat.min (Z.to_nat n) (length s).
Proof.
  unfold right_fn, non_negative. destruct (Z.ltb_spec n 0) as [Hlt|Hge]; [discriminate|]. intros Heq; inversion Heq; subst.
  split; [lia|]. destruct (Nat.ltb_spec (Z.to_nat n) (length s)).
  - exists (firstn (length s - Z.to_nat n) s). split; [symmetry; apply firstn_skipn|].
    rewrite skipn_length. lia.
  - exists []. split; [reflexivity|lia].
Qed.

Theorem mid_is_substring s st l : 0 < st -> 0 <= l ->
  mid_fn s st (Some l) = SOk (firstn (Z.to_nat l) (skipn (Z.to_nat st - 1) s)).
Proof.
  intros Hs Hl. unfold mid_fn, positive_arg, non_negative.
  destruct (Z.leb_spec st 0) as [Hle0|Hgt0]; [lia|]. destruct (Z.ltb_spec l 0) as [Hlt0|Hge0]; [lia|].
  f_equal. unfold do_mid, slice.
  set (a := (Z.to_nat st - 1)%nat). set (k := Z.to_nat l).
  destruct (Nat.ltb_spec (length s) (a + k)).
  - rewrite Nat.leb_refl, andb_true_r. destruct (Nat.leb_spec a (length s)).
    + rewrite !firstn_all2; auto; rewrite skipn_length; lia.
    + rewrite skipn_all2 by lia. now destruct k.
  - destruct (Nat.leb_spec a (a + k)); [|lia]. destruct (Nat.leb_spec (a + k) (length s)); [|lia].
    cbn. f_equal. lia.
Qed.

Theorem counts_illegal s n st l :
  (left_fn s n = SIllegal <-> n < 0) /\ (right_fn s n = SIllegal <-> n < 0) /\
  (mid_fn s st None = SIllegal <-> st <= 0) /\
  (mid_fn s st (Some l) = SIllegal <-> st <= 0 \/ l < 0) /\
  (space_fn n = SIllegal <-> n < 0) /\
  (forall hay needle, instr_fn st hay needle = SIllegal <-> st <= 0).
Proof.
  unfold left_fn, right_fn, mid_fn, space_fn, instr_fn, non_negative, positive_arg.
  destruct (Z.ltb_spec n 0); destruct (Z.leb_spec st 0); destruct (Z.ltb_spec l 0);
    repeat split; intros; try discriminate; try lia; auto; try (right; lia); try (left; lia);
    try (destruct H2 as [?|?]; lia).
Qed.

(** ** LEN *)
Theorem len_app a b : len_fn (a ++ b) = len_fn a + len_fn b.
Proof. unfold len_fn. rewrite app_length. lia. Qed.

(** ** UCASE$ / LCASE$ change only letters *)
Theorem ucase_only_letters s :
  length (ucase s) = length s /\
  forall i c, nth_error s i = Some c ->
    nth_error (ucase s) i = Some (if (97 <=? c) && (c <=? 122) then c - 32 else c).
Proof.
  unfold ucase. split; [apply map_length|]. intros i c H. rewrite nth_error_map, H. reflexivity.
Qed.

Theorem lcase_only_letters s :
  length (lcase s) = length s /\
  forall i c, nth_error s i = Some c ->
    nth_error (lcase s) i = Some (if (65 <=? c) && (c <=? 90) then c + 32 else c).
Proof.
  unfold lcase. split; [apply map_length|]. intros i c H. rewrite nth_error_map, H. reflexivity.
Qed.

(** ** LTRIM$ / RTRIM$ remove exactly the blanks *)
Theorem ltrim_exact s :
  exists k, s = repeat 32 k ++ ltrim s /\ (forall c t, ltrim s = c :: t -> c <> 32).
Proof.
  induction s as [|c t IH]; cbn [ltrim].
  - exists 0%nat. split; [reflexivity|]. intros; discriminate.
  - destruct (Z.eqb_spec c 32).
    + destruct IH as (k & Hk & Hne). exists (S k). subst c. split; [cbn; congruence|exact Hne].
    + exists 0%nat. split; [reflexivity|]. intros c' t' H. inversion H; subst. exact n.
Qed.

Lemma rev_repeat {A} (x : A) k : rev (repeat x k) = repeat x k.
Proof.
  induction k as [|k IH]; [reflexivity|]. cbn [repeat rev]. rewrite IH.
  clear. induction k as [|k IH]; [reflexivity|]. cbn. now rewrite IH.
Qed.

Theorem rtrim_exact s :
  exists k, s = rtrim s ++ repeat 32 k /\ (forall c t, rev (rtrim s) = c :: t -> c <> 32).
Proof.
  unfold rtrim. destruct (ltrim_exact (rev s)) as (k & Hk & Hne). exists k. split.
  - transitivity (rev (repeat 32 k ++ ltrim (rev s))).
    + rewrite <- Hk. symmetry. apply rev_involutive.
    + rewrite rev_app_distr, rev_repeat. reflexivity.
  - rewrite rev_involutive. exact Hne.
Qed.

(** ** SPACE$(n) = STRING$(n, 32) has n characters *)
Theorem space_is_string32 n : space_fn n = string_fn n 32 /\
  (0 <= n -> exists r, space_fn n = SOk r /\ Z.of_nat (length r) = n).
Proof.
  unfold space_fn, string_fn, non_negative. destruct (Z.ltb_spec n 0); split; try reflexivity; try lia.
  intros _. eexists; split; [reflexivity|]. rewrite repeat_length. lia.
Qed.

(** ** INSTR *)
Definition occurs_at (hay needle : str) (i : nat) : Prop :=
  (i + length needle <= length hay)%nat /\ firstn (length needle) (skipn i hay) = needle.

Lemma str_eqb_eq a b : str_eqb a b = true <-> a = b.
Proof.
  revert b; induction a as [|x a IH]; intros [|y b]; cbn; split; intros H; try discriminate; auto.
  - apply andb_true_iff in H as [H1 H2]. apply Z.eqb_eq in H1. apply IH in H2. congruence.
  - inversion H; subst. apply andb_true_iff. split; [apply Z.eqb_refl|now apply IH].
Qed.

Lemma slice_occurs hay needle i : (i + length needle <= length hay)%nat ->
  (str_eqb (slice hay i (i + length needle)) needle = true <-> occurs_at hay needle i).
Proof.
  intros H. unfold slice, occurs_at.
  destruct (Nat.leb_spec i (i + length needle)); [|lia].
  destruct (Nat.leb_spec (i + length needle) (length hay)); [|lia]. cbn [andb].
  replace (i + length needle - i)%nat with (length needle) by lia.
  rewrite str_eqb_eq. tauto.
Qed.

Lemma instr_loop_spec fuel : forall i hay needle, (length hay < i + fuel)%nat ->
  let r := instr_loop fuel i hay needle in
  (r = 0%nat -> forall j, (i <= j)%nat -> ~ occurs_at hay needle j) /\
  (forall p, r = S p -> (i <= p)%nat /\ occurs_at hay needle p /\
                        forall j, (i <= j < p)%nat -> ~ occurs_at hay needle j).
Proof.
  induction fuel as [|f IH]; intros i hay needle Hf; cbn [instr_loop].
  - split; [|intros; discriminate]. intros _ j Hj [Hb _]. lia.
  - destruct (Nat.leb_spec (i + length needle) (length hay)) as [Hle|Hgt].
    + destruct (str_eqb (slice hay i (i + length needle)) needle) eqn:E.
      * split; [intros; discriminate|]. intros p Hp. inversion Hp; subst p.
        split; [lia|]. split; [now apply slice_occurs|]. intros j Hj; lia.
      * destruct (IH (S i) hay needle ltac:(lia)) as [H0 HS]. split.
        -- intros Hr j Hj. destruct (Nat.eq_dec j i) as [->|Hne].
           ++ intros Ho. apply slice_occurs in Ho; [congruence|lia].
           ++ apply H0; [exact Hr|lia].
        -- intros p Hp. destruct (HS p Hp) as (H1 & H2 & H3). split; [lia|]. split; [exact H2|].
           intros j Hj. destruct (Nat.eq_dec j i) as [->|Hne].
           ++ intros Ho. apply slice_occurs in Ho; [congruence|lia].
           ++ apply H3. lia.
    + split; [|intros; discriminate]. intros _ j Hj [Hb _]. lia.
Qed.

(** INSTR(n, s, t) for non-empty t: the least position >= n (1-based) where t occurs, else 0 *)
Theorem instr_least n s t r : t <> [] -> instr_fn n s t = SOk r ->
  0 < n /\
  (r = 0 -> forall p, (Z.to_nat n <= p)%nat -> ~ occurs_at s t (p - 1)) /\
  (0 < r -> n <= r /\ occurs_at s t (Z.to_nat r - 1) /\
            forall p, n <= p < r -> ~ occurs_at s t (Z.to_nat p - 1)).
Proof.
  intros Ht. unfold instr_fn, positive_arg. destruct (Z.leb_spec n 0) as [Hle0|Hgt0]; [discriminate|].
  intros Heq; inversion Heq; subst r; clear Heq. split; [lia|].
  unfold do_instr. destruct s as [|c s'].
  - split; [|cbn; lia]. intros _ p Hp [Hb _]. destruct t; [congruence|cbn in Hb; lia].
  - destruct t as [|d t']; [congruence|].
    set (hay := c :: s'). set (needle := d :: t').
    destruct (instr_loop_spec (S (length hay)) (Z.to_nat n - 1) hay needle ltac:(lia)) as [H0 HS].
    split.
    + intros Hr p Hp. apply H0; [lia|lia].
    + intros Hr. destruct (instr_loop (S (length hay)) (Z.to_nat n - 1) hay needle) as [|q] eqn:E; [cbn in Hr; lia|].
      destruct (HS q eq_refl) as (H1 & H2 & H3).
      replace (Z.to_nat (Z.of_nat (S q)) - 1)%nat with q by lia.
      split; [lia|]. split; [exact H2|]. intros p Hp. apply H3. lia.
Qed.

(** ** VAL(STR$(k)) = k *)

Definition is_digit (c : Z) : Prop := 48 <= c <= 57.

Fixpoint num_of (ds : str) (acc : Z) : Z :=
  match ds with [] => acc | c :: t => num_of t (acc * 10 + (c - 48)) end.

Lemma val_scan_digits ds : Forall is_digit ds -> forall t st pos v, st <> 3%nat -> ds <> [] ->
  val_scan (ds ++ t) st pos v = val_scan t 2 pos (num_of ds v).
Proof.
  induction 1 as [|c ds Hc Hds IH]; intros t st pos v Hst Hne; [congruence|].
  cbn [app val_scan num_of]. unfold is_digit in Hc.
  destruct (Z.leb_spec 48 c); [|lia]. destruct (Z.leb_spec c 57); [|lia]. cbn [andb].
  destruct ds as [|c2 ds'].
  - destruct st as [|[|[|[|st]]]]; try congruence; reflexivity.
  - assert (E : val_scan ((c2 :: ds') ++ t) 2 pos (v * 10 + (c - 48)) = val_scan t 2 pos (num_of (c2 :: ds') (v * 10 + (c - 48))))
      by (apply IH; congruence).
    destruct st as [|[|[|[|st]]]]; try congruence; exact E.
Qed.

Lemma num_of_app a b acc : num_of (a ++ b) acc = num_of b (num_of a acc).
Proof. revert acc; induction a as [|c a IH]; intros acc; cbn; auto. Qed.

Lemma dec_digits_spec fuel : forall n, 0 <= n < 10 ^ Z.of_nat fuel -> (0 < fuel)%nat ->
  Forall is_digit (dec_digits fuel n) /\ dec_digits fuel n <> [] /\
  forall acc, num_of (dec_digits fuel n) acc = acc * 10 ^ Z.of_nat (length (dec_digits fuel n)) + n.
Proof.
  induction fuel as [|f IH]; intros n Hn Hf.
  - lia.
  - cbn [dec_digits]. destruct (Z.ltb_spec n 10).
    + split; [constructor; [unfold is_digit; lia|constructor]|]. split; [discriminate|].
      intros acc. cbn [num_of length]. change (Z.of_nat 1) with 1. rewrite Z.pow_1_r. lia.
    + rewrite Nat2Z.inj_succ, Z.pow_succ_r in Hn by lia.
      destruct (IH (n / 10)) as (Hd & Hne & Hnum).
      { split; [apply Z.div_pos; lia|apply Z.div_lt_upper_bound; lia]. }
      { destruct f; [cbn in Hn; lia|lia]. }
      pose proof (Z.mod_pos_bound n 10 ltac:(lia)) as Hm.
      split; [apply Forall_app; split; [exact Hd|constructor; [unfold is_digit; lia|constructor]]|].
      split; [destruct (dec_digits f (n / 10)); [congruence|discriminate]|].
      intros acc. rewrite num_of_app, Hnum. cbn [num_of]. rewrite app_length. cbn [length].
      rewrite Nat2Z.inj_add. change (Z.of_nat 1) with 1. rewrite Z.pow_add_r, Z.pow_1_r by lia.
      pose proof (Z.div_mod n 10 ltac:(lia)). lia.
Qed.

Definition in_int (z : Z) : Prop := -32768 <= z <= 32767.
Definition in_long (z : Z) : Prop := -2147483648 <= z <= 2147483647.

Theorem val_str_roundtrip k : in_long k -> val_fn (str_fn k) = Some (TDouble, k).
Proof.
  unfold in_long; intros Hk. unfold str_fn, val_fn.
  destruct (Z.leb_spec 0 k) as [Hpos|Hneg].
  - destruct (dec_digits_spec 20 k ltac:(change (10 ^ Z.of_nat 20) with 100000000000000000000; lia) ltac:(lia)) as (Hd & Hne & Hnum).
    cbn [val_scan]. change ((48 <=? 32) && (32 <=? 57)) with false. cbn [Z.eqb Pos.eqb].
    rewrite <- (app_nil_r (dec_digits 20 k)), val_scan_digits by (auto; discriminate).
    cbn [val_scan]. rewrite Hnum, Z.mul_0_l, Z.add_0_l. reflexivity.
  - destruct (dec_digits_spec 20 (- k) ltac:(change (10 ^ Z.of_nat 20) with 100000000000000000000; lia) ltac:(lia)) as (Hd & Hne & Hnum).
    cbn [val_scan]. change ((48 <=? 45) && (45 <=? 57)) with false. cbn [Z.eqb Pos.eqb].
    rewrite <- (app_nil_r (dec_digits 20 (- k))), val_scan_digits by (auto; discriminate).
    cbn [val_scan]. rewrite Hnum, Z.mul_0_l, Z.add_0_l, Z.opp_involutive. reflexivity.
Qed.
