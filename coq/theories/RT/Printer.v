(** Model of PRINT layout: WritePrinter (write_printer.rs), PrintState (print.rs) without USING,
    the instruction sequence of a PRINT statement (instruction_generator/print.rs) and the
    interpreter's print_comma / print_value_from_a / print_end (interpreter/main.rs).
    Models only. *)
From Coq Require Import List ZArith Bool Arith.
Import ListNotations.

Definition str := list Z.

(** one output device: bytes written so far and the tracked column *)
Record dev := mk_dev { out : str; col : nat }.
Definition dev0 : dev := mk_dev [] 0.

Definition is_cr_lf (c : Z) : bool := Z.eqb c 13 || Z.eqb c 10.

(** [print_as_is] *)
Definition print_as_is (d : dev) (s : str) : dev := mk_dev (out d ++ s) (col d + length s).

(** [println] *)
Definition println (d : dev) : dev := mk_dev (out d ++ [13%Z; 10%Z]) 0.

(** [s.split(is_cr_lf)]: the current part is accumulated in [cur] *)
Fixpoint split_cr_lf (s : str) (cur : str) : list str :=
  match s with
  | [] => [cur]
  | c :: t => if is_cr_lf c then cur :: split_cr_lf t [] else split_cr_lf t (cur ++ [c])
  end.

(** [Printer::print]: the first part as it is, every further part after a line break *)
Definition print (d : dev) (s : str) : dev :=
  match split_cr_lf s [] with
  | [] => d
  | p :: rest => fold_left (fun d' part => print_as_is (println d') part) rest (print_as_is d p)
  end.

(** [move_to_next_print_zone] *)
Definition next_zone (d : dev) : dev := print d (repeat 32%Z (14 - col d mod 14)).

(** what PRINT shows for a value: a string verbatim, a number as sign-or-blank, digits, blank *)
Inductive item := IStr (s : str) | INum (negative : bool) (abs_text : str).

Definition item_text (i : item) : str :=
  match i with
  | IStr s => s
  | INum neg t => (if neg then 45%Z else 32%Z) :: t ++ [32%Z]
  end.

Inductive parg := AComma | ASemi | AItem (i : item).

(** one PRINT statement on a device: returns the device and [should_skip_new_line] *)
Fixpoint print_args (d : dev) (args : list parg) (skip : bool) : dev * bool :=
  match args with
  | [] => (d, skip)
  | AComma :: t => print_args (next_zone d) t true
  | ASemi :: t => print_args d t true
  | AItem i :: t => print_args (print d (item_text i)) t false
  end.

Definition print_stmt (d : dev) (args : list parg) : dev :=
  let '(d', skip) := print_args d args false in
  if skip then d' else println d'.

(** devices: screen, printer, files by handle *)
Inductive device := DScreen | DLpt1 | DFile (h : nat).
Definition device_eqb (a b : device) : bool :=
  match a, b with
  | DScreen, DScreen | DLpt1, DLpt1 => true
  | DFile x, DFile y => Nat.eqb x y
  | _, _ => false
  end.

Definition devs := device -> dev.
Definition devs0 : devs := fun _ => dev0.
Definition upd (ds : devs) (k : device) (v : dev) : devs := fun k' => if device_eqb k k' then v else ds k'.

(** a history of PRINT statements interleaved across devices *)
Definition run_history (h : list (device * list parg)) (ds : devs) : devs :=
  fold_left (fun ds' st => upd ds' (fst st) (print_stmt (ds' (fst st)) (snd st))) h ds.

Fixpoint str_eqb (a b : str) : bool :=
  match a, b with
  | [], [] => true
  | x :: a', y :: b' => Z.eqb x y && str_eqb a' b'
  | _, _ => false
  end.
