(** Model of the string built-ins (rusty_basic/src/interpreter/built_ins/{left,right,mid_fn,instr,len,
    ucase,lcase,ltrim,rtrim,space,string_fn,str_fn,val}.rs) on byte strings, with the numeric
    arguments already converted to INTEGER ([to_non_negative_int] / [to_positive_int] are part of
    the model). Models only. *)
From Coq Require Import List ZArith Bool Arith.
Import ListNotations.
Open Scope Z_scope.

Definition str := list Z.

Inductive sres (A : Type) := SOk (a : A) | SIllegal.   (* SIllegal = Illegal function call (5) *)
Arguments SOk {A}. Arguments SIllegal {A}.

Definition non_negative (n : Z) : option nat := if n <? 0 then None else Some (Z.to_nat n).
Definition positive_arg (n : Z) : option nat := if n <=? 0 then None else Some (Z.to_nat n).

Definition left_fn (s : str) (n : Z) : sres str :=
  match non_negative n with Some c => SOk (firstn c s) | None => SIllegal end.

Definition right_fn (s : str) (n : Z) : sres str :=
  match non_negative n with
  | Some c => SOk (if Nat.ltb c (length s) then skipn (length s - c) s else s)
  | None => SIllegal
  end.

(** [s.get(a..b)] : the slice, or nothing when the range is not valid *)
Definition slice (s : str) (a b : nat) : str :=
  if Nat.leb a b && Nat.leb b (length s) then firstn (b - a) (skipn a s) else [].

Definition do_mid (s : str) (start : nat) (len : option nat) : str :=
  let start_index := (start - 1)%nat in
  match len with
  | Some l =>
      let e := if Nat.ltb (length s) (start_index + l) then length s else (start_index + l)%nat in
      slice s start_index e
  | None => slice s start_index (length s)
  end.

Definition mid_fn (s : str) (start : Z) (len : option Z) : sres str :=
  match positive_arg start with
  | None => SIllegal
  | Some st =>
      match len with
      | None => SOk (do_mid s st None)
      | Some l => match non_negative l with Some l' => SOk (do_mid s st (Some l')) | None => SIllegal end
      end
  end.

Fixpoint str_eqb (a b : str) : bool :=
  match a, b with
  | [], [] => true
  | x :: a', y :: b' => (x =? y) && str_eqb a' b'
  | _, _ => false
  end.

(** the loop of [do_instr]: [i] is the 0-based candidate position *)
Fixpoint instr_loop (fuel : nat) (i : nat) (hay needle : str) : nat :=
  match fuel with
  | O => 0
  | S f =>
      if Nat.leb (i + length needle) (length hay) then
        if str_eqb (slice hay i (i + length needle)) needle then S i
        else instr_loop f (S i) hay needle
      else 0
  end.

Definition do_instr (start : nat) (hay needle : str) : nat :=
  match hay, needle with
  | [], _ => 0
  | _, [] => 1
  | _, _ => instr_loop (S (length hay)) (start - 1) hay needle
  end.

Definition instr_fn (start : Z) (hay needle : str) : sres Z :=
  match positive_arg start with
  | None => SIllegal
  | Some st => SOk (Z.of_nat (do_instr st hay needle))
  end.

Definition len_fn (s : str) : Z := Z.of_nat (length s).

Definition upper_c (c : Z) : Z := if (97 <=? c) && (c <=? 122) then c - 32 else c.
Definition lower_c (c : Z) : Z := if (65 <=? c) && (c <=? 90) then c + 32 else c.
Definition ucase (s : str) : str := map upper_c s.
Definition lcase (s : str) : str := map lower_c s.

Fixpoint ltrim (s : str) : str :=
  match s with
  | c :: t => if c =? 32 then ltrim t else s
  | [] => []
  end.
Definition rtrim (s : str) : str := rev (ltrim (rev s)).

Definition space_fn (n : Z) : sres str :=
  match non_negative n with Some c => SOk (repeat 32 c) | None => SIllegal end.

(** STRING$(n, code) *)
Definition string_fn (n : Z) (code : Z) : sres str :=
  match non_negative n with
  | None => SIllegal
  | Some c => if (0 <=? code) && (code <=? 255) then SOk (repeat code c) else SIllegal
  end.

(** ** STR$ of a whole number and VAL *)

(** decimal digits, most significant first ([Display] for integers) *)
Fixpoint dec_digits (fuel : nat) (n : Z) : str :=
  match fuel with
  | O => []
  | S f => if n <? 10 then [48 + n] else dec_digits f (n / 10) ++ [48 + n mod 10]
  end.

Definition str_fn (k : Z) : str :=
  if 0 <=? k then 32 :: dec_digits 20 k else 45 :: dec_digits 20 (- k).

(** the scanner of [val], restricted to its integer states; [None] = the string has a fraction part
    (outside this model). state: 0 initial, 1 sign, 2 int, 3 dot *)
Inductive vtag := TInt | TLong | TDouble.

Fixpoint val_scan (s : str) (state : nat) (positive : bool) (value : Z) : option (nat * bool * Z) :=
  match s with
  | [] => Some (state, positive, value)
  | c :: t =>
      if (48 <=? c) && (c <=? 57) then
        match state with
        | 3%nat => None
        | _ => val_scan t 2 positive (value * 10 + (c - 48))
        end
      else if c =? 32 then val_scan t state positive value
      else if c =? 46 then
        match state with 3%nat => Some (state, positive, value) | _ => val_scan t 3 positive value end
      else if c =? 45 then
        match state with 0%nat => val_scan t 1 false value | _ => Some (state, positive, value) end
      else if c =? 43 then
        match state with 0%nat => val_scan t 1 positive value | _ => Some (state, positive, value) end
      else Some (state, positive, value)
  end.

Definition val_fn (s : str) : option (vtag * Z) :=
  match val_scan s 0 true 0 with
  | None => None
  | Some (state, positive, value) =>
      match state with
      | 0%nat | 1%nat => Some (TDouble, 0)
      | _ => Some (TDouble, if positive then value else - value)
      end
  end.

(** helpers for the correspondence check *)
Definition sres_str_eqb (a : sres str) (b : option str) : bool :=
  match a, b with
  | SOk x, Some y => str_eqb x y
  | SIllegal, None => true
  | _, _ => false
  end.
Definition sres_z_eqb (a : sres Z) (b : option Z) : bool :=
  match a, b with
  | SOk x, Some y => x =? y
  | SIllegal, None => true
  | _, _ => false
  end.
Definition val_eqb (a : option (vtag * Z)) (tag : nat) (v : Z) : bool :=
  match a with
  | Some (TInt, x) => Nat.eqb tag 0 && (x =? v)
  | Some (TLong, x) => Nat.eqb tag 1 && (x =? v)
  | Some (TDouble, x) => Nat.eqb tag 2 && (x =? v)
  | None => Nat.eqb tag 3
  end.
