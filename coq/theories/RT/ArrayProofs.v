(** Proofs about arrays, records and fixed-length strings (C04). *)
From Coq Require Import List ZArith Bool Lia.
From RB Require Import RT.ArrayVal.
Import ListNotations.
Open Scope Z_scope.

Definition in_bounds (d : Z * Z) (a : Z) : Prop := fst d <= a <= snd d.

(** the flat index as a mixed-radix number, on the reversed lists (last dimension first) *)
Fixpoint flat (rds : dims) (ridx : list Z) : Z :=
  match rds, ridx with
  | (lb, ub) :: rds', a :: ridx' => (a - lb) + (ub - lb + 1) * flat rds' ridx'
  | _, _ => 0
  end.

Lemma go_spec rds : forall ridx index mult,
  Forall2 in_bounds rds ridx ->
  abs_index_go rds ridx index mult = Some (index + mult * flat rds ridx).
Proof.
  induction rds as [|[lb ub] rds IH]; intros ridx index mult H; inversion H; subst; cbn [abs_index_go flat].
  - f_equal. lia.
  - match goal with Hb : in_bounds _ _ |- _ => unfold in_bounds in Hb; cbn in Hb end.
    destruct (Z.ltb_spec y lb); [lia|]. destruct (Z.ltb_spec ub y); [lia|]. cbn [orb].
    rewrite IH by assumption. f_equal. ring.
Qed.

Lemma go_some rds : forall ridx index mult k,
  abs_index_go rds ridx index mult = Some k -> Forall2 in_bounds rds ridx.
Proof.
  induction rds as [|[lb ub] rds IH]; intros [|a ridx] index mult k H; cbn [abs_index_go] in H;
    try discriminate; [constructor|].
  destruct (Z.ltb_spec a lb); [discriminate|]. destruct (Z.ltb_spec ub a); [discriminate|]. cbn [orb] in H.
  constructor; [unfold in_bounds; cbn; lia|eapply IH; eauto].
Qed.

Lemma flat_range rds : forall ridx, Forall2 in_bounds rds ridx -> 0 <= flat rds ridx < array_len rds.
Proof.
  induction rds as [|[lb ub] rds IH]; intros ridx H; inversion H; subst; cbn [flat array_len fold_right].
  - lia.
  - match goal with Hb : in_bounds _ _ |- _ => unfold in_bounds in Hb; cbn in Hb end.
    match goal with Hf : Forall2 _ rds _ |- _ => apply IH in Hf end.
    fold (array_len rds). unfold dim_size; cbn [fst snd].
    assert ((ub - lb + 1) * flat rds l' <= (ub - lb + 1) * (array_len rds - 1))
      by (apply Z.mul_le_mono_nonneg_l; lia).
    assert (0 <= (ub - lb + 1) * flat rds l') by (apply Z.mul_nonneg_nonneg; lia).
    lia.
Qed.

Lemma flat_inj rds : forall r1 r2,
  Forall2 in_bounds rds r1 -> Forall2 in_bounds rds r2 -> flat rds r1 = flat rds r2 -> r1 = r2.
Proof.
  induction rds as [|[lb ub] rds IH]; intros r1 r2 H1 H2 Heq; inversion H1; inversion H2; subst; [reflexivity|].
  cbn [flat] in Heq.
  repeat match goal with Hb : in_bounds _ _ |- _ => unfold in_bounds in Hb; cbn in Hb end.
  assert (flat rds l' = flat rds l'0 /\ y - lb = y0 - lb) as [Hf Hy].
  { apply (Z.div_mod_unique (ub - lb + 1)); [left; lia|left; lia|lia]. }
  assert (y = y0) by lia; subst y0.
  f_equal. eapply IH; eauto.
Qed.

Lemma Forall2_rev {A B} (P : A -> B -> Prop) l1 l2 : Forall2 P l1 l2 -> Forall2 P (rev l1) (rev l2).
Proof.
  induction 1; cbn; [constructor|]. apply Forall2_app; [assumption|constructor; [assumption|constructor]].
Qed.

Lemma Forall2_rev_inv {A B} (P : A -> B -> Prop) l1 l2 : Forall2 P (rev l1) (rev l2) -> Forall2 P l1 l2.
Proof. intros H. apply Forall2_rev in H. now rewrite !rev_involutive in H. Qed.

Lemma array_len_app a b : array_len (a ++ b) = array_len a * array_len b.
Proof.
  unfold array_len. induction a as [|d a IH]; cbn [app fold_right]; [lia|]. rewrite IH. ring.
Qed.

Lemma array_len_rev ds : array_len (rev ds) = array_len ds.
Proof.
  induction ds as [|d ds IH]; [reflexivity|]. cbn [rev]. rewrite array_len_app, IH.
  unfold array_len; cbn [fold_right]. ring.
Qed.

(** ** The Subscript-out-of-range condition is exact *)
Theorem abs_index_ok_iff ds idx :
  (exists k, abs_index ds idx = Some k) <-> Forall2 in_bounds ds idx.
Proof.
  unfold abs_index. split.
  - intros [k H]. apply go_some in H. now apply Forall2_rev_inv.
  - intros H. apply Forall2_rev in H. rewrite (go_spec _ _ 0 1 H). eauto.
Qed.

Theorem abs_index_range ds idx k : abs_index ds idx = Some k -> 0 <= k < array_len ds.
Proof.
  unfold abs_index. intros H. pose proof (go_some _ _ _ _ _ H) as Hb.
  rewrite (go_spec _ _ 0 1 Hb), Z.add_0_l, Z.mul_1_l in H. inversion H; subst.
  pose proof (flat_range _ _ Hb) as Hr. rewrite array_len_rev in Hr. lia.
Qed.

(** ** Distinct index tuples denote distinct elements *)
Theorem abs_index_injective ds i1 i2 k :
  abs_index ds i1 = Some k -> abs_index ds i2 = Some k -> i1 = i2.
Proof.
  unfold abs_index. intros H1 H2.
  pose proof (go_some _ _ _ _ _ H1) as Hb1. pose proof (go_some _ _ _ _ _ H2) as Hb2.
  rewrite (go_spec _ _ 0 1 Hb1), Z.add_0_l, Z.mul_1_l in H1.
  rewrite (go_spec _ _ 0 1 Hb2), Z.add_0_l, Z.mul_1_l in H2.
  assert (Hf : flat (rev ds) (rev i1) = flat (rev ds) (rev i2)) by congruence.
  apply (flat_inj _ _ _ Hb1 Hb2) in Hf.
  rewrite <- (rev_involutive i1), <- (rev_involutive i2), Hf. reflexivity.
Qed.

(** every flat index below the length is hit: with injectivity, a bijection box <-> [0, len) *)
Lemma flat_surj rds : Forall (fun d => fst d <= snd d) rds -> forall k, 0 <= k < array_len rds ->
  exists ridx, Forall2 in_bounds rds ridx /\ flat rds ridx = k.
Proof.
  induction 1 as [|[lb ub] rds Hd Hw IH]; intros k Hk; cbn [array_len fold_right] in Hk.
  - exists []. split; [constructor|cbn; lia].
  - fold (array_len rds) in Hk. unfold dim_size in Hk; cbn [fst snd] in *.
    set (n := ub - lb + 1) in *.
    assert (Hn : 0 < n) by (unfold n; lia).
    destruct (IH (k / n)) as (ridx & Hb & Hf).
    { split; [apply Z.div_pos; lia|apply Z.div_lt_upper_bound; lia]. }
    exists (lb + k mod n :: ridx). split.
    + constructor; [|assumption]. unfold in_bounds; cbn. pose proof (Z.mod_pos_bound k n Hn). lia.
    + cbn [flat]. rewrite Hf. fold n. pose proof (Z.div_mod k n ltac:(lia)). lia.
Qed.

Theorem abs_index_surjective ds k : Forall (fun d => fst d <= snd d) ds -> 0 <= k < array_len ds ->
  exists idx, abs_index ds idx = Some k.
Proof.
  intros Hw Hk. rewrite <- array_len_rev in Hk.
  assert (Hw' : Forall (fun d => fst d <= snd d) (rev ds)) by (apply Forall_rev; assumption).
  destruct (flat_surj _ Hw' k Hk) as (ridx & Hb & Hf).
  exists (rev ridx). unfold abs_index. rewrite rev_involutive, (go_spec _ _ 0 1 Hb). f_equal. lia.
Qed.

(** ** Stores change one element and nothing else *)
Lemma list_set_length {A} (l : list A) n v : length (list_set l n v) = length l.
Proof. revert n; induction l as [|h t IH]; intros [|n]; cbn; auto. Qed.

Lemma nth_list_set_same {A} (l : list A) n v : (n < length l)%nat -> nth_error (list_set l n v) n = Some v.
Proof. revert n; induction l as [|h t IH]; intros [|n] H; cbn in *; try lia; auto. apply IH; lia. Qed.

Lemma nth_list_set_other {A} (l : list A) n m v : n <> m -> nth_error (list_set l n v) m = nth_error l m.
Proof. revert n m; induction l as [|h t IH]; intros [|n] [|m] H; cbn; auto; try congruence. Qed.

Theorem set_get_same {A} (a a' : varray A) idx v :
  set_element a idx v = Some a' -> get_element a' idx = Some v /\ va_dims a' = va_dims a.
Proof.
  unfold set_element, get_element. destruct (abs_index (va_dims a) idx) as [k|] eqn:E; [|discriminate].
  destruct (Nat.ltb_spec (Z.to_nat k) (length (va_elems a))) as [Hlt|Hge]; [|discriminate].
  intros Hs; inversion Hs; subst; cbn [va_dims va_elems]. rewrite E. split; [|reflexivity]. now apply nth_list_set_same.
Qed.

Theorem set_get_other {A} (a a' : varray A) i j v :
  set_element a i v = Some a' -> j <> i -> get_element a' j = get_element a j.
Proof.
  unfold set_element, get_element. destruct (abs_index (va_dims a) i) as [k|] eqn:E; [|discriminate].
  destruct (Nat.ltb_spec (Z.to_nat k) (length (va_elems a))) as [Hlt|Hge]; [|discriminate].
  intros Hs Hne; inversion Hs; subst; cbn [va_dims va_elems].
  destruct (abs_index (va_dims a) j) as [k'|] eqn:E'; [|reflexivity].
  apply nth_list_set_other. intros Heq.
  apply abs_index_range in E as Hr. apply abs_index_range in E' as Hr'.
  assert (k = k') by lia. subst. apply Hne. eapply abs_index_injective; eauto.
Qed.

(** a store succeeds exactly when the index tuple is in bounds (for arrays built by [va_new] and
    updated by [set_element]: the element list has [array_len] entries) *)
Definition va_ok {A} (a : varray A) : Prop := Z.of_nat (length (va_elems a)) = array_len (va_dims a).

Lemma va_new_ok {A} ds (d : A) : 0 <= array_len ds -> va_ok (va_new ds d).
Proof. intros H. unfold va_ok, va_new; cbn [va_elems va_dims]. rewrite repeat_length. lia. Qed.

Lemma array_len_pos ds : Forall (fun d => fst d <= snd d) ds -> 0 < array_len ds.
Proof.
  induction 1 as [|[lb ub] ds Hd _ IH]; cbn [array_len fold_right]; [lia|].
  fold (array_len ds). unfold dim_size; cbn [fst snd] in *. nia.
Qed.

Theorem set_element_ok {A} (a : varray A) idx v : va_ok a ->
  ((exists a', set_element a idx v = Some a' /\ va_ok a') <-> Forall2 in_bounds (va_dims a) idx).
Proof.
  intros Hok. rewrite <- abs_index_ok_iff. unfold set_element. split.
  - intros (a' & H & _). destruct (abs_index (va_dims a) idx); [eauto|discriminate].
  - intros [k E]. rewrite E. apply abs_index_range in E as Hr. unfold va_ok in Hok.
    destruct (Nat.ltb_spec (Z.to_nat k) (length (va_elems a))); [|lia].
    eexists; split; [reflexivity|]. unfold va_ok; cbn [va_dims va_elems]. rewrite list_set_length. exact Hok.
Qed.

Theorem get_element_ok {A} (a : varray A) idx : va_ok a ->
  ((exists v, get_element a idx = Some v) <-> Forall2 in_bounds (va_dims a) idx).
Proof.
  intros Hok. rewrite <- abs_index_ok_iff. unfold get_element. split.
  - intros (v & H). destruct (abs_index (va_dims a) idx); [eauto|discriminate].
  - intros [k E]. rewrite E. apply abs_index_range in E as Hr. unfold va_ok in Hok.
    destruct (nth_error (va_elems a) (Z.to_nat k)) eqn:En; [eauto|].
    apply nth_error_None in En. lia.
Qed.

Theorem new_array_default {A} ds (d : A) idx :
  Forall2 in_bounds ds idx -> get_element (va_new ds d) idx = Some d.
Proof.
  intros H. apply abs_index_ok_iff in H as [k E]. unfold get_element, va_new; cbn [va_dims va_elems]. rewrite E.
  apply abs_index_range in E.
  assert (Hn : (Z.to_nat k < length (repeat d (Z.to_nat (array_len ds))))%nat) by (rewrite repeat_length; lia).
  destruct (nth_error (repeat d (Z.to_nat (array_len ds))) (Z.to_nat k)) eqn:En.
  - apply nth_error_In, repeat_spec in En. now subst.
  - apply nth_error_None in En. lia.
Qed.

(** ** LBOUND / UBOUND report the declared bounds, and stores keep them *)
Theorem bounds_report_declared {A} ds (d : A) (k : nat) lb ub :
  nth_error ds k = Some (lb, ub) ->
  lbound (va_new ds d) (S k) = Some lb /\ ubound (va_new ds d) (S k) = Some ub.
Proof. intros H. unfold lbound, ubound, va_new; cbn [va_dims]. rewrite H. split; reflexivity. Qed.

Theorem bounds_kept_by_set {A} (a a' : varray A) idx v dim :
  set_element a idx v = Some a' -> lbound a' dim = lbound a dim /\ ubound a' dim = ubound a dim.
Proof. intros H. apply set_get_same in H as [_ Hd]. unfold lbound, ubound. rewrite Hd. split; reflexivity. Qed.

(** ** A STRING * n always holds exactly n characters *)
Theorem fix_length_exact s n : length (fix_length s n) = n.
Proof.
  unfold fix_length. rewrite app_length, repeat_length.
  pose proof (firstn_le_length n (cut_at_nul s)). lia.
Qed.

Lemma cut_at_nul_no_nul s : ~ In 0 s -> cut_at_nul s = s.
Proof.
  induction s as [|c t IH]; cbn; intros H; [reflexivity|].
  destruct (Z.eqb_spec c 0); [exfalso; apply H; left; auto|]. f_equal. apply IH. intros Hin. apply H. right; exact Hin.
Qed.

Theorem fix_length_truncates s n : ~ In 0 s -> (n <= length s)%nat -> fix_length s n = firstn n s.
Proof.
  intros H Hle. unfold fix_length. rewrite (cut_at_nul_no_nul s H).
  rewrite firstn_length_le by lia. replace (n - n)%nat with 0%nat by lia. cbn. now rewrite app_nil_r.
Qed.

Theorem fix_length_pads s n : ~ In 0 s -> (length s <= n)%nat ->
  fix_length s n = s ++ repeat 32 (n - length s).
Proof.
  intros H Hle. unfold fix_length. rewrite (cut_at_nul_no_nul s H).
  rewrite (firstn_all2 s) by lia. reflexivity.
Qed.

(** a NUL ends the string before it is padded *)
Lemma cut_at_nul_app s1 s2 : ~ In 0 s1 -> cut_at_nul (s1 ++ 0 :: s2) = s1.
Proof.
  induction s1 as [|c t IH]; cbn; intros H; [reflexivity|].
  destruct (Z.eqb_spec c 0); [exfalso; apply H; left; auto|].
  f_equal. apply IH. intros Hin. apply H. right; exact Hin.
Qed.

Theorem fix_length_nul s1 s2 n : ~ In 0 s1 -> fix_length (s1 ++ 0 :: s2) n = fix_length s1 n.
Proof.
  intros H. unfold fix_length. now rewrite (cut_at_nul_app s1 s2 H), (cut_at_nul_no_nul s1 H).
Qed.

(** ** Record fields: keys are compared case-insensitively; a store changes that field only *)
Lemma key_eqb_spec a b : key_eqb a b = true <-> map upper a = map upper b.
Proof.
  revert b; induction a as [|x a IH]; intros [|y b]; cbn; split; intros H; try discriminate; auto.
  - apply andb_true_iff in H as [H1 H2]. apply Z.eqb_eq in H1. apply IH in H2. congruence.
  - inversion H. apply andb_true_iff. split; [now apply Z.eqb_eq|now apply IH].
Qed.

Lemma key_eqb_refl a : key_eqb a a = true.
Proof. now apply key_eqb_spec. Qed.

Lemma key_eqb_trans_false k' k k'' : key_eqb k' k = true -> key_eqb k k'' = false -> key_eqb k' k'' = false.
Proof.
  intros H1 H2. destruct (key_eqb k' k'') eqn:E; [|reflexivity].
  apply key_eqb_spec in H1, E. assert (key_eqb k k'' = true) by (apply key_eqb_spec; congruence). congruence.
Qed.

Lemma key_eqb_trans k' k k'' : key_eqb k' k = true -> key_eqb k k'' = true -> key_eqb k' k'' = true.
Proof. intros H1 H2. apply key_eqb_spec in H1, H2. apply key_eqb_spec. congruence. Qed.

Theorem field_set_get_same {A} (r : record A) k k' v old :
  field_get r k = Some old -> key_eqb k k' = true -> field_get (field_set r k v) k' = Some v.
Proof.
  induction r as [|[k0 v0] r IH]; cbn; intros H Hk; [discriminate|].
  destruct (key_eqb k0 k) eqn:E; cbn.
  - rewrite (key_eqb_trans _ _ _ E Hk). reflexivity.
  - destruct (key_eqb k0 k') eqn:E'.
    + exfalso. apply key_eqb_spec in E', Hk.
      assert (key_eqb k0 k = true) by (apply key_eqb_spec; congruence). congruence.
    + now apply IH.
Qed.

Theorem field_set_get_other {A} (r : record A) k k' v :
  key_eqb k k' = false -> field_get (field_set r k v) k' = field_get r k'.
Proof.
  induction r as [|[k0 v0] r IH]; cbn; intros Hk; [reflexivity|].
  destruct (key_eqb k0 k) eqn:E; cbn.
  - rewrite (key_eqb_trans_false _ _ _ E Hk). reflexivity.
  - destruct (key_eqb k0 k'); [reflexivity|now apply IH].
Qed.

Theorem field_set_keeps_names {A} (r : record A) k v : map fst (field_set r k v) = map fst r.
Proof. induction r as [|[k0 v0] r IH]; cbn; [reflexivity|]. destruct (key_eqb k0 k); cbn; congruence. Qed.
