(** RT.ReadInput - the byte-level reader behind LINE INPUT and INPUT, for a file and for the console alike
    (rusty_basic/src/interpreter/read_input.rs: ReadInputSource::{eof, input, line_input, skip_while,
    read_until}). The stream is the list of bytes not yet consumed; a byte is a character (b as char).
    Model only; proofs are in ReadInputProofs.v. *)
From Coq Require Import List Arith Bool.
From RB Require Import RT.Files.
Import ListNotations.

Definition is_crlf (b : nat) : bool := (b =? 13) || (b =? 10).
Definition is_sep (b : nat) : bool := (b =? 44) || is_crlf b.

(** char::is_whitespace on U+0000..U+00FF (what str::trim removes) *)
Definition is_ws (b : nat) : bool :=
  existsb (Nat.eqb b) [9; 10; 11; 12; 13; 32; 133; 160].

Definition eat_lf (r : list nat) : list nat :=
  match r with
  | c :: r' => if c =? 10 then r' else r
  | [] => []
  end.

(** read_until: bytes up to the first one satisfying p; that byte is consumed, and so is a LF that
    follows a consumed CR; the end of the stream ends the field too *)
Fixpoint read_until (p : nat -> bool) (bs : list nat) : list nat * list nat :=
  match bs with
  | [] => ([], [])
  | c :: r =>
      if p c then ([], if c =? 13 then eat_lf r else r)
      else let '(a, rest) := read_until p r in (c :: a, rest)
  end.

Fixpoint skip_spaces (bs : list nat) : list nat :=
  match bs with
  | c :: r => if c =? 32 then skip_spaces r else bs
  | [] => []
  end.

Fixpoint trim_left (bs : list nat) : list nat :=
  match bs with
  | c :: r => if is_ws c then trim_left r else bs
  | [] => []
  end.

Definition trim (bs : list nat) : list nat := rev (trim_left (rev (trim_left bs))).

Definition at_eof (bs : list nat) : bool := match bs with [] => true | _ => false end.

(** None = Input past end of file *)
Definition line_input (bs : list nat) : option (list nat * list nat) :=
  if at_eof bs then None else Some (read_until is_crlf bs).

Definition input (bs : list nat) : option (list nat * list nat) :=
  if at_eof bs then None
  else let '(f, rest) := read_until is_sep (skip_spaces bs) in Some (trim f, rest).

Inductive rop := OInput | OLine | OEof.

(** a sequence of reads on one stream; stops at the first error (62), as the program does *)
Fixpoint rrun (bs : list nat) (ops : list rop) : list fres :=
  match ops with
  | [] => []
  | OEof :: r => RBool (at_eof bs) :: rrun bs r
  | OInput :: r => match input bs with None => [RErr 62] | Some (v, bs') => RLine v :: rrun bs' r end
  | OLine :: r => match line_input bs with None => [RErr 62] | Some (v, bs') => RLine v :: rrun bs' r end
  end.

(** what PRINT # writes for whole lines of text, and for one line of comma-separated fields *)
Definition write_lines (lines : list (list nat)) : list nat :=
  concat (map (fun l => l ++ [13; 10]) lines).

Fixpoint join_fields (fs : list (list nat)) : list nat :=
  match fs with
  | [] => []
  | [f] => f
  | f :: r => f ++ 44 :: join_fields r
  end.

(** reading all lines / n fields *)
Fixpoint read_lines (fuel : nat) (bs : list nat) : list (list nat) :=
  match fuel with
  | 0 => []
  | S k => match line_input bs with None => [] | Some (l, r) => l :: read_lines k r end
  end.

Fixpoint read_fields (n : nat) (bs : list nat) : list (list nat) * list nat :=
  match n with
  | 0 => ([], bs)
  | S k => match input bs with
           | None => ([], bs)
           | Some (f, r) => let '(fs, r') := read_fields k r in (f :: fs, r')
           end
  end.
