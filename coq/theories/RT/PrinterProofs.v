(** PRINT layout theorems (C16). *)
From Coq Require Import List ZArith Bool Arith Lia.
From RB Require Import RT.Printer.
Import ListNotations.

Definition nocrlf (s : str) : Prop := Forall (fun c => is_cr_lf c = false) s.

(** number of bytes written since the last line feed *)
Fixpoint tail_len_acc (o : str) (acc : nat) : nat :=
  match o with
  | [] => acc
  | c :: t => if Z.eqb c 10 then tail_len_acc t 0 else tail_len_acc t (S acc)
  end.
Definition tail_len (o : str) : nat := tail_len_acc o 0.

(** the invariant: the tracked column is the number of bytes emitted since the last CR LF *)
Definition Inv (d : dev) : Prop := col d = tail_len (out d).

Lemma tail_len_acc_app a : forall b acc, tail_len_acc (a ++ b) acc = tail_len_acc b (tail_len_acc a acc).
Proof. induction a as [|c a IH]; intros b acc; cbn; [reflexivity|]. destruct (Z.eqb c 10); apply IH. Qed.

Lemma tail_len_acc_nocrlf s : nocrlf s -> forall acc, tail_len_acc s acc = acc + length s.
Proof.
  induction 1 as [|c s Hc Hs IH]; intros acc; cbn; [lia|].
  unfold is_cr_lf in Hc. apply orb_false_iff in Hc as [_ Hc]. rewrite Hc, IH. lia.
Qed.

Lemma print_as_is_inv d s : nocrlf s -> Inv d -> Inv (print_as_is d s).
Proof.
  unfold Inv, print_as_is, tail_len; cbn [out col]. intros Hs Hd.
  rewrite tail_len_acc_app, tail_len_acc_nocrlf by assumption. rewrite Hd. reflexivity.
Qed.

Lemma println_inv d : Inv (println d).
Proof. unfold Inv, println, tail_len; cbn. rewrite tail_len_acc_app. reflexivity. Qed.

Lemma split_parts_nocrlf s : forall cur, nocrlf cur -> Forall nocrlf (split_cr_lf s cur).
Proof.
  induction s as [|c t IH]; intros cur Hc; cbn; [constructor; [exact Hc|constructor]|].
  destruct (is_cr_lf c) eqn:E.
  - constructor; [exact Hc|apply IH; constructor].
  - apply IH. apply Forall_app; split; [exact Hc|constructor; [exact E|constructor]].
Qed.

Lemma split_nonempty s cur : split_cr_lf s cur <> [].
Proof. revert cur; induction s as [|c t IH]; intros cur; cbn; [discriminate|]. destruct (is_cr_lf c); [discriminate|apply IH]. Qed.

Lemma fold_parts_inv rest : Forall nocrlf rest -> forall d, Inv d ->
  Inv (fold_left (fun d' part => print_as_is (println d') part) rest d).
Proof.
  induction 1 as [|p rest Hp Hr IH]; intros d Hd; cbn; [exact Hd|].
  apply IH. apply print_as_is_inv; [exact Hp|apply println_inv].
Qed.

Theorem print_inv d s : Inv d -> Inv (print d s).
Proof.
  intros Hd. unfold print. pose proof (split_parts_nocrlf s [] ltac:(constructor)) as Hp.
  destruct (split_cr_lf s []) as [|p rest]; [exact Hd|]. inversion Hp; subst.
  apply fold_parts_inv; [assumption|]. now apply print_as_is_inv.
Qed.

Lemma split_nocrlf s : nocrlf s -> forall cur, split_cr_lf s cur = [cur ++ s].
Proof.
  induction 1 as [|c s Hc Hs IH]; intros cur; cbn; [now rewrite app_nil_r|].
  rewrite Hc, IH, <- app_assoc. reflexivity.
Qed.

(** a string without CR/LF is emitted byte for byte *)
Theorem string_verbatim d s : nocrlf s ->
  print d s = mk_dev (out d ++ s) (col d + length s).
Proof. intros H. unfold print. rewrite (split_nocrlf s H []). reflexivity. Qed.

Lemma split_break a c b : nocrlf a -> is_cr_lf c = true -> forall cur,
  split_cr_lf (a ++ c :: b) cur = (cur ++ a) :: split_cr_lf b [].
Proof.
  induction 1 as [|x a Hx Ha IH]; intros Hc cur; cbn.
  - rewrite Hc, app_nil_r. reflexivity.
  - rewrite Hx, IH by assumption. rewrite <- app_assoc. reflexivity.
Qed.

(** each CR and each LF inside a string is emitted as CR LF and restarts the column *)
Theorem string_with_break d a c b : nocrlf a -> is_cr_lf c = true ->
  print d (a ++ c :: b) = print (println (print_as_is d a)) b.
Proof.
  intros Ha Hc. unfold print at 1. rewrite (split_break a c b Ha Hc []). cbn [app].
  unfold print. pose proof (split_nonempty b []) as Hne.
  destruct (split_cr_lf b []) as [|p rest]; [congruence|]. reflexivity.
Qed.

Lemma spaces_nocrlf n : nocrlf (repeat 32%Z n).
Proof. induction n; cbn; constructor; auto. Qed.

(** a comma pads with blanks to the next multiple of 14 columns (strictly beyond the current one) *)
Theorem comma_next_zone d :
  out (next_zone d) = out d ++ repeat 32%Z (14 - col d mod 14) /\
  col (next_zone d) = col d + (14 - col d mod 14) /\
  col (next_zone d) mod 14 = 0 /\
  col d < col (next_zone d) <= col d + 14.
Proof.
  unfold next_zone. rewrite string_verbatim by apply spaces_nocrlf. cbn [out col]. rewrite repeat_length.
  pose proof (Nat.mod_upper_bound (col d) 14 ltac:(lia)) as Hm.
  pose proof (Nat.div_mod (col d) 14 ltac:(lia)) as Hd.
  repeat split; try lia.
  replace (col d + (14 - col d mod 14)) with ((col d / 14 + 1) * 14) by lia.
  apply Nat.mod_mul. lia.
Qed.

Lemma next_zone_inv d : Inv d -> Inv (next_zone d).
Proof. intros H. unfold next_zone. now apply print_inv. Qed.

Lemma print_args_inv args : forall d skip, Inv d -> Inv (fst (print_args d args skip)).
Proof.
  induction args as [|a args IH]; intros d skip Hd; cbn [print_args]; [exact Hd|].
  destruct a as [| |i]; apply IH; auto using next_zone_inv, print_inv.
Qed.

Theorem print_stmt_inv d args : Inv d -> Inv (print_stmt d args).
Proof.
  intros Hd. unfold print_stmt. pose proof (print_args_inv args d false Hd) as H.
  destruct (print_args d args false) as [d' skip]. cbn in H. destruct skip; [exact H|apply println_inv].
Qed.

(** over every history of PRINT statements, on every device, the column is the number of bytes
    written to that device since its last CR LF *)
Theorem column_tracks_output h : forall ds, (forall d, Inv (ds d)) -> forall d, Inv (run_history h ds d).
Proof.
  induction h as [|[k args] h IH]; intros ds Hds d; cbn [run_history fold_left]; [apply Hds|].
  apply IH. intros d'. unfold upd. cbn [fst snd]. destruct (device_eqb k d'); [apply print_stmt_inv|]; apply Hds.
Qed.

Lemma device_eqb_eq a b : device_eqb a b = true <-> a = b.
Proof.
  destruct a, b; cbn; split; intros H; try discriminate; try reflexivity; try congruence.
  - apply Nat.eqb_eq in H. congruence.
  - inversion H. apply Nat.eqb_refl.
Qed.

(** devices are independent: statements for other devices change neither bytes nor column *)
Theorem devices_independent h : forall ds d, Forall (fun st => fst st <> d) h -> run_history h ds d = ds d.
Proof.
  induction h as [|[k args] h IH]; intros ds d Hh; cbn [run_history fold_left]; [reflexivity|].
  inversion Hh; subst. cbn [fst snd]. fold (run_history h (upd ds k (print_stmt (ds k) args))). rewrite IH by assumption.
  unfold upd. destruct (device_eqb k d) eqn:E; [apply device_eqb_eq in E; cbn in *; congruence|reflexivity].
Qed.

(** the statement ends with CR LF exactly when its last item is not a separator *)
Definition ends_with_separator (args : list parg) : bool :=
  match rev args with AComma :: _ | ASemi :: _ => true | _ => false end.

Lemma print_args_skip args : forall d skip,
  snd (print_args d args skip) =
  match rev args with [] => skip | AComma :: _ | ASemi :: _ => true | AItem _ :: _ => false end.
Proof.
  induction args as [|a args IH]; intros d skip; cbn [print_args rev]; [reflexivity|].
  destruct a as [| |i]; rewrite IH; destruct (rev args) as [|x r]; cbn; try reflexivity; destruct x; reflexivity.
Qed.

Theorem line_end_rule d args :
  print_stmt d args =
  let d' := fst (print_args d args false) in
  if ends_with_separator args then d' else println d'.
Proof.
  unfold print_stmt, ends_with_separator. pose proof (print_args_skip args d false) as H.
  destruct (print_args d args false) as [d' skip]. cbn in *. subst skip.
  destruct (rev args) as [|x r]; [reflexivity|]. destruct x; reflexivity.
Qed.

(** a semicolon adds nothing *)
Theorem semicolon_adds_nothing d args skip :
  fst (print_args d (ASemi :: args) skip) = fst (print_args d args true).
Proof. reflexivity. Qed.

(** a number prints as sign-or-blank, digits, blank *)
Theorem number_layout d neg digits : nocrlf digits ->
  print d (item_text (INum neg digits)) =
  mk_dev (out d ++ (if neg then 45%Z else 32%Z) :: digits ++ [32%Z]) (col d + S (length digits + 1)).
Proof.
  intros H. rewrite string_verbatim.
  - cbn [item_text length]. rewrite app_length. reflexivity.
  - cbn [item_text]. constructor; [destruct neg; reflexivity|]. apply Forall_app. split; [exact H|repeat constructor].
Qed.
