(** Over every history of context operations: the block of a STATIC subprogram keeps its identity
    (so its variables survive whatever is called, returned from or freed in between), and the block
    a called subprogram starts with is brand new (fresh locals for every activation). *)
From Coq Require Import List Arith Bool Lia.
From RB Require Import RT.Ctx.
Import ListNotations.

(** ** list lemmas *)
Lemma nth_error_remove_nth {A} : forall (l : list A) i j, j <> i ->
  nth_error (remove_nth i l) (shift i j) = nth_error l j.
Proof.
  induction l as [|x l IH]; intros i j Hne; unfold shift.
  - assert (E : remove_nth i (@nil A) = []) by (destruct i; reflexivity). rewrite E.
    destruct (if Nat.ltb i j then j - 1 else j); destruct j; reflexivity.
  - destruct i as [|i].
    + destruct j as [|j]; [contradiction|]. cbn [remove_nth]. cbn. rewrite Nat.sub_0_r. reflexivity.
    + destruct j as [|j]; [reflexivity|]. cbn [remove_nth].
      specialize (IH i j (fun H => Hne (f_equal S H))). unfold shift in IH.
      change (Nat.ltb (S i) (S j)) with (Nat.ltb i j).
      destruct (Nat.ltb_spec i j) as [Hlt|Hge].
      * destruct j as [|j]; [lia|]. cbn. cbn in IH. rewrite Nat.sub_0_r in IH. exact IH.
      * cbn. exact IH.
Qed.

Lemma nth_error_update_nth {A} (f : A -> A) : forall (l : list A) i j,
  nth_error (update_nth i f l) j = if Nat.eqb i j then option_map f (nth_error l j) else nth_error l j.
Proof.
  induction l as [|x l IH]; intros i j.
  - assert (E : update_nth i f (@nil A) = []) by (destruct i; reflexivity). rewrite E.
    destruct (Nat.eqb i j); destruct j; reflexivity.
  - destruct i as [|i], j as [|j]; cbn; try reflexivity. apply IH.
Qed.

Lemma slookup_map_shift r : forall m n,
  slookup (map (fun e => (fst e, shift r (snd e))) m) n = option_map (shift r) (slookup m n).
Proof.
  induction m as [|[k i] m IH]; intros n; cbn; [reflexivity|]. destruct (Nat.eqb k n); [reflexivity|apply IH].
Qed.

(** ** the invariant *)
Definition Inv (c : ctx) : Prop :=
  (forall n i, slookup (smap c) n = Some i -> exists b, nth_error (blocks c) i = Some b /\ bstatic b = true) /\
  (forall b, In b (blocks c) -> bid b < fresh c).

Lemma inv0 : Inv ctx0.
Proof. split; [intros n i H; discriminate|]. intros b [H|[]]; subst; cbn; lia. Qed.

Lemma in_update_nth {A} (f : A -> A) : forall (l : list A) i y, In y (update_nth i f l) -> exists x, In x l /\ (y = x \/ y = f x).
Proof.
  induction l as [|x l IH]; intros i y H; [destruct i; destruct H|].
  destruct i as [|i]; cbn in H.
  - destruct H as [H|H]; [exists x; split; [left; reflexivity|right; symmetry; exact H]|exists y; split; [right; exact H|left; reflexivity]].
  - destruct H as [H|H]; [exists x; split; [left; reflexivity|left; symmetry; exact H]|].
    destruct (IH i y H) as (z & Hz & E). exists z; split; [right; exact Hz|exact E].
Qed.

Lemma in_remove_nth {A} : forall (l : list A) i y, In y (remove_nth i l) -> In y l.
Proof.
  induction l as [|x l IH]; intros i y H; [destruct i; destruct H|].
  destruct i as [|i]; cbn in H; [right; exact H|]. destruct H as [H|H]; [left; exact H|right; eapply IH; exact H].
Qed.

(** [do_pop] keeps the invariant and every static block where the map says it is *)
Lemma do_pop_inv c c' s : Inv c -> do_pop c = Some (c', s) ->
  Inv c' /\ fresh c' = fresh c /\
  forall n, static_block c' n = static_block c n.
Proof.
  intros [HS HF] H. unfold do_pop in H.
  destruct (states c) as [|[i a] rest]; [discriminate|].
  destruct (nth_error (blocks c) i) as [b|] eqn:Eb; [|discriminate].
  destruct (Nat.ltb 1 (rc b)).
  - inversion H; subst c' s; clear H. unfold Inv; cbn [blocks smap fresh]. split; [split|split; [reflexivity|]].
    + intros n j Hn. destruct (HS n j Hn) as (bj & Ej & Sj). rewrite nth_error_update_nth.
      destruct (Nat.eqb i j); [rewrite Ej; cbn; eexists; split; [reflexivity|exact Sj]|eexists; split; [exact Ej|exact Sj]].
    + intros y Hy. destruct (in_update_nth _ _ _ _ Hy) as (x & Hx & [E|E]); subst y; [apply HF; exact Hx|cbn; apply HF; exact Hx].
    + intros n. unfold static_block. cbn [smap blocks]. destruct (slookup (smap c) n) as [j|]; [|reflexivity].
      rewrite nth_error_update_nth. destruct (Nat.eqb i j); [destruct (nth_error (blocks c) j); reflexivity|reflexivity].
  - destruct (bstatic b) eqn:Sb.
    + inversion H; subst c' s; clear H. split; [split; assumption|split; [reflexivity|intros n; reflexivity]].
    + inversion H; subst c' s; clear H. unfold Inv; cbn [blocks smap fresh].
      assert (Hne : forall n j, slookup (smap c) n = Some j -> j <> i).
      { intros n j Hn Hji. subst j. destruct (HS n i Hn) as (bj & Ej & Sj). rewrite Eb in Ej. inversion Ej; subst. congruence. }
      split; [split|split; [reflexivity|]].
      * intros n j Hn. rewrite slookup_map_shift in Hn. destruct (slookup (smap c) n) as [j0|] eqn:E0; [|discriminate].
        cbn in Hn. inversion Hn; subst j. rewrite nth_error_remove_nth by (eapply Hne; exact E0). apply (HS n j0 E0).
      * intros y Hy. apply HF. eapply in_remove_nth; exact Hy.
      * intros n. unfold static_block. cbn [smap blocks]. rewrite slookup_map_shift.
        destruct (slookup (smap c) n) as [j0|] eqn:E0; [|reflexivity]. cbn.
        rewrite nth_error_remove_nth by (eapply Hne; exact E0). reflexivity.
Qed.

Lemma push_existing_inv c c' i a : Inv c -> push_existing c i a = Some c' ->
  Inv c' /\ fresh c' = fresh c /\ forall n, static_block c' n = static_block c n.
Proof.
  intros [HS HF] H. unfold push_existing in H. destruct (nth_error (blocks c) i) eqn:E; [|discriminate].
  inversion H; subst c'; clear H. unfold Inv; cbn [blocks smap fresh]. split; [split|split; [reflexivity|]].
  - intros n j Hn. destruct (HS n j Hn) as (bj & Ej & Sj). rewrite nth_error_update_nth.
    destruct (Nat.eqb i j); [rewrite Ej; cbn; eexists; split; [reflexivity|exact Sj]|eexists; split; [exact Ej|exact Sj]].
  - intros y Hy. destruct (in_update_nth _ _ _ _ Hy) as (x & Hx & [E'|E']); subst y; [apply HF; exact Hx|cbn; apply HF; exact Hx].
  - intros n. unfold static_block. cbn [smap blocks]. destruct (slookup (smap c) n) as [j|]; [|reflexivity].
    rewrite nth_error_update_nth. destruct (Nat.eqb i j); [destruct (nth_error (blocks c) j); reflexivity|reflexivity].
Qed.

Lemma push_new_inv c st : Inv c ->
  Inv (push_new c st) /\ forall n id, static_block c n = Some id -> static_block (push_new c st) n = Some id.
Proof.
  intros [HS HF]. unfold push_new, Inv. split; [split|]; cbn [blocks smap fresh].
  - intros n j Hn. destruct (HS n j Hn) as (bj & Ej & Sj). exists bj. split; [|exact Sj].
    rewrite nth_error_app1; [exact Ej|]. apply nth_error_Some. congruence.
  - intros y Hy. apply in_app_or in Hy. destruct Hy as [Hy|[Hy|[]]]; [specialize (HF y Hy); lia|subst y; cbn; lia].
  - intros n id H. unfold static_block in *. cbn [smap blocks]. destruct (slookup (smap c) n) as [j|] eqn:E; [|discriminate].
    destruct (HS n j E) as (bj & Ej & _). rewrite nth_error_app1 by (apply nth_error_Some; congruence). exact H.
Qed.

Lemma drop_arg_states_inv : forall f c c', Inv c -> drop_arg_states f c = Some c' ->
  Inv c' /\ fresh c' = fresh c /\ forall n, static_block c' n = static_block c n.
Proof.
  induction f as [|f IH]; intros c c' HI H; cbn [drop_arg_states] in H; [discriminate|].
  destruct (states c) as [|[i [|]] rest] eqn:Es.
  - inversion H; subst; auto.
  - destruct (do_pop c) as [[c1 s]|] eqn:Ep; [|discriminate].
    destruct (do_pop_inv c c1 s HI Ep) as (I1 & F1 & S1).
    destruct (IH c1 c' I1 H) as (I2 & F2 & S2). split; [exact I2|]. split; [congruence|].
    intros n. rewrite S2. apply S1.
  - inversion H; subst; auto.
Qed.

(** ** the theorems *)

(** every operation keeps the invariant, and the block of every STATIC subprogram seen so far stays
    the same block *)
Theorem apply_keeps_static_blocks : forall o c c', Inv c -> apply o c = Some c' ->
  Inv c' /\ forall n id, static_block c n = Some id -> static_block c' n = Some id.
Proof.
  intros o c c' HI H. destruct o; cbn [apply] in H.
  - (* BeginCollect *)
    destruct (states c) as [|[i a] rest]; [discriminate|].
    destruct (push_existing_inv c c' i true HI H) as (I1 & _ & S1). split; [exact I1|]. intros n id Hs. rewrite S1. exact Hs.
  - (* StopCollect *)
    destruct (do_pop c) as [[c1 [j [|]]]|] eqn:Ep; try discriminate. inversion H; subst c'.
    destruct (do_pop_inv c c1 _ HI Ep) as (I1 & _ & S1).
    destruct (push_new_inv c1 false I1) as (I2 & S2). split; [exact I2|]. intros n id Hs. apply S2. rewrite S1. exact Hs.
  - (* StopCollectStatic *)
    destruct (do_pop c) as [[c1 [j [|]]]|] eqn:Ep; try discriminate.
    destruct (do_pop_inv c c1 _ HI Ep) as (I1 & _ & S1).
    destruct (slookup (smap c1) name) as [i|] eqn:El.
    + destruct (push_existing_inv c1 c' i false I1 H) as (I2 & _ & S2). split; [exact I2|].
      intros n id Hs. rewrite S2, S1. exact Hs.
    + inversion H; subst c'; clear H.
      destruct (push_new_inv c1 true I1) as ([HS2 HF2] & S2). split; [split|].
      * cbn [smap blocks]. intros n i Hn. cbn [slookup] in Hn. destruct (Nat.eqb name n).
        -- inversion Hn; subst i. exists (mk_blk (fresh c1) 1 true). split; [|reflexivity].
           unfold push_new. cbn [blocks]. rewrite nth_error_app2 by lia. rewrite Nat.sub_diag. reflexivity.
        -- apply (HS2 n i). exact Hn.
      * exact HF2.
      * intros n id Hs. rewrite <- S1 in Hs. unfold static_block in *. cbn [smap blocks slookup].
        destruct (Nat.eqb_spec name n) as [En|En].
        -- subst n. rewrite El in Hs. discriminate.
        -- apply (S2 n id). exact Hs.
  - (* Pop *)
    destruct (do_pop c) as [[c1 [j [|]]]|] eqn:Ep; try discriminate.
    destruct (states c1); [discriminate|]. inversion H; subst c'.
    destruct (do_pop_inv c c1 _ HI Ep) as (I1 & _ & S1). split; [exact I1|]. intros n id Hs. rewrite S1. exact Hs.
  - (* DropArgs *)
    destruct (do_pop c) as [[c1 [j [|]]]|] eqn:Ep; try discriminate. inversion H; subst c'.
    destruct (do_pop_inv c c1 _ HI Ep) as (I1 & _ & S1). split; [exact I1|]. intros n id Hs. rewrite S1. exact Hs.
  - (* PushHandler *)
    destruct (drop_arg_states _ c) as [c1|] eqn:Ed; [|discriminate].
    destruct (drop_arg_states_inv _ c c1 HI Ed) as (I1 & _ & S1).
    destruct (push_existing_inv c1 c' 0 false I1 H) as (I2 & _ & S2). split; [exact I2|].
    intros n id Hs. rewrite S2, S1. exact Hs.
Qed.

(** ... hence over any history *)
Theorem static_block_is_stable : forall os c c', Inv c -> run_ops os c = Some c' ->
  Inv c' /\ forall n id, static_block c n = Some id -> static_block c' n = Some id.
Proof.
  induction os as [|o os IH]; intros c c' HI H; cbn [run_ops] in H.
  - inversion H; subst. split; [exact HI|auto].
  - destruct (apply o c) as [c1|] eqn:E; [|discriminate].
    destruct (apply_keeps_static_blocks o c c1 HI E) as (I1 & S1).
    destruct (IH c1 c' I1 H) as (I2 & S2). split; [exact I2|]. intros n id Hs. apply S2. apply S1. exact Hs.
Qed.

(** a call starts with a block that did not exist before: fresh locals for every activation *)
Theorem callee_block_is_fresh : forall c c', Inv c -> apply StopCollect c = Some c' ->
  current_block c' = Some (fresh c) /\ forall b, In b (blocks c) -> bid b <> fresh c.
Proof.
  intros c c' HI H. cbn [apply] in H.
  destruct (do_pop c) as [[c1 [j [|]]]|] eqn:Ep; try discriminate. inversion H; subst c'.
  destruct (do_pop_inv c c1 _ HI Ep) as (_ & F1 & _). split.
  - unfold current_block, push_new. cbn [states blocks]. rewrite nth_error_app2 by lia. rewrite Nat.sub_diag. cbn. congruence.
  - intros b Hb. destruct HI as [_ HF]. specialize (HF b Hb). lia.
Qed.

(** the first entry of a STATIC subprogram creates its block, every later one finds that block *)
Theorem static_entry_reuses_block : forall n c c' id, Inv c -> static_block c n = Some id ->
  apply (StopCollectStatic n) c = Some c' -> current_block c' = Some id.
Proof.
  intros n c c' id HI Hs H. cbn [apply] in H.
  destruct (do_pop c) as [[c1 [j [|]]]|] eqn:Ep; try discriminate.
  destruct (do_pop_inv c c1 _ HI Ep) as (I1 & _ & S1). rewrite <- S1 in Hs.
  unfold static_block in Hs. destruct (slookup (smap c1) n) as [i|] eqn:El; [|discriminate].
  unfold push_existing in H. destruct (nth_error (blocks c1) i) as [b|] eqn:Eb; [|discriminate].
  inversion H; subst c'. unfold current_block. cbn [states blocks].
  rewrite nth_error_update_nth, Nat.eqb_refl, Eb. cbn. inversion Hs; reflexivity.
Qed.
