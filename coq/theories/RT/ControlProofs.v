(** The finder returns the start of the statement that contains an address / the start of the
    statement after it; GOSUB and RETURN pair up like brackets; RESUME goes where the property says. *)
From Coq Require Import List Arith Bool Lia Sorted.
From RB Require Import RT.Control.
Import ListNotations.

Lemma find_current_spec : forall marks a r, StronglySorted lt marks -> find_current marks a = Some r ->
  In r marks /\ r <= a /\ forall m, In m marks -> m <= a -> m <= r.
Proof.
  induction marks as [|m t IH]; intros a r Hs H; cbn [find_current] in H; [discriminate|].
  destruct (Nat.ltb_spec a m) as [Hlt|Hge]; [discriminate|].
  inversion Hs as [|? ? Hst Hall]; subst.
  destruct (find_current t a) as [r'|] eqn:E.
  - inversion H; subst r'. destruct (IH a r Hst E) as (Hin & Hle & Hmax).
    split; [right; exact Hin|]. split; [exact Hle|].
    intros x [Hx|Hx] Hxa; [subst x|apply Hmax; assumption].
    rewrite Forall_forall in Hall. specialize (Hall r Hin). lia.
  - inversion H; subst r. split; [left; reflexivity|]. split; [exact Hge|].
    intros x [Hx|Hx] Hxa; [subst; lia|].
    (* no element of t is <= a *)
    exfalso. clear IH Hs H Hall. revert Hst E. induction t as [|y t IHt]; intros Hst E; [destruct Hx|].
    cbn [find_current] in E. destruct (Nat.ltb_spec a y) as [Hay|Hay].
    + inversion Hst as [|? ? Hst' Hall']; subst. destruct Hx as [Hx|Hx]; [subst; lia|].
      rewrite Forall_forall in Hall'. specialize (Hall' x Hx). lia.
    + destruct (find_current t a); discriminate.
Qed.

Lemma find_current_none : forall marks a, find_current marks a = None -> forall m, In m marks -> StronglySorted lt marks -> a < m.
Proof.
  induction marks as [|y t IH]; intros a H m Hin Hs; [destruct Hin|].
  cbn [find_current] in H. destruct (Nat.ltb_spec a y) as [Hay|Hay].
  - inversion Hs as [|? ? Hst Hall]; subst. destruct Hin as [Hx|Hx]; [subst; exact Hay|].
    rewrite Forall_forall in Hall. specialize (Hall m Hx). lia.
  - destruct (find_current t a); discriminate.
Qed.

Lemma find_next_spec : forall marks a r, StronglySorted lt marks -> find_next marks a = Some r ->
  (In r marks /\ a < r /\ forall m, In m marks -> a < m -> r <= m) \/
  (r = S a /\ In a marks /\ forall m, In m marks -> m <= a).
Proof.
  induction marks as [|m t IH]; intros a r Hs H; cbn [find_next] in H; [discriminate|].
  inversion Hs as [|? ? Hst Hall]; subst. rewrite Forall_forall in Hall.
  destruct (Nat.ltb_spec a m) as [Hlt|Hge].
  - inversion H; subst r. left. split; [left; reflexivity|]. split; [exact Hlt|].
    intros x [Hx|Hx] _; [subst; lia|]. specialize (Hall x Hx). lia.
  - destruct t as [|y t'].
    + destruct (Nat.eqb_spec a m) as [Heq|Hne]; [|discriminate]. inversion H; subst. right.
      split; [reflexivity|]. split; [left; reflexivity|]. intros x [Hx|[]]; subst; lia.
    + destruct (IH a r Hst H) as [(Hin & Hgt & Hmin)|(Hr & Hin & Hmax)].
      * left. split; [right; exact Hin|]. split; [exact Hgt|].
        intros x [Hx|Hx] Hax; [subst; lia|apply Hmin; assumption].
      * right. split; [exact Hr|]. split; [right; exact Hin|].
        intros x [Hx|Hx]; [subst; specialize (Hall a Hin); lia|apply Hmax; exact Hx].
Qed.

(** ** GOSUB / RETURN pair up like brackets *)
Inductive balanced : list cevent -> Prop :=
| bal_nil : balanced []
| bal_pair : forall pc t n inner pc' l n' rest,
    balanced inner -> balanced rest ->
    balanced (CGoSub pc t n :: inner ++ CReturn pc' l n' :: rest)
| bal_other : forall e rest,
    (match e with CGoSub _ _ _ | CReturn _ _ _ => False | _ => True end) -> balanced rest -> balanced (e :: rest).

Lemma creplay_app marks : forall a b s, creplay marks s (a ++ b) =
  match creplay marks s a with Some s' => creplay marks s' b | None => None end.
Proof.
  induction a as [|e a IH]; intros b s; cbn [app creplay]; [reflexivity|].
  destruct (cstep marks s e); [apply IH|reflexivity].
Qed.

Lemma balanced_keeps_stack marks : forall es, balanced es -> forall s s', creplay marks s es = Some s' -> gosubs s' = gosubs s.
Proof.
  induction 1 as [|pc t n inner pc' l n' rest Hi IHi Hr IHr|e rest He Hr IHr]; intros s s' H.
  - inversion H; reflexivity.
  - cbn [creplay cstep] in H. destruct (Nat.eqb n t); [|discriminate].
    rewrite creplay_app in H.
    destruct (creplay marks _ inner) as [s1|] eqn:E1; [|discriminate].
    specialize (IHi _ _ E1). cbn [gosubs] in IHi.
    cbn [creplay cstep] in H. rewrite IHi in H.
    destruct (Nat.eqb n' _); [|discriminate].
    specialize (IHr _ _ H). cbn [gosubs] in IHr. exact IHr.
  - cbn [creplay] in H. destruct (cstep marks s e) as [s1|] eqn:E; [|discriminate].
    specialize (IHr _ _ H). rewrite IHr.
    destruct e; try contradiction; cbn [cstep] in E.
    + destruct (gosubs s) eqn:G; [|discriminate]. inversion E; subst s1. reflexivity || (symmetry; exact G) || exact G.
    + inversion E; reflexivity.
    + destruct (handler s); destruct (opt_eqb _ _); try discriminate; inversion E; reflexivity.
    + destruct (last_err s); [|discriminate]. destruct (opt_eqb _ _); [|discriminate]. inversion E; reflexivity.
    + destruct (last_err s); [discriminate|]. inversion E; reflexivity.
Qed.

(** RETURN continues after the most recent GOSUB not yet returned from *)
Theorem return_after_matching_gosub marks : forall s pc t n inner pc' next rest s',
  balanced inner ->
  creplay marks s (CGoSub pc t n :: inner ++ CReturn pc' None next :: rest) = Some s' ->
  next = S pc /\ n = t.
Proof.
  intros s pc t n inner pc' next rest s' Hb H. cbn [creplay cstep] in H.
  destruct (Nat.eqb_spec n t) as [Hn|]; [|discriminate].
  rewrite creplay_app in H. destruct (creplay marks _ inner) as [s1|] eqn:E1; [|discriminate].
  pose proof (balanced_keeps_stack marks inner Hb _ _ E1) as Hk. cbn [gosubs] in Hk.
  cbn [creplay cstep] in H. rewrite Hk in H.
  destruct (Nat.eqb_spec next (S pc)) as [Hx|]; [|discriminate]. split; assumption.
Qed.

(** RETURN with no GOSUB outstanding can only be accepted as the error *)
Theorem return_without_gosub marks : forall s pc l next, gosubs s = [] -> cstep marks s (CReturn pc l next) = None.
Proof. intros s pc l next H. cbn [cstep]. rewrite H. reflexivity. Qed.

(** after a handled error, RESUME goes to the start of the failing statement and RESUME NEXT to the
    statement after it; both forget the error *)
Theorem resume_targets marks : forall s pc code h k rpc next s1 s2,
  StronglySorted lt marks -> handler s = HAddr h ->
  cstep marks s (CError pc code (Some h)) = Some s1 ->
  cstep marks s1 (CResume k rpc next) = Some s2 ->
  last_err s2 = None /\
  match k with
  | RCurrent => In next marks /\ next <= pc /\ forall m, In m marks -> m <= pc -> m <= next
  | RNext => (In next marks /\ pc < next /\ forall m, In m marks -> pc < m -> next <= m) \/
             (next = S pc /\ In pc marks /\ forall m, In m marks -> m <= pc)
  | RLabel t => next = t
  end.
Proof.
  intros s pc code h k rpc next s1 s2 Hs Hh H1 H2. cbn [cstep] in H1. rewrite Hh in H1.
  destruct (opt_eqb (Some h) (Some h)); [|discriminate]. inversion H1; subst s1. clear H1.
  cbn [cstep last_err] in H2.
  destruct k; cbn in H2.
  - destruct (find_current marks pc) as [r|] eqn:E; cbn [opt_eqb] in H2; [|discriminate].
    destruct (Nat.eqb_spec next r); [|discriminate]. subst r. inversion H2; subst. split; [reflexivity|].
    apply find_current_spec; assumption.
  - destruct (find_next marks pc) as [r|] eqn:E; cbn [opt_eqb] in H2; [|discriminate].
    destruct (Nat.eqb_spec next r); [|discriminate]. subst r. inversion H2; subst. split; [reflexivity|].
    apply find_next_spec; assumption.
  - destruct (Nat.eqb_spec next t); [|discriminate]. inversion H2; subst. split; reflexivity.
Qed.

(** with no handler the error ends the program; with ON ERROR RESUME NEXT it continues after the statement *)
Theorem unhandled_error_ends marks : forall s pc code next s', handler s = HNone ->
  cstep marks s (CError pc code next) = Some s' -> next = None.
Proof.
  intros s pc code next s' Hh H. cbn [cstep] in H. rewrite Hh in H. destruct next; [discriminate|reflexivity].
Qed.

Lemma strict_asc_sorted : forall l, strict_asc l = true -> StronglySorted lt l.
Proof.
  intros l H. apply Sorted_StronglySorted; [intros x y z; lia|].
  induction l as [|x l IH]; [constructor|].
  destruct l as [|y l]; [repeat constructor|].
  change (strict_asc (x :: y :: l)) with (Nat.ltb x y && strict_asc (y :: l)) in H.
  apply andb_true_iff in H. destruct H as [H1 H2]. apply Nat.ltb_lt in H1.
  constructor; [apply IH; exact H2|constructor; exact H1].
Qed.
