(** Proofs about RT.ReadInput: lines and fields written are the lines and fields read. *)
From Coq Require Import List Arith Bool Lia.
From RB Require Import RT.Files RT.ReadInput.
Import ListNotations.

Definition nocrlf (l : list nat) : Prop := forallb (fun b => negb (is_crlf b)) l = true.
Definition nosep (l : list nat) : Prop := forallb (fun b => negb (is_sep b)) l = true.

Lemma read_until_stop : forall p l c rest,
  forallb (fun b => negb (p b)) l = true -> p c = true ->
  read_until p (l ++ c :: rest) = (l, if c =? 13 then eat_lf rest else rest).
Proof.
  intros p l c rest Hl Hc. induction l as [|a l IH]; cbn [app read_until].
  - rewrite Hc. reflexivity.
  - cbn [forallb] in Hl. apply andb_prop in Hl. destruct Hl as [Ha Hl].
    apply negb_true_iff in Ha. rewrite Ha, (IH Hl). reflexivity.
Qed.

Lemma read_until_end : forall p l,
  forallb (fun b => negb (p b)) l = true -> read_until p l = (l, []).
Proof.
  intros p l Hl. induction l as [|a l IH]; cbn [read_until]; [reflexivity|].
  cbn [forallb] in Hl. apply andb_prop in Hl. destruct Hl as [Ha Hl].
  apply negb_true_iff in Ha. rewrite Ha, (IH Hl). reflexivity.
Qed.

Lemma at_eof_app : forall l c rest, at_eof (l ++ c :: rest) = false.
Proof. intros [|a l] c rest; reflexivity. Qed.

Lemma line_input_crlf : forall l rest, nocrlf l -> line_input (l ++ 13 :: 10 :: rest) = Some (l, rest).
Proof.
  intros l rest Hl. unfold line_input. rewrite at_eof_app.
  rewrite (read_until_stop is_crlf l 13 (10 :: rest) Hl eq_refl). reflexivity.
Qed.

Lemma line_input_lf : forall l rest, nocrlf l -> line_input (l ++ 10 :: rest) = Some (l, rest).
Proof.
  intros l rest Hl. unfold line_input. rewrite at_eof_app.
  rewrite (read_until_stop is_crlf l 10 rest Hl eq_refl). reflexivity.
Qed.

Lemma line_input_cr : forall l c rest, nocrlf l -> c <> 10 -> line_input (l ++ 13 :: c :: rest) = Some (l, c :: rest).
Proof.
  intros l c rest Hl Hc. unfold line_input. rewrite at_eof_app.
  rewrite (read_until_stop is_crlf l 13 (c :: rest) Hl eq_refl). cbn [Nat.eqb eat_lf].
  apply Nat.eqb_neq in Hc. change (13 =? 13) with true. cbn iota. rewrite Hc. reflexivity.
Qed.

Lemma line_input_unterminated : forall l, nocrlf l -> l <> [] -> line_input l = Some (l, []).
Proof.
  intros l Hl Hne. unfold line_input. destruct l as [|a l]; [congruence|]. cbn [at_eof].
  rewrite (read_until_end is_crlf (a :: l) Hl). reflexivity.
Qed.

Lemma line_input_eof : line_input [] = None /\ input [] = None.
Proof. split; reflexivity. Qed.

Lemma read_lines_write_lines : forall lines fuel, Forall nocrlf lines -> length lines <= fuel ->
  read_lines fuel (write_lines lines) = lines.
Proof.
  induction lines as [|l lines IH]; intros fuel Hl Hf.
  - destruct fuel; reflexivity.
  - destruct fuel as [|k]; [cbn in Hf; lia|].
    inversion Hl as [|x xs Hx Hxs]; subst.
    unfold write_lines. cbn [map concat]. rewrite <- app_assoc. cbn [app read_lines].
    rewrite (line_input_crlf l _ Hx). f_equal. apply IH; [assumption|cbn in Hf; lia].
Qed.

(** fields *)

Lemma skip_spaces_app : forall f c rest, c <> 32 -> skip_spaces (f ++ c :: rest) = skip_spaces f ++ c :: rest.
Proof.
  intros f c rest Hc. induction f as [|a f IH]; cbn [app skip_spaces].
  - apply Nat.eqb_neq in Hc. rewrite Hc. reflexivity.
  - destruct (a =? 32); [exact IH|reflexivity].
Qed.

Lemma skip_spaces_nosep : forall f, nosep f -> nosep (skip_spaces f).
Proof.
  unfold nosep. induction f as [|a f IH]; intros H; cbn [skip_spaces]; [exact H|].
  destruct (a =? 32); [|exact H]. cbn [forallb] in H. apply andb_prop in H. apply IH, H.
Qed.

Lemma trim_left_skip_spaces : forall f, trim_left (skip_spaces f) = trim_left f.
Proof.
  induction f as [|a f IH]; cbn [skip_spaces]; [reflexivity|].
  destruct (a =? 32) eqn:E; [|reflexivity]. apply Nat.eqb_eq in E. subst a. cbn [trim_left].
  change (is_ws 32) with true. cbn iota. exact IH.
Qed.

Lemma trim_skip_spaces : forall f, trim (skip_spaces f) = trim f.
Proof. intros f. unfold trim. rewrite trim_left_skip_spaces. reflexivity. Qed.

Lemma input_field : forall f c rest, nosep f -> is_sep c = true ->
  input (f ++ c :: rest) = Some (trim f, if c =? 13 then eat_lf rest else rest).
Proof.
  intros f c rest Hf Hc. unfold input. rewrite at_eof_app.
  assert (Hc32 : c <> 32) by (intros ->; discriminate Hc).
  rewrite (skip_spaces_app f c rest Hc32).
  rewrite (read_until_stop is_sep (skip_spaces f) c rest (skip_spaces_nosep f Hf) Hc).
  rewrite trim_skip_spaces. reflexivity.
Qed.

Lemma input_last_field : forall f, nosep f -> f <> [] -> input f = Some (trim f, []).
Proof.
  intros f Hf Hne. unfold input. destruct f as [|a f]; [congruence|]. cbn [at_eof].
  rewrite (read_until_end is_sep _ (skip_spaces_nosep _ Hf)). rewrite trim_skip_spaces. reflexivity.
Qed.

Lemma read_fields_join : forall fs rest, Forall nosep fs -> fs <> [] ->
  read_fields (length fs) (join_fields fs ++ 13 :: 10 :: rest) = (map trim fs, rest).
Proof.
  induction fs as [|f fs IH]; intros rest Hf Hne; [congruence|].
  inversion Hf as [|x xs Hx Hxs]; subst.
  destruct fs as [|g fs].
  - cbn [length join_fields read_fields map].
    rewrite (input_field f 13 (10 :: rest) Hx eq_refl). reflexivity.
  - change (join_fields (f :: g :: fs)) with (f ++ 44 :: join_fields (g :: fs)).
    rewrite <- app_assoc. change (length (f :: g :: fs)) with (S (length (g :: fs))).
    cbn [app read_fields].
    rewrite (input_field f 44 _ Hx eq_refl). change (44 =? 13) with false. cbn iota.
    specialize (IH rest Hxs ltac:(discriminate)). rewrite IH. reflexivity.
Qed.

Lemma trim_left_id : forall f, is_ws (hd 0 f) = false -> trim_left f = f.
Proof. intros [|a f] H; cbn [trim_left hd] in *; [reflexivity|]. rewrite H. reflexivity. Qed.

Lemma trim_id : forall f, is_ws (hd 0 f) = false -> is_ws (last f 0) = false -> trim f = f.
Proof.
  intros f Hh Hl. unfold trim. rewrite (trim_left_id f Hh).
  rewrite trim_left_id; [apply rev_involutive|].
  destruct (rev f) as [|a l] eqn:E; [reflexivity|]. cbn [hd].
  assert (Hf : f = rev l ++ [a]) by (rewrite <- (rev_involutive f), E; reflexivity).
  rewrite Hf, last_last in Hl. exact Hl.
Qed.

Definition plain (f : list nat) : Prop := is_ws (hd 0 f) = false /\ is_ws (last f 0) = false.

Lemma fields_read_back : forall fs rest, Forall nosep fs -> Forall plain fs -> fs <> [] ->
  read_fields (length fs) (join_fields fs ++ 13 :: 10 :: rest) = (fs, rest).
Proof.
  intros fs rest Hs Hp Hne. rewrite (read_fields_join fs rest Hs Hne). f_equal.
  clear Hs Hne. induction Hp as [|f fs [Hh Hl] _ IH]; cbn [map]; [reflexivity|].
  rewrite (trim_id f Hh Hl), IH. reflexivity.
Qed.

(** the reads of a run never look behind: what is left is a suffix of the stream *)
Lemma read_until_suffix : forall p bs a rest, read_until p bs = (a, rest) -> exists pre, bs = pre ++ rest.
Proof.
  intros p bs. induction bs as [|c r IH]; intros a rest H; cbn [read_until] in H.
  - inversion H. exists []. reflexivity.
  - destruct (p c).
    + inversion H; subst. destruct (c =? 13).
      * destruct r as [|d r']; cbn [eat_lf]; [exists [c]; reflexivity|].
        destruct (d =? 10); [exists [c; d]|exists [c]]; reflexivity.
      * exists [c]. reflexivity.
    + destruct (read_until p r) as [a' rest'] eqn:E. inversion H; subst.
      destruct (IH _ _ eq_refl) as [pre Hpre]. exists (c :: pre). rewrite Hpre. reflexivity.
Qed.
