(** Model of the activation stack of the VM (rusty_basic/src/interpreter/context.rs): states that
    point into a vector of reference-counted memory blocks by index, blocks of STATIC subprograms
    that are never freed and are found again through a name -> index map. Variables are abstracted
    to the identity of the block that holds them: "keeps its variables" = "is the same block". *)
From Coq Require Import List Arith Bool.
Import ListNotations.

Record blk := mk_blk { bid : nat; rc : nat; bstatic : bool }.

Record ctx := mk_ctx {
  states : list (nat * bool);        (* top first: (memory block index, collecting arguments) *)
  blocks : list blk;
  smap : list (nat * nat);           (* STATIC subprogram name -> memory block index *)
  fresh : nat;                       (* next block identity *)
}.

Definition ctx0 : ctx := mk_ctx [(0, false)] [mk_blk 0 1 false] [] 1.

Inductive op :=
| BeginCollect                 (* begin_collecting_arguments *)
| StopCollect                  (* stop_collecting_arguments: the callee's fresh block *)
| StopCollectStatic (name : nat)
| Pop                          (* pop: a normal state *)
| DropArgs                     (* drop_arguments_for_array_allocation *)
| PushHandler.                 (* push_error_handler_context *)

Fixpoint remove_nth {A} (i : nat) (l : list A) : list A :=
  match l, i with
  | [], _ => []
  | _ :: t, O => t
  | x :: t, S j => x :: remove_nth j t
  end.

Fixpoint update_nth {A} (i : nat) (f : A -> A) (l : list A) : list A :=
  match l, i with
  | [], _ => []
  | x :: t, O => f x :: t
  | x :: t, S j => x :: update_nth j f t
  end.

Definition shift (removed i : nat) : nat := if Nat.ltb removed i then i - 1 else i.

Fixpoint slookup (m : list (nat * nat)) (n : nat) : option nat :=
  match m with
  | [] => None
  | (k, i) :: t => if Nat.eqb k n then Some i else slookup t n
  end.

Definition inc_rc (b : blk) : blk := mk_blk (bid b) (S (rc b)) (bstatic b).
Definition dec_rc (b : blk) : blk := mk_blk (bid b) (rc b - 1) (bstatic b).

(** [do_pop]: None where the Rust code would panic *)
Definition do_pop (c : ctx) : option (ctx * (nat * bool)) :=
  match states c with
  | [] => None
  | (i, a) :: rest =>
      match nth_error (blocks c) i with
      | None => None
      | Some b =>
          if Nat.ltb 1 (rc b) then
            Some (mk_ctx rest (update_nth i dec_rc (blocks c)) (smap c) (fresh c), (i, a))
          else if bstatic b then
            Some (mk_ctx rest (blocks c) (smap c) (fresh c), (i, a))
          else
            Some (mk_ctx (map (fun s => (shift i (fst s), snd s)) rest)
                         (remove_nth i (blocks c))
                         (map (fun e => (fst e, shift i (snd e))) (smap c))
                         (fresh c), (i, a))
      end
  end.

Definition push_existing (c : ctx) (i : nat) (arg : bool) : option ctx :=
  match nth_error (blocks c) i with
  | None => None
  | Some _ => Some (mk_ctx ((i, arg) :: states c) (update_nth i inc_rc (blocks c)) (smap c) (fresh c))
  end.

Definition push_new (c : ctx) (static : bool) : ctx :=
  mk_ctx ((length (blocks c), false) :: states c) (blocks c ++ [mk_blk (fresh c) 1 static]) (smap c) (S (fresh c)).

Fixpoint drop_arg_states (fuel : nat) (c : ctx) : option ctx :=
  match fuel with
  | O => None
  | S f =>
      match states c with
      | (_, true) :: _ => match do_pop c with Some (c', _) => drop_arg_states f c' | None => None end
      | _ => Some c
      end
  end.

Definition apply (o : op) (c : ctx) : option ctx :=
  match o with
  | BeginCollect =>
      match states c with
      | (i, _) :: _ => push_existing c i true
      | [] => None
      end
  | StopCollect =>
      match do_pop c with
      | Some (c', (_, true)) => Some (push_new c' false)
      | _ => None
      end
  | StopCollectStatic n =>
      match do_pop c with
      | Some (c', (_, true)) =>
          match slookup (smap c') n with
          | Some i => push_existing c' i false
          | None =>
              let c2 := push_new c' true in
              Some (mk_ctx (states c2) (blocks c2) ((n, length (blocks c')) :: smap c2) (fresh c2))
          end
      | _ => None
      end
  | Pop =>
      match do_pop c with
      | Some (c', (_, false)) => match states c' with [] => None | _ => Some c' end
      | _ => None
      end
  | DropArgs =>
      match do_pop c with
      | Some (c', (_, true)) => Some c'
      | _ => None
      end
  | PushHandler =>
      match drop_arg_states (S (length (states c))) c with
      | Some c' => push_existing c' 0 false
      | None => None
      end
  end.

Fixpoint run_ops (os : list op) (c : ctx) : option ctx :=
  match os with
  | [] => Some c
  | o :: t => match apply o c with Some c' => run_ops t c' | None => None end
  end.

(** what the harness compares with the real Context: the state stack (index, collecting), and per block
    (reference count, static flag, identity marker) *)
Definition view (c : ctx) : list (nat * bool) * list (nat * bool * nat) * list (nat * nat) :=
  (states c, map (fun b => (rc b, bstatic b, bid b)) (blocks c), smap c).

(** the identity of the block a STATIC subprogram uses *)
Definition static_block (c : ctx) (n : nat) : option nat :=
  match slookup (smap c) n with
  | Some i => match nth_error (blocks c) i with Some b => Some (bid b) | None => None end
  | None => None
  end.

(** the identity of the block the running code sees *)
Definition current_block (c : ctx) : option nat :=
  match states c with
  | (i, _) :: _ => match nth_error (blocks c) i with Some b => Some (bid b) | None => None end
  | [] => None
  end.

(** comparison with what the harness reads off the real Context (the static map as a set) *)
Definition pair_eqb (a b : nat * nat) : bool := Nat.eqb (fst a) (fst b) && Nat.eqb (snd a) (snd b).
Fixpoint list_eqb {A} (eq : A -> A -> bool) (a b : list A) : bool :=
  match a, b with
  | [], [] => true
  | x :: a', y :: b' => eq x y && list_eqb eq a' b'
  | _, _ => false
  end.
Definition view_eqb (v w : list (nat * bool) * list (nat * bool * nat) * list (nat * nat)) : bool :=
  let '(s1, b1, m1) := v in
  let '(s2, b2, m2) := w in
  list_eqb (fun x y => Nat.eqb (fst x) (fst y) && Bool.eqb (snd x) (snd y)) s1 s2 &&
  list_eqb (fun x y => Nat.eqb (fst (fst x)) (fst (fst y)) && Bool.eqb (snd (fst x)) (snd (fst y)) && Nat.eqb (snd x) (snd y)) b1 b2 &&
  forallb (fun e => existsb (pair_eqb e) m2) m1 && forallb (fun e => existsb (pair_eqb e) m1) m2.
