(** Model of rusty_variant/src/array_value.rs (VArray), of record values
    (user_defined_type_value.rs) and of fix_length (rusty_basic/src/interpreter/string_utils.rs).
    Models only. Rust i32 values are unbounded [Z]; [abs_index] is exact as long as the element
    count fits an i32, which is the guard of the theorems. *)
From Coq Require Import List ZArith Bool.
Import ListNotations.
Open Scope Z_scope.

Definition dims := list (Z * Z).   (* (lbound, ubound) per dimension *)

(** [dimensions_to_array_length] *)
Definition dim_size (d : Z * Z) : Z := snd d - fst d + 1.
Definition array_len (ds : dims) : Z := fold_right (fun d acc => dim_size d * acc) 1 ds.

(** [VArray::abs_index]: the loop runs from the last dimension to the first with
    [index += (arg - lbound) * multiplier; multiplier *= ubound - lbound + 1].
    [go] walks the reversed lists. *)
Fixpoint abs_index_go (rds : dims) (ridx : list Z) (index mult : Z) : option Z :=
  match rds, ridx with
  | [], [] => Some index
  | (lb, ub) :: rds', a :: ridx' =>
      if (a <? lb) || (ub <? a) then None
      else abs_index_go rds' ridx' (index + (a - lb) * mult) (mult * (ub - lb + 1))
  | _, _ => None   (* debug_assert_eq!(indices.len(), dimensions.len()) *)
  end.

Definition abs_index (ds : dims) (idx : list Z) : option Z :=
  abs_index_go (rev ds) (rev idx) 0 1.

(** an array value: dimensions + flat element list *)
Record varray (A : Type) := mk_varray { va_dims : dims; va_elems : list A }.
Arguments mk_varray {A}. Arguments va_dims {A}. Arguments va_elems {A}.

Definition va_new {A} (ds : dims) (dflt : A) : varray A :=
  mk_varray ds (repeat dflt (Z.to_nat (array_len ds))).

Definition get_element {A} (a : varray A) (idx : list Z) : option A :=
  match abs_index (va_dims a) idx with
  | Some k => nth_error (va_elems a) (Z.to_nat k)
  | None => None
  end.

Fixpoint list_set {A} (l : list A) (n : nat) (v : A) : list A :=
  match l, n with
  | [], _ => []
  | _ :: t, O => v :: t
  | h :: t, S n' => h :: list_set t n' v
  end.

(** [get_element_mut] followed by a store *)
Definition set_element {A} (a : varray A) (idx : list Z) (v : A) : option (varray A) :=
  match abs_index (va_dims a) idx with
  | Some k =>
      if Nat.ltb (Z.to_nat k) (length (va_elems a))
      then Some (mk_varray (va_dims a) (list_set (va_elems a) (Z.to_nat k) v))
      else None
  | None => None
  end.

(** LBOUND / UBOUND: [get_dimension_bounds (dimension - 1)] *)
Definition lbound {A} (a : varray A) (dim : nat) : option Z :=
  match dim with O => None | S d => option_map fst (nth_error (va_dims a) d) end.
Definition ubound {A} (a : varray A) (dim : nat) : option Z :=
  match dim with O => None | S d => option_map snd (nth_error (va_dims a) d) end.

(** ** fix_length on byte strings *)
Fixpoint cut_at_nul (s : list Z) : list Z :=
  match s with
  | [] => []
  | c :: t => if c =? 0 then [] else c :: cut_at_nul t
  end.

Definition fix_length (s : list Z) (len : nat) : list Z :=
  let s1 := cut_at_nul s in
  let s2 := firstn len s1 in
  s2 ++ repeat 32 (len - length s2).

(** ** records: ordered fields, keys compared case-insensitively (ASCII) *)
Definition upper (c : Z) : Z := if (97 <=? c) && (c <=? 122) then c - 32 else c.
Fixpoint key_eqb (a b : list Z) : bool :=
  match a, b with
  | [], [] => true
  | x :: a', y :: b' => (upper x =? upper y) && key_eqb a' b'
  | _, _ => false
  end.

Definition record (A : Type) := list (list Z * A).

Fixpoint field_get {A} (r : record A) (k : list Z) : option A :=
  match r with
  | [] => None
  | (k', v) :: t => if key_eqb k' k then Some v else field_get t k
  end.

Fixpoint field_set {A} (r : record A) (k : list Z) (v : A) : record A :=
  match r with
  | [] => []
  | (k', v') :: t => if key_eqb k' k then (k', v) :: t else (k', v') :: field_set t k v
  end.

(** all index tuples with every component in [lb-1 .. ub+1] (used by the correspondence check) *)
Fixpoint zrange (lo : Z) (n : nat) : list Z :=
  match n with O => [] | S n' => lo :: zrange (lo + 1) n' end.
Fixpoint tuples (ds : dims) : list (list Z) :=
  match ds with
  | [] => [[]]
  | (lb, ub) :: t =>
      flat_map (fun a => map (cons a) (tuples t)) (zrange (lb - 1) (Z.to_nat (ub - lb + 3)))
  end.
Definition oz_eqb (a b : option Z) : bool :=
  match a, b with Some x, Some y => x =? y | None, None => true | _, _ => false end.
Fixpoint oz_list_eqb (l r : list (option Z)) : bool :=
  match l, r with
  | [], [] => true
  | a :: l', b :: r' => oz_eqb a b && oz_list_eqb l' r'
  | _, _ => false
  end.
