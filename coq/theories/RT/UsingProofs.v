(** PRINT USING theorems (C16). *)
From Coq Require Import List ZArith Bool Arith Lia.
From RB Require Import RT.Printer RT.ArrayVal RT.ArrayProofs RT.Using.
Import ListNotations.
Local Open Scope nat_scope.

(** a [\ \] field of width w (the two backslashes and the blanks between them) emits exactly w bytes *)
Lemma bs_scan_spec fmt fuel : forall j c j' c',
  bs_scan fmt fuel j c = Some (j', c') -> j < j' /\ c' + j = c + j' - 1.
Proof.
  induction fuel as [|f IH]; intros j c j' c' H; cbn [bs_scan] in H; [discriminate|].
  destruct (Nat.ltb j (length fmt)); [|discriminate].
  destruct (Z.eqb (nth j fmt 0%Z) c_bslash).
  - inversion H; subst. lia.
  - destruct (Z.eqb (nth j fmt 0%Z) c_space); [|discriminate]. apply IH in H. lia.
Qed.

Theorem using_string_field_width fmt i s txt j :
  string_field fmt i (UStr s) = UOk (txt, j) -> i < j /\ length txt = j - i.
Proof.
  unfold string_field. destruct (bs_scan fmt (S (length fmt)) (S i) 2) as [[j' c']|] eqn:E; [|discriminate].
  intros H; inversion H; subst. apply bs_scan_spec in E. rewrite fix_length_exact. lia.
Qed.

(** a numeric field is at least as wide as its [# ,] picture; exactly as wide when the digits fit *)
Fixpoint count_hash (s : str) : nat :=
  match s with [] => 0 | c :: t => (if Z.eqb c c_hash then 1 else 0) + count_hash t end.

Lemma fmt_int_rev_len rfmt : forall rds r, fmt_int_rev rfmt rds = Some r ->
  length rfmt <= length r /\ (length rds <= count_hash rfmt -> length r = length rfmt).
Proof.
  induction rfmt as [|f rf IH]; intros rds r H; cbn [fmt_int_rev] in H.
  - inversion H; subst. cbn. lia.
  - cbn [count_hash length]. destruct (Z.eqb f c_comma) eqn:Ec.
    + destruct (fmt_int_rev rf rds) as [r'|] eqn:E; [|discriminate]. cbn in H. inversion H; subst.
      apply IH in E. assert (Z.eqb f c_hash = false) by (apply Z.eqb_eq in Ec; subst; reflexivity).
      rewrite H0. cbn [length]. lia.
    + destruct (Z.eqb f c_hash) eqn:Eh; [|discriminate].
      destruct rds as [|d rd].
      * destruct (fmt_int_rev rf []) as [r'|] eqn:E; [|discriminate]. cbn in H. inversion H; subst.
        apply IH in E. cbn [length] in *. lia.
      * destruct (fmt_int_rev rf rd) as [r'|] eqn:E; [|discriminate]. cbn in H. inversion H; subst.
        apply IH in E. cbn [length] in *. lia.
Qed.

Lemma count_hash_rev s : count_hash (rev s) = count_hash s.
Proof.
  induction s as [|c t IH]; [reflexivity|]. cbn [rev count_hash].
  assert (forall a b, count_hash (a ++ b) = count_hash a + count_hash b) as Happ.
  { induction a as [|x a IHa]; intros b; cbn; [reflexivity|]. rewrite IHa. lia. }
  rewrite Happ, IH. cbn. lia.
Qed.

Theorem using_numeric_width ifmt digits r : fmt_integer_part ifmt digits = Some r ->
  length ifmt <= length r /\ (length digits <= count_hash ifmt -> length r = length ifmt).
Proof.
  unfold fmt_integer_part. destruct (fmt_int_rev (rev ifmt) (rev digits)) as [r'|] eqn:E; [|discriminate].
  cbn. intros H; inversion H; subst. apply fmt_int_rev_len in E.
  rewrite !rev_length, count_hash_rev in *. exact E.
Qed.

(** literal text in front of a field is copied verbatim *)
Lemma non_fmt_loop_spec k : forall fuel fmt i acc,
  k < fuel -> i + k < length fmt ->
  (forall m, m < k -> is_fmt (nth (i + m) fmt 0%Z) = false) -> is_fmt (nth (i + k) fmt 0%Z) = true ->
  non_fmt_loop fuel fmt i acc = UOk (acc ++ firstn k (skipn i fmt), i + k).
Proof.
  induction k as [|k IH]; intros fuel fmt i acc Hf Hlen Hlit Hfield.
  - destruct fuel; [lia|]. cbn [non_fmt_loop]. rewrite Nat.add_0_r in Hfield. rewrite Hfield.
    cbn. rewrite app_nil_r, Nat.add_0_r. reflexivity.
  - destruct fuel; [lia|]. cbn [non_fmt_loop].
    pose proof (Hlit 0 ltac:(lia)) as H0. rewrite Nat.add_0_r in H0. rewrite H0.
    rewrite Nat.mod_small by lia.
    rewrite (IH fuel fmt (S i) (acc ++ [nth i fmt 0%Z])); try lia.
    + f_equal. f_equal; [|lia]. rewrite <- app_assoc. f_equal.
      assert (Hs : skipn i fmt = nth i fmt 0%Z :: skipn (S i) fmt).
      { clear -Hlen. revert i Hlen; induction fmt as [|c t IHt]; intros i Hl; cbn in Hl; [lia|].
        destruct i; [reflexivity|]. cbn. apply IHt. lia. }
      rewrite Hs. reflexivity.
    + intros m Hm. replace (S i + m) with (i + S m) by lia. apply Hlit. lia.
    + replace (S i + k) with (i + S k) by lia. exact Hfield.
Qed.

Theorem using_literal_copied fmt i k :
  i + k < length fmt ->
  (forall m, m < k -> is_fmt (nth (i + m) fmt 0%Z) = false) -> is_fmt (nth (i + k) fmt 0%Z) = true ->
  print_non_formatting fmt i = UOk (firstn k (skipn i fmt), i + k).
Proof.
  intros Hlen Hlit Hfield. unfold print_non_formatting.
  rewrite (non_fmt_loop_spec k (length fmt) fmt i []); auto. lia.
Qed.

(** the format is reused cyclically: the position only matters modulo its length *)
Theorem using_cycles fmt index v : fmt <> [] ->
  using_value fmt (index + length fmt) v = using_value fmt index v.
Proof.
  intros H. unfold using_value. destruct fmt as [|c t]; [congruence|].
  rewrite <- (Nat.mul_1_l (length (c :: t))) at 1. rewrite Nat.mod_add by (cbn; lia). reflexivity.
Qed.
