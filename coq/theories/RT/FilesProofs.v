(** Files read back what was written; handles follow the open/close protocol - over the model. *)
From Coq Require Import List Arith Bool Lia.
From RB Require Import RT.Files.
Import ListNotations.

Lemma lookup_set_same {A} (m : list (nat * A)) k v : lookup (set_key m k v) k = Some v.
Proof. unfold set_key. cbn. rewrite Nat.eqb_refl. reflexivity. Qed.

Lemma lookup_remove_other {A} : forall (m : list (nat * A)) k k', k <> k' -> lookup (remove_key m k) k' = lookup m k'.
Proof.
  induction m as [|[a v] m IH]; intros k k' H; cbn; [reflexivity|].
  destruct (Nat.eqb_spec a k).
  - subst a. rewrite IH by assumption. destruct (Nat.eqb_spec k k'); [contradiction|reflexivity].
  - cbn. destruct (Nat.eqb a k'); [reflexivity|apply IH; assumption].
Qed.

Lemma lookup_remove_same {A} : forall (m : list (nat * A)) k, lookup (remove_key m k) k = None.
Proof.
  induction m as [|[a v] m IH]; intros k; cbn; [reflexivity|].
  destruct (Nat.eqb_spec a k); [apply IH|]. cbn. destruct (Nat.eqb_spec a k); [contradiction|apply IH].
Qed.

Lemma lookup_set_other {A} (m : list (nat * A)) k k' v : k <> k' -> lookup (set_key m k v) k' = lookup m k'.
Proof.
  intros H. unfold set_key. cbn. destruct (Nat.eqb_spec k k'); [contradiction|]. apply lookup_remove_other. assumption.
Qed.

(** ** writing then reading *)

(** printing lines to a handle open for writing appends them to the file's content *)
Lemma print_lines : forall lines s h name m content,
  lookup (handles s) h = Some (mk_h name m 0) -> (m = MOutput \/ m = MAppend) ->
  lookup (files s) name = Some content ->
  let '(s', rs) := frun s (map (FPrint h) lines) in
  rs = map (fun _ => ROk) lines /\ lookup (files s') name = Some (content ++ lines) /\ handles s' = handles s /\
  records s' = records s.
Proof.
  induction lines as [|l lines IH]; intros s h name m content Hh Hm Hf; cbn [map frun].
  - rewrite app_nil_r. auto.
  - cbn [fstep]. rewrite Hh. cbn [hmode hname].
    assert (Em : is_mode m MOutput || is_mode m MAppend = true) by (destruct Hm; subst m; reflexivity).
    rewrite Em, Hf.
    set (s1 := mk_fs (set_key (files s) name (content ++ [l])) (records s) (handles s)).
    specialize (IH s1 h name m (content ++ [l]) Hh Hm (lookup_set_same _ _ _)).
    destruct (frun s1 (map (FPrint h) lines)) as [s2 rs]. destruct IH as (R & F & H & Rc).
    split; [cbn; f_equal; exact R|]. split; [rewrite F, <- app_assoc; reflexivity|]. split; assumption.
Qed.

(** reading a file open for input returns its lines in order, then Input past end (62) *)
Lemma read_lines : forall rest s h name done content,
  lookup (handles s) h = Some (mk_h name MInput (length done)) ->
  lookup (files s) name = Some (done ++ rest) -> content = done ++ rest ->
  let '(s', rs) := frun s (map (fun _ => FLineInput h) rest) in
  rs = map RLine rest /\ lookup (handles s') h = Some (mk_h name MInput (length content)) /\ files s' = files s.
Proof.
  induction rest as [|l rest IH]; intros s h name done content Hh Hf Hc; cbn [map frun].
  - subst content. rewrite app_nil_r. auto.
  - cbn [fstep]. rewrite Hh. cbn [hmode hname hpos is_mode]. rewrite Hf.
    rewrite nth_error_app2 by lia. rewrite Nat.sub_diag. cbn [nth_error].
    set (s1 := mk_fs (files s) (records s) (set_key (handles s) h (mk_h name MInput (S (length done))))).
    assert (Hh1 : lookup (handles s1) h = Some (mk_h name MInput (length (done ++ [l])))).
    { unfold s1. cbn [handles]. rewrite lookup_set_same, app_length. cbn. f_equal. f_equal. lia. }
    assert (Hf1 : lookup (files s1) name = Some ((done ++ [l]) ++ rest)) by (unfold s1; cbn [files]; rewrite <- app_assoc; exact Hf).
    specialize (IH s1 h name (done ++ [l]) content Hh1 Hf1).
    rewrite <- app_assoc in IH. specialize (IH Hc).
    destruct (frun s1 (map (fun _ => FLineInput h) rest)) as [s2 rs]. destruct IH as (R & H & F).
    split; [cbn; f_equal; exact R|]. split; [exact H|exact F].
Qed.

(** the whole round trip: OPEN FOR OUTPUT, PRINT # every line, CLOSE, OPEN FOR INPUT, LINE INPUT #
    as many times: the lines come back unchanged and in order; EOF is then true, one more read is
    error 62 *)
Theorem write_then_read_back : forall s name h lines,
  lookup (handles s) h = None ->
  let ops := [FOpen name h MOutput] ++ map (FPrint h) lines ++ [FClose h; FOpen name h MInput] ++
             map (fun _ => FLineInput h) lines ++ [FEof h; FLineInput h] in
  snd (frun s ops) = [ROk] ++ map (fun _ => ROk) lines ++ [ROk; ROk] ++ map RLine lines ++ [RBool true; RErr 62].
Proof.
  intros s name h lines Hfree. cbn zeta.
  (* open for output *)
  cbn [app frun fstep]. rewrite Hfree.
  set (s1 := mk_fs (set_key (files s) name []) (records s) (set_key (handles s) h (mk_h name MOutput 0))).
  assert (frun_app : forall a b st, frun st (a ++ b) = let '(s', ra) := frun st a in let '(s'', rb) := frun s' b in (s'', ra ++ rb)).
  { induction a as [|o a IHa]; intros b st; cbn [app frun].
    - destruct (frun st b); reflexivity.
    - destruct (fstep st o) as [s' r]. rewrite IHa. destruct (frun s' a) as [s2 ra]. destruct (frun s2 b); reflexivity. }
  rewrite frun_app.
  pose proof (print_lines lines s1 h name MOutput [] (lookup_set_same _ _ _) (or_introl eq_refl) (lookup_set_same _ _ _)) as P.
  destruct (frun s1 (map (FPrint h) lines)) as [s2 r2]. destruct P as (R2 & F2 & H2 & _). cbn [app] in F2.
  (* close, open for input *)
  cbn [app frun fstep].
  set (s3 := mk_fs (files s2) (records s2) (remove_key (handles s2) h)).
  assert (Hfree3 : lookup (handles s3) h = None) by (unfold s3; cbn [handles]; apply lookup_remove_same).
  rewrite Hfree3. assert (F3 : lookup (files s3) name = Some lines) by (unfold s3; cbn [files]; exact F2).
  rewrite F3.
  set (s4 := mk_fs (files s3) (records s3) (set_key (handles s3) h (mk_h name MInput 0))).
  rewrite frun_app.
  pose proof (read_lines lines s4 h name [] lines (lookup_set_same _ _ _)) as Rd. cbn [app length] in Rd.
  specialize (Rd F3 eq_refl).
  destruct (frun s4 (map (fun _ => FLineInput h) lines)) as [s5 r5]. destruct Rd as (R5 & H5 & F5).
  (* EOF and one read too many *)
  assert (Fc : lookup (files s5) name = Some lines) by (rewrite F5; unfold s4; cbn [files]; exact F3).
  assert (E1 : fstep s5 (FEof h) = (s5, RBool true)).
  { cbn [fstep]. rewrite H5. cbn [hmode hname hpos is_mode]. rewrite Fc, Nat.leb_refl. reflexivity. }
  assert (E2 : fstep s5 (FLineInput h) = (s5, RErr 62)).
  { cbn [fstep]. rewrite H5. cbn [hmode hname hpos is_mode]. rewrite Fc.
    rewrite (proj2 (nth_error_None lines (length lines))) by lia. reflexivity. }
  cbn [frun]. rewrite E1, E2. cbn [snd]. rewrite R2, R5. reflexivity.
Qed.

(** APPEND keeps what the file held *)
Theorem append_keeps_earlier_content : forall s name h old lines,
  lookup (handles s) h = None -> lookup (files s) name = Some old ->
  let '(s', _) := frun s ([FOpen name h MAppend] ++ map (FPrint h) lines) in
  lookup (files s') name = Some (old ++ lines).
Proof.
  intros s name h old lines Hfree Hf. cbn [app frun fstep]. rewrite Hfree, Hf.
  set (s1 := mk_fs (set_key (files s) name old) (records s) (set_key (handles s) h (mk_h name MAppend 0))).
  pose proof (print_lines lines s1 h name MAppend old (lookup_set_same _ _ _) (or_intror eq_refl) (lookup_set_same _ _ _)) as P.
  destruct (frun s1 (map (FPrint h) lines)) as [s2 r2]. destruct P as (_ & F2 & _). exact F2.
Qed.

(** ** misuse is reported and changes nothing *)
Theorem open_on_busy_handle : forall s name h m hs, lookup (handles s) h = Some hs -> fstep s (FOpen name h m) = (s, RErr 55).
Proof. intros s name h m hs H. cbn [fstep]. rewrite H. reflexivity. Qed.

Theorem open_missing_for_input : forall s name h, lookup (handles s) h = None -> lookup (files s) name = None ->
  fstep s (FOpen name h MInput) = (s, RErr 53).
Proof. intros s name h H1 H2. cbn [fstep]. rewrite H1, H2. reflexivity. Qed.

Theorem closed_handle_is_an_error : forall s h, lookup (handles s) h = None ->
  (forall l, fstep s (FPrint h l) = (s, RErr 1000)) /\ fstep s (FLineInput h) = (s, RErr 1000) /\ fstep s (FEof h) = (s, RErr 1000).
Proof. intros s h H. cbn [fstep]. rewrite H. auto. Qed.

Theorem wrong_mode_is_an_error : forall s h name pos,
  (lookup (handles s) h = Some (mk_h name MInput pos) -> forall l, fstep s (FPrint h l) = (s, RErr 1000)) /\
  (lookup (handles s) h = Some (mk_h name MOutput pos) -> fstep s (FLineInput h) = (s, RErr 1000)).
Proof. intros s h name pos. split; intros H; intros; cbn [fstep]; rewrite H; reflexivity. Qed.

(** CLOSE makes the handle reusable; CLOSE without a number all of them *)
Theorem close_frees_the_handle : forall s h, lookup (handles (fst (fstep s (FClose h)))) h = None.
Proof. intros. cbn. apply lookup_remove_same. Qed.

Theorem close_all_frees_every_handle : forall s h, lookup (handles (fst (fstep s FCloseAll))) h = None.
Proof. intros. reflexivity. Qed.

(** ** RANDOM files: a record PUT is what GET returns, whatever other records were written meanwhile *)
Lemma puts_keep_other_records : forall others s h name content r d,
  lookup (handles s) h = Some (mk_h name MRandom 0) -> lookup (records s) name = Some content ->
  lookup content r = Some d -> Forall (fun o => fst o <> r) others ->
  let '(s', _) := frun s (map (fun o => FPut h (fst o) (snd o)) others) in
  lookup (handles s') h = Some (mk_h name MRandom 0) /\
  exists content', lookup (records s') name = Some content' /\ lookup content' r = Some d.
Proof.
  induction others as [|[r' d'] others IH]; intros s h name content r d Hh Hr Hc Hall; cbn [map frun].
  - split; [exact Hh|]. exists content. auto.
  - cbn [fstep fst snd]. rewrite Hh. cbn [hmode hname is_mode]. rewrite Hr.
    inversion Hall as [|? ? Hne Hrest]; subst. cbn [fst] in Hne.
    set (s1 := mk_fs (files s) (set_key (records s) name (set_key content r' d')) (handles s)).
    specialize (IH s1 h name (set_key content r' d') r d Hh (lookup_set_same _ _ _)).
    rewrite lookup_set_other in IH by exact Hne. specialize (IH Hc Hrest).
    destruct (frun s1 (map (fun o => FPut h (fst o) (snd o)) others)) as [s2 rs]. exact IH.
Qed.

Lemma puts_all_ok h name : forall os st st' rs,
  lookup (handles st) h = Some (mk_h name MRandom 0) ->
  frun st (map (fun o => FPut h (fst o) (snd o)) os) = (st', rs) -> rs = map (fun _ => ROk) os.
Proof.
  induction os as [|[r' d'] os IHo]; intros st st' rs Hs E; cbn [map frun] in E.
  - inversion E; reflexivity.
  - cbn [fstep fst snd] in E. rewrite Hs in E. cbn [hmode hname is_mode] in E.
    match type of E with context [frun ?x _] =>
      destruct (frun x (map (fun o => FPut h (fst o) (snd o)) os)) as [s3 r3] eqn:E3;
      assert (Hx : lookup (handles x) h = Some (mk_h name MRandom 0)) by exact Hs
    end.
    inversion E; subst. cbn. f_equal. eapply IHo; [exact Hx|exact E3].
Qed.

Theorem put_then_get : forall s h name r d others,
  lookup (handles s) h = Some (mk_h name MRandom 0) -> Forall (fun o => fst o <> r) others ->
  snd (frun s ([FPut h r d] ++ map (fun o => FPut h (fst o) (snd o)) others ++ [FGet h r])) =
  [ROk] ++ map (fun _ => ROk) others ++ [RLine d].
Proof.
  intros s h name r d others Hh Hall. cbn [app frun fstep]. rewrite Hh. cbn [hmode hname is_mode].
  set (content := match lookup (records s) name with Some c => c | None => [] end).
  set (s1 := mk_fs (files s) (set_key (records s) name (set_key content r d)) (handles s)).
  assert (frun_app : forall a b st, frun st (a ++ b) = let '(s', ra) := frun st a in let '(s'', rb) := frun s' b in (s'', ra ++ rb)).
  { induction a as [|o a IHa]; intros b st; cbn [app frun].
    - destruct (frun st b); reflexivity.
    - destruct (fstep st o) as [s' r0]. rewrite IHa. destruct (frun s' a) as [s2 ra]. destruct (frun s2 b); reflexivity. }
  rewrite frun_app.
  assert (Hh1 : lookup (handles s1) h = Some (mk_h name MRandom 0)) by exact Hh.
  pose proof (puts_keep_other_records others s1 h name (set_key content r d) r d Hh1 (lookup_set_same _ _ _) (lookup_set_same _ _ _) Hall) as P.
  destruct (frun s1 (map (fun o => FPut h (fst o) (snd o)) others)) as [s2 r2] eqn:E2.
  destruct P as (Hh2 & content' & Hr2 & Hc2).
  pose proof (puts_all_ok h name others s1 s2 r2 Hh1 E2) as R2.
  assert (E3 : fstep s2 (FGet h r) = (s2, RLine d)).
  { cbn [fstep]. rewrite Hh2. cbn [hmode hname is_mode]. rewrite Hr2, Hc2. reflexivity. }
  cbn [frun]. rewrite E3. cbn [snd]. rewrite R2. reflexivity.
Qed.
