(** Model of sequential and random-access files as the BASIC program sees them
    (rusty_basic/src/interpreter/io.rs FileManager / FileInfo and the built-ins OPEN, PRINT #,
    LINE INPUT #, EOF, CLOSE, KILL, PUT, GET): a file system of named line lists (text files) and
    record maps (RANDOM files), and a table of open handles. Names and handles are numbers, a line
    is a list of character codes without line terminators. *)
From Coq Require Import List Arith Bool.
Import ListNotations.

Inductive fmode := MInput | MOutput | MAppend | MRandom.

Record hstate := mk_h { hname : nat; hmode : fmode; hpos : nat }.

Record fsys := mk_fs {
  files : list (nat * list (list nat));            (* text content: lines *)
  records : list (nat * list (nat * list nat));     (* RANDOM content: record number -> bytes *)
  handles : list (nat * hstate);
}.

Definition fs0 : fsys := mk_fs [] [] [].

Inductive fop :=
| FOpen (name h : nat) (m : fmode)
| FPrint (h : nat) (line : list nat)
| FLineInput (h : nat)
| FEof (h : nat)
| FClose (h : nat)
| FCloseAll
| FKill (name : nat)
| FPut (h rec : nat) (data : list nat)
| FGet (h rec : nat).

(** results: nothing, a line read, a truth value, an error code; 1000 = "a file error" without a
    prescribed code (handle closed or open in the wrong mode) *)
Inductive fres := ROk | RLine (l : list nat) | RBool (b : bool) | RErr (code : nat).

Fixpoint lookup {A} (m : list (nat * A)) (k : nat) : option A :=
  match m with
  | [] => None
  | (k', v) :: t => if Nat.eqb k' k then Some v else lookup t k
  end.

Fixpoint remove_key {A} (m : list (nat * A)) (k : nat) : list (nat * A) :=
  match m with
  | [] => []
  | (k', v) :: t => if Nat.eqb k' k then remove_key t k else (k', v) :: remove_key t k
  end.

Definition set_key {A} (m : list (nat * A)) (k : nat) (v : A) : list (nat * A) := (k, v) :: remove_key m k.

Definition is_mode (a b : fmode) : bool :=
  match a, b with MInput, MInput | MOutput, MOutput | MAppend, MAppend | MRandom, MRandom => true | _, _ => false end.

Definition fstep (s : fsys) (o : fop) : fsys * fres :=
  match o with
  | FOpen name h m =>
      match lookup (handles s) h with
      | Some _ => (s, RErr 55)                                   (* File already open *)
      | None =>
          match m with
          | MInput =>
              match lookup (files s) name with
              | None => (s, RErr 53)                             (* File not found *)
              | Some _ => (mk_fs (files s) (records s) (set_key (handles s) h (mk_h name MInput 0)), ROk)
              end
          | MOutput => (mk_fs (set_key (files s) name []) (records s) (set_key (handles s) h (mk_h name MOutput 0)), ROk)
          | MAppend =>
              let content := match lookup (files s) name with Some c => c | None => [] end in
              (mk_fs (set_key (files s) name content) (records s) (set_key (handles s) h (mk_h name MAppend 0)), ROk)
          | MRandom =>
              let content := match lookup (records s) name with Some c => c | None => [] end in
              (mk_fs (files s) (set_key (records s) name content) (set_key (handles s) h (mk_h name MRandom 0)), ROk)
          end
      end
  | FPrint h line =>
      match lookup (handles s) h with
      | None => (s, RErr 1000)
      | Some hs =>
          if is_mode (hmode hs) MOutput || is_mode (hmode hs) MAppend then
            let content := match lookup (files s) (hname hs) with Some c => c | None => [] end in
            (mk_fs (set_key (files s) (hname hs) (content ++ [line])) (records s) (handles s), ROk)
          else (s, RErr 1000)
      end
  | FLineInput h =>
      match lookup (handles s) h with
      | None => (s, RErr 1000)
      | Some hs =>
          if is_mode (hmode hs) MInput then
            let content := match lookup (files s) (hname hs) with Some c => c | None => [] end in
            match nth_error content (hpos hs) with
            | Some l => (mk_fs (files s) (records s) (set_key (handles s) h (mk_h (hname hs) MInput (S (hpos hs)))), RLine l)
            | None => (s, RErr 62)                               (* Input past end of file *)
            end
          else (s, RErr 1000)
      end
  | FEof h =>
      match lookup (handles s) h with
      | None => (s, RErr 1000)
      | Some hs =>
          if is_mode (hmode hs) MInput then
            let content := match lookup (files s) (hname hs) with Some c => c | None => [] end in
            (s, RBool (Nat.leb (length content) (hpos hs)))
          else (s, RErr 1000)
      end
  | FClose h => (mk_fs (files s) (records s) (remove_key (handles s) h), ROk)
  | FCloseAll => (mk_fs (files s) (records s) [], ROk)
  | FKill name =>
      (* text files and RANDOM files have separate name spaces in this model; KILL is used on text files *)
      match lookup (files s) name with
      | None => (s, RErr 53)
      | Some _ => (mk_fs (remove_key (files s) name) (records s) (handles s), ROk)
      end
  | FPut h rec data =>
      match lookup (handles s) h with
      | None => (s, RErr 1000)
      | Some hs =>
          if is_mode (hmode hs) MRandom then
            let content := match lookup (records s) (hname hs) with Some c => c | None => [] end in
            (mk_fs (files s) (set_key (records s) (hname hs) (set_key content rec data)) (handles s), ROk)
          else (s, RErr 1000)
      end
  | FGet h rec =>
      match lookup (handles s) h with
      | None => (s, RErr 1000)
      | Some hs =>
          if is_mode (hmode hs) MRandom then
            let content := match lookup (records s) (hname hs) with Some c => c | None => [] end in
            match lookup content rec with
            | Some d => (s, RLine d)
            | None => (s, RLine (repeat 0 8))                    (* a record never written reads as NUL bytes *)
            end
          else (s, RErr 1000)
      end
  end.

Fixpoint frun (s : fsys) (os : list fop) : fsys * list fres :=
  match os with
  | [] => (s, [])
  | o :: t => let '(s1, r) := fstep s o in let '(s2, rs) := frun s1 t in (s2, r :: rs)
  end.

(** comparison with the observed results *)
Fixpoint line_eqb (a b : list nat) : bool :=
  match a, b with
  | [], [] => true
  | x :: a', y :: b' => Nat.eqb x y && line_eqb a' b'
  | _, _ => false
  end.

Definition fres_eqb (a b : fres) : bool :=
  match a, b with
  | ROk, ROk => true
  | RLine x, RLine y => line_eqb x y
  | RBool x, RBool y => Bool.eqb x y
  | RErr x, RErr y => Nat.eqb x y
  | _, _ => false
  end.

Fixpoint fres_list_eqb (a b : list fres) : bool :=
  match a, b with
  | [], [] => true
  | x :: a', y :: b' => fres_eqb x y && fres_list_eqb a' b'
  | _, _ => false
  end.

(** the model's 1000 stands for any file error code (50..76) of the implementation *)
Definition fres_match (model observed : fres) : bool :=
  match model, observed with
  | RErr 1000, RErr c => Nat.leb 50 c && Nat.leb c 76
  | _, _ => fres_eqb model observed
  end.

Fixpoint fres_list_match (model observed : list fres) : bool :=
  match model, observed with
  | _, [] => true                                  (* the program stopped at its first error *)
  | x :: a', y :: b' => fres_match x y && fres_list_match a' b'
  | [], _ :: _ => false
  end.
