(** Model of PRINT USING (rusty_basic/src/interpreter/print.rs: print_value_with_format_string,
    print_non_formatting_chars, print_remaining_non_formatting_chars, numeric_formatting,
    print_string_formatting_chars, print_first_char_formatting_chars). Numbers are given by their
    unformatted text ([to_string] of an integer); floating point values are outside this model. *)
From Coq Require Import List ZArith Bool Arith.
From RB Require Import RT.Printer RT.ArrayVal.
Import ListNotations.
Local Open Scope nat_scope.

Inductive uval := UStr (s : str) | UNum (text : str).

Inductive ures (A : Type) := UOk (a : A) | UIllegal | UTypeMismatch.
Arguments UOk {A}. Arguments UIllegal {A}. Arguments UTypeMismatch {A}.

Definition c_hash := 35%Z. Definition c_bslash := 92%Z. Definition c_bang := 33%Z.
Definition c_comma := 44%Z. Definition c_dot := 46%Z. Definition c_space := 32%Z.

Definition is_fmt (c : Z) : bool := Z.eqb c c_hash || Z.eqb c c_bslash || Z.eqb c c_bang.

(** copy literal text starting at [i], wrapping around, until a formatting character;
    error when the whole string holds none *)
Fixpoint non_fmt_loop (fuel : nat) (fmt : str) (i : nat) (acc : str) : ures (str * nat) :=
  match fuel with
  | O => UIllegal
  | S f =>
      let c := nth i fmt 0%Z in
      if is_fmt c then UOk (acc, i)
      else non_fmt_loop f fmt (Nat.modulo (S i) (length fmt)) (acc ++ [c])
  end.
Definition print_non_formatting (fmt : str) (i : nat) : ures (str * nat) :=
  non_fmt_loop (length fmt) fmt i [].

(** [print_remaining_non_formatting_chars]: to the next formatting character or the end, no wrap *)
Fixpoint remaining_loop (fuel : nat) (fmt : str) (i : nat) (acc : str) : str * nat :=
  match fuel with
  | O => (acc, i)
  | S f =>
      if Nat.ltb i (length fmt) && negb (is_fmt (nth i fmt 0%Z))
      then remaining_loop f fmt (S i) (acc ++ [nth i fmt 0%Z])
      else (acc, i)
  end.
Definition print_remaining (fmt : str) (i : nat) : str * nat := remaining_loop (S (length fmt)) fmt i [].

(** the run of numeric formatting characters [# , .] at the front of a string *)
Fixpoint num_run (s : str) : str :=
  match s with
  | c :: t => if Z.eqb c c_hash || Z.eqb c c_comma || Z.eqb c c_dot then c :: num_run t else []
  | [] => []
  end.

(** split at dots *)
Fixpoint split_dots (s : str) (cur : str) : list str :=
  match s with
  | [] => [cur]
  | c :: t => if Z.eqb c c_dot then cur :: split_dots t [] else split_dots t (cur ++ [c])
  end.

(** [fmt_integer_part], right to left; both arguments and the result are reversed *)
Fixpoint fmt_int_rev (rfmt rds : str) : option str :=
  match rfmt with
  | [] => Some rds
  | f :: rf =>
      if Z.eqb f c_comma then
        option_map (cons (match rds with [] => c_space | _ => c_comma end)) (fmt_int_rev rf rds)
      else if Z.eqb f c_hash then
        match rds with
        | d :: rd => option_map (cons d) (fmt_int_rev rf rd)
        | [] => option_map (cons c_space) (fmt_int_rev rf [])
        end
      else None
  end.
Definition fmt_integer_part (ifmt digits : str) : option str :=
  option_map (@rev Z) (fmt_int_rev (rev ifmt) (rev digits)).

Definition numeric_field (fmt : str) (i : nat) (v : uval) : ures (str * nat) :=
  let run := num_run (skipn i fmt) in
  let i' := i + length run in
  match split_dots run [] with
  | [] => UIllegal
  | ipart :: rest =>
      match ipart with
      | [] => UIllegal
      | _ =>
          (* the picture is checked before the value: a trailing dot is an error even for a string *)
          match rest with
          | [] =>
              match v with
              | UStr _ => UTypeMismatch
              | UNum text => match fmt_integer_part ipart text with Some r => UOk (r, i') | None => UIllegal end
              end
          | fpart :: _ =>
              match fpart with
              | [] => UIllegal
              | _ =>
                  match v with
                  | UStr _ => UTypeMismatch
                  | UNum text =>
                      match fmt_integer_part ipart text with
                      | Some r => UOk (r ++ c_dot :: repeat 48%Z (length fpart), i')
                      | None => UIllegal
                      end
                  end
              end
          end
      end
  end.

(** [\ \]: scan from [j] counting blanks until the closing backslash *)
Fixpoint bs_scan (fmt : str) (fuel : nat) (j : nat) (counter : nat) : option (nat * nat) :=
  match fuel with
  | O => None
  | S f =>
      if Nat.ltb j (length fmt) then
        let c := nth j fmt 0%Z in
        if Z.eqb c c_bslash then Some (S j, counter)
        else if Z.eqb c c_space then bs_scan fmt f (S j) (S counter)
        else None
      else None
  end.

(** [i] points at the opening backslash *)
Definition string_field (fmt : str) (i : nat) (v : uval) : ures (str * nat) :=
  match bs_scan fmt (S (length fmt)) (S i) 2 with
  | Some (j, counter) =>
      match v with
      | UStr s => UOk (fix_length s counter, j)
      | UNum _ => UTypeMismatch
      end
  | None => UIllegal
  end.

Definition bang_field (i : nat) (v : uval) : ures (str * nat) :=
  match v with
  | UStr [] => UIllegal
  | UStr (c :: _) => UOk ([c], S i)
  | UNum _ => UTypeMismatch
  end.

(** [print_value_with_format_string]: literal text, then the field; returns text and new index *)
Definition using_value (fmt : str) (index : nat) (v : uval) : ures (str * nat) :=
  match fmt with
  | [] => UIllegal
  | _ =>
      let i0 := Nat.modulo index (length fmt) in
      match print_non_formatting fmt i0 with
      | UOk (lit, i) =>
          let c := nth i fmt 0%Z in
          let field :=
            if Z.eqb c c_hash then numeric_field fmt i v
            else if Z.eqb c c_bslash then string_field fmt i v
            else bang_field i v in
          match field with
          | UOk (txt, i') => UOk (lit ++ txt, i')
          | UIllegal => UIllegal
          | UTypeMismatch => UTypeMismatch
          end
      | UIllegal => UIllegal
      | UTypeMismatch => UTypeMismatch
      end
  end.

(** a whole PRINT USING statement with items separated by semicolons and no trailing separator:
    the concatenated text (before the final CR LF) or the error *)
Fixpoint using_values (fmt : str) (index : nat) (vs : list uval) (acc : str) : ures str :=
  match vs with
  | [] => UOk (acc ++ fst (print_remaining fmt index))
  | v :: t =>
      match using_value fmt index v with
      | UOk (txt, i') => using_values fmt i' t (acc ++ txt)
      | UIllegal => UIllegal
      | UTypeMismatch => UTypeMismatch
      end
  end.

Definition ures_str_eqb (a : ures str) (code : nat) (b : str) : bool :=
  match a with
  | UOk x => Nat.eqb code 0 && str_eqb x b
  | UIllegal => Nat.eqb code 5
  | UTypeMismatch => Nat.eqb code 13
  end.
