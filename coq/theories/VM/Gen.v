(** Model of the instruction generator for the core fragment
    (rusty_basic/src/instruction_generator/{expression,statement,main,if_block,loops,select_case,print}.rs)
    and of the label resolver (label_resolver.rs: the last definition of a label wins). *)
From Coq Require Import List ZArith Bool.
From RB Require Import Generated.Tables Val.Variant Lang.Ast VM.Instr.
Import ListNotations.
Local Open Scope nat_scope.

(** ** Expressions *)
Fixpoint gen_expr (e : expr) : list ipos :=
  match e with
  | ELit p v => [(ILoad v, p)]
  | EVar p n => [(IVarPathName n, p); (ICopyVarPathToA, p); (IPopVarPath, p)]
  | EBin p op l r =>
      gen_expr l ++ [(IPushA, p)] ++ gen_expr r ++ [(ICopyAToB, p); (IPopA, p); (IBin op, p)]
  | EUn p UNot c => gen_expr c ++ [(INot, p)]
  | EUn p UMinus c => gen_expr c ++ [(INegate, p)]
  | EParen _ c => gen_expr c
  end.

(** [generate_expression_instructions_casting] *)
Definition gen_expr_casting (e : expr) (q : qual) : list ipos :=
  gen_expr e ++
  match etype e with
  | Some qs => if qual_eqb qs q then [] else [(ICast q, epos e)]
  | None => [(ICast q, epos e)]
  end.

Definition gen_store (n : name) (p : pos) : list ipos := [(IVarPathName n, p); (ICopyAToVarPath, p)].
Definition gen_load_var (n : name) (p : pos) : list ipos := [(IVarPathName n, p); (ICopyVarPathToA, p); (IPopVarPath, p)].

(** the generator's output: instructions and statement addresses; [base] is the address of the first
    instruction of the piece being generated *)
Record gout := mk_gout { code : list ipos; marks : list nat }.

Definition emit (g : gout) (l : list ipos) : gout := mk_gout (code g ++ l) (marks g).
Definition mark (g : gout) : gout := mk_gout (code g) (marks g ++ [length (code g)]).
Definition lbl (k : lkind) (i j : nat) (p : pos) : label := (k, i, j, p).
Definition jmp (k : lkind) (i j : nat) (p : pos) : ipos := (IJump (TLabel (lbl k i j p)), p).
Definition jif (k : lkind) (i j : nat) (p : pos) : ipos := (IJumpIfFalse (TLabel (lbl k i j p)), p).
Definition lab (k : lkind) (i j : nat) (p : pos) : ipos := (ILabel (lbl k i j p), p).

Definition gen_print_arg (a : print_arg) (p : pos) : list ipos :=
  match a with
  | PComma => [(IPrintComma, p)]
  | PSemi => [(IPrintSemi, p)]
  | PExpr e => gen_expr e ++ [(IPrintValue, epos e)]
  end.

(** SELECT CASE helpers *)
Definition gen_comparison (e : expr) (p : pos) : list ipos :=
  gen_expr e ++ [(ICopyAToB, p); (IPopA, p); (IPushA, p)].

Definition gen_case_expr (c : case_expr) (next : label) (p : pos) : list ipos :=
  let jnext := (IJumpIfFalse (TLabel next), p) in
  match c with
  | CSimple e => gen_comparison e p ++ [(IBin Equal, p); jnext]
  | CIs op e => gen_comparison e p ++ [(IBin op, p); jnext]
  | CRange lo hi =>
      gen_comparison lo p ++ [(IBin GreaterOrEqual, p); jnext] ++
      gen_comparison hi p ++ [(IBin LessOrEqual, p); jnext]
  end.

Fixpoint gen_case_exprs_multi (cs : list case_expr) (block_index k : nat) (next_case : label) (p : pos) : list ipos :=
  match cs with
  | [] => []
  | c :: t =>
      let is_last := match t with [] => true | _ => false end in
      (if Nat.eqb k 0 then [] else [lab KCaseMultiExpr block_index k p]) ++
      gen_case_expr c (if is_last then next_case else lbl KCaseMultiExpr block_index (S k) p) p ++
      (if is_last then [] else [jmp KCaseStatements block_index 0 p]) ++
      gen_case_exprs_multi t block_index (S k) next_case p
  end.

Definition next_case_label (n_blocks : nat) (has_else : bool) (i : nat) (p : pos) : label :=
  if Nat.ltb (S i) n_blocks then lbl KCase (S i) 0 p
  else if has_else then lbl KCaseElse 0 0 p else lbl KEndSelect 0 0 p.

(** calls of the built-in subs DATA (arguments by value) and READ (arguments by reference: collected,
    queued after the call, written back after the frame is popped) *)
Definition push_val_code (items : list expr) : list ipos := flat_map (fun e => gen_expr e ++ [(IPushUnnamedByVal, epos e)]) items.

Definition data_code (p : pos) (items : list expr) : list ipos :=
  [(IBeginCollect, p)] ++ push_val_code items ++ [(IPushStack, p); (IBuiltinData, p); (IPopStack, p)].

Fixpoint enqueue_code (targets : list (name * pos)) (i : nat) : list ipos :=
  match targets with
  | [] => []
  | (_, q) :: t => (IEnqueue i, q) :: enqueue_code t (S i)
  end.

Definition collect_code (targets : list (name * pos)) : list ipos :=
  flat_map (fun t => [(IVarPathName (fst t), snd t); (ICopyVarPathToA, snd t); (IPushUnnamedByRef, snd t)]) targets.
Definition writeback_code (targets : list (name * pos)) : list ipos :=
  flat_map (fun t => [(IDequeue, snd t); (IVarPathName (fst t), snd t); (ICopyAToVarPath, snd t)]) targets.

Definition read_code (p : pos) (targets : list (name * pos)) : list ipos :=
  [(IBeginCollect, p)] ++ collect_code targets ++
  [(IPushStack, p); (IBuiltinRead, p)] ++ enqueue_code targets 0 ++ [(IPopStack, p)] ++ writeback_code targets.

(** ** Statements. Fuel is only used to make the nested recursion structural; [size] always suffices. *)
Fixpoint gen_stmt (fuel : nat) (s : stmt) (g : gout) {struct fuel} : gout :=
  match fuel with
  | O => g
  | S f =>
      let block := fix block (l : list stmt) (g : gout) : gout :=
        match l with [] => g | x :: t => block t (gen_stmt f x g) end in
      let g := mark g in
      match s with
      | SAssign p n e => emit g (gen_expr_casting e (snd n) ++ gen_store n p)
      | SPrint p args =>
          emit g ([(IPrintSetPrinterType, p); (ILoad (VInteger 0%Z), p); (IPrintSetFormat, p)] ++
                  flat_map (fun a => gen_print_arg a p) args ++ [(IPrintEnd, p)])
      | SIf p c thn elifs els =>
          let n := length elifs in
          let has_else := match els with Some _ => true | None => false end in
          let next_after (i : nat) : ipos :=   (* the label to try after condition number i (0 = IF) *)
            if Nat.ltb i n then jif KElseIf i 0 p else if has_else then jif KElse 0 0 p else jif KEndIf 0 0 p in
          let g := emit g (gen_expr c ++ [next_after 0]) in
          let g := block thn g in
          let g := emit (mark g) [jmp KEndIf 0 0 p] in
          let g :=
            (fix chain (l : list (expr * list stmt)) (i : nat) (g : gout) : gout :=
               match l with
               | [] => g
               | (c', b) :: t =>
                   let g := emit g ([lab KElseIf i 0 p] ++ gen_expr c' ++ [next_after (S i)]) in
                   let g := block b g in
                   let g := emit (mark g) [jmp KEndIf 0 0 p] in
                   chain t (S i) g
               end) elifs 0 g in
          let g := match els with Some b => block b (emit g [lab KElse 0 0 p]) | None => g end in
          emit g [lab KEndIf 0 0 p]
      | SWhile p c body =>
          let g := emit g ([lab KWhile 0 0 p] ++ gen_expr c ++ [jif KWend 0 0 p]) in
          let g := block body g in
          emit (mark g) [jmp KWhile 0 0 p; lab KWend 0 0 p]
      | SDo p top until c body =>
          let test := gen_expr c ++ (if until then [(INot, p)] else []) ++ [jif KLoop 0 0 p] in
          if top then
            let g := emit g ([lab KDo 0 0 p] ++ test) in
            let g := block body g in
            emit (mark g) [jmp KDo 0 0 p; lab KLoop 0 0 p]
          else
            let g := emit g [lab KDo 0 0 p] in
            let g := block body g in
            emit (mark g) (test ++ [jmp KDo 0 0 p; lab KLoop 0 0 p])
      | SFor p v lo hi step body =>
          let q := snd v in
          let g := emit g (gen_expr_casting lo q ++ gen_store v p ++ gen_expr_casting hi q ++ [(ICopyAToC, p)]) in
          let body_part (known_positive : bool) (g : gout) : gout :=
            let g := emit g ([lab KForLoop 0 0 p] ++
              (if known_positive then [] else
                 [(ILoad (VInteger 0%Z), p); (ICopyAToB, p); (ICopyDToA, p); (IBin Less, p); jif KPositiveStep 0 0 p;
                  (ICopyCToB, p)] ++ gen_load_var v p ++ [(IBin GreaterOrEqual, p); jif KOutOfFor 0 0 p;
                  jmp KForBody 0 0 p; lab KPositiveStep 0 0 p]) ++
              [(ICopyCToB, p)] ++ gen_load_var v p ++ [(IBin LessOrEqual, p); jif KOutOfFor 0 0 p;
               lab KForBody 0 0 p; (IPushRegisters, p)]) in
            let g := block body g in
            emit (mark g) ([(IPopRegisters, p)] ++ gen_load_var v p ++
                           [(ICopyDToB, p); (IBin Plus, p)] ++ gen_store v p ++ [jmp KForLoop 0 0 p]) in
          match step with
          | Some se =>
              let g := emit g (gen_expr_casting se q ++
                               [(ICopyAToD, p); (ILoad (VInteger 0%Z), p); (ICopyAToB, p); (ICopyDToA, p);
                                (IBin NotEqual, p); jif KZero 0 0 p]) in
              let g := body_part false g in
              emit g [jmp KOutOfFor 0 0 p; lab KZero 0 0 p; (IThrowZeroStep, epos se); lab KOutOfFor 0 0 p]
          | None =>
              let g := emit g [(ILoad (VInteger 1%Z), p); (ICopyAToD, p)] in
              let g := body_part true g in
              emit g [lab KOutOfFor 0 0 p]
          end
      | SSelect p e cases els =>
          let n := length cases in
          let has_else := match els with Some _ => true | None => false end in
          let g := emit g (gen_expr e ++ [(IPushA, p)]) in
          let g :=
            (fix blocks (l : list (list case_expr * list stmt)) (i : nat) (g : gout) : gout :=
               match l with
               | [] => g
               | (cs, b) :: t =>
                   let nxt := next_case_label n has_else i p in
                   let multi := Nat.ltb 1 (length cs) in
                   let g := emit g ([lab KCase i 0 p] ++
                     (if multi then gen_case_exprs_multi cs i 0 nxt p ++ [lab KCaseStatements i 0 p]
                      else flat_map (fun c => gen_case_expr c nxt p) cs)) in
                   let g := block b g in
                   let g := emit (mark g) [jmp KEndSelect 0 0 p] in
                   blocks t (S i) g
               end) cases 0 g in
          let g := match els with Some b => block b (emit g [lab KCaseElse 0 0 p]) | None => g end in
          emit (mark g) [lab KEndSelect 0 0 p; (IPopA, p)]
      | SData p items => emit g (data_code p items)
      | SRead p targets => emit g (read_code p targets)
      end
  end.

Fixpoint stmt_size (s : stmt) : nat :=
  let bsize := fix bsize (l : list stmt) : nat := match l with [] => 0 | x :: t => stmt_size x + bsize t end in
  S (match s with
     | SAssign _ _ _ | SPrint _ _ | SData _ _ | SRead _ _ => 0
     | SIf _ _ thn elifs els =>
         bsize thn + (fix es (l : list (expr * list stmt)) : nat := match l with [] => 0 | (_, b) :: t => bsize b + es t end) elifs +
         match els with Some b => bsize b | None => 0 end
     | SWhile _ _ b | SDo _ _ _ _ b | SFor _ _ _ _ _ b => bsize b
     | SSelect _ _ cases els =>
         (fix cs (l : list (list case_expr * list stmt)) : nat := match l with [] => 0 | (_, b) :: t => bsize b + cs t end) cases +
         match els with Some b => bsize b | None => 0 end
     end).

(** the position of the final HALT is (u32::MAX, u32::MAX) in the code; written (0, 0) here *)
Definition max_pos : pos := (0, 0).

(** [generate_unresolved] for a program without sub-programs: statements, a final mark, HALT *)
(** the checker declares every implicitly declared variable in a DIM statement of its own placed in
    front of the program; the list (in the checker's order of discovery, with the position of the first use)
    is an input of the model *)
Definition gen_dims (dims : list (name * pos)) (g0 : gout) : gout :=
  fold_left (fun g d => emit (mark g) [(IAlloc (snd (fst d)), snd d); (IVarPathName (fst d), snd d); (ICopyAToVarPath, snd d)])
            dims g0.

(** the DATA statements of the main program come first, before the implicit declarations *)
Definition gen_program (dims : list (name * pos)) (p : program) : gout :=
  let gd := fold_left (fun g s => gen_stmt (S (stmt_size s)) s g) (filter is_data p) (mk_gout [] []) in
  let g := fold_left (fun g s => gen_stmt (S (stmt_size s)) s g) (filter (fun s => negb (is_data s)) p) (gen_dims dims gd) in
  emit (mark g) [(IHalt, max_pos)].

(** ** Label resolution: the address of a label is the index of its LAST definition *)
Fixpoint find_label (code : list ipos) (l : label) (i : nat) (found : option nat) : option nat :=
  match code with
  | [] => found
  | (ILabel l', _) :: t => find_label t l (S i) (if label_eqb l l' then Some i else found)
  | _ :: t => find_label t l (S i) found
  end.

Definition resolve_target (code : list ipos) (t : target) : target :=
  match t with
  | TAddr a => TAddr a
  | TLabel l => match find_label code l 0 None with Some a => TAddr a | None => TLabel l end
  end.

Definition resolve (code : list ipos) : list ipos :=
  map (fun ip => match fst ip with
                 | IJump t => (IJump (resolve_target code t), snd ip)
                 | IJumpIfFalse t => (IJumpIfFalse (resolve_target code t), snd ip)
                 | i => (i, snd ip)
                 end) code.
