(** Comparison functions used by the C01/C02/C15 correspondence cases: the real generator's
    instruction list against [Gen], and the observed run against both [Machine] and [Sem]. *)
From Coq Require Import List ZArith Bool Floats.SpecFloat.
From RB Require Import Generated.Tables Val.Variant Val.Arith2 Lang.Ast Lang.Sem Lang.NumText
                       VM.Instr VM.Gen VM.Machine VM.Validate RT.Printer.
Import ListNotations.
Local Open Scope nat_scope.

Inductive obs := ObsOk | ObsErr (code : Z) (row col : nat) | ObsStepZero (row col : nat).

Fixpoint env_eqb (a b : env) : bool :=
  match a, b with
  | [], [] => true
  | (n, v) :: a', (m, w) :: b' => name_eqb_exact n m && variant_eqb v w && env_eqb a' b'
  | _, _ => false
  end.

Definition out_eqb (model impl : list Z) : bool := has_poison model || Printer.str_eqb model impl.

Definition obs_of_m (r : mresult) : option (obs * mstate) :=
  match r with
  | MHalted s => Some (ObsOk, s)
  | MError e (r, c) s => Some (ObsErr (verr_code e) r c, s)
  | MStepZero (r, c) s => Some (ObsStepZero r c, s)
  | _ => None
  end.

Definition obs_of_s (o : outcome) : option (obs * state) :=
  match o with
  | Done s => Some (ObsOk, s)
  | Failed e (r, c) s => Some (ObsErr (verr_code e) r c, s)
  | StepZero (r, c) s => Some (ObsStepZero r c, s)
  | OutOfFuel => None
  end.

Definition obs_eqb (a b : obs) : bool :=
  match a, b with
  | ObsOk, ObsOk => true
  | ObsErr c r k, ObsErr c' r' k' => Z.eqb c c' && Nat.eqb r r' && Nat.eqb k k'
  | ObsStepZero r k, ObsStepZero r' k' => Nat.eqb r r' && Nat.eqb k k'
  | _, _ => false
  end.

(** three independent legs; each returns 0 when it agrees, else the number of the first comparison
    that fails *)

(** generator: the model's instruction list and statement addresses are literally the implementation's *)
Definition check_gen (dims : list (name * pos)) (p : program) (impl_code : list ipos) (impl_marks : list nat) : nat :=
  let g := gen_program dims p in
  if negb (code_eqb (resolve (code g)) impl_code) then 1
  else if negb (nats_eqb (marks g) impl_marks) then 2 else 0.

(** VM: the machine model run on the implementation's own instruction list ends as the real VM did *)
Definition check_vm (impl_code : list ipos) (o : obs) (stdout : list Z) (gvars : env) (fuel : nat) : nat :=
  match obs_of_m (run num_text is_negative fuel impl_code m0) with
  | None => 3
  | Some (mo, ms) =>
      if negb (obs_eqb mo o) then 3
      else if negb (out_eqb (out (mscr (mscreen ms))) stdout) then 4
      else if negb (env_eqb (mvars ms) gvars) then 5 else 0
  end.

(** the property itself: the real run ends as the reference semantics prescribe *)
Definition check_sem (dims : list (name * pos)) (p : program) (o : obs) (stdout : list Z) (gvars : env) (fuel : nat) : nat :=
  match obs_of_s (exec_main num_text is_negative fuel dims p) with
  | None => 6
  | Some (so, ss) =>
      if negb (obs_eqb so o) then 6
      else if negb (out_eqb (out (scr (screen ss))) stdout) then 7
      else if negb (env_eqb (vars ss) gvars) then 8 else 0
  end.

Definition check_c01 (dims : list (name * pos)) (p : program) (impl_code : list ipos) (impl_marks : list nat)
           (o : obs) (stdout : list Z) (gvars : env) (fuel : nat) : nat :=
  match check_gen dims p impl_code impl_marks with
  | O => match check_vm impl_code o stdout gvars fuel with
         | O => check_sem dims p o stdout gvars fuel
         | n => n
         end
  | n => n
  end.

(** all three legs at once (used to explain a disagreement) *)
Definition check_legs (dims : list (name * pos)) (p : program) (impl_code : list ipos) (impl_marks : list nat)
           (o : obs) (stdout : list Z) (gvars : env) (fuel : nat) : list nat :=
  [check_gen dims p impl_code impl_marks; check_vm impl_code o stdout gvars fuel; check_sem dims p o stdout gvars fuel].

(** translation validation: the implementation's own instruction list has the layouts for which
    [ValidateProofs.check_program_sound] proves agreement with the reference semantics (for runs of any length) *)
Definition check_valid (dims : list (name * pos)) (p : program) (impl_code : list ipos) : bool :=
  check_program 64 dims p impl_code.
