(** Model of the fetch-execute loop (rusty_basic/src/interpreter/main.rs) for the instructions of the
    core fragment, with no error handler installed: the first failing instruction ends the run with
    its error and position. *)
From Coq Require Import List ZArith Bool Floats.SpecFloat.
From RB Require Import Generated.Tables Val.Variant Val.Arith2 Lang.Ast Lang.Sem VM.Instr RT.Printer.
Import ListNotations.
Local Open Scope nat_scope.

Record regs := mk_regs { ra : variant; rb : variant; rc : variant; rd : variant }.
Definition regs0 : regs := mk_regs (VInteger 0%Z) (VInteger 0%Z) (VInteger 0%Z) (VInteger 0%Z).

(** the machine's devices and call state: screen, DATA items not yet read, the argument lists being
    collected, the frames of built-in calls in progress (values with the variable they came from),
    the queue of by-reference results *)
Definition marg : Type := (variant * option name)%type.
Record mio := mk_mio {
  mscr : dev;
  mdat : list variant;
  margs : list (list marg);
  mframes : list (list marg);
  mbyref : list variant;
}.
Definition to_mio (i : io) : mio := mk_mio (scr i) (dat i) [] [] [].
Definition of_mio (m : mio) : io := mk_io (mscr m) (mdat m).
Definition mset_call (m : mio) (d : list variant) (a f : list (list marg)) (b : list variant) : mio := mk_mio (mscr m) d a f b.

(** READ inside the frame of the call: one item per argument, converted to the type of the argument's value *)
Definition read_frame (fr : list marg) (d : list variant) : (list marg * list variant) + (verr * list variant) :=
  match read_vals (map (fun x => tag (fst x)) fr) d with
  | inl (ws, d') => inl (combine ws (map snd fr), d')
  | inr r => inr r
  end.

Definition mset_scr (m : mio) (d : dev) : mio := mk_mio d (mdat m) (margs m) (mframes m) (mbyref m).

Record mstate := mk_m {
  pc : nat;
  rstack : list regs;          (* register stack, current frame first *)
  vstack : list variant;       (* value stack, top first *)
  pstack : list name;          (* var path stack, most recent first *)
  mvars : env;
  mscreen : mio;
  mskip : bool;                (* PrintState.should_skip_new_line *)
}.

Inductive mresult :=
| MRunning (s : mstate)
| MHalted (s : mstate)
| MError (e : verr) (p : pos) (s : mstate)
| MStepZero (p : pos) (s : mstate)
| MPanic (what : nat) (s : mstate)         (* a Rust panic site: 1 value stack underflow, 2 var path, 3 registers, 4 unresolved label, 5 other instruction *)
| MOutOfFuel.

Definition cur (s : mstate) : regs := match rstack s with r :: _ => r | [] => regs0 end.
Definition set_regs (s : mstate) (r : regs) : mstate :=
  mk_m (pc s) (match rstack s with _ :: t => r :: t | [] => [r] end) (vstack s) (pstack s) (mvars s) (mscreen s) (mskip s).
Definition set_a (s : mstate) (v : variant) : mstate :=
  let r := cur s in set_regs s (mk_regs v (rb r) (rc r) (rd r)).
Definition next (s : mstate) : mstate := mk_m (S (pc s)) (rstack s) (vstack s) (pstack s) (mvars s) (mscreen s) (mskip s).
Definition goto (s : mstate) (a : nat) : mstate := mk_m a (rstack s) (vstack s) (pstack s) (mvars s) (mscreen s) (mskip s).

Section WithNumberText.
Variable num_text : variant -> list Z.
Variable is_negative : variant -> bool.

Definition step (code : list ipos) (s : mstate) : mresult :=
  match nth_error code (pc s) with
  | None => MHalted s
  | Some (i, p) =>
      let r := cur s in
      match i with
      | ILoad v => MRunning (next (set_a s v))
      | IVarPathName n => MRunning (next (mk_m (pc s) (rstack s) (vstack s) (n :: pstack s) (mvars s) (mscreen s) (mskip s)))
      | ICopyVarPathToA =>
          match pstack s with
          | n :: _ =>
              let vars' := touch (mvars s) n in
              let s' := mk_m (pc s) (rstack s) (vstack s) (pstack s) vars' (mscreen s) (mskip s) in
              MRunning (next (set_a s' (lookup vars' n)))
          | [] => MPanic 2 s
          end
      | IPopVarPath =>
          match pstack s with
          | _ :: t => MRunning (next (mk_m (pc s) (rstack s) (vstack s) t (mvars s) (mscreen s) (mskip s)))
          | [] => MError EOverflow p s
          end
      | ICopyAToVarPath =>
          match pstack s with
          | n :: t =>
              MRunning (next (mk_m (pc s) (rstack s) (vstack s) t (assign (touch (mvars s) n) n (ra r)) (mscreen s) (mskip s)))
          | [] => MPanic 2 s
          end
      | IPushA => MRunning (next (mk_m (pc s) (rstack s) (ra r :: vstack s) (pstack s) (mvars s) (mscreen s) (mskip s)))
      | IPopA =>
          match vstack s with
          | v :: t => MRunning (next (set_a (mk_m (pc s) (rstack s) t (pstack s) (mvars s) (mscreen s) (mskip s)) v))
          | [] => MPanic 1 s
          end
      | ICopyAToB => MRunning (next (set_regs s (mk_regs (ra r) (ra r) (rc r) (rd r))))
      | ICopyAToC => MRunning (next (set_regs s (mk_regs (ra r) (rb r) (ra r) (rd r))))
      | ICopyAToD => MRunning (next (set_regs s (mk_regs (ra r) (rb r) (rc r) (ra r))))
      | ICopyCToB => MRunning (next (set_regs s (mk_regs (ra r) (rc r) (rc r) (rd r))))
      | ICopyDToA => MRunning (next (set_regs s (mk_regs (rd r) (rb r) (rc r) (rd r))))
      | ICopyDToB => MRunning (next (set_regs s (mk_regs (ra r) (rd r) (rc r) (rd r))))
      | IBin op => match binop op (ra r) (rb r) with Ok v => MRunning (next (set_a s v)) | Err e => MError e p s end
      | INot => match unary_not (ra r) with Ok v => MRunning (next (set_a s v)) | Err e => MError e p s end
      | INegate => match negate (ra r) with Ok v => MRunning (next (set_a s v)) | Err e => MError e p s end
      | IAlloc q => MRunning (next (set_a s (default_of q)))
      | ICast q => match cast (ra r) q with Ok v => MRunning (next (set_a s v)) | Err e => MError e p s end
      | ILabel _ => MRunning (next s)
      | IJump (TAddr a) => MRunning (goto s a)
      | IJump (TLabel _) => MPanic 4 s
      | IJumpIfFalse t =>
          match truthy (ra r) with
          | Err e => MError e p s
          | Ok true => MRunning (next s)
          | Ok false => match t with TAddr a => MRunning (goto s a) | TLabel _ => MPanic 4 s end
          end
      | IPushRegisters => MRunning (next (mk_m (pc s) (regs0 :: rstack s) (vstack s) (pstack s) (mvars s) (mscreen s) (mskip s)))
      | IPopRegisters =>
          match rstack s with
          | _ :: (_ :: _) as t => MRunning (next (mk_m (pc s) t (vstack s) (pstack s) (mvars s) (mscreen s) (mskip s)))
          | _ => MPanic 3 s
          end
      | IThrowZeroStep => MStepZero p s
      | IHalt => MHalted s
      | IPrintSetPrinterType => MRunning (next s)
      | IPrintSetFormat => MRunning (next s)
      | IPrintComma => MRunning (next (mk_m (pc s) (rstack s) (vstack s) (pstack s) (mvars s) (mset_scr (mscreen s) (next_zone (mscr (mscreen s)))) true))
      | IPrintSemi => MRunning (next (mk_m (pc s) (rstack s) (vstack s) (pstack s) (mvars s) (mscreen s) true))
      | IPrintValue =>
          MRunning (next (mk_m (pc s) (rstack s) (vstack s) (pstack s) (mvars s)
                               (mset_scr (mscreen s) (print (mscr (mscreen s)) (item_text (item_of num_text is_negative (ra r))))) false))
      | IPrintEnd =>
          MRunning (next (mk_m (pc s) (rstack s) (vstack s) (pstack s) (mvars s)
                               (if mskip s then mscreen s else mset_scr (mscreen s) (println (mscr (mscreen s)))) false))
      | IBeginCollect =>
          let m := mscreen s in
          MRunning (next (mk_m (pc s) (rstack s) (vstack s) (pstack s) (mvars s) (mset_call m (mdat m) ([] :: margs m) (mframes m) (mbyref m)) (mskip s)))
      | IPushUnnamedByVal =>
          let m := mscreen s in
          match margs m with
          | a :: rest => MRunning (next (mk_m (pc s) (rstack s) (vstack s) (pstack s) (mvars s)
                                              (mset_call m (mdat m) ((a ++ [(ra r, None)]) :: rest) (mframes m) (mbyref m)) (mskip s)))
          | [] => MPanic 6 s
          end
      | IPushUnnamedByRef =>
          let m := mscreen s in
          match pstack s, margs m with
          | n :: ps', a :: rest => MRunning (next (mk_m (pc s) (rstack s) (vstack s) ps' (mvars s)
                                              (mset_call m (mdat m) ((a ++ [(ra r, Some n)]) :: rest) (mframes m) (mbyref m)) (mskip s)))
          | [], _ => MPanic 2 s
          | _, [] => MPanic 6 s
          end
      | IPushStack =>
          let m := mscreen s in
          match margs m with
          | a :: rest => MRunning (next (mk_m (pc s) (rstack s) (vstack s) (pstack s) (mvars s)
                                              (mset_call m (mdat m) rest (a :: mframes m) (mbyref m)) (mskip s)))
          | [] => MPanic 6 s
          end
      | IPopStack =>
          let m := mscreen s in
          match mframes m with
          | _ :: rest => MRunning (next (mk_m (pc s) (rstack s) (vstack s) (pstack s) (mvars s)
                                              (mset_call m (mdat m) (margs m) rest (mbyref m)) (mskip s)))
          | [] => MPanic 6 s
          end
      | IBuiltinData =>
          let m := mscreen s in
          match mframes m with
          | fr :: _ => MRunning (next (mk_m (pc s) (rstack s) (vstack s) (pstack s) (mvars s)
                                            (mset_call m (mdat m ++ map fst fr) (margs m) (mframes m) (mbyref m)) (mskip s)))
          | [] => MPanic 6 s
          end
      | IBuiltinRead =>
          let m := mscreen s in
          match mframes m with
          | fr :: rest =>
              match read_frame fr (mdat m) with
              | inl (fr', d') => MRunning (next (mk_m (pc s) (rstack s) (vstack s) (pstack s) (mvars s)
                                                      (mset_call m d' (margs m) (fr' :: rest) (mbyref m)) (mskip s)))
              | inr (x, d') => MError x p (mk_m (pc s) (rstack s) (vstack s) (pstack s) (mvars s)
                                                (mset_call m d' (margs m) (mframes m) (mbyref m)) (mskip s))
              end
          | [] => MPanic 6 s
          end
      | IEnqueue i =>
          let m := mscreen s in
          match mframes m with
          | fr :: _ =>
              match nth_error fr i with
              | Some (v, _) => MRunning (next (mk_m (pc s) (rstack s) (vstack s) (pstack s) (mvars s)
                                                    (mset_call m (mdat m) (margs m) (mframes m) (mbyref m ++ [v])) (mskip s)))
              | None => MPanic 6 s
              end
          | [] => MPanic 6 s
          end
      | IDequeue =>
          let m := mscreen s in
          match mbyref m with
          | v :: rest => MRunning (next (set_a (mk_m (pc s) (rstack s) (vstack s) (pstack s) (mvars s)
                                                     (mset_call m (mdat m) (margs m) (mframes m) rest) (mskip s)) v))
          | [] => MPanic 6 s
          end
      | IOther => MPanic 5 s
      end
  end.

Fixpoint run (fuel : nat) (code : list ipos) (s : mstate) : mresult :=
  match fuel with
  | O => MOutOfFuel
  | S f => match step code s with MRunning s' => run f code s' | r => r end
  end.

Definition m0 : mstate := mk_m 0 [regs0] [] [] [] (to_mio io0) false.

End WithNumberText.
