(** Compositional correctness of the WHILE loop layout: if the code of the body simulates the body
    (for every fuel), then the loop layout the generator emits - label, condition, conditional jump
    to the end, body, jump back, end label, with the two jumps resolved to the addresses of the two
    labels - simulates [Sem.exec] of the WHILE statement: for any number of iterations the machine
    reaches exactly the prescribed state, or stops with the prescribed error. *)
From Coq Require Import List ZArith Bool Lia Floats.SpecFloat.
From RB Require Import Generated.Tables Val.Variant Val.Arith2 Lang.Ast Lang.Sem VM.Instr VM.Gen VM.Machine VM.GenProofs RT.Printer.
Import ListNotations.
Local Open Scope nat_scope.

Section WithNumberText.
Variable num_text : variant -> list Z.
Variable is_negative : variant -> bool.
Notation step := (Machine.step num_text is_negative).
Notation stepn := (GenProofs.stepn num_text is_negative).
Notation exec := (Sem.exec num_text is_negative).

(** the block executor of [exec (S f)] *)
Definition blockf (f : nat) : list stmt -> state -> outcome :=
  fix block (l : list stmt) (st : state) : outcome :=
    match l with
    | [] => Done st
    | x :: t => match exec f x st with Done st' => block t st' | o => o end
    end.

(** [len] instructions at [pc0] realise the state transformer [B]: from any boundary state the
    machine reaches the boundary after them with the prescribed state (whatever is left in the
    registers of the current frame; all stacks as before), or stops with the prescribed error and screen *)
Definition simulates (code : list ipos) (pc0 len : nat) (B : state -> outcome) : Prop :=
  forall st r t vs ps,
    match B st with
    | Done st' => exists n r', stepn n code (boundary pc0 r t vs ps st)
                   = MRunning (boundary (pc0 + len) r' t vs ps st')
    | Failed x q st' => exists n s', stepn n code (boundary pc0 r t vs ps st) = MError x q s' /\ of_mio (mscreen s') = screen st'
    | StepZero q st' => exists n s', stepn n code (boundary pc0 r t vs ps st) = MStepZero q s' /\ of_mio (mscreen s') = screen st'
    | OutOfFuel => True
    end.

(** the resolved layout of WHILE c ... WEND at [pc0]; [lb] is the length of the body's code *)
Definition while_layout (code : list ipos) (pc0 : nat) (p : pos) (c : expr) (lb : nat) (l1 l2 : label) : Prop :=
  let lc := length (gen_expr c) in
  nth_error code pc0 = Some (ILabel l1, p) /\
  code_at code (S pc0) (gen_expr c) /\
  nth_error code (S pc0 + lc) = Some (IJumpIfFalse (TAddr (S pc0 + lc + 1 + lb + 1)), p) /\
  nth_error code (S pc0 + lc + 1 + lb) = Some (IJump (TAddr pc0), p) /\
  nth_error code (S pc0 + lc + 1 + lb + 1) = Some (ILabel l2, p).

Definition while_len (c : expr) (lb : nat) : nat := 1 + length (gen_expr c) + 1 + lb + 1 + 1.

Lemma stepn_one code s : stepn 1 code s = match step code s with MRunning s' => MRunning s' | r => r end.
Proof. cbn. destruct (step code s); reflexivity. Qed.

Theorem while_correct : forall code pc0 p c body lb l1 l2,
  while_layout code pc0 p c lb l1 l2 ->
  (forall f, simulates code (S pc0 + length (gen_expr c) + 1) lb (blockf f body)) ->
  forall f, simulates code pc0 (while_len c lb) (exec f (SWhile p c body)).
Proof.
  intros code pc0 p c body lb l1 l2 (Hl1 & Hc & Hjf & Hjb & Hl2) Hbody.
  set (lc := length (gen_expr c)) in *.
  induction f as [|f IH]; intros st r t vs ps; [exact I|].
  cbn [Sem.exec]. unfold cond.
  (* the label *)
  assert (S0 : stepn 1 code (boundary pc0 r t vs ps st) = MRunning (boundary (S pc0) r t vs ps st)).
  { rewrite stepn_one. unfold Machine.step, boundary. cbn [pc]. rewrite Hl1. reflexivity. }
  destruct (eval c (vars st)) as [v st1|x q] eqn:Ev.
  2:{ (* the condition fails *)
      destruct (gen_expr_error num_text is_negative c code (S pc0) r t vs ps (vars st) (to_mio (screen st)) false x q Hc Ev)
        as (k & s' & _ & Hs & Hd & _). apply (f_equal of_mio) in Hd; rewrite ?of_to_mio in Hd.
      exists (1 + k), s'. split; [|exact Hd]. rewrite stepn_add, S0. exact Hs. }
  destruct (gen_expr_value num_text is_negative c code (S pc0) r t vs ps (vars st) (to_mio (screen st)) false v st1 Hc Ev) as [b1 Sc].
  fold lc in Sc.
  assert (S1 : stepn (1 + lc) code (boundary pc0 r t vs ps st)
               = MRunning (mk_m (S pc0 + lc) (mk_regs v b1 (Machine.rc r) (Machine.rd r) :: t) vs ps st1 (to_mio (screen st)) false)).
  { rewrite stepn_add, S0. exact Sc. }
  destruct (truthy v) as [[|]|x] eqn:Tv.
  - (* true: body, jump back, loop again *)
    assert (S2 : stepn (1 + lc + 1) code (boundary pc0 r t vs ps st)
                 = MRunning (boundary (S pc0 + lc + 1) (mk_regs v b1 (Machine.rc r) (Machine.rd r)) t vs ps (mk_state st1 (screen st)))).
    { rewrite stepn_add, S1, stepn_one. unfold Machine.step. cbn [pc]. rewrite Hjf.
      unfold cur. cbn [rstack ra]. rewrite Tv. unfold next, boundary. cbn. do 2 f_equal. lia. }
    specialize (Hbody f (mk_state st1 (screen st)) (mk_regs v b1 (Machine.rc r) (Machine.rd r)) t vs ps).
    change ((fix block (l : list stmt) (st0 : state) : outcome := match l with [] => Done st0 | x :: t0 => match exec f x st0 with Done st' => block t0 st' | o => o end end) body (mk_state st1 (screen st)))
      with (blockf f body (mk_state st1 (screen st))).
    destruct (blockf f body (mk_state st1 (screen st))) as [st2|x q st2|q st2|].
    + destruct Hbody as (n & r1 & Hb).
      (* jump back *)
      assert (S3 : stepn (1 + lc + 1 + n + 1) code (boundary pc0 r t vs ps st)
                   = MRunning (boundary pc0 r1 t vs ps st2)).
      { rewrite stepn_add, stepn_add, S2, Hb, stepn_one. unfold Machine.step, boundary. cbn [pc].
        replace (S pc0 + lc + 1 + lb) with (S pc0 + lc + 1 + lb) by lia. rewrite Hjb. reflexivity. }
      specialize (IH st2 r1 t vs ps).
      destruct (exec f (SWhile p c body) st2) as [st3|x q st3|q st3|].
      * destruct IH as (n2 & r2 & H2). exists (1 + lc + 1 + n + 1 + n2), r2. rewrite stepn_add, S3. exact H2.
      * destruct IH as (n2 & s' & H2 & Hd). exists (1 + lc + 1 + n + 1 + n2), s'. split; [|exact Hd]. rewrite stepn_add, S3. exact H2.
      * destruct IH as (n2 & s' & H2 & Hd). exists (1 + lc + 1 + n + 1 + n2), s'. split; [|exact Hd]. rewrite stepn_add, S3. exact H2.
      * exact I.
    + destruct Hbody as (n & s' & Hb & Hd). exists (1 + lc + 1 + n), s'. split; [|exact Hd]. rewrite stepn_add, S2. exact Hb.
    + destruct Hbody as (n & s' & Hb & Hd). exists (1 + lc + 1 + n), s'. split; [|exact Hd]. rewrite stepn_add, S2. exact Hb.
    + exact I.
  - (* false: jump to the end label, then past it *)
    exists (1 + lc + 1 + 1), (mk_regs v b1 (Machine.rc r) (Machine.rd r)).
    rewrite stepn_add, stepn_add, S1, stepn_one. unfold Machine.step at 1. cbn [pc]. rewrite Hjf.
    unfold cur. cbn [rstack ra]. rewrite Tv. unfold goto. cbn [pc rstack vstack pstack mvars mscreen mskip].
    rewrite stepn_one. unfold Machine.step. cbn [pc]. rewrite Hl2. unfold next, boundary, while_len. cbn.
    do 2 f_equal. fold lc. lia.
  - (* the condition's value cannot be tested *)
    eexists (1 + lc + 1), _. rewrite stepn_add, S1, stepn_one. unfold Machine.step. cbn [pc]. rewrite Hjf.
    unfold cur. cbn [rstack ra]. rewrite Tv. split; [reflexivity|apply of_to_mio].
Qed.

End WithNumberText.
