(** Compositional correctness of the IF / ELSEIF / ELSE layout. *)
From Coq Require Import List ZArith Bool Lia Floats.SpecFloat.
From RB Require Import Generated.Tables Val.Variant Val.Arith2 Lang.Ast Lang.Sem VM.Instr VM.Gen VM.Machine VM.GenProofs VM.Loops RT.Printer.
Import ListNotations.
Local Open Scope nat_scope.

Section WithNumberText.
Variable num_text : variant -> list Z.
Variable is_negative : variant -> bool.
Notation step := (Machine.step num_text is_negative).
Notation stepn := (GenProofs.stepn num_text is_negative).
Notation exec := (Sem.exec num_text is_negative).
Notation blockf := (Loops.blockf num_text is_negative).
Notation simulates := (Loops.simulates num_text is_negative).

(** like [simulates], with the end given as an address *)
Definition sim_abs (code : list ipos) (pc0 pend : nat) (B : state -> outcome) : Prop :=
  forall st r t vs ps,
    match B st with
    | Done st' => exists n r', stepn n code (boundary pc0 r t vs ps st)
                   = MRunning (boundary pend r' t vs ps st')
    | Failed x q st' => exists n s', stepn n code (boundary pc0 r t vs ps st) = MError x q s' /\ of_mio (mscreen s') = screen st'
    | StepZero q st' => exists n s', stepn n code (boundary pc0 r t vs ps st) = MStepZero q s' /\ of_mio (mscreen s') = screen st'
    | OutOfFuel => True
    end.

Lemma sim_abs_of_simulates code pc len B : simulates code pc len B -> sim_abs code pc (pc + len) B.
Proof. intros H. exact H. Qed.

Lemma simulates_of_sim_abs code pc len B : sim_abs code pc (pc + len) B -> simulates code pc len B.
Proof. intros H. exact H. Qed.

(** the meaning of a chain of arms: IF c1 ... ELSEIF c2 ... ELSE ... *)
Definition arms_sem (f : nat) (p : pos) (els : option (list stmt)) : list (expr * list stmt) -> state -> outcome :=
  fix chain (l : list (expr * list stmt)) (st : state) : outcome :=
    match l with
    | [] => match els with Some b => blockf f b st | None => Done st end
    | (c', b) :: t =>
        match cond c' st p with
        | inr o => o
        | inl (true, st2) => blockf f b st2
        | inl (false, st2) => chain t st2
        end
    end.

Lemma arms_sem_cons f p els c b t st :
  arms_sem f p els ((c, b) :: t) st =
  match cond c st p with
  | inr o => o
  | inl (true, st2) => blockf f b st2
  | inl (false, st2) => arms_sem f p els t st2
  end.
Proof. reflexivity. Qed.

Lemma arms_sem_nil f p els st :
  arms_sem f p els [] st = match els with Some b => blockf f b st | None => Done st end.
Proof. reflexivity. Qed.

Lemma exec_if f p c thn elifs els st :
  exec (S f) (SIf p c thn elifs els) st = arms_sem f p els ((c, thn) :: elifs) st.
Proof. reflexivity. Qed.

(** the layout of the arms starting at [pc]; the END IF label stands at [pend] *)
Fixpoint arms_layout (code : list ipos) (p : pos) (pc pend : nat) (arms : list (expr * list stmt * nat)) (els : option (list stmt * nat)) : Prop :=
  match arms with
  | [] =>
      match els with
      | Some (_, le) => pc + le = pend
      | None => pc = pend \/ S pc = S pend     (* reached only through the label test below *)
      end
  | (c, _, lb) :: rest =>
      let lc := length (gen_expr c) in
      let nxt := pc + lc + 1 + lb + 1 in
      code_at code pc (gen_expr c) /\
      nth_error code (pc + lc) = Some (IJumpIfFalse (TAddr nxt), p) /\
      nth_error code (pc + lc + 1 + lb) = Some (IJump (TAddr pend), p) /\
      match rest, els with
      | [], None => nxt = pend
      | _, _ => (exists l, nth_error code nxt = Some (ILabel l, p)) /\ arms_layout code p (S nxt) pend rest els
      end
  end.

(** simulation of the blocks named in a layout *)
Fixpoint arms_blocks (code : list ipos) (pc : nat) (arms : list (expr * list stmt * nat)) (els : option (list stmt * nat)) : Prop :=
  match arms with
  | [] => match els with Some (b, le) => forall f, simulates code pc le (blockf f b) | None => True end
  | (c, b, lb) :: rest =>
      let lc := length (gen_expr c) in
      (forall f, simulates code (pc + lc + 1) lb (blockf f b)) /\
      arms_blocks code (S (pc + lc + 1 + lb + 1)) rest els
  end.

Definition strip (arms : list (expr * list stmt * nat)) : list (expr * list stmt) := map (fun a => (fst (fst a), snd (fst a))) arms.

Theorem arms_correct : forall (code : list ipos) p pend lend, nth_error code pend = Some (ILabel lend, p) ->
  forall arms pa els f,
  arms <> [] ->
  arms_layout code p pa pend arms els -> arms_blocks code pa arms els ->
  sim_abs code pa (S pend) (arms_sem f p (option_map fst els) (strip arms)).
Proof.
  intros code p pend lend Hend.
  (* one step over the END IF label *)
  assert (Lend : forall r t vs ps st, stepn 1 code (boundary pend r t vs ps st) = MRunning (boundary (S pend) r t vs ps st)).
  { intros. rewrite stepn_one. unfold Machine.step, boundary. cbn [pc]. rewrite Hend. reflexivity. }
  induction arms as [|[[c b] lb] rest IH]; intros pa els f Hne HL HB; [contradiction|].
  cbn [arms_layout] in HL. destruct HL as (Hc & Hjf & Hjmp & Hrest).
  cbn [arms_blocks] in HB. destruct HB as (Hb & HBrest).
  set (lc := length (gen_expr c)) in *. set (nxt := pa + lc + 1 + lb + 1) in *.
  intros st r t vs ps.
  change (strip ((c, b, lb) :: rest)) with ((c, b) :: strip rest). rewrite arms_sem_cons. unfold cond.
  destruct (eval c (vars st)) as [v st1|x q] eqn:Ev.
  2:{ destruct (gen_expr_error num_text is_negative c code pa r t vs ps (vars st) (to_mio (screen st)) false x q Hc Ev)
        as (k & s' & _ & Hs & Hd & _). apply (f_equal of_mio) in Hd; rewrite ?of_to_mio in Hd. exists k, s'. split; assumption. }
  destruct (gen_expr_value num_text is_negative c code pa r t vs ps (vars st) (to_mio (screen st)) false v st1 Hc Ev) as [b1 Sc].
  fold lc in Sc. unfold after in Sc.
  destruct (truthy v) as [[|]|x] eqn:Tv.
  - (* this arm is taken *)
    assert (S2 : stepn (lc + 1) code (boundary pa r t vs ps st)
                 = MRunning (boundary (pa + lc + 1) (mk_regs v b1 (Machine.rc r) (Machine.rd r)) t vs ps (mk_state st1 (screen st)))).
    { rewrite stepn_add. unfold boundary at 1. rewrite Sc, stepn_one. unfold Machine.step. cbn [pc]. rewrite Hjf.
      unfold cur. cbn [rstack ra]. rewrite Tv. unfold next, boundary. cbn. do 2 f_equal. lia. }
    specialize (Hb f (mk_state st1 (screen st)) (mk_regs v b1 (Machine.rc r) (Machine.rd r)) t vs ps).
    destruct (blockf f b (mk_state st1 (screen st))) as [st2|x q st2|q st2|].
    + destruct Hb as (n & r2 & Hn). exists (lc + 1 + n + 1 + 1), r2.
      rewrite stepn_add, stepn_add, stepn_add, S2, Hn, stepn_one. unfold Machine.step at 1. unfold boundary at 1. cbn [pc].
      rewrite Hjmp. unfold goto. cbn [pc rstack vstack pstack mvars mscreen mskip].
      apply (Lend r2 t vs ps st2).
    + destruct Hb as (n & s' & Hn & Hd). exists (lc + 1 + n), s'. split; [|exact Hd]. rewrite stepn_add, S2. exact Hn.
    + destruct Hb as (n & s' & Hn & Hd). exists (lc + 1 + n), s'. split; [|exact Hd]. rewrite stepn_add, S2. exact Hn.
    + exact I.
  - (* not taken: to the next arm, the ELSE block, or the end *)
    assert (S2 : stepn (lc + 1) code (boundary pa r t vs ps st)
                 = MRunning (boundary nxt (mk_regs v b1 (Machine.rc r) (Machine.rd r)) t vs ps (mk_state st1 (screen st)))).
    { rewrite stepn_add. unfold boundary at 1. rewrite Sc, stepn_one. unfold Machine.step. cbn [pc]. rewrite Hjf.
      unfold cur. cbn [rstack ra]. rewrite Tv. unfold goto, boundary. reflexivity. }
    destruct rest as [|arm2 rest'].
    + destruct els as [[be le]|].
      * (* ELSE block *)
        destruct Hrest as ([l Hl] & Hle). cbn [arms_layout] in Hle. cbn [arms_blocks] in HBrest.
        change (strip []) with (@nil (expr * list stmt)). rewrite arms_sem_nil. cbn [option_map fst].
        specialize (HBrest f (mk_state st1 (screen st)) (mk_regs v b1 (Machine.rc r) (Machine.rd r)) t vs ps).
        fold nxt in HBrest.
        assert (S3 : stepn (lc + 1 + 1) code (boundary pa r t vs ps st)
                     = MRunning (boundary (S nxt) (mk_regs v b1 (Machine.rc r) (Machine.rd r)) t vs ps (mk_state st1 (screen st)))).
        { rewrite stepn_add, S2, stepn_one. unfold Machine.step, boundary. cbn [pc]. rewrite Hl. reflexivity. }
        destruct (blockf f be (mk_state st1 (screen st))) as [st2|x q st2|q st2|].
        -- destruct HBrest as (n & r2 & Hn). exists (lc + 1 + 1 + n + 1), r2.
           rewrite stepn_add, stepn_add, S3, Hn. rewrite Hle. apply Lend.
        -- destruct HBrest as (n & s' & Hn & Hd). exists (lc + 1 + 1 + n), s'. split; [|exact Hd]. rewrite stepn_add, S3. exact Hn.
        -- destruct HBrest as (n & s' & Hn & Hd). exists (lc + 1 + 1 + n), s'. split; [|exact Hd]. rewrite stepn_add, S3. exact Hn.
        -- exact I.
      * (* no ELSE: the jump went to END IF *)
        change (strip []) with (@nil (expr * list stmt)). rewrite arms_sem_nil. cbn [option_map].
        exists (lc + 1 + 1), (mk_regs v b1 (Machine.rc r) (Machine.rd r)). rewrite stepn_add, S2, Hrest. apply Lend.
    + (* another arm *)
      destruct Hrest as ([l Hl] & Hlay).
      assert (S3 : stepn (lc + 1 + 1) code (boundary pa r t vs ps st)
                   = MRunning (boundary (S nxt) (mk_regs v b1 (Machine.rc r) (Machine.rd r)) t vs ps (mk_state st1 (screen st)))).
      { rewrite stepn_add, S2, stepn_one. unfold Machine.step, boundary. cbn [pc]. rewrite Hl. reflexivity. }
      specialize (IH (S nxt) els f ltac:(discriminate) Hlay HBrest (mk_state st1 (screen st)) (mk_regs v b1 (Machine.rc r) (Machine.rd r)) t vs ps).
      destruct (arms_sem f p (option_map fst els) (strip (arm2 :: rest')) (mk_state st1 (screen st))) as [st2|x q st2|q st2|].
      * destruct IH as (n & r2 & Hn). exists (lc + 1 + 1 + n), r2. rewrite stepn_add, S3. exact Hn.
      * destruct IH as (n & s' & Hn & Hd). exists (lc + 1 + 1 + n), s'. split; [|exact Hd]. rewrite stepn_add, S3. exact Hn.
      * destruct IH as (n & s' & Hn & Hd). exists (lc + 1 + 1 + n), s'. split; [|exact Hd]. rewrite stepn_add, S3. exact Hn.
      * exact I.
  - (* the condition's value cannot be tested *)
    eexists (lc + 1), _. rewrite stepn_add. unfold boundary at 1. rewrite Sc, stepn_one. unfold Machine.step. cbn [pc]. rewrite Hjf.
    unfold cur. cbn [rstack ra]. rewrite Tv. split; [reflexivity|apply of_to_mio].
Qed.

End WithNumberText.
