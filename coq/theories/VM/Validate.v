(** A validator for resolved instruction lists: [check_stmt] decides whether the code at an address
    has exactly the layout the generator emits for a statement (with the jumps resolved to the right
    addresses). [ValidateProofs] shows that code accepted by the validator simulates the reference
    semantics of the statement - for every state and every number of loop iterations. The validator
    is evaluated in Coq on the REAL instruction list of every generated program. *)
From Coq Require Import List ZArith Bool Arith Floats.SpecFloat.
From RB Require Import Generated.Tables Val.Variant Val.Arith2 Lang.Ast Lang.Sem VM.Instr VM.Gen VM.Machine VM.GenProofs VM.Loops VM.ForLoops VM.SelectCase RT.Printer.
Import ListNotations.
Local Open Scope nat_scope.

(** decidable (Leibniz) equality of instructions *)
Definition sf_eq_dec : forall a b : spec_float, {a = b} + {a <> b}.
Proof. decide equality; try apply Z.eq_dec; try apply Pos.eq_dec; apply Bool.bool_dec. Defined.

Definition variant_eq_dec : forall a b : variant, {a = b} + {a <> b}.
Proof. decide equality; try apply sf_eq_dec; try apply Z.eq_dec; apply (list_eq_dec Z.eq_dec). Defined.

Definition qual_eq_dec : forall a b : qual, {a = b} + {a <> b}.
Proof. decide equality. Defined.

Definition bop_eq_dec : forall a b : bop, {a = b} + {a <> b}.
Proof. decide equality. Defined.

Definition pos_eq_dec : forall a b : pos, {a = b} + {a <> b}.
Proof. decide equality; apply Nat.eq_dec. Defined.

Definition name_eq_dec : forall a b : name, {a = b} + {a <> b}.
Proof. decide equality; [apply qual_eq_dec|apply (list_eq_dec Z.eq_dec)]. Defined.

Definition lkind_eq_dec : forall a b : lkind, {a = b} + {a <> b}.
Proof. decide equality. Defined.

Definition label_eq_dec : forall a b : label, {a = b} + {a <> b}.
Proof. decide equality; [apply pos_eq_dec|]. decide equality; [apply Nat.eq_dec|]. decide equality; [apply Nat.eq_dec|apply lkind_eq_dec]. Defined.

Definition target_eq_dec : forall a b : target, {a = b} + {a <> b}.
Proof. decide equality; [apply label_eq_dec|apply Nat.eq_dec]. Defined.

Definition instr_eq_dec : forall a b : instr, {a = b} + {a <> b}.
Proof.
  decide equality; try apply variant_eq_dec; try apply name_eq_dec; try apply bop_eq_dec; try apply qual_eq_dec;
    try apply label_eq_dec; try apply target_eq_dec; try apply Nat.eq_dec.
Defined.

Definition ipos_eq_dec : forall a b : ipos, {a = b} + {a <> b}.
Proof. decide equality; [apply pos_eq_dec|apply instr_eq_dec]. Defined.

(** the instructions [frag] stand at address [pc] *)
Definition slice_is (code : list ipos) (pc : nat) (frag : list ipos) : bool :=
  Nat.leb pc (length code) &&
  if list_eq_dec ipos_eq_dec (firstn (length frag) (skipn pc code)) frag then true else false.

Definition instr_at (code : list ipos) (pc : nat) (i : ipos) : bool :=
  match nth_error code pc with Some j => if ipos_eq_dec i j then true else false | None => false end.

Definition is_label_at (code : list ipos) (pc : nat) (p : pos) : bool :=
  match nth_error code pc with Some (ILabel _, q) => if pos_eq_dec p q then true else false | _ => false end.

Definition typed_simple_b (s : stmt) : bool :=
  match s with SAssign _ _ e => match etype e with Some _ => true | None => false end | _ => true end.

(** IF chain, first pass: the length of every arm's block (by the block checker [cb]) and the address
    right after the last arm's jump *)
Fixpoint arms_pass1 (cb : list stmt -> nat -> option nat) (l : list (expr * list stmt)) (pc : nat)
  : option (list (expr * list stmt * nat) * nat) :=
  match l with
  | [] => None
  | (c, b) :: t =>
      let lc := length (gen_expr c) in
      match cb b (pc + lc + 1) with
      | None => None
      | Some lb =>
          let nxt := pc + lc + 1 + lb + 1 in
          match t with
          | [] => Some ([(c, b, lb)], nxt)
          | _ => match arms_pass1 cb t (S nxt) with
                 | Some (r, last) => Some ((c, b, lb) :: r, last)
                 | None => None
                 end
          end
      end
  end.

(** IF chain, second pass: the instructions around the blocks, with the END IF label at [pend] *)
Fixpoint arms_check (code : list ipos) (p : pos) (pc pend : nat) (arms : list (expr * list stmt * nat)) (els : option (list stmt * nat)) : bool :=
  match arms with
  | [] => match els with Some (_, le) => Nat.eqb (pc + le) pend | None => false end
  | (c, _, lb) :: rest =>
      let lc := length (gen_expr c) in
      let nxt := pc + lc + 1 + lb + 1 in
      slice_is code pc (gen_expr c) &&
      instr_at code (pc + lc) (IJumpIfFalse (TAddr nxt), p) &&
      instr_at code (pc + lc + 1 + lb) (IJump (TAddr pend), p) &&
      match rest, els with
      | [], None => Nat.eqb nxt pend
      | _, _ => is_label_at code nxt p && arms_check code p (S nxt) pend rest els
      end
  end.

(** SELECT CASE: the headers *)
Fixpoint multi_stmts (p : pos) (pc : nat) (cs : list case_expr) (first : bool) : nat :=
  match cs with
  | [] => pc
  | c :: t =>
      let pc1 := if first then pc else S pc in
      let lc := length (case_code c 0 p) in
      match t with [] => pc1 + lc | _ => multi_stmts p (pc1 + lc + 1) t false end
  end.

Fixpoint multi_check (code : list ipos) (p : pos) (pc : nat) (cs : list case_expr) (first : bool) (stmts nxt : nat) : bool :=
  match cs with
  | [] => false
  | c :: t =>
      let pc1 := if first then pc else S pc in
      (if first then true else is_label_at code pc p) &&
      match t with
      | [] => slice_is code pc1 (case_code c nxt p) && Nat.eqb (pc1 + length (case_code c nxt p)) stmts
      | _ =>
          let lc := length (case_code c 0 p) in
          slice_is code pc1 (case_code c (pc1 + lc + 1) p) &&
          instr_at code (pc1 + lc) (IJump (TAddr stmts), p) &&
          multi_check code p (pc1 + lc + 1) t false stmts nxt
      end
  end.

Definition header_bs (p : pos) (pc : nat) (cs : list case_expr) : option nat :=
  match cs with
  | [] => None
  | [c] => Some (pc + length (case_code c 0 p))
  | _ => Some (S (multi_stmts p pc cs true))
  end.

Definition header_check (code : list ipos) (p : pos) (pc : nat) (cs : list case_expr) (bs nxt : nat) : bool :=
  match cs with
  | [] => false
  | [c] => slice_is code pc (case_code c nxt p) && Nat.eqb (pc + length (case_code c nxt p)) bs
  | _ =>
      let stmts := multi_stmts p pc cs true in
      multi_check code p pc cs true stmts nxt && is_label_at code stmts p && Nat.eqb bs (S stmts)
  end.

(** SELECT CASE, first pass: where every block starts and how long it is; the address after the last CASE *)
Fixpoint sel_pass1 (cb : list stmt -> nat -> option nat) (p : pos) (l : list (list case_expr * list stmt)) (pc : nat)
  : option (list (list case_expr * list stmt * nat * nat) * nat) :=
  match l with
  | [] => Some ([], pc)
  | (cs, b) :: t =>
      match header_bs p (S pc) cs with
      | None => None
      | Some bs =>
          match cb b bs with
          | None => None
          | Some lb =>
              match sel_pass1 cb p t (bs + lb + 1) with
              | Some (r, last) => Some ((cs, b, bs, lb) :: r, last)
              | None => None
              end
          end
      end
  end.

Fixpoint chain_check (code : list ipos) (p : pos) (pc pend : nat) (cases : list (list case_expr * list stmt * nat * nat)) (els : option (list stmt * nat)) : bool :=
  match cases with
  | [] =>
      match els with
      | Some (_, le) => is_label_at code pc p && Nat.eqb (S pc + le) pend
      | None => Nat.eqb pc pend
      end
  | (cs, _, bs, lb) :: rest =>
      is_label_at code pc p && header_check code p (S pc) cs bs (bs + lb + 1) &&
      instr_at code (bs + lb) (IJump (TAddr pend), p) &&
      chain_check code p (bs + lb + 1) pend rest els
  end.

(** [check_stmt k code pc s]: the length of the code of [s] if the layout at [pc] is the generator's *)
Fixpoint check_stmt (k : nat) (code : list ipos) (pc : nat) (s : stmt) {struct k} : option nat :=
  match k with
  | O => None
  | S k' =>
      let check_block := fix check_block (l : list stmt) (pc : nat) : option nat :=
        match l with
        | [] => Some 0
        | x :: t => match check_stmt k' code pc x with
                    | Some n => match check_block t (pc + n) with Some m => Some (n + m) | None => None end
                    | None => None
                    end
        end in
      match s with
      | SAssign _ _ _ | SPrint _ _ =>
          if typed_simple_b s && slice_is code pc (simple_code s) then Some (length (simple_code s)) else None
      | SWhile p c body =>
          let lc := length (gen_expr c) in
          match check_block body (S pc + lc + 1) with
          | None => None
          | Some lb =>
              if is_label_at code pc p && slice_is code (S pc) (gen_expr c) &&
                 instr_at code (S pc + lc) (IJumpIfFalse (TAddr (S pc + lc + 1 + lb + 1)), p) &&
                 instr_at code (S pc + lc + 1 + lb) (IJump (TAddr pc), p) &&
                 is_label_at code (S pc + lc + 1 + lb + 1) p
              then Some (1 + lc + 1 + lb + 1 + 1) else None
          end
      | SDo p top until c body =>
          let test := gen_expr c ++ (if until then [(INot, p)] else []) in
          let lt := length test in
          if top then
            match check_block body (S pc + lt + 1) with
            | None => None
            | Some lb =>
                if is_label_at code pc p && slice_is code (S pc) test &&
                   instr_at code (S pc + lt) (IJumpIfFalse (TAddr (S pc + lt + 1 + lb + 1)), p) &&
                   instr_at code (S pc + lt + 1 + lb) (IJump (TAddr pc), p) &&
                   is_label_at code (S pc + lt + 1 + lb + 1) p
                then Some (1 + lt + 1 + lb + 1 + 1) else None
            end
          else
            match check_block body (S pc) with
            | None => None
            | Some lb =>
                if is_label_at code pc p && slice_is code (S pc + lb) test &&
                   instr_at code (S pc + lb + lt) (IJumpIfFalse (TAddr (S pc + lb + lt + 1 + 1)), p) &&
                   instr_at code (S pc + lb + lt + 1) (IJump (TAddr pc), p) &&
                   is_label_at code (S pc + lb + lt + 1 + 1) p
                then Some (1 + lb + lt + 1 + 1 + 1) else None
            end
      | SIf p c thn elifs els =>
          match arms_pass1 check_block ((c, thn) :: elifs) pc with
          | None => None
          | Some (arms, last) =>
              match els with
              | None =>
                  if arms_check code p pc last arms None && is_label_at code last p then Some (S last - pc) else None
              | Some be =>
                  match check_block be (S last) with
                  | None => None
                  | Some le =>
                      let pend := S last + le in
                      if arms_check code p pc pend arms (Some (be, le)) && is_label_at code pend p then Some (S pend - pc) else None
                  end
              end
          end
      | SFor p v lo hi step body =>
          let q := snd v in
          let la := length (gen_expr_casting lo q) in
          let lh := length (gen_expr_casting hi q) in
          match etype lo, etype hi with
          | Some _, Some _ =>
              match step with
              | None =>
                  let l0 := pc + la + 2 + lh + 3 in
                  match check_block body (l0 + 9) with
                  | None => None
                  | Some lb =>
                      let out := l0 + 9 + lb + 9 in
                      if slice_is code pc (gen_expr_casting lo q ++ gen_store v p ++ gen_expr_casting hi q ++
                                           [(ICopyAToC, p); (ILoad (VInteger 1%Z), p); (ICopyAToD, p)]) &&
                         is_label_at code l0 p && slice_is code (S l0) (for_test v p out) &&
                         is_label_at code (l0 + 7) p && instr_at code (l0 + 8) (IPushRegisters, p) &&
                         slice_is code (l0 + 9 + lb) (for_tail v p l0) && is_label_at code out p
                      then Some (for_len v lo hi lb) else None
                  end
              | Some se =>
                  match etype se with
                  | None => None
                  | Some _ =>
                      let ls := length (gen_expr_casting se q) in
                      let l0 := pc + la + 2 + lh + 1 + ls + 6 in
                      match check_block body (l0 + 22) with
                      | None => None
                      | Some lb =>
                          let kz := l0 + 22 + lb + 10 in
                          let out := l0 + 22 + lb + 12 in
                          if slice_is code pc (gen_expr_casting lo q ++ gen_store v p ++ gen_expr_casting hi q ++ [(ICopyAToC, p)] ++
                                               gen_expr_casting se q ++
                                               [(ICopyAToD, p); (ILoad (VInteger 0%Z), p); (ICopyAToB, p); (ICopyDToA, p);
                                                (IBin NotEqual, p); (IJumpIfFalse (TAddr kz), p)]) &&
                             is_label_at code l0 p && slice_is code (S l0) (for_sign v p l0 out) &&
                             is_label_at code (l0 + 13) p && slice_is code (l0 + 14) (for_test v p out) &&
                             is_label_at code (l0 + 20) p && instr_at code (l0 + 21) (IPushRegisters, p) &&
                             slice_is code (l0 + 22 + lb) (for_tail v p l0) &&
                             is_label_at code kz p && instr_at code (S kz) (IThrowZeroStep, epos se) && is_label_at code out p
                          then Some (for_step_len v lo hi se lb) else None
                      end
                  end
              end
          | _, _ => None
          end
      | SSelect p e cases els =>
          let le := length (gen_expr e) in
          match sel_pass1 check_block p cases (pc + le + 1) with
          | None => None
          | Some (cs4, last) =>
              match els with
              | None =>
                  if slice_is code pc (gen_expr e) && instr_at code (pc + le) (IPushA, p) &&
                     chain_check code p (pc + le + 1) last cs4 None &&
                     is_label_at code last p && instr_at code (S last) (IPopA, p)
                  then Some (S (S last) - pc) else None
              | Some be =>
                  match check_block be (S last) with
                  | None => None
                  | Some lbe =>
                      let pend := S last + lbe in
                      if slice_is code pc (gen_expr e) && instr_at code (pc + le) (IPushA, p) &&
                         chain_check code p (pc + le + 1) pend cs4 (Some (be, lbe)) &&
                         is_label_at code pend p && instr_at code (S pend) (IPopA, p)
                      then Some (S (S pend) - pc) else None
                  end
              end
          end
      | SData p items =>
          if slice_is code pc (data_code p items) then Some (length (data_code p items)) else None
      | SRead p targets =>
          if slice_is code pc (read_code p targets) then Some (length (read_code p targets)) else None
      end
  end.

Definition check_block (k : nat) (code : list ipos) : list stmt -> nat -> option nat :=
  fix check_block (l : list stmt) (pc : nat) : option nat :=
    match l with
    | [] => Some 0
    | x :: t => match check_stmt k code pc x with
                | Some n => match check_block t (pc + n) with Some m => Some (n + m) | None => None end
                | None => None
                end
    end.


(** ** Whole programs: the declarations of the implicitly declared variables, the statements, HALT *)
Definition dims_code (dims : list (name * pos)) : list ipos :=
  flat_map (fun d => [(IAlloc (snd (fst d)), snd d); (IVarPathName (fst d), snd d); (ICopyAToVarPath, snd d)]) dims.

(** DATA statements first, then the declarations, then the other statements, then HALT *)
Definition check_program (k : nat) (dims : list (name * pos)) (p : program) (code : list ipos) : bool :=
  match check_block k code (filter is_data p) 0 with
  | None => false
  | Some ld =>
      slice_is code ld (dims_code dims) &&
      match check_block k code (filter (fun s => negb (is_data s)) p) (ld + length (dims_code dims)) with
      | Some len => instr_at code (ld + length (dims_code dims) + len) (IHalt, max_pos)
      | None => false
      end
  end.
