(** Compositional correctness of the four DO ... LOOP layouts. *)
From Coq Require Import List ZArith Bool Lia Floats.SpecFloat.
From RB Require Import Generated.Tables Val.Variant Val.Arith2 Lang.Ast Lang.Sem VM.Instr VM.Gen VM.Machine VM.GenProofs VM.Loops RT.Printer.
Import ListNotations.
Local Open Scope nat_scope.

Section WithNumberText.
Variable num_text : variant -> list Z.
Variable is_negative : variant -> bool.
Notation step := (Machine.step num_text is_negative).
Notation stepn := (GenProofs.stepn num_text is_negative).
Notation exec := (Sem.exec num_text is_negative).
Notation blockf := (Loops.blockf num_text is_negative).
Notation simulates := (Loops.simulates num_text is_negative).

(** the loop test of the semantics *)
Definition test_sem (p : pos) (until : bool) (c : expr) (st : state) : (bool * state) + outcome :=
  match eval c (vars st) with
  | EErr x q => inr (Failed x q st)
  | EVal v st' =>
      let s' := mk_state st' (screen st) in
      match (if until then unary_not v else Ok v) with
      | Err x => inr (Failed x p s')
      | Ok w => match truthy w with Ok b => inl (b, s') | Err x => inr (Failed x p s') end
      end
  end.

Lemma test_sem_shape p until c st :
  match test_sem p until c st with
  | inr (Failed _ _ _) | inl _ => True
  | inr _ => False
  end.
Proof.
  unfold test_sem. destruct (eval c (vars st)) as [v st1|x q]; [|exact I]. cbv zeta.
  destruct (if until then unary_not v else Ok v) as [w|x]; [|exact I]. destruct (truthy w); exact I.
Qed.

Definition test_code (p : pos) (until : bool) (c : expr) : list ipos :=
  gen_expr c ++ (if until then [(INot, p)] else []).

(** the test code followed by the conditional jump *)
Lemma run_test : forall code pc p until c tgt st r t vs ps,
  code_at code pc (test_code p until c) ->
  nth_error code (pc + length (test_code p until c)) = Some (IJumpIfFalse (TAddr tgt), p) ->
  match test_sem p until c st with
  | inl (b, st1) =>
      exists n r', stepn n code (boundary pc r t vs ps st)
        = MRunning (boundary (if b then pc + length (test_code p until c) + 1 else tgt) r' t vs ps st1)
  | inr (Failed x q st') => exists n s', stepn n code (boundary pc r t vs ps st) = MError x q s' /\ of_mio (mscreen s') = screen st'
  | inr _ => True
  end.
Proof.
  intros code pc0 p until c tgt st r t vs ps Hc Hj. unfold test_sem, test_code in *.
  pose proof (code_at_app_l _ _ _ _ Hc) as Hce. pose proof (code_at_app_r _ _ _ _ Hc) as Hcn.
  set (lc := length (gen_expr c)) in *.
  destruct (eval c (vars st)) as [v st1|x q] eqn:Ev.
  2:{ destruct (gen_expr_error num_text is_negative c code pc0 r t vs ps (vars st) (to_mio (screen st)) false x q Hce Ev)
        as (k & s' & _ & Hs & Hd & _). apply (f_equal of_mio) in Hd; rewrite ?of_to_mio in Hd. exists k, s'. split; assumption. }
  destruct (gen_expr_value num_text is_negative c code pc0 r t vs ps (vars st) (to_mio (screen st)) false v st1 Hce Ev) as [b1 Sc].
  fold lc in Sc. unfold after in Sc. cbv zeta.
  destruct until.
  - (* UNTIL: NOT first *)
    rewrite app_length in Hj. cbn [length] in Hj. fold lc in Hj. rewrite Nat.add_assoc in Hj.
    apply code_at_cons in Hcn. destruct Hcn as [Hnot _].
    destruct (unary_not v) as [w|x] eqn:En.
    + assert (S1 : stepn (lc + 1) code (boundary pc0 r t vs ps st)
                   = MRunning (mk_m (pc0 + lc + 1) (mk_regs w b1 (Machine.rc r) (Machine.rd r) :: t) vs ps st1 (to_mio (screen st)) false)).
      { rewrite stepn_add. unfold boundary at 1. rewrite Sc, stepn_one. unfold Machine.step. cbn [pc]. rewrite Hnot.
        unfold cur. cbn [rstack ra]. rewrite En. unfold next, set_a, set_regs, cur. cbn. do 2 f_equal. lia. }
      destruct (truthy w) as [[|]|x] eqn:Tw.
      * exists (lc + 1 + 1), (mk_regs w b1 (Machine.rc r) (Machine.rd r)). rewrite stepn_add, S1, stepn_one. unfold Machine.step. cbn [pc]. rewrite Hj.
        unfold cur. cbn [rstack ra]. rewrite Tw. unfold next, boundary. cbn. do 2 f_equal. rewrite app_length. cbn. lia.
      * exists (lc + 1 + 1), (mk_regs w b1 (Machine.rc r) (Machine.rd r)). rewrite stepn_add, S1, stepn_one. unfold Machine.step. cbn [pc]. rewrite Hj.
        unfold cur. cbn [rstack ra]. rewrite Tw. unfold goto, boundary. reflexivity.
      * eexists (lc + 1 + 1), _. rewrite stepn_add, S1, stepn_one. unfold Machine.step. cbn [pc]. rewrite Hj.
        unfold cur. cbn [rstack ra]. rewrite Tw. split; [reflexivity|apply of_to_mio].
    + eexists (lc + 1), _. rewrite stepn_add. unfold boundary at 1. rewrite Sc, stepn_one. unfold Machine.step. cbn [pc]. rewrite Hnot.
      unfold cur. cbn [rstack ra]. rewrite En. split; [reflexivity|apply of_to_mio].
  - (* WHILE *)
    rewrite app_nil_r in Hj. fold lc in Hj.
    destruct (truthy v) as [[|]|x] eqn:Tv.
    + exists (lc + 1), (mk_regs v b1 (Machine.rc r) (Machine.rd r)). rewrite stepn_add. unfold boundary at 1. rewrite Sc, stepn_one. unfold Machine.step. cbn [pc]. rewrite Hj.
      unfold cur. cbn [rstack ra]. rewrite Tv. unfold next, boundary. cbn. do 2 f_equal. rewrite app_nil_r. fold lc. lia.
    + exists (lc + 1), (mk_regs v b1 (Machine.rc r) (Machine.rd r)). rewrite stepn_add. unfold boundary at 1. rewrite Sc, stepn_one. unfold Machine.step. cbn [pc]. rewrite Hj.
      unfold cur. cbn [rstack ra]. rewrite Tv. unfold goto, boundary. reflexivity.
    + eexists (lc + 1), _. rewrite stepn_add. unfold boundary at 1. rewrite Sc, stepn_one. unfold Machine.step. cbn [pc]. rewrite Hj.
      unfold cur. cbn [rstack ra]. rewrite Tv. split; [reflexivity|apply of_to_mio].
Qed.

(** DO [WHILE|UNTIL] c ... LOOP: label, test, jump to the end, body, jump back, end label *)
Definition do_top_layout (code : list ipos) (pc0 : nat) (p : pos) (until : bool) (c : expr) (lb : nat) : Prop :=
  let lt := length (test_code p until c) in
  (exists l, nth_error code pc0 = Some (ILabel l, p)) /\
  code_at code (S pc0) (test_code p until c) /\
  nth_error code (S pc0 + lt) = Some (IJumpIfFalse (TAddr (S pc0 + lt + 1 + lb + 1)), p) /\
  nth_error code (S pc0 + lt + 1 + lb) = Some (IJump (TAddr pc0), p) /\
  (exists l, nth_error code (S pc0 + lt + 1 + lb + 1) = Some (ILabel l, p)).

Theorem do_top_correct : forall code pc0 p until c body lb,
  do_top_layout code pc0 p until c lb ->
  (forall f, simulates code (S pc0 + length (test_code p until c) + 1) lb (blockf f body)) ->
  forall f, simulates code pc0 (1 + length (test_code p until c) + 1 + lb + 1 + 1) (exec f (SDo p true until c body)).
Proof.
  intros code pc0 p until c body lb ([l1 Hl1] & Hc & Hjf & Hjb & [l2 Hl2]) Hbody.
  set (lt := length (test_code p until c)) in *.
  induction f as [|f IH]; intros st r t vs ps; [exact I|].
  cbn [Sem.exec].
  match goal with |- match (match ?tst with inl _ => _ | inr _ => _ end) with _ => _ end => change tst with (test_sem p until c st) end.
  assert (S0 : stepn 1 code (boundary pc0 r t vs ps st) = MRunning (boundary (S pc0) r t vs ps st)).
  { rewrite stepn_one. unfold Machine.step, boundary. cbn [pc]. rewrite Hl1. reflexivity. }
  pose proof (run_test code (S pc0) p until c _ st r t vs ps Hc Hjf) as T. fold lt in T.
  destruct (test_sem p until c st) as [[b st1]|o] eqn:Et.
  - destruct T as (n & r1 & Hn). destruct b.
    + (* body, jump back *)
      specialize (Hbody f st1 r1 t vs ps).
      change ((fix block (l : list stmt) (st0 : state) : outcome := match l with [] => Done st0 | x :: t0 => match exec f x st0 with Done st' => block t0 st' | o => o end end) body st1)
        with (blockf f body st1).
      destruct (blockf f body st1) as [st2|x q st2|q st2|].
      * destruct Hbody as (n2 & r2 & H2).
        assert (S3 : stepn (1 + n + n2 + 1) code (boundary pc0 r t vs ps st)
                     = MRunning (boundary pc0 r2 t vs ps st2)).
        { rewrite stepn_add, stepn_add, stepn_add, S0, Hn, H2, stepn_one. unfold Machine.step, boundary. cbn [pc]. rewrite Hjb. reflexivity. }
        specialize (IH st2 r2 t vs ps).
        destruct (exec f (SDo p true until c body) st2) as [st3|x q st3|q st3|].
        -- destruct IH as (n3 & r3 & H3). exists (1 + n + n2 + 1 + n3), r3. rewrite stepn_add, S3. exact H3.
        -- destruct IH as (n3 & s' & H3 & Hd). exists (1 + n + n2 + 1 + n3), s'. split; [|exact Hd]. rewrite stepn_add, S3. exact H3.
        -- destruct IH as (n3 & s' & H3 & Hd). exists (1 + n + n2 + 1 + n3), s'. split; [|exact Hd]. rewrite stepn_add, S3. exact H3.
        -- exact I.
      * destruct Hbody as (n2 & s' & H2 & Hd). exists (1 + n + n2), s'. split; [|exact Hd]. rewrite stepn_add, stepn_add, S0, Hn. exact H2.
      * destruct Hbody as (n2 & s' & H2 & Hd). exists (1 + n + n2), s'. split; [|exact Hd]. rewrite stepn_add, stepn_add, S0, Hn. exact H2.
      * exact I.
    + (* leave: the end label *)
      exists (1 + n + 1), r1. rewrite stepn_add, stepn_add, S0, Hn, stepn_one. unfold Machine.step, boundary. cbn [pc]. rewrite Hl2.
      unfold next. cbn. do 2 f_equal. lia.
  - pose proof (test_sem_shape p until c st) as Sh. rewrite Et in Sh.
    destruct o as [s|x q s|q s|]; try contradiction.
    destruct T as (n & s' & Hn & Hd). exists (1 + n), s'. split; [|exact Hd]. rewrite stepn_add, S0. exact Hn.
Qed.

(** DO ... LOOP [WHILE|UNTIL] c: label, body, test, jump to the end, jump back, end label *)
Definition do_bottom_layout (code : list ipos) (pc0 : nat) (p : pos) (until : bool) (c : expr) (lb : nat) : Prop :=
  let lt := length (test_code p until c) in
  (exists l, nth_error code pc0 = Some (ILabel l, p)) /\
  code_at code (S pc0 + lb) (test_code p until c) /\
  nth_error code (S pc0 + lb + lt) = Some (IJumpIfFalse (TAddr (S pc0 + lb + lt + 1 + 1)), p) /\
  nth_error code (S pc0 + lb + lt + 1) = Some (IJump (TAddr pc0), p) /\
  (exists l, nth_error code (S pc0 + lb + lt + 1 + 1) = Some (ILabel l, p)).

Theorem do_bottom_correct : forall code pc0 p until c body lb,
  do_bottom_layout code pc0 p until c lb ->
  (forall f, simulates code (S pc0) lb (blockf f body)) ->
  forall f, simulates code pc0 (1 + lb + length (test_code p until c) + 1 + 1 + 1) (exec f (SDo p false until c body)).
Proof.
  intros code pc0 p until c body lb ([l1 Hl1] & Hc & Hjf & Hjb & [l2 Hl2]) Hbody.
  set (lt := length (test_code p until c)) in *.
  induction f as [|f IH]; intros st r t vs ps; [exact I|].
  cbn [Sem.exec].
  assert (S0 : stepn 1 code (boundary pc0 r t vs ps st) = MRunning (boundary (S pc0) r t vs ps st)).
  { rewrite stepn_one. unfold Machine.step, boundary. cbn [pc]. rewrite Hl1. reflexivity. }
  specialize (Hbody f st r t vs ps).
  change ((fix block (l : list stmt) (st0 : state) : outcome := match l with [] => Done st0 | x :: t0 => match exec f x st0 with Done st' => block t0 st' | o => o end end) body st)
    with (blockf f body st).
  destruct (blockf f body st) as [st1|x q st1|q st1|].
  - destruct Hbody as (n & r1 & Hn).
    match goal with |- match (match ?tst with inl _ => _ | inr _ => _ end) with _ => _ end => change tst with (test_sem p until c st1) end.
    pose proof (run_test code (S pc0 + lb) p until c _ st1 r1 t vs ps Hc Hjf) as T.
    fold lt in T.
    destruct (test_sem p until c st1) as [[bb st2]|o] eqn:Et.
    + destruct T as (n2 & r2 & H2). destruct bb.
      * (* again *)
        assert (S3 : stepn (1 + n + n2 + 1) code (boundary pc0 r t vs ps st)
                     = MRunning (boundary pc0 r2 t vs ps st2)).
        { rewrite stepn_add, stepn_add, stepn_add, S0, Hn, H2, stepn_one. unfold Machine.step, boundary. cbn [pc]. rewrite Hjb. reflexivity. }
        specialize (IH st2 r2 t vs ps).
        destruct (exec f (SDo p false until c body) st2) as [st3|x q st3|q st3|].
        -- destruct IH as (n3 & r3 & H3). exists (1 + n + n2 + 1 + n3), r3. rewrite stepn_add, S3. exact H3.
        -- destruct IH as (n3 & s' & H3 & Hd). exists (1 + n + n2 + 1 + n3), s'. split; [|exact Hd]. rewrite stepn_add, S3. exact H3.
        -- destruct IH as (n3 & s' & H3 & Hd). exists (1 + n + n2 + 1 + n3), s'. split; [|exact Hd]. rewrite stepn_add, S3. exact H3.
        -- exact I.
      * exists (1 + n + n2 + 1), r2. rewrite stepn_add, stepn_add, stepn_add, S0, Hn, H2, stepn_one.
        unfold Machine.step, boundary. cbn [pc]. rewrite Hl2. unfold next. cbn. do 2 f_equal. lia.
    + pose proof (test_sem_shape p until c st1) as Sh. rewrite Et in Sh.
      destruct o as [s|x q s|q s|]; try contradiction.
      destruct T as (n2 & s' & H2 & Hd). exists (1 + n + n2), s'. split; [|exact Hd]. rewrite stepn_add, stepn_add, S0, Hn. exact H2.
  - destruct Hbody as (n & s' & Hn & Hd). exists (1 + n), s'. split; [|exact Hd]. rewrite stepn_add, S0. exact Hn.
  - destruct Hbody as (n & s' & Hn & Hd). exists (1 + n), s'. split; [|exact Hd]. rewrite stepn_add, S0. exact Hn.
  - exact I.
Qed.

End WithNumberText.
