(** Soundness of the validator: code it accepts simulates the reference semantics. *)
From Coq Require Import List ZArith Bool Arith Lia Floats.SpecFloat.
From RB Require Import Generated.Tables Val.Variant Val.Arith2 Lang.Ast Lang.Sem VM.Instr VM.Gen VM.Machine VM.GenProofs
                       VM.Loops VM.ForLoops VM.SelectCase VM.ReadData VM.Branch VM.DoLoops VM.Validate RT.Printer.
Import ListNotations.
Local Open Scope nat_scope.

Lemma slice_is_code_at code pc frag : slice_is code pc frag = true -> code_at code pc frag.
Proof.
  unfold slice_is. intros H. apply andb_true_iff in H. destruct H as [Hle Heq]. apply Nat.leb_le in Hle.
  destruct (list_eq_dec ipos_eq_dec (firstn (length frag) (skipn pc code)) frag) as [E|]; [|discriminate].
  exists (firstn pc code), (skipn (length frag) (skipn pc code)). split.
  - rewrite <- E at 1. rewrite firstn_skipn. symmetry. apply firstn_skipn.
  - apply firstn_length_le. exact Hle.
Qed.

Lemma instr_at_nth code pc i : instr_at code pc i = true -> nth_error code pc = Some i.
Proof.
  unfold instr_at. destruct (nth_error code pc) as [j|]; [|discriminate].
  destruct (ipos_eq_dec i j); [subst; reflexivity|discriminate].
Qed.

Lemma is_label_at_nth code pc p : is_label_at code pc p = true -> exists l, nth_error code pc = Some (ILabel l, p).
Proof.
  unfold is_label_at. destruct (nth_error code pc) as [[i q]|]; [|discriminate].
  destruct i; try discriminate. destruct (pos_eq_dec p q); [subst; eexists; reflexivity|discriminate].
Qed.

Lemma multi_check_layout code p : forall cs pc first stmts nxt,
  multi_check code p pc cs first stmts nxt = true -> multi_layout code p pc cs first stmts nxt.
Proof.
  induction cs as [|c t IH]; intros pc first stmts nxt H; [discriminate|].
  cbn [multi_check] in H. cbn [multi_layout].
  apply andb_true_iff in H. destruct H as [Hl Hr]. split.
  - destruct first; [exact I|apply is_label_at_nth; exact Hl].
  - destruct t as [|c2 t'].
    + apply andb_true_iff in Hr. destruct Hr as [Hs He]. split; [apply slice_is_code_at; exact Hs|apply Nat.eqb_eq; exact He].
    + apply andb_true_iff in Hr. destruct Hr as [Hr Hm]. apply andb_true_iff in Hr. destruct Hr as [Hs Hj].
      split; [apply slice_is_code_at; exact Hs|]. split; [apply instr_at_nth; exact Hj|]. apply IH. exact Hm.
Qed.

Lemma header_check_layout code p pc cs bs nxt :
  header_check code p pc cs bs nxt = true -> header_layout code p pc cs bs nxt.
Proof.
  unfold header_check, header_layout. destruct cs as [|c [|c2 t]]; intros H; [discriminate| |].
  - apply andb_true_iff in H. destruct H as [Hs He]. split; [apply slice_is_code_at; exact Hs|apply Nat.eqb_eq; exact He].
  - apply andb_true_iff in H. destruct H as [H He]. apply andb_true_iff in H. destruct H as [Hm Hl].
    exists (multi_stmts p pc (c :: c2 :: t) true). split; [apply multi_check_layout; exact Hm|].
    split; [apply is_label_at_nth; exact Hl|apply Nat.eqb_eq; exact He].
Qed.

Lemma chain_check_layout code p pend : forall cases pc els,
  chain_check code p pc pend cases els = true -> chain_layout code p pc pend cases els.
Proof.
  induction cases as [|[[[cs b] bs] lb] rest IH]; intros pc els H; cbn [chain_check] in H; cbn [chain_layout].
  - destruct els as [[be le]|].
    + apply andb_true_iff in H. destruct H as [Hl He]. split; [apply is_label_at_nth; exact Hl|apply Nat.eqb_eq; exact He].
    + apply Nat.eqb_eq; exact H.
  - apply andb_true_iff in H. destruct H as [H Hc]. apply andb_true_iff in H. destruct H as [H Hj].
    apply andb_true_iff in H. destruct H as [Hl Hh].
    split; [apply is_label_at_nth; exact Hl|]. split; [apply header_check_layout; exact Hh|].
    split; [apply instr_at_nth; exact Hj|apply IH; exact Hc].
Qed.

Section WithNumberText.
Variable num_text : variant -> list Z.
Variable is_negative : variant -> bool.
Notation stepn := (GenProofs.stepn num_text is_negative).
Notation exec := (Sem.exec num_text is_negative).
Notation simulates := (Loops.simulates num_text is_negative).
Notation blockf := (Loops.blockf num_text is_negative).
Notation sim_abs := (Branch.sim_abs num_text is_negative).
Notation arms_sem := (Branch.arms_sem num_text is_negative).

Lemma simulates_simple code pc s : is_simple s = true -> typed_simple_b s = true -> code_at code pc (simple_code s) ->
  forall f, simulates code pc (length (simple_code s)) (exec f s).
Proof.
  intros Hs Ht Hc f st r t vs ps. destruct f as [|f]; [exact I|].
  assert (Ht' : typed_simple s).
  { destruct s; try exact I. cbn in *. destruct (etype e); [discriminate|discriminate]. }
  pose proof (simple_stmt_ok num_text is_negative f s code pc r t vs ps st Hs Ht' Hc) as H.
  destruct (exec (S f) s st) as [st'|x q st'|q st'|]; try contradiction.
  - destruct H as (a & b & H). eexists _, _. exact H.
  - exact H.
Qed.

Lemma simulates_nil code pc f : simulates code pc 0 (blockf f []).
Proof.
  intros st r t vs ps. cbn. exists 0, r. cbn. unfold boundary. do 2 f_equal. lia.
Qed.

Lemma simulates_cons code pc f x t n m :
  simulates code pc n (exec f x) -> simulates code (pc + n) m (blockf f t) ->
  simulates code pc (n + m) (blockf f (x :: t)).
Proof.
  intros Hx Ht st r tl vs ps.
  change (blockf f (x :: t) st) with (match exec f x st with Done st' => blockf f t st' | o => o end).
  specialize (Hx st r tl vs ps). destruct (exec f x st) as [st1|e q st1|q st1|].
  - destruct Hx as (k & r1 & Hk).
    specialize (Ht st1 r1 tl vs ps).
    destruct (blockf f t st1) as [st2|e q st2|q st2|].
    + destruct Ht as (k2 & r2 & H2). exists (k + k2), r2. rewrite stepn_add, Hk, H2. rewrite Nat.add_assoc. reflexivity.
    + destruct Ht as (k2 & s' & H2 & Hd). exists (k + k2), s'. split; [|exact Hd]. rewrite stepn_add, Hk. exact H2.
    + destruct Ht as (k2 & s' & H2 & Hd). exists (k + k2), s'. split; [|exact Hd]. rewrite stepn_add, Hk. exact H2.
    + exact I.
  - exact Hx.
  - exact Hx.
  - exact I.
Qed.

Lemma arms_check_layout p : forall arms code pc pend els, arms <> [] ->
  arms_check code p pc pend arms els = true -> arms_layout code p pc pend arms els.
Proof.
  induction arms as [|[[c b] lb] rest IH]; intros code pc pend els Hne H; [contradiction|].
  cbn [arms_check] in H. cbn [arms_layout].
  apply andb_true_iff in H. destruct H as [H Hrest]. apply andb_true_iff in H. destruct H as [H Hj].
  apply andb_true_iff in H. destruct H as [Hs Hjf].
  split; [apply slice_is_code_at; exact Hs|]. split; [apply instr_at_nth; exact Hjf|]. split; [apply instr_at_nth; exact Hj|].
  destruct rest as [|a2 rest'].
  - destruct els as [[be le]|].
    + apply andb_true_iff in Hrest. destruct Hrest as [Hl Hc]. split; [apply is_label_at_nth; exact Hl|].
      cbn [arms_check] in Hc. cbn [arms_layout]. apply Nat.eqb_eq in Hc. exact Hc.
    + apply Nat.eqb_eq in Hrest. exact Hrest.
  - apply andb_true_iff in Hrest. destruct Hrest as [Hl Hc]. split; [apply is_label_at_nth; exact Hl|].
    apply IH; [discriminate|exact Hc].
Qed.

Lemma pass1_sound (cb : list stmt -> nat -> option nat) code :
  (forall l pc n, cb l pc = Some n -> forall f, simulates code pc n (blockf f l)) ->
  forall l pc r last els',
  arms_pass1 cb l pc = Some (r, last) ->
  (match els' with Some (be, le) => forall f, simulates code (S last) le (blockf f be) | None => True end) ->
  strip r = l /\ pc < last /\ r <> [] /\ arms_blocks num_text is_negative code pc r els'.
Proof.
  intros Bk. induction l as [|[c b] t IH]; intros pc r last els' H He; [discriminate|].
  cbn [arms_pass1] in H. destruct (cb b (pc + length (gen_expr c) + 1)) as [lb|] eqn:Eb; [|discriminate].
  destruct t as [|a2 t'].
  - inversion H; subst r last. cbn [strip map fst snd]. split; [reflexivity|]. split; [lia|]. split; [discriminate|].
    cbn [arms_blocks]. split; [intros f; apply Bk; exact Eb|]. exact He.
  - destruct (arms_pass1 cb (a2 :: t') (S (pc + length (gen_expr c) + 1 + lb + 1))) as [[r' last']|] eqn:E2; [|discriminate].
    inversion H; subst r last. destruct (IH _ _ _ els' E2 He) as (Hs & Hlt & Hne & Hb).
    split; [cbn [strip map fst snd]; f_equal; exact Hs|]. split; [lia|]. split; [discriminate|].
    cbn [arms_blocks]. split; [intros f; apply Bk; exact Eb|exact Hb].
Qed.

Lemma sel_pass1_sound (cb : list stmt -> nat -> option nat) code p :
  (forall l pc n, cb l pc = Some n -> forall f, simulates code pc n (blockf f l)) ->
  forall l pc r last els',
  sel_pass1 cb p l pc = Some (r, last) ->
  (match els' with Some (be, le) => forall f, simulates code (S last) le (blockf f be) | None => True end) ->
  strip4 r = l /\ pc <= last /\ chain_blocks num_text is_negative code pc r els'.
Proof.
  intros Bk. induction l as [|[cs b] t IH]; intros pc r last els' H He.
  - cbn in H. inversion H; subst r last. split; [reflexivity|]. split; [lia|]. cbn [chain_blocks]. exact He.
  - cbn [sel_pass1] in H. destruct (header_bs p (S pc) cs) as [bs|] eqn:Eh; [|discriminate].
    destruct (cb b bs) as [lb|] eqn:Eb; [|discriminate].
    destruct (sel_pass1 cb p t (bs + lb + 1)) as [[r' last']|] eqn:E2; [|discriminate].
    inversion H; subst r last. destruct (IH _ _ _ els' E2 He) as (Hs & Hle & Hb).
    assert (Hbs : pc <= bs).
    { assert (G : forall cs0 pc0 first, pc0 <= multi_stmts p pc0 cs0 first).
      { induction cs0 as [|c0 t0 IH0]; intros pc0 first; cbn [multi_stmts]; [lia|].
        destruct t0 as [|c1 t1]; [destruct first; lia|]. specialize (IH0 ((if first then pc0 else S pc0) + length (case_code c0 0 p) + 1) false).
        destruct first; lia. }
      pose proof (G cs (S pc) true) as G1.
      unfold header_bs in Eh. destruct cs as [|c [|c2 t2]]; [discriminate| |].
      - injection Eh as Ebs. lia.
      - remember (multi_stmts p (S pc) (c :: c2 :: t2) true) as ms. injection Eh as Ebs. lia. }
    split; [cbn [strip4 map fst snd]; f_equal; exact Hs|]. split; [lia|].
    cbn [chain_blocks]. split; [intros f; apply Bk; exact Eb|exact Hb].
Qed.

Theorem check_stmt_sound : forall k code pc s len, check_stmt k code pc s = Some len ->
  forall f, simulates code pc len (exec f s).
Proof.
  induction k as [|k IH]; intros code pc s len H; [discriminate|].
  assert (B : forall l pc0 n, Validate.check_block k code l pc0 = Some n -> forall f, simulates code pc0 n (blockf f l)).
  { induction l as [|x t IHl]; intros pc0 n Hb f.
    - cbn in Hb. inversion Hb; subst. apply simulates_nil.
    - cbn [Validate.check_block] in Hb. fold (Validate.check_block k code) in Hb.
      destruct (check_stmt k code pc0 x) as [n1|] eqn:E1; [|discriminate].
      destruct (Validate.check_block k code t (pc0 + n1)) as [m|] eqn:E2; [|discriminate].
      inversion Hb; subst. apply simulates_cons; [apply IH; exact E1|apply IHl; exact E2]. }
  cbn [check_stmt] in H. fold (Validate.check_block k code) in H.
  destruct s as [p n e|p args|p c thn elifs els|p c body|p top until c body|p v lo hi step body|p e cases els|p items|p targets]; try discriminate.
  8:{ (* DATA *)
      destruct (slice_is code pc (data_code p items)) eqn:E; [|discriminate]. inversion H; subst len.
      apply (data_correct num_text is_negative). apply slice_is_code_at. exact E. }
  8:{ (* READ *)
      destruct (slice_is code pc (read_code p targets)) eqn:E; [|discriminate]. inversion H; subst len.
      apply (read_correct num_text is_negative). apply slice_is_code_at. exact E. }
  7:{ (* SELECT CASE *)
      destruct (sel_pass1 (Validate.check_block k code) p cases (pc + length (gen_expr e) + 1)) as [[cs4 last]|] eqn:E1; [|discriminate].
      destruct els as [be|].
      - destruct (Validate.check_block k code be (S last)) as [lbe|] eqn:Ee; [|discriminate].
        match type of H with (if ?cnd then _ else _) = _ => destruct cnd eqn:E; [|discriminate] end.
        inversion H; subst len. clear H.
        apply andb_true_iff in E. destruct E as [E Hpop]. apply andb_true_iff in E. destruct E as [E Hlab].
        apply andb_true_iff in E. destruct E as [E Hch]. apply andb_true_iff in E. destruct E as [Hsl Hpush].
        destruct (sel_pass1_sound (Validate.check_block k code) code p B _ _ _ _ (Some (be, lbe)) E1 (fun f => B be (S last) lbe Ee f))
          as (Hs & Hle & Hb).
        intros f. rewrite <- Hs. change (Some be) with (option_map fst (Some (be, lbe))).
        apply (select_correct num_text is_negative code pc p e (S last + lbe) cs4 (Some (be, lbe))); [lia| |exact Hb].
        unfold select_layout. split; [apply slice_is_code_at; exact Hsl|]. split; [apply instr_at_nth; exact Hpush|].
        split; [apply chain_check_layout; exact Hch|]. split; [apply is_label_at_nth; exact Hlab|apply instr_at_nth; exact Hpop].
      - match type of H with (if ?cnd then _ else _) = _ => destruct cnd eqn:E; [|discriminate] end.
        inversion H; subst len. clear H.
        apply andb_true_iff in E. destruct E as [E Hpop]. apply andb_true_iff in E. destruct E as [E Hlab].
        apply andb_true_iff in E. destruct E as [E Hch]. apply andb_true_iff in E. destruct E as [Hsl Hpush].
        destruct (sel_pass1_sound (Validate.check_block k code) code p B _ _ _ _ None E1 I) as (Hs & Hle & Hb).
        intros f. rewrite <- Hs. change (@None (list stmt)) with (option_map (@fst (list stmt) nat) None).
        apply (select_correct num_text is_negative code pc p e last cs4 None); [lia| |exact Hb].
        unfold select_layout. split; [apply slice_is_code_at; exact Hsl|]. split; [apply instr_at_nth; exact Hpush|].
        split; [apply chain_check_layout; exact Hch|]. split; [apply is_label_at_nth; exact Hlab|apply instr_at_nth; exact Hpop]. }
  6:{ (* FOR *)
      destruct (etype lo) as [tlo|] eqn:Etlo; [|discriminate]. destruct (etype hi) as [thi|] eqn:Ethi; [|discriminate].
      destruct step as [se|].
      - destruct (etype se) as [tse|] eqn:Etse; [|discriminate].
        match type of H with match ?cb with Some _ => _ | None => _ end = _ => destruct cb as [lb|] eqn:Eb; [|discriminate] end.
        match type of H with (if ?cnd then _ else _) = _ => destruct cnd eqn:E; [|discriminate] end.
        inversion H; subst len. clear H.
        repeat (apply andb_true_iff in E; destruct E as [E ?]).
        intros f. apply (for_step_correct num_text is_negative code pc p v lo hi se body lb); try congruence.
        + unfold for_step_layout. repeat split;
            first [apply slice_is_code_at; assumption | apply is_label_at_nth; assumption | apply instr_at_nth; assumption
                  | apply slice_is_code_at; unfold slice_is; apply andb_true_iff; split; assumption].
        + intros f0. apply B. exact Eb.
      - match type of H with match ?cb with Some _ => _ | None => _ end = _ => destruct cb as [lb|] eqn:Eb; [|discriminate] end.
        match type of H with (if ?cnd then _ else _) = _ => destruct cnd eqn:E; [|discriminate] end.
        inversion H; subst len. clear H.
        repeat (apply andb_true_iff in E; destruct E as [E ?]).
        intros f. apply (for_correct num_text is_negative code pc p v lo hi body lb); try congruence.
        + unfold for_layout. repeat split;
            first [apply slice_is_code_at; assumption | apply is_label_at_nth; assumption | apply instr_at_nth; assumption
                  | apply slice_is_code_at; unfold slice_is; apply andb_true_iff; split; assumption].
        + intros f0. apply B. exact Eb. }
  5:{ (* DO *)
      destruct top.
      - destruct (Validate.check_block k code body (S pc + length (gen_expr c ++ (if until then [(INot, p)] else [])) + 1)) as [lb|] eqn:Eb; [|discriminate].
        match type of H with (if ?cnd then _ else _) = _ => destruct cnd eqn:E; [|discriminate] end.
        assert (Hlen : len = 1 + length (test_code p until c) + 1 + lb + 1 + 1) by (unfold test_code; congruence). clear H. subst len.
        repeat (apply andb_true_iff in E; destruct E as [E ?]).
        intros f. apply (do_top_correct num_text is_negative code pc p until c body lb).
        + unfold do_top_layout, test_code. repeat split.
          * apply is_label_at_nth; assumption.
          * apply slice_is_code_at; assumption.
          * apply instr_at_nth; assumption.
          * apply instr_at_nth; assumption.
          * apply is_label_at_nth; assumption.
        + intros f0. apply B. exact Eb.
      - destruct (Validate.check_block k code body (S pc)) as [lb|] eqn:Eb; [|discriminate].
        match type of H with (if ?cnd then _ else _) = _ => destruct cnd eqn:E; [|discriminate] end.
        assert (Hlen : len = 1 + lb + length (test_code p until c) + 1 + 1 + 1) by (unfold test_code; congruence). clear H. subst len.
        repeat (apply andb_true_iff in E; destruct E as [E ?]).
        intros f. apply (do_bottom_correct num_text is_negative code pc p until c body lb).
        + unfold do_bottom_layout, test_code. repeat split.
          * apply is_label_at_nth; assumption.
          * apply slice_is_code_at; assumption.
          * apply instr_at_nth; assumption.
          * apply instr_at_nth; assumption.
          * apply is_label_at_nth; assumption.
        + intros f0. apply B. exact Eb. }
  3:{ (* IF *)
      destruct (arms_pass1 (Validate.check_block k code) ((c, thn) :: elifs) pc) as [[arms last]|] eqn:E1; [|discriminate].
      destruct els as [be|].
      - destruct (Validate.check_block k code be (S last)) as [le|] eqn:Ee; [|discriminate].
        match type of H with (if ?cnd then _ else _) = _ => destruct cnd eqn:E; [|discriminate] end.
        assert (Hlen : len = S (S last + le) - pc) by congruence. clear H. subst len.
        apply andb_true_iff in E. destruct E as [Ea El].
        destruct (pass1_sound (Validate.check_block k code) code B _ _ _ _ (Some (be, le)) E1 (fun f => B be (S last) le Ee f))
          as (Hs & Hlt & Hne & Hb).
        destruct (is_label_at_nth _ _ _ El) as [lend Hend].
        intros f. destruct f as [|f]; [intros st r t vs ps; exact I|].
        remember (S (S last + le) - pc) as d eqn:Ed. assert (Hpd : pc + d = S (S last + le)) by lia.
        apply simulates_of_sim_abs. rewrite Hpd.
        intros st r t vs ps. rewrite exec_if. rewrite <- Hs.
        apply (arms_correct num_text is_negative code p (S last + le) lend Hend arms pc (Some (be, le)) f Hne
                 (arms_check_layout p arms code pc (S last + le) (Some (be, le)) Hne Ea) Hb st r t vs ps).
      - match type of H with (if ?cnd then _ else _) = _ => destruct cnd eqn:E; [|discriminate] end.
        assert (Hlen : len = S last - pc) by congruence. clear H. subst len.
        apply andb_true_iff in E. destruct E as [Ea El].
        destruct (pass1_sound (Validate.check_block k code) code B _ _ _ _ None E1 I) as (Hs & Hlt & Hne & Hb).
        destruct (is_label_at_nth _ _ _ El) as [lend Hend].
        intros f. destruct f as [|f]; [intros st r t vs ps; exact I|].
        remember (S last - pc) as d eqn:Ed. assert (Hpd : pc + d = S last) by lia.
        apply simulates_of_sim_abs. rewrite Hpd.
        intros st r t vs ps. rewrite exec_if. rewrite <- Hs.
        apply (arms_correct num_text is_negative code p last lend Hend arms pc None f Hne
                 (arms_check_layout p arms code pc last None Hne Ea) Hb st r t vs ps). }
  - destruct (typed_simple_b (SAssign p n e) && slice_is code pc (simple_code (SAssign p n e))) eqn:E; [|discriminate].
    inversion H; subst. apply andb_true_iff in E. destruct E as [E1 E2].
    apply simulates_simple; [reflexivity|exact E1|apply slice_is_code_at; exact E2].
  - destruct (typed_simple_b (SPrint p args) && slice_is code pc (simple_code (SPrint p args))) eqn:E; [|discriminate].
    inversion H; subst. apply andb_true_iff in E. destruct E as [E1 E2].
    apply simulates_simple; [reflexivity|exact E1|apply slice_is_code_at; exact E2].
  - (* WHILE *)
    destruct (Validate.check_block k code body (S pc + length (gen_expr c) + 1)) as [lb|] eqn:Eb; [|discriminate].
    match type of H with (if ?cnd then _ else _) = _ => destruct cnd eqn:E; [|discriminate] end.
    inversion H; subst len. clear H.
    repeat (apply andb_true_iff in E; destruct E as [E ?]).
    destruct (is_label_at_nth _ _ _ E) as [l1 Hl1].
    match goal with H : is_label_at code (S pc + _ + 1 + lb + 1) p = true |- _ => destruct (is_label_at_nth _ _ _ H) as [l2 Hl2] end.
    intros f. apply (while_correct num_text is_negative code pc p c body lb l1 l2).
    + unfold while_layout. repeat split.
      * exact Hl1.
      * apply slice_is_code_at; assumption.
      * apply instr_at_nth; assumption.
      * apply instr_at_nth; assumption.
      * exact Hl2.
    + intros f0. apply B. exact Eb.
Qed.


Lemma check_block_sound k code : forall l pc n, Validate.check_block k code l pc = Some n ->
  forall f, simulates code pc n (blockf f l).
Proof.
  induction l as [|x t IHl]; intros pc0 n Hb f.
  - cbn in Hb. inversion Hb; subst. apply simulates_nil.
  - cbn [Validate.check_block] in Hb. fold (Validate.check_block k code) in Hb.
    destruct (check_stmt k code pc0 x) as [n1|] eqn:E1; [|discriminate].
    destruct (Validate.check_block k code t (pc0 + n1)) as [m|] eqn:E2; [|discriminate].
    inversion Hb; subst. apply simulates_cons; [apply (check_stmt_sound k); exact E1|apply IHl; exact E2].
Qed.

Lemma exec_program_blockf f : forall p st, Sem.exec_program num_text is_negative f p st = blockf f p st.
Proof.
  induction p as [|s t IH]; intros st; [reflexivity|].
  cbn [Sem.exec_program]. change (blockf f (s :: t) st) with (match exec f s st with Done st' => blockf f t st' | o => o end).
  destruct (exec f s st); try reflexivity. apply IH.
Qed.

(** the declarations in front of the program *)
Lemma run_dims code : forall dims pc0 r t vs ps e sc,
  code_at code pc0 (dims_code dims) ->
  exists r', stepn (length (dims_code dims)) code (mk_m pc0 (r :: t) vs ps e sc false)
             = MRunning (mk_m (pc0 + length (dims_code dims)) (r' :: t) vs ps (declare dims e) sc false).
Proof.
  induction dims as [|d dims IH]; intros pc0 r t vs ps e sc Hc.
  - exists r. cbn. do 2 f_equal. lia.
  - change (dims_code (d :: dims)) with ([(IAlloc (snd (fst d)), snd d); (IVarPathName (fst d), snd d); (ICopyAToVarPath, snd d)] ++ dims_code dims) in *.
    pose proof (code_at_app_l _ _ _ _ Hc) as H3. pose proof (code_at_app_r _ _ _ _ Hc) as Hr. cbn [length] in Hr.
    assert (N0 : nth_error code pc0 = Some (IAlloc (snd (fst d)), snd d)) by (replace pc0 with (pc0 + 0) by lia; apply (code_at_nth _ _ _ 0 _ H3); reflexivity).
    assert (N1 : nth_error code (S pc0) = Some (IVarPathName (fst d), snd d)) by (replace (S pc0) with (pc0 + 1) by lia; apply (code_at_nth _ _ _ 1 _ H3); reflexivity).
    assert (N2 : nth_error code (S (S pc0)) = Some (ICopyAToVarPath, snd d)) by (replace (S (S pc0)) with (pc0 + 2) by lia; apply (code_at_nth _ _ _ 2 _ H3); reflexivity).
    destruct (IH (pc0 + 3) (mk_regs (default_of (snd (fst d))) (rb r) (rc r) (rd r)) t vs ps
                 (assign (touch e (fst d)) (fst d) (default_of (snd (fst d)))) sc Hr) as [r' Hn].
    exists r'. rewrite app_length. cbn [length]. change (3 + length (dims_code dims)) with (S (S (S (length (dims_code dims))))).
    erewrite (ForLoops.stepn_step num_text is_negative) by (unfold Machine.step; cbn [Machine.pc]; rewrite N0; reflexivity).
    unfold next, set_a, set_regs, cur. cbn [rstack ra rb rc rd Machine.pc vstack pstack mvars mscreen mskip].
    erewrite (ForLoops.stepn_step num_text is_negative) by (unfold Machine.step; cbn [Machine.pc]; rewrite N1; reflexivity).
    unfold next. cbn [rstack Machine.pc vstack pstack mvars mscreen mskip].
    erewrite (ForLoops.stepn_step num_text is_negative) by (unfold Machine.step; cbn [Machine.pc]; rewrite N2; reflexivity).
    unfold next, cur. cbn [rstack ra Machine.pc vstack pstack mvars mscreen mskip].
    replace (S (S (S pc0))) with (pc0 + 3) by lia. rewrite Hn. f_equal. change (declare (d :: dims) e) with (declare dims (assign (touch e (fst d)) (fst d) (default_of (snd (fst d))))).
    f_equal. lia.
Qed.

(** ** Translation validation of whole programs: an instruction list accepted by [check_program]
    behaves as the reference semantics of the program prescribe - for every fuel, i.e. for runs of
    any length: same end (normal, or the same error at the same position), same screen and DATA
    queue, and on a normal end the same variables. *)
Theorem check_program_sound k dims p code : check_program k dims p code = true ->
  forall fuel,
  match Sem.exec_main num_text is_negative fuel dims p with
  | Done st' => exists n s', (forall m, n <= m -> Machine.run num_text is_negative m code m0 = MHalted s') /\
                             mvars s' = vars st' /\ of_mio (mscreen s') = screen st'
  | Failed x q st' => exists n s', (forall m, n <= m -> Machine.run num_text is_negative m code m0 = MError x q s') /\ of_mio (mscreen s') = screen st'
  | StepZero q st' => exists n s', (forall m, n <= m -> Machine.run num_text is_negative m code m0 = MStepZero q s') /\ of_mio (mscreen s') = screen st'
  | OutOfFuel => True
  end.
Proof.
  unfold check_program. intros H fuel.
  destruct (Validate.check_block k code (filter is_data p) 0) as [ld|] eqn:Ed; [|discriminate].
  apply andb_true_iff in H. destruct H as [Hd Hb].
  set (n0 := length (dims_code dims)) in *.
  destruct (Validate.check_block k code (filter (fun s => negb (is_data s)) p) (ld + n0)) as [len|] eqn:Eb; [|discriminate].
  apply instr_at_nth in Hb. apply slice_is_code_at in Hd.
  unfold Sem.exec_main. rewrite !exec_program_blockf.
  pose proof (check_block_sound k code _ 0 ld Ed fuel (mk_state [] io0) regs0 [] [] []) as SD.
  change (boundary 0 regs0 [] [] [] (mk_state [] io0)) with m0 in SD.
  destruct (blockf fuel (filter is_data p) (mk_state [] io0)) as [sd|x q sd|q sd|].
  2:{ destruct SD as (n & s' & Hs & Hsc). exists n, s'. split; [|exact Hsc].
      intros m Hm. apply (run_stepn_stop num_text is_negative n); [exact Hs|exact I|exact Hm]. }
  2:{ destruct SD as (n & s' & Hs & Hsc). exists n, s'. split; [|exact Hsc].
      intros m Hm. apply (run_stepn_stop num_text is_negative n); [exact Hs|exact I|exact Hm]. }
  2:{ exact I. }
  destruct SD as (nd & rd0 & SD). cbn [Nat.add] in SD. rewrite exec_program_blockf.
  destruct (run_dims code dims ld rd0 [] [] [] (vars sd) (to_mio (screen sd)) Hd) as [r1 Hn]. fold n0 in Hn.
  change (mk_m ld [rd0] [] [] (vars sd) (to_mio (screen sd)) false) with (boundary ld rd0 [] [] [] sd) in Hn.
  change (mk_m (ld + n0) [r1] [] [] (declare dims (vars sd)) (to_mio (screen sd)) false)
    with (boundary (ld + n0) r1 [] [] [] (mk_state (declare dims (vars sd)) (screen sd))) in Hn.
  pose proof (check_block_sound k code _ (ld + n0) len Eb fuel (mk_state (declare dims (vars sd)) (screen sd)) r1 [] [] []) as S.
  destruct (blockf fuel (filter (fun s => negb (is_data s)) p) (mk_state (declare dims (vars sd)) (screen sd))) as [st'|x q st'|q st'|].
  - destruct S as (n & r2 & Hs). exists (nd + n0 + n + 1), (boundary (ld + n0 + len) r2 [] [] [] st'). split; [|split; [reflexivity|apply of_to_mio]].
    intros m Hm. apply (run_stepn_stop num_text is_negative (nd + n0 + n + 1)); [|exact I|exact Hm].
    rewrite (stepn_add _ _ (nd + n0 + n) 1), (stepn_add _ _ (nd + n0) n), (stepn_add _ _ nd n0), SD, Hn, Hs.
    rewrite stepn_one. unfold Machine.step, boundary. cbn [Machine.pc]. rewrite Hb. reflexivity.
  - destruct S as (n & s' & Hs & Hsc). exists (nd + n0 + n), s'. split; [|exact Hsc].
    intros m Hm. apply (run_stepn_stop num_text is_negative (nd + n0 + n)); [|exact I|exact Hm].
    rewrite (stepn_add _ _ (nd + n0) n), (stepn_add _ _ nd n0), SD, Hn. exact Hs.
  - destruct S as (n & s' & Hs & Hsc). exists (nd + n0 + n), s'. split; [|exact Hsc].
    intros m Hm. apply (run_stepn_stop num_text is_negative (nd + n0 + n)); [|exact I|exact Hm].
    rewrite (stepn_add _ _ (nd + n0) n), (stepn_add _ _ nd n0), SD, Hn. exact Hs.
  - exact I.
Qed.

End WithNumberText.
