(** The instructions of the VM that the core fragment uses (rusty_basic/src/instruction_generator/main.rs
    [Instruction]); everything else is [IOther]. Labels are the generator's symbolic labels
    ["_prefix_Position"]: a prefix kind, an index (for else-if-i, case-i ...) and the position. *)
From Coq Require Import List ZArith Bool.
From RB Require Import Generated.Tables Val.Variant Lang.Ast.
Import ListNotations.
Local Open Scope nat_scope.

Inductive lkind :=
| KElseIf | KElse | KEndIf | KWhile | KWend | KDo | KLoop
| KForLoop | KPositiveStep | KForBody | KZero | KOutOfFor
| KCase | KCaseMultiExpr | KCaseStatements | KCaseElse | KEndSelect.

Definition label := (lkind * nat * nat * pos)%type.   (* kind, index1, index2, position *)

Inductive target := TLabel (l : label) | TAddr (a : nat).

Inductive instr :=
| ILoad (v : variant)
| IVarPathName (n : name)
| ICopyVarPathToA | IPopVarPath | ICopyAToVarPath
| IPushA | IPopA
| ICopyAToB | ICopyAToC | ICopyAToD | ICopyCToB | ICopyDToA | ICopyDToB
| IBin (op : bop) | INot | INegate
| ICast (q : qual)
| ILabel (l : label)
| IJump (t : target) | IJumpIfFalse (t : target)
| IPushRegisters | IPopRegisters
| IThrowZeroStep
| IHalt
| IPrintSetPrinterType | IPrintSetFormat | IPrintComma | IPrintSemi | IPrintValue | IPrintEnd
| IOther.

Definition ipos := (instr * pos)%type.

Definition lkind_index (k : lkind) : nat :=
  match k with
  | KElseIf => 0 | KElse => 1 | KEndIf => 2 | KWhile => 3 | KWend => 4 | KDo => 5 | KLoop => 6
  | KForLoop => 7 | KPositiveStep => 8 | KForBody => 9 | KZero => 10 | KOutOfFor => 11
  | KCase => 12 | KCaseMultiExpr => 13 | KCaseStatements => 14 | KCaseElse => 15 | KEndSelect => 16
  end.

Definition label_eqb (a b : label) : bool :=
  let '(ka, ia, ja, (ra, ca)) := a in
  let '(kb, ib, jb, (rb, cb)) := b in
  Nat.eqb (lkind_index ka) (lkind_index kb) && Nat.eqb ia ib && Nat.eqb ja jb && Nat.eqb ra rb && Nat.eqb ca cb.
