(** The instructions of the VM that the core fragment uses (rusty_basic/src/instruction_generator/main.rs
    [Instruction]); everything else is [IOther]. Labels are the generator's symbolic labels
    ["_prefix_Position"]: a prefix kind, an index (for else-if-i, case-i ...) and the position. *)
From Coq Require Import List ZArith Bool.
From RB Require Import Generated.Tables Val.Variant Lang.Ast.
Import ListNotations.
Local Open Scope nat_scope.

Inductive lkind :=
| KElseIf | KElse | KEndIf | KWhile | KWend | KDo | KLoop
| KForLoop | KPositiveStep | KForBody | KZero | KOutOfFor
| KCase | KCaseMultiExpr | KCaseStatements | KCaseElse | KEndSelect.

Definition label := (lkind * nat * nat * pos)%type.   (* kind, index1, index2, position *)

Inductive target := TLabel (l : label) | TAddr (a : nat).

Inductive instr :=
| ILoad (v : variant)
| IVarPathName (n : name)
| ICopyVarPathToA | IPopVarPath | ICopyAToVarPath
| IPushA | IPopA
| ICopyAToB | ICopyAToC | ICopyAToD | ICopyCToB | ICopyDToA | ICopyDToB
| IBin (op : bop) | INot | INegate
| ICast (q : qual)
| IAlloc (q : qual)            (* AllocateBuiltIn *)
| ILabel (l : label)
| IJump (t : target) | IJumpIfFalse (t : target)
| IPushRegisters | IPopRegisters
| IThrowZeroStep
| IHalt
| IPrintSetPrinterType | IPrintSetFormat | IPrintComma | IPrintSemi | IPrintValue | IPrintEnd
(* calls of the built-in subs DATA and READ *)
| IBeginCollect | IPushUnnamedByVal | IPushUnnamedByRef | IPushStack | IPopStack
| IBuiltinData | IBuiltinRead | IEnqueue (i : nat) | IDequeue
| IOther.

Definition ipos := (instr * pos)%type.

Definition lkind_index (k : lkind) : nat :=
  match k with
  | KElseIf => 0 | KElse => 1 | KEndIf => 2 | KWhile => 3 | KWend => 4 | KDo => 5 | KLoop => 6
  | KForLoop => 7 | KPositiveStep => 8 | KForBody => 9 | KZero => 10 | KOutOfFor => 11
  | KCase => 12 | KCaseMultiExpr => 13 | KCaseStatements => 14 | KCaseElse => 15 | KEndSelect => 16
  end.

Definition label_eqb (a b : label) : bool :=
  let '(ka, ia, ja, (ra, ca)) := a in
  let '(kb, ib, jb, (rb, cb)) := b in
  Nat.eqb (lkind_index ka) (lkind_index kb) && Nat.eqb ia ib && Nat.eqb ja jb && Nat.eqb ra rb && Nat.eqb ca cb.

(** ** boolean equality of instruction lists (for the literal comparison with the real generator) *)
Fixpoint bytes_eqb' (a b : list Z) : bool :=
  match a, b with
  | [], [] => true
  | x :: a', y :: b' => Z.eqb x y && bytes_eqb' a' b'
  | _, _ => false
  end.
Definition name_eqb_exact (a b : name) : bool := bytes_eqb' (fst a) (fst b) && qual_eqb (snd a) (snd b).

Definition target_eqb (a b : target) : bool :=
  match a, b with
  | TAddr x, TAddr y => Nat.eqb x y
  | TLabel x, TLabel y => label_eqb x y
  | _, _ => false
  end.

Definition instr_eqb (a b : instr) : bool :=
  match a, b with
  | ILoad x, ILoad y => variant_eqb x y
  | IVarPathName x, IVarPathName y => name_eqb_exact x y
  | ICopyVarPathToA, ICopyVarPathToA | IPopVarPath, IPopVarPath | ICopyAToVarPath, ICopyAToVarPath
  | IPushA, IPushA | IPopA, IPopA | ICopyAToB, ICopyAToB | ICopyAToC, ICopyAToC | ICopyAToD, ICopyAToD
  | ICopyCToB, ICopyCToB | ICopyDToA, ICopyDToA | ICopyDToB, ICopyDToB | INot, INot | INegate, INegate
  | IPushRegisters, IPushRegisters | IPopRegisters, IPopRegisters | IThrowZeroStep, IThrowZeroStep
  | IHalt, IHalt | IPrintSetPrinterType, IPrintSetPrinterType | IPrintSetFormat, IPrintSetFormat
  | IPrintComma, IPrintComma | IPrintSemi, IPrintSemi | IPrintValue, IPrintValue | IPrintEnd, IPrintEnd
  | IBeginCollect, IBeginCollect | IPushUnnamedByVal, IPushUnnamedByVal | IPushUnnamedByRef, IPushUnnamedByRef
  | IPushStack, IPushStack | IPopStack, IPopStack | IBuiltinData, IBuiltinData | IBuiltinRead, IBuiltinRead
  | IDequeue, IDequeue => true
  | IEnqueue x, IEnqueue y => Nat.eqb x y
  | IBin x, IBin y => bop_eqb x y
  | ICast x, ICast y | IAlloc x, IAlloc y => qual_eqb x y
  | ILabel x, ILabel y => label_eqb x y
  | IJump x, IJump y | IJumpIfFalse x, IJumpIfFalse y => target_eqb x y
  | _, _ => false
  end.

Definition ipos_eqb (a b : ipos) : bool :=
  instr_eqb (fst a) (fst b) && Nat.eqb (fst (snd a)) (fst (snd b)) && Nat.eqb (snd (snd a)) (snd (snd b)).

Fixpoint code_eqb (a b : list ipos) : bool :=
  match a, b with
  | [], [] => true
  | x :: a', y :: b' => ipos_eqb x y && code_eqb a' b'
  | _, _ => false
  end.

(** index of the first difference (for the replay) *)
Fixpoint code_diff (a b : list ipos) (i : nat) : option nat :=
  match a, b with
  | [], [] => None
  | x :: a', y :: b' => if ipos_eqb x y then code_diff a' b' (S i) else Some i
  | _, _ => Some i
  end.

Fixpoint nats_eqb (a b : list nat) : bool :=
  match a, b with
  | [], [] => true
  | x :: a', y :: b' => Nat.eqb x y && nats_eqb a' b'
  | _, _ => false
  end.
