(** Proofs about the generator model [Gen] and the machine model [Machine] against the reference
    semantics [Sem]: code generated for an expression computes the expression's value (or stops with
    its error at its position), for assignments and PRINT statements the machine reaches the state
    the semantics prescribe, and both interpreters are insensitive to extra fuel. *)
From Coq Require Import List ZArith Bool Lia Floats.SpecFloat.
From RB Require Import Generated.Tables Val.Variant Val.Arith2 Lang.Ast Lang.Sem VM.Instr VM.Gen VM.Machine RT.Printer.
Import ListNotations.
Local Open Scope nat_scope.

Section WithNumberText.
Variable num_text : variant -> list Z.
Variable is_negative : variant -> bool.
Notation step := (Machine.step num_text is_negative).
Notation run := (Machine.run num_text is_negative).
Notation exec := (Sem.exec num_text is_negative).
Notation exec_program := (Sem.exec_program num_text is_negative).

(** exactly [n] steps *)
Fixpoint stepn (n : nat) (code : list ipos) (s : mstate) : mresult :=
  match n with
  | O => MRunning s
  | S k => match step code s with MRunning s' => stepn k code s' | r => r end
  end.

Lemma stepn_add n m code : forall s,
  stepn (n + m) code s = match stepn n code s with MRunning s' => stepn m code s' | r => r end.
Proof.
  induction n as [|n IH]; intros s; cbn [stepn Nat.add]; [reflexivity|].
  destruct (step code s); auto.
Qed.

Lemma run_stepn n code : forall s s' m, stepn n code s = MRunning s' -> run (n + m) code s = run m code s'.
Proof.
  induction n as [|n IH]; intros s s' m H; cbn [stepn Nat.add Machine.run] in *.
  - inversion H; reflexivity.
  - destruct (step code s); try discriminate. apply IH; assumption.
Qed.

Definition stopped (r : mresult) : Prop := match r with MRunning _ => False | _ => True end.

Lemma run_stepn_stop n code : forall s r m, stepn n code s = r -> stopped r -> n <= m -> run m code s = r.
Proof.
  induction n as [|n IH]; intros s r m H Hs Hm; cbn [stepn] in H.
  - subst r. destruct Hs.
  - destruct m as [|m]; [lia|]. cbn [Machine.run].
    destruct (step code s) eqn:E; try exact H.
    apply IH; [assumption|assumption|lia].
Qed.

(** ** code placement *)
Definition code_at (code : list ipos) (pc : nat) (frag : list ipos) : Prop :=
  exists pre post, code = pre ++ frag ++ post /\ length pre = pc.

Lemma code_at_app_l c pc a b : code_at c pc (a ++ b) -> code_at c pc a.
Proof. intros (pre & post & E & L). exists pre, (b ++ post). rewrite <- app_assoc in E. auto. Qed.

Lemma code_at_app_r c pc a b : code_at c pc (a ++ b) -> code_at c (pc + length a) b.
Proof.
  intros (pre & post & E & L). exists (pre ++ a), post. split.
  - rewrite E. rewrite <- !app_assoc. reflexivity.
  - rewrite app_length. lia.
Qed.

Lemma code_at_cons c pc i b : code_at c pc (i :: b) -> nth_error c pc = Some i /\ code_at c (S pc) b.
Proof.
  intros H. split.
  - destruct H as (pre & post & E & L). subst c pc. rewrite nth_error_app2 by lia.
    rewrite Nat.sub_diag. reflexivity.
  - change (i :: b) with ([i] ++ b) in H. apply code_at_app_r in H. cbn [length] in H.
    replace (S pc) with (pc + 1) by lia. exact H.
Qed.

(** the state after an expression: A holds the value, B is clobbered, everything else is as before *)
Definition after (pc0 n : nat) (v b : variant) (r : regs) (t : list regs) vs ps (st : env) sc sk : mstate :=
  mk_m (pc0 + n) (mk_regs v b (rc r) (rd r) :: t) vs ps st sc sk.

Ltac one_step H :=
  let Hn := fresh "Hn" in let Hr := fresh "Hr" in
  apply code_at_cons in H; destruct H as [Hn Hr];
  cbn [stepn length]; unfold Machine.step at 1; cbn [pc]; rewrite Hn;
  unfold next, set_a, set_regs, cur, goto;
  cbn [rstack ra rb rc rd pc vstack pstack mvars mscreen mskip].

Theorem gen_expr_value : forall e code pc0 r t vs ps mv sc sk v st',
  code_at code pc0 (gen_expr e) ->
  eval e mv = EVal v st' ->
  exists b, stepn (length (gen_expr e)) code (mk_m pc0 (r :: t) vs ps mv sc sk)
            = MRunning (after pc0 (length (gen_expr e)) v b r t vs ps st' sc sk).
Proof.
  induction e as [p v0|p n|p op l IHl rr IHr|p op c IHc|p c IHc];
    intros code pc0 r t vs ps mv sc sk v st' Hc Hev; cbn [gen_expr eval] in *.
  - (* literal *)
    inversion Hev; subst. exists (rb r). one_step Hc. unfold after. cbn [length].
    do 2 f_equal. lia.
  - (* variable *)
    inversion Hev; subst. exists (rb r).
    one_step Hc. one_step Hr. one_step Hr0.
    unfold after. cbn [length]. do 2 f_equal. lia.
  - (* binary *)
    destruct (eval l mv) as [a st1|] eqn:El; try discriminate.
    destruct (eval rr st1) as [bv st2|] eqn:Er; try discriminate.
    destruct (binop op a bv) as [w|] eqn:Eb; try discriminate.
    inversion Hev; subst w st2. clear Hev.
    pose proof (code_at_app_l _ _ _ _ Hc) as Hl.
    pose proof (code_at_app_r _ _ _ _ Hc) as H1.
    destruct (IHl code pc0 r t vs ps mv sc sk a st1 Hl El) as [b1 Sl].
    rewrite !app_length. rewrite stepn_add, Sl. unfold after.
    cbn [app] in H1.
    rewrite stepn_add with (n := 1).
    one_step H1.
    pose proof (code_at_app_l _ _ _ _ Hr) as Hrr.
    pose proof (code_at_app_r _ _ _ _ Hr) as H2.
    destruct (IHr code (S (pc0 + length (gen_expr l))) (mk_regs a b1 (rc r) (rd r)) t (a :: vs) ps st1 sc sk bv st' Hrr Er) as [b2 Sr].
    rewrite stepn_add, Sr. unfold after. cbn [rc rd].
    one_step H2. one_step Hr0. one_step Hr1. rewrite Eb.
    exists bv. cbn [length]. do 2 f_equal. lia.
  - (* unary *)
    destruct (eval c mv) as [a st1|] eqn:Ec; try discriminate.
    destruct op.
    + destruct (negate a) as [w|] eqn:En; try discriminate. inversion Hev; subst w st1. clear Hev.
      pose proof (code_at_app_l _ _ _ _ Hc) as Hl.
      pose proof (code_at_app_r _ _ _ _ Hc) as H1.
      destruct (IHc code pc0 r t vs ps mv sc sk a st' Hl Ec) as [b1 Sl].
      rewrite app_length, stepn_add, Sl. unfold after.
      one_step H1. rewrite En. exists b1. cbn [length]. do 2 f_equal. lia.
    + destruct (unary_not a) as [w|] eqn:En; try discriminate. inversion Hev; subst w st1. clear Hev.
      pose proof (code_at_app_l _ _ _ _ Hc) as Hl.
      pose proof (code_at_app_r _ _ _ _ Hc) as H1.
      destruct (IHc code pc0 r t vs ps mv sc sk a st' Hl Ec) as [b1 Sl].
      rewrite app_length, stepn_add, Sl. unfold after.
      one_step H1. rewrite En. exists b1. cbn [length]. do 2 f_equal. lia.
  - (* parenthesis *)
    apply IHc; assumption.
Qed.

(** an expression that fails stops the machine with the same error at the same position, before
    anything was printed *)
Theorem gen_expr_error : forall e code pc0 r t vs ps mv sc sk x p,
  code_at code pc0 (gen_expr e) ->
  eval e mv = EErr x p ->
  exists k s', k <= length (gen_expr e) /\
     stepn k code (mk_m pc0 (r :: t) vs ps mv sc sk) = MError x p s' /\ mscreen s' = sc /\ mskip s' = sk.
Proof.
  induction e as [p0 v0|p0 n|p0 op l IHl rr IHr|p0 op c IHc|p0 c IHc];
    intros code pc0 r t vs ps mv sc sk x p Hc Hev; cbn [gen_expr eval] in *; try discriminate.
  - (* binary *)
    pose proof (code_at_app_l _ _ _ _ Hc) as Hl.
    pose proof (code_at_app_r _ _ _ _ Hc) as H1.
    destruct (eval l mv) as [a st1|x1 p1] eqn:El.
    2:{ inversion Hev; subst x1 p1.
        destruct (IHl code pc0 r t vs ps mv sc sk x p Hl El) as (k & s' & Hk & Hs & H3 & H4).
        exists k, s'. rewrite !app_length. repeat split; auto; lia. }
    destruct (gen_expr_value l code pc0 r t vs ps mv sc sk a st1 Hl El) as [b1 Sl].
    cbn [app] in H1.
    pose proof H1 as H1'. apply code_at_cons in H1'. destruct H1' as [Hn1 Hr1].
    pose proof (code_at_app_l _ _ _ _ Hr1) as Hrr.
    pose proof (code_at_app_r _ _ _ _ Hr1) as H2.
    assert (Spush : stepn (length (gen_expr l) + 1) code (mk_m pc0 (r :: t) vs ps mv sc sk)
                    = MRunning (mk_m (S (pc0 + length (gen_expr l))) (mk_regs a b1 (rc r) (rd r) :: t) (a :: vs) ps st1 sc sk)).
    { rewrite stepn_add, Sl. unfold after. cbn [stepn]. unfold Machine.step at 1. cbn [pc]. rewrite Hn1. reflexivity. }
    destruct (eval rr st1) as [bv st2|x2 p2] eqn:Er.
    2:{ inversion Hev; subst x2 p2.
        destruct (IHr code (S (pc0 + length (gen_expr l))) (mk_regs a b1 (rc r) (rd r)) t (a :: vs) ps st1 sc sk x p Hrr Er)
          as (k & s' & Hk & Hs & H3 & H4).
        exists (length (gen_expr l) + 1 + k), s'. rewrite !app_length. cbn [length].
        repeat split; auto; [lia|]. rewrite stepn_add, Spush. exact Hs. }
    destruct (binop op a bv) as [w|xe] eqn:Eb; try discriminate. inversion Hev; subst xe p. clear Hev.
    destruct (gen_expr_value rr code (S (pc0 + length (gen_expr l))) (mk_regs a b1 (rc r) (rd r)) t (a :: vs) ps st1 sc sk bv st2 Hrr Er) as [b2 Sr].
    eexists (length (gen_expr l) + 1 + (length (gen_expr rr) + 3)), _. rewrite !app_length. cbn [length].
    split; [lia|].
    rewrite stepn_add, Spush, stepn_add, Sr. unfold after. cbn [rc rd].
    one_step H2. one_step Hr. one_step Hr0. rewrite Eb. repeat split.
  - (* unary *)
    destruct op; cbn [gen_expr] in *;
    pose proof (code_at_app_l _ _ _ _ Hc) as Hl'; pose proof (code_at_app_r _ _ _ _ Hc) as H1';
    (destruct (eval c mv) as [a st1|x1 p1] eqn:Ec;
     [| inversion Hev; subst x1 p1;
        destruct (IHc code pc0 r t vs ps mv sc sk x p Hl' Ec) as (k & s' & Hk & Hs & H3 & H4);
        exists k, s'; rewrite !app_length; repeat split; auto; lia ]).
    + destruct (gen_expr_value c code pc0 r t vs ps mv sc sk a st1 Hl' Ec) as [b1 Sl].
      destruct (negate a) as [w|xe] eqn:En; try discriminate. inversion Hev; subst xe p.
      eexists (length (gen_expr c) + 1), _. rewrite app_length. cbn [length]. split; [lia|].
      rewrite stepn_add, Sl. unfold after. one_step H1'. rewrite En. repeat split.
    + destruct (gen_expr_value c code pc0 r t vs ps mv sc sk a st1 Hl' Ec) as [b1 Sl].
      destruct (unary_not a) as [w|xe] eqn:En; try discriminate. inversion Hev; subst xe p.
      eexists (length (gen_expr c) + 1), _. rewrite app_length. cbn [length]. split; [lia|].
      rewrite stepn_add, Sl. unfold after. one_step H1'. rewrite En. repeat split.
  - (* parenthesis *)
    apply IHc; assumption.
Qed.


(** ** Straight-line statements: assignment and PRINT *)
Definition simple_code (s : stmt) : list ipos :=
  match s with
  | SAssign p n e => gen_expr_casting e (snd n) ++ gen_store n p
  | SPrint p args =>
      [(IPrintSetPrinterType, p); (ILoad (VInteger 0%Z), p); (IPrintSetFormat, p)] ++
      flat_map (fun a => gen_print_arg a p) args ++ [(IPrintEnd, p)]
  | _ => []
  end.

Definition is_simple (s : stmt) : bool := match s with SAssign _ _ _ | SPrint _ _ => true | _ => false end.

Lemma gen_stmt_simple f s g : is_simple s = true ->
  code (gen_stmt (S f) s g) = code g ++ simple_code s /\ marks (gen_stmt (S f) s g) = marks g ++ [length (code g)].
Proof. destruct s; intros H; try discriminate; cbn; auto. Qed.

(** the machine at a statement boundary *)
Definition boundary (pc0 : nat) (r : regs) (t : list regs) vs ps (st : state) : mstate :=
  mk_m pc0 (r :: t) vs ps (vars st) (to_mio (screen st)) false.

Lemma of_to_mio i : of_mio (to_mio i) = i.
Proof. destruct i; reflexivity. Qed.

Lemma of_mio_set_scr m d : of_mio (mset_scr m d) = set_scr (of_mio m) d.
Proof. reflexivity. Qed.

Lemma cast_store q qs v : store q qs v = if qual_eqb qs q then Ok v else cast v q.
Proof. destruct q, qs; reflexivity. Qed.

Lemma casting_value e q code pc0 r t vs ps mv sc sk v st' w :
  code_at code pc0 (gen_expr_casting e q) ->
  eval e mv = EVal v st' -> convert_to q e v = Ok w ->
  exists b, stepn (length (gen_expr_casting e q)) code (mk_m pc0 (r :: t) vs ps mv sc sk)
            = MRunning (after pc0 (length (gen_expr_casting e q)) w b r t vs ps st' sc sk).
Proof.
  unfold gen_expr_casting, convert_to. intros Hc Hev Hcv.
  pose proof (code_at_app_l _ _ _ _ Hc) as Hl. pose proof (code_at_app_r _ _ _ _ Hc) as H1.
  destruct (gen_expr_value e code pc0 r t vs ps mv sc sk v st' Hl Hev) as [b Sl].
  rewrite app_length, stepn_add, Sl. unfold after.
  destruct (etype e) as [qs|]; [|discriminate].
  rewrite cast_store in Hcv. destruct (qual_eqb qs q).
  - inversion Hcv; subst w. exists b. cbn [length stepn]. do 2 f_equal. lia.
  - one_step H1. rewrite Hcv. exists b. do 2 f_equal. lia.
Qed.

Lemma casting_error e q code pc0 r t vs ps mv sc sk v st' x :
  etype e <> None ->
  code_at code pc0 (gen_expr_casting e q) ->
  eval e mv = EVal v st' -> convert_to q e v = Err x ->
  exists k s', k <= length (gen_expr_casting e q) /\
    stepn k code (mk_m pc0 (r :: t) vs ps mv sc sk) = MError x (epos e) s' /\ mscreen s' = sc /\ mvars s' = st'.
Proof.
  unfold gen_expr_casting, convert_to. intros Ht Hc Hev Hcv.
  pose proof (code_at_app_l _ _ _ _ Hc) as Hl. pose proof (code_at_app_r _ _ _ _ Hc) as H1.
  destruct (gen_expr_value e code pc0 r t vs ps mv sc sk v st' Hl Hev) as [b Sl].
  destruct (etype e) as [qs|]; [|congruence].
  rewrite cast_store in Hcv. destruct (qual_eqb qs q); [discriminate|].
  eexists (length (gen_expr e) + 1), _. rewrite app_length. cbn [length]. split; [lia|].
  rewrite stepn_add, Sl. unfold after. one_step H1. rewrite Hcv. repeat split.
Qed.

(** all expressions of a statement have a static type (what the linter guarantees) *)
Definition typed_simple (s : stmt) : Prop :=
  match s with
  | SAssign _ _ e => etype e <> None
  | _ => True
  end.

Lemma exec_assign f p n e st :
  exec (S f) (SAssign p n e) st =
  match eval e (vars st) with
  | EErr x q => Failed x q st
  | EVal v st' =>
      match convert_to (snd n) e v with
      | Ok v' => Done (mk_state (assign (touch st' n) n v') (screen st))
      | Err x => Failed x (epos e) (mk_state st' (screen st))
      end
  end.
Proof. reflexivity. Qed.

Lemma exec_print f p args st :
  exec (S f) (SPrint p args) st =
  match print_items num_text is_negative args st (scr (screen st)) false with
  | inl (d, skip, st') => Done (mk_state st' (set_scr (screen st) (if skip then d else println d)))
  | inr (x, q, d, st') => Failed x q (mk_state st' (set_scr (screen st) d))
  end.
Proof. reflexivity. Qed.

(** PRINT arguments *)
Lemma mset_scr_id m : mset_scr m (mscr m) = m.
Proof. destruct m; reflexivity. Qed.
Lemma mset_scr_twice m d d' : mset_scr (mset_scr m d) d' = mset_scr m d'.
Proof. reflexivity. Qed.
Lemma mscr_set m d : mscr (mset_scr m d) = d.
Proof. reflexivity. Qed.

Lemma print_items_ok p : forall args code pc0 r t vs ps st m skip,
  code_at code pc0 (flat_map (fun a => gen_print_arg a p) args) ->
  match print_items num_text is_negative args st (mscr m) skip with
  | inl (d', skip', st') =>
      exists a b, stepn (length (flat_map (fun a => gen_print_arg a p) args)) code (mk_m pc0 (r :: t) vs ps (vars st) m skip)
        = MRunning (mk_m (pc0 + length (flat_map (fun a => gen_print_arg a p) args)) (mk_regs a b (rc r) (rd r) :: t) vs ps st' (mset_scr m d') skip')
  | inr (x, q, d', st') =>
      exists k s', stepn k code (mk_m pc0 (r :: t) vs ps (vars st) m skip) = MError x q s' /\ mscreen s' = mset_scr m d'
  end.
Proof.
  induction args as [|a args IH]; intros code pc0 r t vs ps st m skip Hc; cbn [flat_map print_items].
  - exists (ra r), (rb r). cbn [length stepn]. destruct r as [xa xb xc xd]. cbn [ra rb rc rd]. rewrite mset_scr_id. do 2 f_equal. lia.
  - pose proof (code_at_app_l _ _ _ _ Hc) as Hl. pose proof (code_at_app_r _ _ _ _ Hc) as H1.
    destruct a as [| |e]; cbn [gen_print_arg] in *.
    + (* comma *)
      specialize (IH code (pc0 + 1) r t vs ps st (mset_scr m (next_zone (mscr m))) true H1). rewrite mscr_set, ?mset_scr_twice in IH.
      destruct (print_items num_text is_negative args st (next_zone (mscr m)) true) as [[[d' skip'] st']|[[[x q] d'] st']].
      * destruct IH as (a & b & IH). exists a, b. rewrite app_length, stepn_add. one_step Hl.
        destruct r as [xa xb xc xd]; cbn [ra rb rc rd] in *. replace (S pc0) with (pc0 + 1) by lia. rewrite IH.
        do 2 f_equal. cbn [length]. lia.
      * destruct IH as (k & s' & IH & Hd). exists (1 + k), s'. split; [|exact Hd]. rewrite stepn_add. one_step Hl.
        destruct r as [xa xb xc xd]; cbn [ra rb rc rd] in *. replace (S pc0) with (pc0 + 1) by lia. exact IH.
    + (* semicolon *)
      specialize (IH code (pc0 + 1) r t vs ps st m true H1).
      destruct (print_items num_text is_negative args st (mscr m) true) as [[[d' skip'] st']|[[[x q] d'] st']].
      * destruct IH as (a & b & IH). exists a, b. rewrite app_length, stepn_add. one_step Hl.
        destruct r as [xa xb xc xd]; cbn [ra rb rc rd] in *. replace (S pc0) with (pc0 + 1) by lia. rewrite IH.
        do 2 f_equal. cbn [length]. lia.
      * destruct IH as (k & s' & IH & Hd). exists (1 + k), s'. split; [|exact Hd]. rewrite stepn_add. one_step Hl.
        destruct r as [xa xb xc xd]; cbn [ra rb rc rd] in *. replace (S pc0) with (pc0 + 1) by lia. exact IH.
    + (* expression *)
      pose proof (code_at_app_l _ _ _ _ Hl) as Hle. pose proof (code_at_app_r _ _ _ _ Hl) as Hlp.
      destruct (eval e (vars st)) as [v st1|x q] eqn:Ev.
      * destruct (gen_expr_value e code pc0 r t vs ps (vars st) m skip v st1 Hle Ev) as [b1 Se].
        specialize (IH code (pc0 + length (gen_expr e ++ [(IPrintValue, epos e)])) (mk_regs v b1 (rc r) (rd r)) t vs ps
                       (mk_state st1 (screen st)) (mset_scr m (print (mscr m) (item_text (item_of num_text is_negative v)))) false H1).
        cbn [vars] in IH. rewrite mscr_set, ?mset_scr_twice in IH.
        assert (Sp : stepn (length (gen_expr e ++ [(IPrintValue, epos e)])) code (mk_m pc0 (r :: t) vs ps (vars st) m skip)
                     = MRunning (mk_m (pc0 + length (gen_expr e ++ [(IPrintValue, epos e)])) (mk_regs v b1 (rc r) (rd r) :: t) vs ps st1
                                      (mset_scr m (print (mscr m) (item_text (item_of num_text is_negative v)))) false)).
        { rewrite app_length, stepn_add, Se. unfold after. one_step Hlp. do 2 f_equal. cbn [length]. lia. }
        destruct (print_items num_text is_negative args (mk_state st1 (screen st)) (print (mscr m) (item_text (item_of num_text is_negative v))) false)
          as [[[d' skip'] st']|[[[x q] d'] st']].
        -- destruct IH as (a & b & IH). exists a, b.
           rewrite app_length with (l := gen_expr e ++ [(IPrintValue, epos e)]). rewrite stepn_add, Sp, IH.
           cbn [rc rd]. do 2 f_equal. lia.
        -- destruct IH as (k & s' & IH & Hd). exists (length (gen_expr e ++ [(IPrintValue, epos e)]) + k), s'.
           split; [|exact Hd]. rewrite stepn_add, Sp. exact IH.
      * destruct (gen_expr_error e code pc0 r t vs ps (vars st) m skip x q Hle Ev) as (k & s' & Hk & Hs & Hd & _).
        exists k, s'. split; [assumption|]. rewrite Hd, mset_scr_id. reflexivity.
Qed.

(** one straight-line statement: the machine reaches exactly the state the semantics prescribe, or
    stops with the prescribed error, position and screen *)
Theorem simple_stmt_ok f s code pc0 r t vs ps st :
  is_simple s = true -> typed_simple s ->
  code_at code pc0 (simple_code s) ->
  match exec (S f) s st with
  | Done st' =>
      exists a b, stepn (length (simple_code s)) code (boundary pc0 r t vs ps st)
        = MRunning (boundary (pc0 + length (simple_code s)) (mk_regs a b (rc r) (rd r)) t vs ps st')
  | Failed x q st' =>
      exists k s', stepn k code (boundary pc0 r t vs ps st) = MError x q s' /\ of_mio (mscreen s') = screen st'
  | _ => False
  end.
Proof.
  destruct s as [p n e|p args| | | | | | |]; intros Hs Ht Hc; try discriminate; cbn [simple_code typed_simple] in *.
  - (* assignment *)
    rewrite exec_assign. unfold boundary.
    pose proof (code_at_app_l _ _ _ _ Hc) as Hl. pose proof (code_at_app_r _ _ _ _ Hc) as H1.
    destruct (eval e (vars st)) as [v st1|x q] eqn:Ev.
    + destruct (convert_to (snd n) e v) as [w|x] eqn:Ecv.
      * destruct (casting_value e (snd n) code pc0 r t vs ps (vars st) (to_mio (screen st)) false v st1 w Hl Ev Ecv) as [b Sc].
        exists w, b. rewrite app_length, stepn_add, Sc. unfold after, gen_store in *.
        one_step H1. one_step Hr. cbn [vars screen]. do 2 f_equal. cbn [length]. lia.
      * destruct (casting_error e (snd n) code pc0 r t vs ps (vars st) (to_mio (screen st)) false v st1 x Ht Hl Ev Ecv)
          as (k & s' & Hk & Hs' & Hd & _).
        exists k, s'. split; [assumption|]. rewrite Hd. apply of_to_mio.
    + unfold gen_expr_casting in Hl. apply code_at_app_l in Hl.
      destruct (gen_expr_error e code pc0 r t vs ps (vars st) (to_mio (screen st)) false x q Hl Ev) as (k & s' & Hk & Hs' & Hd & _).
      exists k, s'. split; [assumption|]. rewrite Hd. apply of_to_mio.
  - (* PRINT *)
    rewrite exec_print. unfold boundary.
    set (body := flat_map (fun a => gen_print_arg a p) args) in *.
    assert (S3 : stepn 3 code (mk_m pc0 (r :: t) vs ps (vars st) (to_mio (screen st)) false)
                 = MRunning (mk_m (pc0 + 3) (mk_regs (VInteger 0%Z) (rb r) (rc r) (rd r) :: t) vs ps (vars st) (to_mio (screen st)) false)).
    { pose proof Hc as Hc'. one_step Hc'. one_step Hr. one_step Hr0. do 2 f_equal. lia. }
    change ([(IPrintSetPrinterType, p); (ILoad (VInteger 0%Z), p); (IPrintSetFormat, p)] ++ body ++ [(IPrintEnd, p)])
      with ([(IPrintSetPrinterType, p); (ILoad (VInteger 0%Z), p); (IPrintSetFormat, p)] ++ (body ++ [(IPrintEnd, p)])) in *.
    pose proof (code_at_app_r _ _ _ _ Hc) as Hc2. cbn [length] in Hc2.
    pose proof (code_at_app_l _ _ _ _ Hc2) as Hl. pose proof (code_at_app_r _ _ _ _ Hc2) as H1.
    pose proof (print_items_ok p args code (pc0 + 3) (mk_regs (VInteger 0%Z) (rb r) (rc r) (rd r)) t vs ps st (to_mio (screen st)) false Hl) as HP.
    fold body in HP. change (mscr (to_mio (screen st))) with (scr (screen st)) in HP.
    destruct (print_items num_text is_negative args st (scr (screen st)) false) as [[[d' skip'] st']|[[[x q] d'] st']].
    + destruct HP as (a & b & HP). exists a, b. cbn [rc rd] in HP.
      rewrite app_length with (l' := body ++ _). rewrite stepn_add. cbn [length]. rewrite S3.
      rewrite app_length, stepn_add, HP. one_step H1. cbn [vars screen]. destruct skip'; do 2 f_equal; cbn [length]; lia.
    + destruct HP as (k & s' & HP & Hd). exists (3 + k), s'. split; [rewrite stepn_add, S3; exact HP|]. rewrite Hd. reflexivity.
Qed.


(** a sequence of straight-line statements *)
Lemma simple_block_ok f : forall p code pc0 r t vs ps st,
  forallb is_simple p = true -> Forall typed_simple p ->
  code_at code pc0 (flat_map simple_code p) ->
  match exec_program (S f) p st with
  | Done st' =>
      exists a b, stepn (length (flat_map simple_code p)) code (boundary pc0 r t vs ps st)
        = MRunning (boundary (pc0 + length (flat_map simple_code p)) (mk_regs a b (rc r) (rd r)) t vs ps st')
  | Failed x q st' =>
      exists k s', stepn k code (boundary pc0 r t vs ps st) = MError x q s' /\ of_mio (mscreen s') = screen st'
  | _ => False
  end.
Proof.
  induction p as [|s p IH]; intros code pc0 r t vs ps st Hs Ht Hc; cbn [flat_map Sem.exec_program].
  - exists (ra r), (rb r). cbn [length stepn]. unfold boundary. destruct r as [xa xb xc xd]. cbn [ra rb rc rd].
    do 2 f_equal. lia.
  - cbn [forallb] in Hs. apply andb_true_iff in Hs. destruct Hs as [Hs1 Hs2].
    inversion Ht as [|? ? Ht1 Ht2]; subst.
    pose proof (code_at_app_l _ _ _ _ Hc) as Hl. pose proof (code_at_app_r _ _ _ _ Hc) as H1.
    pose proof (simple_stmt_ok f s code pc0 r t vs ps st Hs1 Ht1 Hl) as H.
    destruct (exec (S f) s st) as [st1|x q st1|q st1|]; try contradiction.
    + destruct H as (a & b & H).
      specialize (IH code (pc0 + length (simple_code s)) (mk_regs a b (rc r) (rd r)) t vs ps st1 Hs2 Ht2 H1).
      destruct (exec_program (S f) p st1) as [st2|x q st2|q st2|]; try contradiction.
      * destruct IH as (a' & b' & IH). exists a', b'. rewrite app_length, stepn_add, H, IH.
        cbn [rc rd]. rewrite Nat.add_assoc. reflexivity.
      * destruct IH as (k & s' & IH & Hd). exists (length (simple_code s) + k), s'. split; [|exact Hd].
        rewrite stepn_add, H. exact IH.
    + exact H.
Qed.

(** ** whole straight-line programs, through the real entry points [gen_program] and [resolve] *)
Definition no_jump (i : ipos) : bool := match fst i with IJump _ | IJumpIfFalse _ => false | _ => true end.

Lemma resolve_no_jump c : forallb no_jump c = true -> resolve c = c.
Proof.
  intros H. unfold resolve. rewrite <- (map_id c) at 2. apply map_ext_in. intros [i q] Hin.
  rewrite forallb_forall in H. specialize (H _ Hin). destruct i; cbn in *; try reflexivity; discriminate.
Qed.

Lemma gen_expr_no_jump e : forallb no_jump (gen_expr e) = true.
Proof.
  induction e as [p v|p n|p op l IHl r IHr|p op c IHc|p c IHc]; cbn [gen_expr]; try reflexivity.
  - rewrite !forallb_app, IHl, IHr. reflexivity.
  - destruct op; rewrite forallb_app, IHc; reflexivity.
  - exact IHc.
Qed.

Lemma simple_code_no_jump s : forallb no_jump (simple_code s) = true.
Proof.
  destruct s as [p n e|p args| | | | | | |]; cbn [simple_code]; try reflexivity.
  - unfold gen_expr_casting. rewrite !forallb_app, gen_expr_no_jump.
    destruct (etype e) as [qs|]; [destruct (qual_eqb qs (snd n))|]; reflexivity.
  - rewrite !forallb_app. cbn [forallb no_jump fst andb].
    assert (H : forallb no_jump (flat_map (fun a => gen_print_arg a p) args) = true).
    { induction args as [|a args IH]; cbn [flat_map]; [reflexivity|]. rewrite forallb_app, IH.
      destruct a; cbn [gen_print_arg]; try reflexivity. rewrite forallb_app, gen_expr_no_jump. reflexivity. }
    rewrite H. reflexivity.
Qed.

Lemma gen_simple_program : forall p g, forallb is_simple p = true ->
  code (fold_left (fun g s => gen_stmt (S (stmt_size s)) s g) p g) = code g ++ flat_map simple_code p.
Proof.
  induction p as [|s p IH]; intros g Hs; cbn [fold_left flat_map].
  - rewrite app_nil_r. reflexivity.
  - cbn [forallb] in Hs. apply andb_true_iff in Hs. destruct Hs as [Hs1 Hs2].
    rewrite IH by assumption. destruct (gen_stmt_simple (stmt_size s) s g Hs1) as [E _]. rewrite E.
    rewrite <- app_assoc. reflexivity.
Qed.

Definition st0 : state := mk_state [] io0.

Theorem straightline_program_ok f p :
  forallb is_simple p = true -> Forall typed_simple p ->
  let c := resolve (code (gen_program [] p)) in
  match exec_program (S f) p st0 with
  | Done st' => exists n s', (forall m, n <= m -> run m c (m0) = MHalted s') /\ mvars s' = vars st' /\ of_mio (mscreen s') = screen st'
  | Failed x q st' => exists n s', (forall m, n <= m -> run m c (m0) = MError x q s') /\ of_mio (mscreen s') = screen st'
  | _ => False
  end.
Proof.
  intros Hs Ht c.
  assert (Ec : c = flat_map simple_code p ++ [(IHalt, max_pos)]).
  { assert (F1 : filter is_data p = []).
    { clear -Hs. induction p as [|s p IH]; [reflexivity|]. cbn [forallb] in Hs. apply andb_true_iff in Hs. destruct Hs as [H1 H2].
      cbn [filter]. destruct s; try discriminate H1; cbn [is_data]; apply IH; exact H2. }
    assert (F2 : filter (fun s => negb (is_data s)) p = p).
    { clear -Hs. induction p as [|s p IH]; [reflexivity|]. cbn [forallb] in Hs. apply andb_true_iff in Hs. destruct Hs as [H1 H2].
      cbn [filter]. destruct s; try discriminate H1; cbn [is_data negb]; f_equal; apply IH; exact H2. }
    unfold c, gen_program. rewrite F1, F2. unfold emit, mark. cbn [code fold_left]. rewrite gen_simple_program by assumption.
    unfold gen_dims. cbn [fold_left code app]. apply resolve_no_jump.
    rewrite forallb_app. cbn [forallb no_jump fst andb]. rewrite andb_true_r.
    clear. induction p as [|s p IH]; cbn [flat_map]; [reflexivity|]. rewrite forallb_app, simple_code_no_jump, IH. reflexivity. }
  assert (Hc : code_at c 0 (flat_map simple_code p)).
  { exists [], [(IHalt, max_pos)]. split; [rewrite Ec; reflexivity|reflexivity]. }
  pose proof (simple_block_ok f p c 0 regs0 [] [] [] st0 Hs Ht Hc) as H.
  change (boundary 0 regs0 [] [] [] st0) with m0 in H.
  destruct (exec_program (S f) p st0) as [st'|x q st'|q st'|]; try contradiction.
  - destruct H as (a & b & H). eexists (length (flat_map simple_code p) + 1), _. split; [|split].
    + intros m Hm. apply run_stepn_stop with (n := length (flat_map simple_code p) + 1); [|exact I|exact Hm].
      rewrite stepn_add, H. cbn [stepn]. unfold Machine.step. cbn [pc boundary].
      rewrite Ec, nth_error_app2 by lia. replace (0 + _ - _) with 0 by lia. reflexivity.
    + reflexivity.
    + apply of_to_mio.
  - destruct H as (k & s' & H & Hd). exists k, s'. split; [|exact Hd].
    intros m Hm. apply run_stepn_stop with (n := k); [exact H|exact I|exact Hm].
Qed.

End WithNumberText.

(** ** the outcome does not depend on the instruction budget once it suffices *)
Section Fuel.
Variable num_text : variant -> list Z.
Variable is_negative : variant -> bool.
Lemma run_fuel_irrelevant : forall n code s r k,
  Machine.run num_text is_negative n code s = r -> r <> MOutOfFuel ->
  Machine.run num_text is_negative (n + k) code s = r.
Proof.
  induction n as [|n IH]; intros code s r k H Hr; cbn [Machine.run Nat.add] in *.
  - congruence.
  - destruct (Machine.step num_text is_negative code s); auto.
Qed.
End Fuel.
