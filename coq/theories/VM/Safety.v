(** The concrete machine model refines the verifier's abstract machine: when the certificate check
    of [WF.Verifier] accepts the abstraction of an instruction list, [Machine.step] can never hit
    one of the VM's internal failure sites (value-stack / register-stack / var-path underflow,
    unresolved label, running off the list) - on any state reachable from the start, whatever the
    values in the registers and variables are. *)
From Coq Require Import List ZArith Arith Bool Lia Floats.SpecFloat.
From RB Require Import Generated.Tables Val.Variant Val.Arith2 Lang.Ast Lang.Sem VM.Instr VM.Machine RT.Printer
                       WF.Verifier WF.VerifierProofs.
Import ListNotations.
Local Open Scope nat_scope.

Definition z6 : dvec := vzero nstacks.
Definition dV : dvec := [1; 0; 0; 0; 0; 0].
Definition dR : dvec := [0; 1; 0; 0; 0; 0].
Definition dP : dvec := [0; 0; 1; 0; 0; 0].

(** the abstraction of the core instructions (the harness's table, restricted to them) *)
Definition abstract (n : nat) (i : instr) : ainstr :=
  match i with
  | IVarPathName _ => mk_ai APlain z6 dP
  | ICopyVarPathToA => mk_ai APlain dP dP
  | IPopVarPath | ICopyAToVarPath => mk_ai APlain dP z6
  | IPushA => mk_ai APlain z6 dV
  | IPopA => mk_ai APlain dV z6
  | IPushRegisters => mk_ai APlain z6 dR
  | IPopRegisters => mk_ai APlain dR z6
  | IJump (TAddr a) => mk_ai (AJump a) z6 z6
  | IJump (TLabel _) => mk_ai (AJump n) z6 z6             (* unresolved: a target outside the list *)
  | IJumpIfFalse (TAddr a) => mk_ai (AJumpIfFalse a) z6 z6
  | IJumpIfFalse (TLabel _) => mk_ai (AJumpIfFalse n) z6 z6
  | IHalt => mk_ai (AStop 0) z6 z6
  | IThrowZeroStep => mk_ai (AStop 1) z6 z6
  | _ => mk_ai APlain z6 z6
  end.

Definition abstract_code (code : list ipos) : list ainstr := map (fun ip => abstract (length code) (fst ip)) code.

(** the instructions of built-in calls (DATA, READ) keep their state in the call context, which the
    certificate does not track: outside this theorem *)
Definition supported (i : instr) : bool :=
  match i with
  | IOther | IBeginCollect | IPushUnnamedByVal | IPushUnnamedByRef | IPushStack | IPopStack
  | IBuiltinData | IBuiltinRead | IEnqueue _ | IDequeue => false
  | _ => true
  end.

(** the stack depths of a concrete state, relative to the start state *)
Definition depths (s : mstate) : dvec := [length (vstack s); length (rstack s) - 1; length (pstack s); 0; 0; 0].

Definition Agree (c : cert) (s : mstate) : Prop := cert_at c (pc s) = Some (depths s) /\ rstack s <> [].

Section Safety.
Variable num_text : variant -> list Z.
Variable is_negative : variant -> bool.
Notation step := (Machine.step num_text is_negative).
Variables (code : list ipos) (c : cert).
Hypothesis Hc : check_cert (abstract_code code) c = true.
Hypothesis Hs : forallb (fun ip => supported (fst ip)) code = true.

Lemma abstract_at pc i p : nth_error code pc = Some (i, p) ->
  nth_error (abstract_code code) pc = Some (abstract (length code) i).
Proof. intros H. unfold abstract_code. exact (map_nth_error (fun ip => abstract (length code) (fst ip)) pc code H). Qed.

Lemma cert_some_lt pc d : cert_at c pc = Some d -> pc < length code.
Proof.
  intros H. destruct (check_parts _ _ Hc) as (HL & _). pose proof (cert_at_lt _ _ _ H) as L.
  rewrite HL in L. unfold abstract_code in L. rewrite map_length in L. exact L.
Qed.

Lemma check_here s i p : Agree c s -> nth_error code (pc s) = Some (i, p) ->
  let a := abstract (length code) i in
  vgeb (depths s) (pops a) = true /\
  match op a with
  | APlain => cert_at c (S (pc s)) = Some (vapply (depths s) (pops a) (pushes a))
  | AJump t => cert_at c t = Some (vapply (depths s) (pops a) (pushes a))
  | AJumpIfFalse t => cert_at c t = Some (vapply (depths s) (pops a) (pushes a)) /\
                      cert_at c (S (pc s)) = Some (vapply (depths s) (pops a) (pushes a))
  | _ => True
  end.
Proof.
  intros [Hd _] Hn a. destruct (check_parts _ _ Hc) as (HL & _ & Hall).
  assert (Hlt : pc s < length (abstract_code code)).
  { unfold abstract_code. rewrite map_length. eapply cert_some_lt; exact Hd. }
  specialize (Hall _ Hlt). unfold check_at in Hall. rewrite Hd, (abstract_at _ _ _ Hn) in Hall. fold a in Hall.
  apply andb_true_iff in Hall. destruct Hall as [Hall Hop].
  apply andb_true_iff in Hall. destruct Hall as [_ Hge]. split; [exact Hge|].
  destruct (op a); try exact I.
  - apply cert_is_at; exact Hop.
  - apply cert_is_at; exact Hop.
  - apply andb_true_iff in Hop. destruct Hop as [H1 H2]. split; apply cert_is_at; assumption.
Qed.

Ltac fin := unfold Agree, depths; cbn [pc vstack rstack pstack next set_a set_regs goto length];
            split; [|try discriminate; try assumption].

(** one step: no internal failure, and the next state agrees with the certificate again *)
Theorem step_safe : forall s, Agree c s ->
  match step code s with
  | MRunning s' => Agree c s'
  | MPanic _ _ => False
  | _ => True
  end.
Proof.
  intros s HA. pose proof HA as [Hd Hr].
  pose proof (cert_some_lt _ _ Hd) as Hlt.
  unfold Machine.step. destruct (nth_error code (pc s)) as [[i p]|] eqn:Hn.
  2:{ apply nth_error_None in Hn. lia. }
  assert (Hsup : supported i = true).
  { rewrite forallb_forall in Hs. apply (Hs (i, p)). eapply nth_error_In; exact Hn. }
  pose proof (check_here s i p HA Hn) as [Hge Hnext].
  destruct s as [pc0 rs vs ps mv sc sk]. cbn [pc rstack vstack pstack mvars mscreen mskip] in *.
  destruct rs as [|r rt]; [contradiction|].
  unfold depths in *. cbn [vstack rstack pstack length] in *.
  destruct i; try discriminate Hsup.
  all: try (destruct t as [l|a]).
  all: cbn [abstract Verifier.op Verifier.pops Verifier.pushes] in Hge, Hnext; unfold cur; cbn [rstack].
  (* an unresolved label would need a certificate entry outside the list *)
  all: try (exfalso; pose proof (cert_some_lt _ _ Hnext); lia).
  all: try (exfalso; destruct Hnext as [Hx _]; pose proof (cert_some_lt _ _ Hx); lia).
  all: cbn [vgeb Nat.leb andb z6 dV dR dP vzero nstacks repeat] in Hge.
  all: try (unfold z6, dV, dR, dP, vzero, nstacks in Hnext; cbn [repeat vapply] in Hnext).
  all: repeat match goal with
       | |- context [match ?x with Ok _ => _ | Err _ => _ end] => destruct x
       | |- context [match ?x with nil => _ | cons _ _ => _ end] => destruct x
       | |- context [if ?b then _ else _] => destruct b
       end; try exact I; try discriminate Hge.
  all: try (unfold Agree, depths, next, set_a, set_regs, goto, cur;
            cbn [pc vstack rstack pstack length];
            split; [|discriminate]).
  all: try (match goal with H : cert_at c _ = Some _ |- cert_at c _ = Some _ => rewrite H; do 2 f_equal; cbn; try lia; repeat f_equal; lia end).
  all: try (destruct Hnext as [H1 H2]; first [rewrite H1 | rewrite H2]; do 2 f_equal; cbn; try lia; repeat f_equal; lia).
Qed.

(** every run from the start state *)
Theorem run_safe : forall fuel s, Agree c s ->
  match Machine.run num_text is_negative fuel code s with MPanic _ _ => False | _ => True end.
Proof.
  induction fuel as [|f IH]; intros s HA; cbn [Machine.run]; [exact I|].
  pose proof (step_safe s HA) as H. destruct (step code s); try exact I; [apply IH; exact H|contradiction].
Qed.

Lemma start_agrees : Agree c m0.
Proof.
  destruct (check_parts _ _ Hc) as (_ & H0 & _). split; [exact H0|discriminate].
Qed.

Corollary program_never_fails_internally : forall fuel,
  match Machine.run num_text is_negative fuel code m0 with MPanic _ _ => False | _ => True end.
Proof. intros fuel. apply run_safe. apply start_agrees. Qed.

End Safety.

(** comparison of the Coq abstraction with the harness's abstraction of the same instruction list *)
Definition aop_eqb (a b : aop) : bool :=
  match a, b with
  | APlain, APlain | ARet, ARet => true
  | AJump x, AJump y | AJumpIfFalse x, AJumpIfFalse y | AStop x, AStop y | AHandler x, AHandler y => Nat.eqb x y
  | ACall x y, ACall x' y' => Nat.eqb x x' && Nat.eqb y y'
  | _, _ => false
  end.
Definition ainstr_eqb (a b : ainstr) : bool := aop_eqb (op a) (op b) && veqb (pops a) (pops b) && veqb (pushes a) (pushes b).
Fixpoint acode_eqb (a b : list ainstr) : bool :=
  match a, b with
  | [], [] => true
  | x :: a', y :: b' => ainstr_eqb x y && acode_eqb a' b'
  | _, _ => false
  end.

(** 0 = the list is supported, the two abstractions coincide and the certificate checks: the
    theorems above then apply to this very instruction list *)
Definition check_safe (code : list ipos) (acode : list ainstr) (c : cert) : nat :=
  if negb (forallb (fun ip => supported (fst ip)) code) then 1
  else if negb (acode_eqb (abstract_code code) acode) then 2
  else if negb (check_cert (abstract_code code) c) then 3 else 0.

