(** The calls of the built-in subs DATA and READ: the code the generator emits for them (arguments
    collected, frame pushed, built-in, by-reference results queued, frame popped, results written
    back) does what the reference semantics say, from every state. *)
From Coq Require Import List ZArith Bool Lia Floats.SpecFloat.
From RB Require Import Generated.Tables Val.Variant Val.Arith2 Lang.Ast Lang.Sem VM.Instr VM.Gen VM.Machine VM.GenProofs VM.Loops VM.ForLoops RT.Printer.
Import ListNotations.
Local Open Scope nat_scope.

Section WithNumberText.
Variable num_text : variant -> list Z.
Variable is_negative : variant -> bool.
Notation step := (Machine.step num_text is_negative).
Notation stepn := (GenProofs.stepn num_text is_negative).
Notation exec := (Sem.exec num_text is_negative).
Notation simulates := (Loops.simulates num_text is_negative).
Notation stepn_step := (ForLoops.stepn_step num_text is_negative).
Notation stepn_0 := (ForLoops.stepn_0 num_text is_negative).

Ltac stp Hn :=
  erewrite stepn_step by (unfold Machine.step; cbn [Machine.pc]; rewrite Hn; reflexivity);
  unfold next, set_a, set_regs, cur, goto, mset_call;
  cbn [rstack ra rb rc rd Machine.pc vstack pstack mvars mscreen mskip mscr mdat margs mframes mbyref]; rewrite ?stepn_0.

(** ** DATA *)

Lemma push_items : forall items code pc0 r t vs ps e d sc acc rest fs bq,
  code_at code pc0 (push_val_code items) ->
  match eval_items items e with
  | inl (ws, e') =>
      exists r', stepn (length (push_val_code items)) code (mk_m pc0 (r :: t) vs ps e (mk_mio sc d (acc :: rest) fs bq) false)
        = MRunning (mk_m (pc0 + length (push_val_code items)) (r' :: t) vs ps e'
                         (mk_mio sc d ((acc ++ map (fun v => (v, @None name)) ws) :: rest) fs bq) false)
  | inr (x, q) =>
      exists k s', stepn k code (mk_m pc0 (r :: t) vs ps e (mk_mio sc d (acc :: rest) fs bq) false) = MError x q s' /\
                   of_mio (mscreen s') = mk_io sc d
  end.
Proof.
  induction items as [|x items IH]; intros code pc0 r t vs ps e d sc acc rest fs bq Hc; cbn [eval_items].
  - exists r. cbn [push_val_code flat_map length map]. rewrite app_nil_r. cbn. do 2 f_equal. lia.
  - unfold push_val_code in Hc. cbn [flat_map] in Hc. fold (push_val_code items) in Hc.
    pose proof (code_at_app_l _ _ _ _ Hc) as Hx. pose proof (code_at_app_r _ _ _ _ Hc) as Hrest.
    pose proof (code_at_app_l _ _ _ _ Hx) as He. pose proof (code_at_app_r _ _ _ _ Hx) as Hp.
    destruct (eval x e) as [v e1|err q] eqn:Ev.
    2:{ destruct (gen_expr_error num_text is_negative x code pc0 r t vs ps e (mk_mio sc d (acc :: rest) fs bq) false err q He Ev)
          as (k & s' & _ & Hs & Hd & _). exists k, s'. split; [exact Hs|]. rewrite Hd. reflexivity. }
    destruct (gen_expr_value num_text is_negative x code pc0 r t vs ps e (mk_mio sc d (acc :: rest) fs bq) false v e1 He Ev) as [b1 Sx].
    unfold after in Sx.
    assert (N0 : nth_error code (pc0 + length (gen_expr x)) = Some (IPushUnnamedByVal, epos x))
      by (replace (pc0 + length (gen_expr x)) with (pc0 + length (gen_expr x) + 0) by lia; apply (code_at_nth _ _ _ 0 _ Hp); reflexivity).
    set (lx := length (gen_expr x ++ [(IPushUnnamedByVal, epos x)])) in *.
    assert (S1 : stepn lx code (mk_m pc0 (r :: t) vs ps e (mk_mio sc d (acc :: rest) fs bq) false)
                 = MRunning (mk_m (pc0 + lx) (mk_regs v b1 (rc r) (rd r) :: t) vs ps e1
                                  (mk_mio sc d ((acc ++ [(v, None)]) :: rest) fs bq) false)).
    { unfold lx. rewrite app_length. cbn [length]. rewrite stepn_add, Sx. stp N0. do 2 f_equal. lia. }
    specialize (IH code (pc0 + lx) (mk_regs v b1 (rc r) (rd r)) t vs ps e1 d sc (acc ++ [(v, None)]) rest fs bq Hrest).
    destruct (eval_items items e1) as [[ws e2]|[err q]].
    + destruct IH as [r' IH]. exists r'.
      change (push_val_code (x :: items)) with ((gen_expr x ++ [(IPushUnnamedByVal, epos x)]) ++ push_val_code items).
      rewrite app_length. fold lx. rewrite stepn_add, S1, IH. cbn [map]. rewrite <- app_assoc. cbn [app].
      do 2 f_equal. lia.
    + destruct IH as (k & s' & Hk & Hd). exists (lx + k), s'. split; [|exact Hd]. rewrite stepn_add, S1. exact Hk.
Qed.

Lemma map_fst_none (ws : list variant) : map fst (map (fun v => (v, @None name)) ws) = ws.
Proof. induction ws as [|w t IH]; cbn; [reflexivity|]. rewrite IH. reflexivity. Qed.

Theorem data_correct : forall code pc0 p items,
  code_at code pc0 (data_code p items) ->
  forall f, simulates code pc0 (length (data_code p items)) (exec f (SData p items)).
Proof.
  intros code pc0 p items Hc f. destruct f as [|f]; [intros st r t vs ps; exact I|].
  intros st r t vs ps. cbn [Sem.exec].
  unfold data_code in Hc.
  pose proof (code_at_app_l _ _ _ _ Hc) as H0. pose proof (code_at_app_r _ _ _ _ Hc) as H1. cbn [length] in H1.
  pose proof (code_at_app_l _ _ _ _ H1) as Hi. pose proof (code_at_app_r _ _ _ _ H1) as H2.
  assert (N0 : nth_error code pc0 = Some (IBeginCollect, p)) by (replace pc0 with (pc0 + 0) by lia; apply (code_at_nth _ _ _ 0 _ H0); reflexivity).
  set (li := length (push_val_code items)) in *.
  assert (N1 : nth_error code (pc0 + 1 + li) = Some (IPushStack, p)) by (replace (pc0 + 1 + li) with (pc0 + 1 + li + 0) by lia; apply (code_at_nth _ _ _ 0 _ H2); reflexivity).
  assert (N2 : nth_error code (S (pc0 + 1 + li)) = Some (IBuiltinData, p)) by (replace (S (pc0 + 1 + li)) with (pc0 + 1 + li + 1) by lia; apply (code_at_nth _ _ _ 1 _ H2); reflexivity).
  assert (N3 : nth_error code (S (S (pc0 + 1 + li))) = Some (IPopStack, p)) by (replace (S (S (pc0 + 1 + li))) with (pc0 + 1 + li + 2) by lia; apply (code_at_nth _ _ _ 2 _ H2); reflexivity).
  assert (Hlen : length (data_code p items) = 1 + li + 3).
  { unfold data_code. rewrite !app_length. cbn [length]. fold li. lia. }
  rewrite Hlen.
  assert (S0 : stepn 1 code (boundary pc0 r t vs ps st)
               = MRunning (mk_m (pc0 + 1) (r :: t) vs ps (vars st) (mk_mio (scr (screen st)) (dat (screen st)) [[]] [] []) false)).
  { unfold boundary, to_mio. stp N0. do 2 f_equal. lia. }
  pose proof (push_items items code (pc0 + 1) r t vs ps (vars st) (dat (screen st)) (scr (screen st)) [] [] [] [] Hi) as P.
  fold li in P.
  destruct (eval_items items (vars st)) as [[ws e']|[x q]].
  - destruct P as [r' P]. exists (1 + li + 3), r'.
    rewrite (stepn_add _ _ (1 + li) 3), (stepn_add _ _ 1 li), S0, P. cbn [app].
    stp N1. stp N2. stp N3. unfold boundary, to_mio. cbn [vars screen scr dat]. rewrite map_fst_none. do 2 f_equal. lia.
  - destruct P as (k & s' & Hk & Hd). exists (1 + k), s'. split; [rewrite stepn_add, S0; exact Hk|].
    rewrite Hd. destruct (screen st); reflexivity.
Qed.

(** ** READ *)

Definition as_args (fr : list (variant * name)) : list marg := map (fun x => (fst x, Some (snd x))) fr.

Lemma run_collect : forall targets code pc0 r t vs ps e d sc acc rest fs bq,
  code_at code pc0 (collect_code targets) ->
  exists r', stepn (length (collect_code targets)) code (mk_m pc0 (r :: t) vs ps e (mk_mio sc d (acc :: rest) fs bq) false)
    = MRunning (mk_m (pc0 + length (collect_code targets)) (r' :: t) vs ps (snd (collect targets e))
                     (mk_mio sc d ((acc ++ as_args (fst (collect targets e))) :: rest) fs bq) false).
Proof.
  induction targets as [|[n q] targets IH]; intros code pc0 r t vs ps e d sc acc rest fs bq Hc.
  - exists r. cbn. rewrite app_nil_r. do 2 f_equal. lia.
  - change (collect_code ((n, q) :: targets)) with ([(IVarPathName n, q); (ICopyVarPathToA, q); (IPushUnnamedByRef, q)] ++ collect_code targets) in *.
    pose proof (code_at_app_l _ _ _ _ Hc) as H3. pose proof (code_at_app_r _ _ _ _ Hc) as Hr. cbn [length] in Hr.
    assert (N0 : nth_error code pc0 = Some (IVarPathName n, q)) by (replace pc0 with (pc0 + 0) by lia; apply (code_at_nth _ _ _ 0 _ H3); reflexivity).
    assert (N1 : nth_error code (S pc0) = Some (ICopyVarPathToA, q)) by (replace (S pc0) with (pc0 + 1) by lia; apply (code_at_nth _ _ _ 1 _ H3); reflexivity).
    assert (N2 : nth_error code (S (S pc0)) = Some (IPushUnnamedByRef, q)) by (replace (S (S pc0)) with (pc0 + 2) by lia; apply (code_at_nth _ _ _ 2 _ H3); reflexivity).
    cbn [collect]. destruct (collect targets (touch e n)) as [fr e2] eqn:Ec. cbn [fst snd].
    destruct (IH code (pc0 + 3) (mk_regs (lookup (touch e n) n) (rb r) (rc r) (rd r)) t vs ps (touch e n) d sc
                 (acc ++ [(lookup (touch e n) n, Some n)]) rest fs bq Hr) as [r' Hn].
    rewrite Ec in Hn. cbn [fst snd] in Hn.
    exists r'. rewrite app_length. cbn [length]. change (3 + length (collect_code targets)) with (S (S (S (length (collect_code targets))))).
    stp N0. stp N1. stp N2. replace (S (S (S pc0))) with (pc0 + 3) by lia. rewrite Hn.
    unfold as_args. cbn [map fst snd]. rewrite <- app_assoc. cbn [app]. do 2 f_equal. lia.
Qed.

Lemma step_enqueue code pc0 rs vs ps e sc d args fr fs bq i q v nm :
  nth_error code pc0 = Some ((IEnqueue i, q) : ipos) -> nth_error fr i = Some ((v, nm) : marg) ->
  step code (mk_m pc0 rs vs ps e (mk_mio sc d args (fr :: fs) bq) false)
  = MRunning (mk_m (S pc0) rs vs ps e (mk_mio sc d args (fr :: fs) (bq ++ [v])) false).
Proof.
  intros H1 H2. unfold Machine.step. cbn [Machine.pc]. rewrite H1. cbn [mscreen mframes]. rewrite H2. reflexivity.
Qed.

Lemma step_read_ok code pc0 rs vs ps e sc d args fr fs bq p fr' d' :
  nth_error code pc0 = Some ((IBuiltinRead, p) : ipos) -> read_frame fr d = inl (fr', d') ->
  step code (mk_m pc0 rs vs ps e (mk_mio sc d args (fr :: fs) bq) false)
  = MRunning (mk_m (S pc0) rs vs ps e (mk_mio sc d' args (fr' :: fs) bq) false).
Proof.
  intros H1 H2. unfold Machine.step. cbn [Machine.pc]. rewrite H1. cbn [mscreen mframes mdat]. rewrite H2. reflexivity.
Qed.

Lemma step_read_err code pc0 rs vs ps e sc d args fr fs bq p x d' :
  nth_error code pc0 = Some ((IBuiltinRead, p) : ipos) -> read_frame fr d = inr (x, d') ->
  step code (mk_m pc0 rs vs ps e (mk_mio sc d args (fr :: fs) bq) false)
  = MError x p (mk_m pc0 rs vs ps e (mk_mio sc d' args (fr :: fs) bq) false).
Proof.
  intros H1 H2. unfold Machine.step. cbn [Machine.pc]. rewrite H1. cbn [mscreen mframes mdat]. rewrite H2. reflexivity.
Qed.

Lemma run_enqueue : forall targets code pc0 rs vs ps e d sc args fr0 fr fs bq i,
  code_at code pc0 (enqueue_code targets i) ->
  length targets = length fr -> firstn i (fr0 ++ fr) = fr0 -> length fr0 = i ->
  stepn (length (enqueue_code targets i)) code (mk_m pc0 rs vs ps e (mk_mio sc d args ((fr0 ++ fr) :: fs) bq) false)
    = MRunning (mk_m (pc0 + length (enqueue_code targets i)) rs vs ps e (mk_mio sc d args ((fr0 ++ fr) :: fs) (bq ++ map fst fr)) false).
Proof.
  induction targets as [|[n q] targets IH]; intros code pc0 rs vs ps e d sc args fr0 fr fs bq i Hc Hl Hf Hi.
  - destruct fr; [|discriminate]. cbn. rewrite !app_nil_r. do 2 f_equal. lia.
  - destruct fr as [|[v nm] fr]; [discriminate|]. cbn [enqueue_code length] in *.
    assert (N0 : nth_error code pc0 = Some (IEnqueue i, q)) by (replace pc0 with (pc0 + 0) by lia; apply (code_at_nth _ _ _ 0 _ Hc); reflexivity).
    assert (Hnth : nth_error (fr0 ++ (v, nm) :: fr) i = Some ((v, nm) : marg)).
    { rewrite nth_error_app2 by lia. rewrite <- Hi, Nat.sub_diag. reflexivity. }
    erewrite stepn_step by (apply (step_enqueue code pc0 rs vs ps e sc d args _ fs bq i q v nm N0 Hnth)).
    assert (Hc' : code_at code (S pc0) (enqueue_code targets (S i))).
    { destruct Hc as (pre & post & E & L). exists (pre ++ [(IEnqueue i, q)]), post. split; [rewrite E, <- app_assoc; reflexivity|rewrite app_length; cbn; lia]. }
    replace (fr0 ++ (v, nm) :: fr) with ((fr0 ++ [(v, nm)]) ++ fr) by (rewrite <- app_assoc; reflexivity).
    rewrite (IH code (S pc0) rs vs ps e d sc args (fr0 ++ [(v, nm)]) fr fs (bq ++ [v]) (S i) Hc').
    + cbn [map fst]. rewrite <- !app_assoc. cbn [app]. do 2 f_equal. lia.
    + lia.
    + rewrite <- app_assoc. cbn [app]. rewrite firstn_app, firstn_all2 by lia. replace (S i - length fr0) with 1 by lia. reflexivity.
    + rewrite app_length. cbn. lia.
Qed.

Lemma run_writeback : forall targets code pc0 r t vs ps e d sc ws bq,
  code_at code pc0 (writeback_code targets) -> length ws = length targets ->
  exists r', stepn (length (writeback_code targets)) code (mk_m pc0 (r :: t) vs ps e (mk_mio sc d [] [] (ws ++ bq)) false)
    = MRunning (mk_m (pc0 + length (writeback_code targets)) (r' :: t) vs ps (store_all (map fst targets) ws e) (mk_mio sc d [] [] bq) false).
Proof.
  induction targets as [|[n q] targets IH]; intros code pc0 r t vs ps e d sc ws bq Hc Hl.
  - destruct ws; [|discriminate]. exists r. cbn. do 2 f_equal. lia.
  - destruct ws as [|w ws]; [discriminate|].
    change (writeback_code ((n, q) :: targets)) with ([(IDequeue, q); (IVarPathName n, q); (ICopyAToVarPath, q)] ++ writeback_code targets) in *.
    pose proof (code_at_app_l _ _ _ _ Hc) as H3. pose proof (code_at_app_r _ _ _ _ Hc) as Hr. cbn [length] in Hr.
    assert (N0 : nth_error code pc0 = Some (IDequeue, q)) by (replace pc0 with (pc0 + 0) by lia; apply (code_at_nth _ _ _ 0 _ H3); reflexivity).
    assert (N1 : nth_error code (S pc0) = Some (IVarPathName n, q)) by (replace (S pc0) with (pc0 + 1) by lia; apply (code_at_nth _ _ _ 1 _ H3); reflexivity).
    assert (N2 : nth_error code (S (S pc0)) = Some (ICopyAToVarPath, q)) by (replace (S (S pc0)) with (pc0 + 2) by lia; apply (code_at_nth _ _ _ 2 _ H3); reflexivity).
    destruct (IH code (pc0 + 3) (mk_regs w (rb r) (rc r) (rd r)) t vs ps (assign (touch e n) n w) d sc ws bq Hr ltac:(cbn in Hl; lia)) as [r' Hn].
    exists r'. rewrite app_length. cbn [length]. change (3 + length (writeback_code targets)) with (S (S (S (length (writeback_code targets))))).
    cbn [app].
    stp N0. stp N1. stp N2. replace (S (S (S pc0))) with (pc0 + 3) by lia. rewrite Hn.
    cbn [map fst store_all]. do 2 f_equal. lia.
Qed.

Lemma read_vals_length : forall qs d ws d', read_vals qs d = inl (ws, d') -> length ws = length qs.
Proof.
  induction qs as [|q qs IH]; intros d ws d' H; cbn [read_vals] in H.
  - inversion H; reflexivity.
  - destruct d as [|w d0]; [discriminate|]. destruct (cast w q) as [w'|x]; [|discriminate].
    destruct (read_vals qs d0) as [[ws0 d1]|r] eqn:E; [|discriminate]. inversion H; subst. cbn. f_equal. eapply IH; exact E.
Qed.

Lemma collect_names : forall targets e, map snd (fst (collect targets e)) = map fst targets.
Proof.
  induction targets as [|[n q] t IH]; intros e; [reflexivity|].
  cbn [collect]. specialize (IH (touch e n)). destruct (collect t (touch e n)) as [fr e2]. cbn [fst snd map] in *. rewrite IH. reflexivity.
Qed.

Lemma enqueue_length : forall targets i, length (enqueue_code targets i) = length targets.
Proof. induction targets as [|[n q] t IH]; intros i; cbn; [reflexivity|]. rewrite IH. reflexivity. Qed.

Lemma map_fst_combine (ws : list variant) (ns : list (option name)) : length ws = length ns -> map fst (combine ws ns) = ws.
Proof.
  revert ns. induction ws as [|w t IH]; intros ns H; destruct ns as [|n ns]; try discriminate; cbn; [reflexivity|].
  rewrite IH by (cbn in H; lia). reflexivity.
Qed.

Theorem read_correct : forall code pc0 p targets,
  code_at code pc0 (read_code p targets) ->
  forall f, simulates code pc0 (length (read_code p targets)) (exec f (SRead p targets)).
Proof.
  intros code pc0 p targets Hc f. destruct f as [|f]; [intros st r t vs ps; exact I|].
  intros st r t vs ps. cbn [Sem.exec].
  unfold read_code in Hc.
  pose proof (code_at_app_l _ _ _ _ Hc) as H0. pose proof (code_at_app_r _ _ _ _ Hc) as H1. cbn [length] in H1.
  pose proof (code_at_app_l _ _ _ _ H1) as Hcol. pose proof (code_at_app_r _ _ _ _ H1) as H2.
  pose proof (code_at_app_l _ _ _ _ H2) as Hps. pose proof (code_at_app_r _ _ _ _ H2) as H3. cbn [length] in H3.
  pose proof (code_at_app_l _ _ _ _ H3) as Henq. pose proof (code_at_app_r _ _ _ _ H3) as H4.
  pose proof (code_at_app_l _ _ _ _ H4) as Hpop. pose proof (code_at_app_r _ _ _ _ H4) as Hwb. cbn [length] in Hwb.
  set (lc := length (collect_code targets)) in *. set (le := length (enqueue_code targets 0)) in *. set (lw := length (writeback_code targets)) in *.
  assert (N0 : nth_error code pc0 = Some (IBeginCollect, p)) by (replace pc0 with (pc0 + 0) by lia; apply (code_at_nth _ _ _ 0 _ H0); reflexivity).
  assert (N1 : nth_error code (pc0 + 1 + lc) = Some (IPushStack, p)) by (replace (pc0 + 1 + lc) with (pc0 + 1 + lc + 0) by lia; apply (code_at_nth _ _ _ 0 _ Hps); reflexivity).
  assert (N2 : nth_error code (S (pc0 + 1 + lc)) = Some (IBuiltinRead, p)) by (replace (S (pc0 + 1 + lc)) with (pc0 + 1 + lc + 1) by lia; apply (code_at_nth _ _ _ 1 _ Hps); reflexivity).
  assert (N3 : nth_error code (pc0 + 1 + lc + 2 + le) = Some (IPopStack, p)) by (replace (pc0 + 1 + lc + 2 + le) with (pc0 + 1 + lc + 2 + le + 0) by lia; apply (code_at_nth _ _ _ 0 _ Hpop); reflexivity).
  assert (Hlen : length (read_code p targets) = 1 + lc + 2 + le + 1 + lw).
  { unfold read_code. rewrite !app_length. cbn [length].
    change (length (collect_code targets)) with lc. change (length (enqueue_code targets 0)) with le. change (length (writeback_code targets)) with lw. lia. }
  rewrite Hlen.
  assert (S0 : stepn 1 code (boundary pc0 r t vs ps st)
               = MRunning (mk_m (pc0 + 1) (r :: t) vs ps (vars st) (mk_mio (scr (screen st)) (dat (screen st)) [[]] [] []) false)).
  { unfold boundary, to_mio. stp N0. do 2 f_equal. lia. }
  destruct (run_collect targets code (pc0 + 1) r t vs ps (vars st) (dat (screen st)) (scr (screen st)) [] [] [] [] Hcol) as [r1 S1].
  fold lc in S1. cbn [app] in S1.
  pose proof (collect_names targets (vars st)) as Hnames.
  destruct (collect targets (vars st)) as [fr e1] eqn:Ecol. cbn [fst snd] in S1, Hnames.
  (* the frame is pushed, the built-in runs *)
  assert (Htag : map (fun x : marg => tag (fst x)) (as_args fr) = map (fun x => tag (fst x)) fr).
  { unfold as_args. rewrite map_map. reflexivity. }
  destruct (read_vals (map (fun x => tag (fst x)) fr) (dat (screen st))) as [[ws d']|[x d']] eqn:Erv.
  2:{ eexists (1 + lc + 2), _. rewrite (stepn_add _ _ (1 + lc) 2), (stepn_add _ _ 1 lc), S0, S1.
      stp N1.
      assert (RF : read_frame (as_args fr) (dat (screen st)) = inr (x, d')) by (unfold read_frame, as_args; rewrite map_map; cbn [fst]; rewrite Erv; reflexivity).
      rewrite stepn_one. rewrite (step_read_err _ _ _ _ _ _ _ _ _ _ _ _ _ _ _ N2 RF). split; reflexivity. }
  pose proof (read_vals_length _ _ _ _ Erv) as Hwl. rewrite map_length in Hwl.
  set (fr' := combine ws (map snd (as_args fr))).
  assert (S2 : stepn (1 + lc + 2) code (boundary pc0 r t vs ps st)
               = MRunning (mk_m (pc0 + 1 + lc + 2) (r1 :: t) vs ps e1 (mk_mio (scr (screen st)) d' [] [fr'] []) false)).
  { rewrite (stepn_add _ _ (1 + lc) 2), (stepn_add _ _ 1 lc), S0, S1. stp N1.
    assert (RF : read_frame (as_args fr) (dat (screen st)) = inl (fr', d')) by (unfold read_frame, as_args; rewrite map_map; cbn [fst]; rewrite Erv; reflexivity).
    erewrite stepn_step by (apply (step_read_ok _ _ _ _ _ _ _ _ _ _ _ _ _ _ _ N2 RF)). rewrite stepn_0.
    do 2 f_equal. lia. }
  assert (Hfl : length fr' = length targets).
  { unfold fr', as_args. rewrite combine_length, !map_length. rewrite <- (map_length snd fr), Hnames, map_length in Hwl |- *. lia. }
  assert (Hfst : map fst fr' = ws).
  { unfold fr'. apply map_fst_combine. unfold as_args. rewrite !map_length. exact Hwl. }
  (* queue the results, pop the frame *)
  pose proof (run_enqueue targets code (pc0 + 1 + lc + 2) (r1 :: t) vs ps e1 d' (scr (screen st)) [] [] fr' [] [] 0 Henq
                ltac:(symmetry; exact Hfl) eq_refl eq_refl) as S3.
  fold le in S3. cbn [app] in S3. rewrite Hfst in S3.
  destruct (run_writeback targets code (pc0 + 1 + lc + 2 + le + 1) r1 t vs ps e1 d' (scr (screen st)) ws [] Hwb
              ltac:(rewrite <- Hfst, map_length; exact Hfl)) as [r2 S4].
  fold lw in S4. rewrite app_nil_r in S4.
  assert (S23 : stepn (1 + lc + 2 + le) code (boundary pc0 r t vs ps st)
                = MRunning (mk_m (pc0 + 1 + lc + 2 + le) (r1 :: t) vs ps e1 (mk_mio (scr (screen st)) d' [] [fr'] ws) false)).
  { rewrite stepn_add, S2. exact S3. }
  assert (S24 : stepn (1 + lc + 2 + le + 1) code (boundary pc0 r t vs ps st)
                = MRunning (mk_m (pc0 + 1 + lc + 2 + le + 1) (r1 :: t) vs ps e1 (mk_mio (scr (screen st)) d' [] [] ws) false)).
  { rewrite stepn_add, S23. stp N3. do 2 f_equal. lia. }
  exists (1 + lc + 2 + le + 1 + lw), r2.
  rewrite stepn_add, S24. 
  transitivity (MRunning (mk_m (pc0 + 1 + lc + 2 + le + 1 + lw) (r2 :: t) vs ps (store_all (map fst targets) ws e1) (mk_mio (scr (screen st)) d' [] [] []) false)); [exact S4|].
  unfold boundary, to_mio. cbn [vars screen scr dat]. rewrite Hnames. do 2 f_equal. lia.
Qed.

End WithNumberText.
