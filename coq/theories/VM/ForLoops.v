(** Compositional correctness of the FOR ... NEXT layout without STEP: bounds converted to the
    counter's type, limit in C, step 1 in D, the body in a register frame of its own. *)
From Coq Require Import List ZArith Bool Lia Floats.SpecFloat.
From RB Require Import Generated.Tables Val.Variant Val.Arith2 Lang.Ast Lang.Sem VM.Instr VM.Gen VM.Machine VM.GenProofs VM.Loops RT.Printer.
Import ListNotations.
Local Open Scope nat_scope.

Lemma code_at_nth : forall frag code pc k i, code_at code pc frag -> nth_error frag k = Some i -> nth_error code (pc + k) = Some i.
Proof.
  intros frag code pc0 k i (pre & post & E & L) H. subst code pc0.
  rewrite nth_error_app2 by lia. replace (length pre + k - length pre) with k by lia.
  rewrite nth_error_app1; [exact H|]. apply nth_error_Some. congruence.
Qed.

Lemma mem_touch e n : mem (touch e n) n = true.
Proof.
  unfold touch. destruct (mem e n) eqn:E; [exact E|]. unfold mem. rewrite existsb_app. cbn.
  assert (H : name_eqb n n = true).
  { unfold name_eqb. destruct n as [b q]. cbn. apply andb_true_iff. split; [|destruct q; reflexivity].
    induction (map up b) as [|x l IH]; cbn; [reflexivity|]. rewrite Z.eqb_refl, IH. reflexivity. }
  rewrite H. apply orb_true_r.
Qed.

Lemma touch_idem e n : touch (touch e n) n = touch e n.
Proof. unfold touch at 1. rewrite mem_touch. reflexivity. Qed.

Lemma mem_assign e n v : mem (assign e n v) n = true.
Proof.
  induction e as [|[k w] t IH]; cbn [assign mem existsb fst].
  - assert (H : name_eqb n n = true).
    { unfold name_eqb. destruct n as [b q]. cbn. apply andb_true_iff. split; [|destruct q; reflexivity].
      induction (map up b) as [|x l IHl]; cbn; [reflexivity|]. rewrite Z.eqb_refl, IHl. reflexivity. }
    rewrite H. reflexivity.
  - destruct (name_eqb k n) eqn:E; cbn [mem existsb fst]; [rewrite E; reflexivity|]. rewrite E. exact IH.
Qed.

Lemma touch_assign e n v : touch (assign e n v) n = assign e n v.
Proof. unfold touch. rewrite mem_assign. reflexivity. Qed.

Section WithNumberText.
Variable num_text : variant -> list Z.
Variable is_negative : variant -> bool.
Notation step := (Machine.step num_text is_negative).
Notation stepn := (GenProofs.stepn num_text is_negative).
Notation exec := (Sem.exec num_text is_negative).
Notation blockf := (Loops.blockf num_text is_negative).
Notation simulates := (Loops.simulates num_text is_negative).

(** a bound converted to the counter's type, as the semantics does it *)
Definition for_conv (q : qual) (e : expr) (st : state) : (variant * state) + outcome :=
  match eval e (vars st) with
  | EErr x q0 => inr (Failed x q0 st)
  | EVal w st' =>
      match convert_to q e w with
      | Ok w' => inl (w', mk_state st' (screen st))
      | Err x => inr (Failed x (epos e) (mk_state st' (screen st)))
      end
  end.

Lemma for_conv_inr q e st o : for_conv q e st = inr o -> exists x q0 s, o = Failed x q0 s.
Proof.
  unfold for_conv. destruct (eval e (vars st)) as [w st'|x q0]; [destruct (convert_to q e w) as [w'|x]|]; intros H; inversion H; eauto.
Qed.

Lemma run_conv : forall code pc0 q e st r t vs ps, etype e <> None ->
  code_at code pc0 (gen_expr_casting e q) ->
  match for_conv q e st with
  | inl (w, st1) => exists b, stepn (length (gen_expr_casting e q)) code (boundary pc0 r t vs ps st)
      = MRunning (boundary (pc0 + length (gen_expr_casting e q)) (mk_regs w b (Machine.rc r) (Machine.rd r)) t vs ps st1)
  | inr (Failed x q0 st') => exists k s', stepn k code (boundary pc0 r t vs ps st) = MError x q0 s' /\ of_mio (mscreen s') = screen st'
  | inr _ => True
  end.
Proof.
  intros code pc0 q e st r t vs ps Ht Hc. unfold for_conv.
  destruct (eval e (vars st)) as [w st1|x q0] eqn:Ev.
  - destruct (convert_to q e w) as [w'|x] eqn:Ec.
    + destruct (casting_value num_text is_negative e q code pc0 r t vs ps (vars st) (to_mio (screen st)) false w st1 w' Hc Ev Ec) as [b Hb].
      exists b. exact Hb.
    + destruct (casting_error num_text is_negative e q code pc0 r t vs ps (vars st) (to_mio (screen st)) false w st1 x Ht Hc Ev Ec)
        as (k & s' & _ & Hs & Hd & _). apply (f_equal of_mio) in Hd; rewrite ?of_to_mio in Hd. exists k, s'. split; assumption.
  - unfold gen_expr_casting in Hc. apply code_at_app_l in Hc.
    destruct (gen_expr_error num_text is_negative e code pc0 r t vs ps (vars st) (to_mio (screen st)) false x q0 Hc Ev)
      as (k & s' & _ & Hs & Hd & _). apply (f_equal of_mio) in Hd; rewrite ?of_to_mio in Hd. exists k, s'. split; assumption.
Qed.

(** the code between the bounds and the body, and after the body *)
Definition for_test (v : name) (p : pos) (out : nat) : list ipos :=
  [(ICopyCToB, p)] ++ gen_load_var v p ++ [(IBin LessOrEqual, p); (IJumpIfFalse (TAddr out), p)].
Definition for_tail (v : name) (p : pos) (l0 : nat) : list ipos :=
  [(IPopRegisters, p)] ++ gen_load_var v p ++ [(ICopyDToB, p); (IBin Plus, p)] ++ gen_store v p ++ [(IJump (TAddr l0), p)].

Lemma stepn_step n code s s' : step code s = MRunning s' -> stepn (S n) code s = stepn n code s'.
Proof. intros H. cbn [GenProofs.stepn]. rewrite H. reflexivity. Qed.

Lemma stepn_0 code s : stepn 0 code s = MRunning s.
Proof. reflexivity. Qed.

Ltac stp Hn :=
  erewrite stepn_step by (unfold Machine.step; cbn [pc]; rewrite Hn; reflexivity);
  unfold next, set_a, set_regs, cur, goto; cbn [rstack ra rb rc rd pc vstack pstack mvars mscreen mskip]; rewrite ?stepn_0.

Ltac stpx Hn He :=
  erewrite stepn_step by (unfold Machine.step; cbn [pc]; rewrite Hn; unfold cur; cbn [rstack ra rb]; rewrite He; reflexivity);
  unfold next, set_a, set_regs, cur, goto; cbn [rstack ra rb rc rd pc vstack pstack mvars mscreen mskip]; rewrite ?stepn_0.

(** the layout; [l0] is the address of the loop label, [out] of the label after the loop *)
Definition for_layout (code : list ipos) (pc0 : nat) (p : pos) (v : name) (lo hi : expr) (lb : nat) : Prop :=
  let q := snd v in
  let la := length (gen_expr_casting lo q) in
  let lh := length (gen_expr_casting hi q) in
  let l0 := pc0 + la + 2 + lh + 3 in
  let out := l0 + 9 + lb + 9 in
  code_at code pc0 (gen_expr_casting lo q ++ gen_store v p ++ gen_expr_casting hi q ++
                    [(ICopyAToC, p); (ILoad (VInteger 1%Z), p); (ICopyAToD, p)]) /\
  (exists l, nth_error code l0 = Some (ILabel l, p)) /\
  code_at code (S l0) (for_test v p out) /\
  (exists l, nth_error code (l0 + 7) = Some (ILabel l, p)) /\
  nth_error code (l0 + 8) = Some (IPushRegisters, p) /\
  code_at code (l0 + 9 + lb) (for_tail v p l0) /\
  (exists l, nth_error code out = Some (ILabel l, p)).

Definition for_len (v : name) (lo hi : expr) (lb : nat) : nat :=
  length (gen_expr_casting lo (snd v)) + 2 + length (gen_expr_casting hi (snd v)) + 3 + 9 + lb + 9 + 1.

(** the loop of [exec (S f) (SFor p v lo hi None body)] once the bounds are known *)
Definition for_loop1 (f : nat) (v : name) (p : pos) (hi_v : variant) (body : list stmt) : nat -> state -> outcome :=
  fix loop (n : nat) (st : state) : outcome :=
    match n with
    | O => OutOfFuel
    | S n' =>
        let e := touch (vars st) v in
        match binop LessOrEqual (lookup e v) hi_v with
        | Err x => Failed x p (mk_state e (screen st))
        | Ok t =>
            match truthy t with
            | Err x => Failed x p (mk_state e (screen st))
            | Ok false => Done (mk_state e (screen st))
            | Ok true =>
                match blockf f body (mk_state e (screen st)) with
                | Done st' =>
                    let e' := touch (vars st') v in
                    match binop Plus (lookup e' v) (VInteger 1) with
                    | Err x => Failed x p (mk_state e' (screen st'))
                    | Ok nv => loop n' (mk_state (assign e' v nv) (screen st'))
                    end
                | o => o
                end
            end
        end
    end.

Lemma for_loop1_S f v p hi_v body n st :
  for_loop1 f v p hi_v body (S n) st =
  let e := touch (vars st) v in
  match binop LessOrEqual (lookup e v) hi_v with
  | Err x => Failed x p (mk_state e (screen st))
  | Ok t =>
      match truthy t with
      | Err x => Failed x p (mk_state e (screen st))
      | Ok false => Done (mk_state e (screen st))
      | Ok true =>
          match blockf f body (mk_state e (screen st)) with
          | Done st' =>
              let e' := touch (vars st') v in
              match binop Plus (lookup e' v) (VInteger 1) with
              | Err x => Failed x p (mk_state e' (screen st'))
              | Ok nv => for_loop1 f v p hi_v body n (mk_state (assign e' v nv) (screen st'))
              end
          | o => o
          end
      end
  end.
Proof. reflexivity. Qed.

Theorem for_correct : forall code pc0 p v lo hi body lb,
  etype lo <> None -> etype hi <> None ->
  for_layout code pc0 p v lo hi lb ->
  (forall f, simulates code (pc0 + length (gen_expr_casting lo (snd v)) + 2 + length (gen_expr_casting hi (snd v)) + 3 + 9) lb (blockf f body)) ->
  forall f, simulates code pc0 (for_len v lo hi lb) (exec f (SFor p v lo hi None body)).
Proof.
  intros code pc0 p v lo hi body lb Htlo Hthi (Hhead & [ll0 Hl0] & Htest & [lb1 Hlb] & Hpush & Htail & [lout Hout]) Hbody.
  set (q := snd v) in *.
  set (la := length (gen_expr_casting lo q)) in *. set (lh := length (gen_expr_casting hi q)) in *.
  set (l0 := pc0 + la + 2 + lh + 3) in *. set (out := l0 + 9 + lb + 9) in *.
  intros f. destruct f as [|f]; [intros st r t vs ps; exact I|].
  intros st r t vs ps. cbn [Sem.exec].
  (* pieces of the head *)
  pose proof (code_at_app_l _ _ _ _ Hhead) as Hlo. pose proof (code_at_app_r _ _ _ _ Hhead) as H1. fold la in H1.
  pose proof (code_at_app_l _ _ _ _ H1) as Hst. pose proof (code_at_app_r _ _ _ _ H1) as H2. cbn [gen_store length] in H2.
  pose proof (code_at_app_l _ _ _ _ H2) as Hhi. pose proof (code_at_app_r _ _ _ _ H2) as H3. fold lh in H3.
  (* lower bound *)
  pose proof (run_conv code pc0 q lo st r t vs ps Htlo Hlo) as C1. unfold for_conv in C1. fold la in C1.
  match goal with |- match (match ?x with inl _ => _ | inr _ => _ end) with _ => _ end => change x with (for_conv q lo st) end.
  unfold for_conv at 1.
  destruct (eval lo (vars st)) as [w0 st0|x q0] eqn:Elo.
  2:{ exact C1. }
  destruct (convert_to q lo w0) as [lo_v|x] eqn:Eclo.
  2:{ exact C1. }
  destruct C1 as [b1 C1].
  (* store the counter *)
  set (st1 := mk_state (assign (touch st0 v) v lo_v) (screen st)).
  assert (S2 : stepn (la + 2) code (boundary pc0 r t vs ps st)
               = MRunning (boundary (pc0 + la + 2) (mk_regs lo_v b1 (Machine.rc r) (Machine.rd r)) t vs ps st1)).
  { rewrite stepn_add, C1. unfold gen_store in Hst.
    assert (N1 : nth_error code (pc0 + la) = Some (IVarPathName v, p)) by (replace (pc0 + la) with (pc0 + la + 0) by lia; apply (code_at_nth _ _ _ 0 _ Hst); reflexivity).
    assert (N2 : nth_error code (S (pc0 + la)) = Some (ICopyAToVarPath, p)) by (replace (S (pc0 + la)) with (pc0 + la + 1) by lia; apply (code_at_nth _ _ _ 1 _ Hst); reflexivity).
    unfold boundary at 1. cbn [vars screen]. stp N1. stp N2.
    unfold boundary, st1. cbn [vars screen]. do 2 f_equal. lia. }
  (* upper bound *)
  pose proof (run_conv code (pc0 + la + 2) q hi st1 (mk_regs lo_v b1 (Machine.rc r) (Machine.rd r)) t vs ps Hthi Hhi) as C2.
  fold lh in C2. cbn [Machine.rc Machine.rd] in C2.
  match goal with |- match (match ?x with inl _ => _ | inr _ => _ end) with _ => _ end => change x with (for_conv q hi st1) end.
  destruct (for_conv q hi st1) as [[hi_v st2]|o] eqn:Ehi.
  2:{ destruct o as [s|x q0 s|q0 s|]; try (unfold for_conv in Ehi; destruct (eval hi (vars st1)); [destruct (convert_to q hi v0)|]; discriminate).
      destruct C2 as (k & s' & Hk & Hd). exists (la + 2 + k), s'. split; [|exact Hd]. rewrite stepn_add, S2. exact Hk. }
  destruct C2 as [b2 C2].
  (* limit to C, step 1 to D, the loop label *)
  assert (S3 : stepn (la + 2 + lh + 3 + 1) code (boundary pc0 r t vs ps st)
               = MRunning (boundary (S l0) (mk_regs (VInteger 1%Z) b2 hi_v (VInteger 1%Z)) t vs ps st2)).
  { rewrite (stepn_add _ _ (la + 2 + lh + 3) 1), (stepn_add _ _ (la + 2 + lh) 3), (stepn_add _ _ (la + 2) lh), S2, C2.
    assert (N1 : nth_error code (pc0 + la + 2 + lh) = Some (ICopyAToC, p)) by (replace (pc0 + la + 2 + lh) with (pc0 + la + 2 + lh + 0) by lia; apply (code_at_nth _ _ _ 0 _ H3); reflexivity).
    assert (N2 : nth_error code (S (pc0 + la + 2 + lh)) = Some (ILoad (VInteger 1%Z), p)) by (replace (S (pc0 + la + 2 + lh)) with (pc0 + la + 2 + lh + 1) by lia; apply (code_at_nth _ _ _ 1 _ H3); reflexivity).
    assert (N3 : nth_error code (S (S (pc0 + la + 2 + lh))) = Some (ICopyAToD, p)) by (replace (S (S (pc0 + la + 2 + lh))) with (pc0 + la + 2 + lh + 2) by lia; apply (code_at_nth _ _ _ 2 _ H3); reflexivity).
    unfold boundary at 1. stp N1. stp N2. stp N3.
    replace (S (S (S (pc0 + la + 2 + lh)))) with l0 by (unfold l0; lia). stp Hl0. reflexivity. }
  (* NotEqual step 0 is true for step 1; the sign test gives "not negative" *)
  replace (binop NotEqual (VInteger 1) (VInteger 0)) with (Ok (VInteger (-1))) by reflexivity. cbv iota beta.
  replace (truthy (VInteger (-1))) with (Ok true) by reflexivity. cbv iota beta.
  replace (truthy (of_bool false)) with (Ok false) by reflexivity.
  (* the loop, from the instruction after the loop label *)
  assert (Loop : forall n s3 rr, Machine.rc rr = hi_v -> Machine.rd rr = VInteger 1%Z ->
    match for_loop1 f v p hi_v body n s3 with
    | Done st' => exists k r', stepn k code (boundary (S l0) rr t vs ps s3) = MRunning (boundary (S out) r' t vs ps st')
    | Failed x q0 st' => exists k s', stepn k code (boundary (S l0) rr t vs ps s3) = MError x q0 s' /\ of_mio (mscreen s') = screen st'
    | StepZero q0 st' => exists k s', stepn k code (boundary (S l0) rr t vs ps s3) = MStepZero q0 s' /\ of_mio (mscreen s') = screen st'
    | OutOfFuel => True
    end).
  { unfold for_test, gen_load_var in Htest. cbn [app] in Htest.
    assert (T0 : nth_error code (S l0) = Some (ICopyCToB, p)) by (replace (S l0) with (S l0 + 0) by lia; apply (code_at_nth _ _ _ 0 _ Htest); reflexivity).
    assert (T1 : nth_error code (S (S l0)) = Some (IVarPathName v, p)) by (replace (S (S l0)) with (S l0 + 1) by lia; apply (code_at_nth _ _ _ 1 _ Htest); reflexivity).
    assert (T2 : nth_error code (S (S (S l0))) = Some (ICopyVarPathToA, p)) by (replace (S (S (S l0))) with (S l0 + 2) by lia; apply (code_at_nth _ _ _ 2 _ Htest); reflexivity).
    assert (T3 : nth_error code (S (S (S (S l0)))) = Some (IPopVarPath, p)) by (replace (S (S (S (S l0)))) with (S l0 + 3) by lia; apply (code_at_nth _ _ _ 3 _ Htest); reflexivity).
    assert (T4 : nth_error code (S (S (S (S (S l0))))) = Some (IBin LessOrEqual, p)) by (replace (S (S (S (S (S l0))))) with (S l0 + 4) by lia; apply (code_at_nth _ _ _ 4 _ Htest); reflexivity).
    assert (T5 : nth_error code (S (S (S (S (S (S l0)))))) = Some (IJumpIfFalse (TAddr out), p)) by (replace (S (S (S (S (S (S l0)))))) with (S l0 + 5) by lia; apply (code_at_nth _ _ _ 5 _ Htest); reflexivity).
    unfold for_tail, gen_load_var, gen_store in Htail. cbn [app] in Htail.
    set (tl0 := l0 + 9 + lb) in *.
    assert (U0 : nth_error code tl0 = Some (IPopRegisters, p)) by (replace tl0 with (tl0 + 0) by lia; apply (code_at_nth _ _ _ 0 _ Htail); reflexivity).
    assert (U1 : nth_error code (S tl0) = Some (IVarPathName v, p)) by (replace (S tl0) with (tl0 + 1) by lia; apply (code_at_nth _ _ _ 1 _ Htail); reflexivity).
    assert (U2 : nth_error code (S (S tl0)) = Some (ICopyVarPathToA, p)) by (replace (S (S tl0)) with (tl0 + 2) by lia; apply (code_at_nth _ _ _ 2 _ Htail); reflexivity).
    assert (U3 : nth_error code (S (S (S tl0))) = Some (IPopVarPath, p)) by (replace (S (S (S tl0))) with (tl0 + 3) by lia; apply (code_at_nth _ _ _ 3 _ Htail); reflexivity).
    assert (U4 : nth_error code (S (S (S (S tl0)))) = Some (ICopyDToB, p)) by (replace (S (S (S (S tl0)))) with (tl0 + 4) by lia; apply (code_at_nth _ _ _ 4 _ Htail); reflexivity).
    assert (U5 : nth_error code (S (S (S (S (S tl0))))) = Some (IBin Plus, p)) by (replace (S (S (S (S (S tl0))))) with (tl0 + 5) by lia; apply (code_at_nth _ _ _ 5 _ Htail); reflexivity).
    assert (U6 : nth_error code (S (S (S (S (S (S tl0)))))) = Some (IVarPathName v, p)) by (replace (S (S (S (S (S (S tl0)))))) with (tl0 + 6) by lia; apply (code_at_nth _ _ _ 6 _ Htail); reflexivity).
    assert (U7 : nth_error code (S (S (S (S (S (S (S tl0))))))) = Some (ICopyAToVarPath, p)) by (replace (S (S (S (S (S (S (S tl0))))))) with (tl0 + 7) by lia; apply (code_at_nth _ _ _ 7 _ Htail); reflexivity).
    assert (U8 : nth_error code (S (S (S (S (S (S (S (S tl0)))))))) = Some (IJump (TAddr l0), p)) by (replace (S (S (S (S (S (S (S (S tl0)))))))) with (tl0 + 8) by lia; apply (code_at_nth _ _ _ 8 _ Htail); reflexivity).
    induction n as [|n IHn]; intros s3 rr Hrc Hrd; [exact I|].
    rewrite for_loop1_S. cbv zeta.
    set (e3 := touch (vars s3) v).
    (* the six instructions of the test *)
    destruct rr as [xa xb xc xd]. cbn [Machine.rc Machine.rd] in Hrc, Hrd. subst xc xd.
    destruct (binop LessOrEqual (lookup e3 v) hi_v) as [t0|x] eqn:Eb.
    2:{ eexists 5, _. unfold boundary at 1.
        stp T0. stp T1. stp T2. stp T3.
        rewrite stepn_one. unfold Machine.step. cbn [pc]. rewrite T4. unfold cur. cbn [rstack ra rb]. fold e3. rewrite Eb. split; [reflexivity|apply of_to_mio]. }
    assert (R6 : stepn 5 code (boundary (S l0) (mk_regs xa xb hi_v (VInteger 1%Z)) t vs ps s3)
                 = MRunning (mk_m (S (S (S (S (S (S l0)))))) (mk_regs t0 hi_v hi_v (VInteger 1%Z) :: t) vs ps e3 (to_mio (screen s3)) false)).
    { unfold boundary at 1.
      stp T0. stp T1. stp T2. stp T3.
      fold e3. stpx T4 Eb. reflexivity. }
    destruct (truthy t0) as [[|]|x] eqn:Tt.
    - (* into the body *)
      assert (R8 : stepn 8 code (boundary (S l0) (mk_regs xa xb hi_v (VInteger 1%Z)) t vs ps s3)
                   = MRunning (boundary (l0 + 9) regs0 (mk_regs t0 hi_v hi_v (VInteger 1%Z) :: t) vs ps (mk_state e3 (screen s3)))).
      { change 8 with (5 + 3) at 1. rewrite stepn_add, R6. stpx T5 Tt.
        replace (S (S (S (S (S (S (S l0))))))) with (l0 + 7) by lia. stp Hlb.
        replace (S (l0 + 7)) with (l0 + 8) by lia. stp Hpush.
        unfold boundary. cbn [vars screen]. do 2 f_equal. lia. }
      specialize (Hbody f (mk_state e3 (screen s3)) regs0 (mk_regs t0 hi_v hi_v (VInteger 1%Z) :: t) vs ps).
      replace (pc0 + length (gen_expr_casting lo (snd v)) + 2 + length (gen_expr_casting hi (snd v)) + 3 + 9) with (l0 + 9) in Hbody by (unfold l0, la, lh, q; lia).
      destruct (blockf f body (mk_state e3 (screen s3))) as [s4|x q0 s4|q0 s4|] eqn:Eblk.
      + destruct Hbody as (k & r4 & Hk). fold tl0 in Hk.
        set (e4 := touch (vars s4) v).
        destruct (binop Plus (lookup e4 v) (VInteger 1)) as [nv|x] eqn:Ep.
        * (* increment, store, jump back, loop label *)
          assert (R9 : stepn (8 + k + 10) code (boundary (S l0) (mk_regs xa xb hi_v (VInteger 1%Z)) t vs ps s3)
                       = MRunning (boundary (S l0) (mk_regs nv (VInteger 1%Z) hi_v (VInteger 1%Z)) t vs ps (mk_state (assign e4 v nv) (screen s4)))).
          { rewrite (stepn_add _ _ (8 + k) 10), (stepn_add _ _ 8 k), R8, Hk.
            unfold boundary at 1. stp U0. stp U1. stp U2. fold e4. stp U3. stp U4.
            stpx U5 Ep.
            stp U6. stp U7. unfold e4 at 1; rewrite touch_idem; fold e4. stp U8. stp Hl0. reflexivity. }
          specialize (IHn (mk_state (assign e4 v nv) (screen s4)) (mk_regs nv (VInteger 1%Z) hi_v (VInteger 1%Z)) eq_refl eq_refl).
          destruct (for_loop1 f v p hi_v body n (mk_state (assign e4 v nv) (screen s4))) as [s5|x q0 s5|q0 s5|].
          -- destruct IHn as (k2 & r5 & H5). exists (8 + k + 10 + k2), r5. rewrite stepn_add, R9. exact H5.
          -- destruct IHn as (k2 & s' & H5 & Hd). exists (8 + k + 10 + k2), s'. split; [|exact Hd]. rewrite stepn_add, R9. exact H5.
          -- destruct IHn as (k2 & s' & H5 & Hd). exists (8 + k + 10 + k2), s'. split; [|exact Hd]. rewrite stepn_add, R9. exact H5.
          -- exact I.
        * eexists (8 + k + 6), _. rewrite (stepn_add _ _ (8 + k) 6), (stepn_add _ _ 8 k), R8, Hk.
          unfold boundary at 1. stp U0. stp U1. stp U2. fold e4. stp U3. stp U4.
          rewrite stepn_one. unfold Machine.step at 1. cbn [pc]. rewrite U5. unfold cur. cbn [rstack ra rb]. rewrite Ep. split; [reflexivity|apply of_to_mio].
      + destruct Hbody as (k & s' & Hk & Hd). exists (8 + k), s'. split; [|exact Hd]. rewrite stepn_add, R8. exact Hk.
      + destruct Hbody as (k & s' & Hk & Hd). exists (8 + k), s'. split; [|exact Hd]. rewrite stepn_add, R8. exact Hk.
      + exact I.
    - (* the loop is over: jump to the label after it *)
      exists (5 + 2), (mk_regs t0 hi_v hi_v (VInteger 1%Z)). rewrite stepn_add, R6.
      stpx T5 Tt. stp Hout. reflexivity.
    - eexists (5 + 1), _. rewrite stepn_add, R6.
      rewrite stepn_one. unfold Machine.step at 1. cbn [pc]. rewrite T5. unfold cur. cbn [rstack ra]. rewrite Tt. split; [reflexivity|apply of_to_mio]. }
  specialize (Loop f st2 (mk_regs (VInteger 1%Z) b2 hi_v (VInteger 1%Z)) eq_refl eq_refl).
  match goal with |- match ?L f ?S with _ => _ end => change L with (for_loop1 f v p hi_v body) end.
  destruct (for_loop1 f v p hi_v body f st2) as [s5|x q0 s5|q0 s5|].
  - destruct Loop as (k & r5 & H5). exists (la + 2 + lh + 3 + 1 + k), r5. rewrite stepn_add, S3, H5.
    do 2 f_equal. unfold out, l0, for_len, la, lh, q. lia.
  - destruct Loop as (k & s' & H5 & Hd). exists (la + 2 + lh + 3 + 1 + k), s'. split; [|exact Hd]. rewrite stepn_add, S3. exact H5.
  - destruct Loop as (k & s' & H5 & Hd). exists (la + 2 + lh + 3 + 1 + k), s'. split; [|exact Hd]. rewrite stepn_add, S3. exact H5.
  - exact I.
Qed.


(** ** FOR with STEP: the sign of the step is tested at run time in every iteration *)
Definition for_loop2 (f : nat) (v : name) (p : pos) (hi_v step_v : variant) (body : list stmt) : nat -> state -> outcome :=
  fix loop (n : nat) (st : state) : outcome :=
    match n with
    | O => OutOfFuel
    | S n' =>
        let e := touch (vars st) v in
        match binop Less step_v (VInteger 0) with
        | Err x => Failed x p (mk_state e (screen st))
        | Ok negv =>
            match truthy negv with
            | Err x => Failed x p (mk_state e (screen st))
            | Ok isneg =>
                match binop (if isneg then GreaterOrEqual else LessOrEqual) (lookup e v) hi_v with
                | Err x => Failed x p (mk_state e (screen st))
                | Ok t =>
                    match truthy t with
                    | Err x => Failed x p (mk_state e (screen st))
                    | Ok false => Done (mk_state e (screen st))
                    | Ok true =>
                        match blockf f body (mk_state e (screen st)) with
                        | Done st' =>
                            let e' := touch (vars st') v in
                            match binop Plus (lookup e' v) step_v with
                            | Err x => Failed x p (mk_state e' (screen st'))
                            | Ok nv => loop n' (mk_state (assign e' v nv) (screen st'))
                            end
                        | o => o
                        end
                    end
                end
            end
        end
    end.

Lemma for_loop2_S f v p hi_v step_v body n st :
  for_loop2 f v p hi_v step_v body (S n) st =
  let e := touch (vars st) v in
  match binop Less step_v (VInteger 0) with
  | Err x => Failed x p (mk_state e (screen st))
  | Ok negv =>
      match truthy negv with
      | Err x => Failed x p (mk_state e (screen st))
      | Ok isneg =>
          match binop (if isneg then GreaterOrEqual else LessOrEqual) (lookup e v) hi_v with
          | Err x => Failed x p (mk_state e (screen st))
          | Ok t =>
              match truthy t with
              | Err x => Failed x p (mk_state e (screen st))
              | Ok false => Done (mk_state e (screen st))
              | Ok true =>
                  match blockf f body (mk_state e (screen st)) with
                  | Done st' =>
                      let e' := touch (vars st') v in
                      match binop Plus (lookup e' v) step_v with
                      | Err x => Failed x p (mk_state e' (screen st'))
                      | Ok nv => for_loop2 f v p hi_v step_v body n (mk_state (assign e' v nv) (screen st'))
                      end
                  | o => o
                  end
              end
          end
      end
  end.
Proof. reflexivity. Qed.

Definition for_sign (v : name) (p : pos) (l0 out : nat) : list ipos :=
  [(ILoad (VInteger 0%Z), p); (ICopyAToB, p); (ICopyDToA, p); (IBin Less, p); (IJumpIfFalse (TAddr (l0 + 13)), p); (ICopyCToB, p)] ++
  gen_load_var v p ++ [(IBin GreaterOrEqual, p); (IJumpIfFalse (TAddr out), p); (IJump (TAddr (l0 + 20)), p)].

Definition for_step_layout (code : list ipos) (pc0 : nat) (p : pos) (v : name) (lo hi se : expr) (lb : nat) : Prop :=
  let q := snd v in
  let la := length (gen_expr_casting lo q) in
  let lh := length (gen_expr_casting hi q) in
  let ls := length (gen_expr_casting se q) in
  let l0 := pc0 + la + 2 + lh + 1 + ls + 6 in
  let kz := l0 + 22 + lb + 10 in
  let out := l0 + 22 + lb + 12 in
  code_at code pc0 (gen_expr_casting lo q ++ gen_store v p ++ gen_expr_casting hi q ++ [(ICopyAToC, p)] ++ gen_expr_casting se q ++
                    [(ICopyAToD, p); (ILoad (VInteger 0%Z), p); (ICopyAToB, p); (ICopyDToA, p); (IBin NotEqual, p); (IJumpIfFalse (TAddr kz), p)]) /\
  (exists l, nth_error code l0 = Some (ILabel l, p)) /\
  code_at code (S l0) (for_sign v p l0 out) /\
  (exists l, nth_error code (l0 + 13) = Some (ILabel l, p)) /\
  code_at code (l0 + 14) (for_test v p out) /\
  (exists l, nth_error code (l0 + 20) = Some (ILabel l, p)) /\
  nth_error code (l0 + 21) = Some (IPushRegisters, p) /\
  code_at code (l0 + 22 + lb) (for_tail v p l0) /\
  (exists l, nth_error code kz = Some (ILabel l, p)) /\
  nth_error code (S kz) = Some (IThrowZeroStep, epos se) /\
  (exists l, nth_error code out = Some (ILabel l, p)).

Definition for_step_len (v : name) (lo hi se : expr) (lb : nat) : nat :=
  length (gen_expr_casting lo (snd v)) + 2 + length (gen_expr_casting hi (snd v)) + 1 + length (gen_expr_casting se (snd v)) + 6 + 22 + lb + 13.

Theorem for_step_correct : forall code pc0 p v lo hi se body lb,
  etype lo <> None -> etype hi <> None -> etype se <> None ->
  for_step_layout code pc0 p v lo hi se lb ->
  (forall f, simulates code (pc0 + length (gen_expr_casting lo (snd v)) + 2 + length (gen_expr_casting hi (snd v)) + 1 + length (gen_expr_casting se (snd v)) + 6 + 22) lb (blockf f body)) ->
  forall f, simulates code pc0 (for_step_len v lo hi se lb) (exec f (SFor p v lo hi (Some se) body)).
Proof.
  intros code pc0 p v lo hi se body lb Htlo Hthi Htse
    (Hhead & [ll0 Hl0] & Hsign & [lpos Hpos] & Htest & [lb1 Hlb] & Hpush & Htail & [lkz Hkz] & Hthrow & [lout Hout]) Hbody.
  set (q := snd v) in *.
  set (la := length (gen_expr_casting lo q)) in *. set (lh := length (gen_expr_casting hi q)) in *. set (ls := length (gen_expr_casting se q)) in *.
  set (l0 := pc0 + la + 2 + lh + 1 + ls + 6) in *. set (kz := l0 + 22 + lb + 10) in *. set (out := l0 + 22 + lb + 12) in *.
  intros f. destruct f as [|f]; [intros st r t vs ps; exact I|].
  intros st r t vs ps. cbn [Sem.exec].
  pose proof (code_at_app_l _ _ _ _ Hhead) as Hlo. pose proof (code_at_app_r _ _ _ _ Hhead) as H1. fold la in H1.
  pose proof (code_at_app_l _ _ _ _ H1) as Hst. pose proof (code_at_app_r _ _ _ _ H1) as H2. cbn [gen_store length] in H2.
  pose proof (code_at_app_l _ _ _ _ H2) as Hhi. pose proof (code_at_app_r _ _ _ _ H2) as H3. fold lh in H3.
  pose proof (code_at_app_l _ _ _ _ H3) as Hcc. pose proof (code_at_app_r _ _ _ _ H3) as H4. cbn [length] in H4.
  pose proof (code_at_app_l _ _ _ _ H4) as Hse. pose proof (code_at_app_r _ _ _ _ H4) as H5. fold ls in H5.
  (* lower bound *)
  pose proof (run_conv code pc0 q lo st r t vs ps Htlo Hlo) as C1. unfold for_conv in C1. fold la in C1.
  match goal with |- match (match ?x with inl _ => _ | inr _ => _ end) with _ => _ end => change x with (for_conv q lo st) end.
  unfold for_conv at 1.
  destruct (eval lo (vars st)) as [w0 st0|x q0] eqn:Elo.
  2:{ exact C1. }
  destruct (convert_to q lo w0) as [lo_v|x] eqn:Eclo.
  2:{ exact C1. }
  destruct C1 as [b1 C1].
  set (st1 := mk_state (assign (touch st0 v) v lo_v) (screen st)).
  assert (S2 : stepn (la + 2) code (boundary pc0 r t vs ps st)
               = MRunning (boundary (pc0 + la + 2) (mk_regs lo_v b1 (Machine.rc r) (Machine.rd r)) t vs ps st1)).
  { rewrite stepn_add, C1. unfold gen_store in Hst.
    assert (N1 : nth_error code (pc0 + la) = Some (IVarPathName v, p)) by (replace (pc0 + la) with (pc0 + la + 0) by lia; apply (code_at_nth _ _ _ 0 _ Hst); reflexivity).
    assert (N2 : nth_error code (S (pc0 + la)) = Some (ICopyAToVarPath, p)) by (replace (S (pc0 + la)) with (pc0 + la + 1) by lia; apply (code_at_nth _ _ _ 1 _ Hst); reflexivity).
    unfold boundary at 1. cbn [vars screen]. stp N1. stp N2.
    unfold boundary, st1. cbn [vars screen]. first [reflexivity | do 2 f_equal; lia]. }
  (* upper bound *)
  pose proof (run_conv code (pc0 + la + 2) q hi st1 (mk_regs lo_v b1 (Machine.rc r) (Machine.rd r)) t vs ps Hthi Hhi) as C2.
  fold lh in C2. cbn [Machine.rc Machine.rd] in C2.
  match goal with |- match (match ?x with inl _ => _ | inr _ => _ end) with _ => _ end => change x with (for_conv q hi st1) end.
  destruct (for_conv q hi st1) as [[hi_v st2]|o] eqn:Ehi.
  2:{ destruct (for_conv_inr _ _ _ _ Ehi) as (x & q0 & s & ->).
      destruct C2 as (k & s' & Hk & Hd). exists (la + 2 + k), s'. split; [|exact Hd]. rewrite stepn_add, S2. exact Hk. }
  destruct C2 as [b2 C2].
  assert (S3 : stepn (la + 2 + lh + 1) code (boundary pc0 r t vs ps st)
               = MRunning (boundary (pc0 + la + 2 + lh + 1) (mk_regs hi_v b2 hi_v (Machine.rd r)) t vs ps st2)).
  { rewrite (stepn_add _ _ (la + 2 + lh) 1), (stepn_add _ _ (la + 2) lh), S2, C2.
    assert (N1 : nth_error code (pc0 + la + 2 + lh) = Some (ICopyAToC, p)) by (replace (pc0 + la + 2 + lh) with (pc0 + la + 2 + lh + 0) by lia; apply (code_at_nth _ _ _ 0 _ Hcc); reflexivity).
    unfold boundary at 1. stp N1. first [reflexivity | unfold boundary; do 2 f_equal; lia]. }
  (* the step *)
  pose proof (run_conv code (pc0 + la + 2 + lh + 1) q se st2 (mk_regs hi_v b2 hi_v (Machine.rd r)) t vs ps Htse Hse) as C3.
  fold ls in C3. cbn [Machine.rc Machine.rd] in C3.
  match goal with |- match (match ?x with inl _ => _ | inr _ => _ end) with _ => _ end => change x with (for_conv q se st2) end.
  destruct (for_conv q se st2) as [[step_v st3]|o] eqn:Ese.
  2:{ destruct (for_conv_inr _ _ _ _ Ese) as (x & q0 & s & ->).
      destruct C3 as (k & s' & Hk & Hd). exists (la + 2 + lh + 1 + k), s'. split; [|exact Hd]. rewrite stepn_add, S3. exact Hk. }
  destruct C3 as [b3 C3].
  set (hd := pc0 + la + 2 + lh + 1 + ls) in *.
    assert (D0 : nth_error code (hd) = Some (ICopyAToD, p)) by (replace hd with (hd + 0) by lia; apply (code_at_nth _ _ _ 0 _ H5); reflexivity).
    assert (D1 : nth_error code (S hd) = Some (ILoad (VInteger 0%Z), p)) by (replace (S hd) with (hd + 1) by lia; apply (code_at_nth _ _ _ 1 _ H5); reflexivity).
    assert (D2 : nth_error code (S (S hd)) = Some (ICopyAToB, p)) by (replace (S (S hd)) with (hd + 2) by lia; apply (code_at_nth _ _ _ 2 _ H5); reflexivity).
    assert (D3 : nth_error code (S (S (S hd))) = Some (ICopyDToA, p)) by (replace (S (S (S hd))) with (hd + 3) by lia; apply (code_at_nth _ _ _ 3 _ H5); reflexivity).
    assert (D4 : nth_error code (S (S (S (S hd)))) = Some (IBin NotEqual, p)) by (replace (S (S (S (S hd)))) with (hd + 4) by lia; apply (code_at_nth _ _ _ 4 _ H5); reflexivity).
    assert (D5 : nth_error code (S (S (S (S (S hd))))) = Some (IJumpIfFalse (TAddr kz), p)) by (replace (S (S (S (S (S hd))))) with (hd + 5) by lia; apply (code_at_nth _ _ _ 5 _ H5); reflexivity).
  assert (S4 : stepn (la + 2 + lh + 1 + ls + 4) code (boundary pc0 r t vs ps st)
               = MRunning (boundary (S (S (S (S hd)))) (mk_regs step_v (VInteger 0%Z) hi_v step_v) t vs ps st3)).
  { rewrite (stepn_add _ _ (la + 2 + lh + 1 + ls) 4), (stepn_add _ _ (la + 2 + lh + 1) ls), S3, C3.
    unfold boundary at 1. fold hd. stp D0. stp D1. stp D2. stp D3. first [reflexivity | unfold boundary; do 2 f_equal; lia]. }
  destruct (binop NotEqual step_v (VInteger 0)) as [nz|x] eqn:Enz.
  2:{ eexists (la + 2 + lh + 1 + ls + 4 + 1), _. rewrite stepn_add, S4. unfold boundary at 1.
      rewrite stepn_one. unfold Machine.step. cbn [pc]. rewrite D4. unfold cur. cbn [rstack ra rb]. rewrite Enz. split; [reflexivity|apply of_to_mio]. }
  assert (S5 : stepn (la + 2 + lh + 1 + ls + 5) code (boundary pc0 r t vs ps st)
               = MRunning (boundary (S (S (S (S (S hd))))) (mk_regs nz (VInteger 0%Z) hi_v step_v) t vs ps st3)).
  { change 5 with (4 + 1) at 1. rewrite Nat.add_assoc, stepn_add, S4. unfold boundary at 1. stpx D4 Enz. first [reflexivity | unfold boundary; do 2 f_equal; lia]. }
  destruct (truthy nz) as [[|]|x] eqn:Tnz.
  3:{ eexists (la + 2 + lh + 1 + ls + 5 + 1), _. rewrite stepn_add, S5. unfold boundary at 1.
      rewrite stepn_one. unfold Machine.step. cbn [pc]. rewrite D5. unfold cur. cbn [rstack ra rb]. rewrite Tnz. split; [reflexivity|apply of_to_mio]. }
  2:{ (* a zero step *)
      eexists (la + 2 + lh + 1 + ls + 5 + 3), _. rewrite stepn_add, S5. unfold boundary at 1.
      stpx D5 Tnz. stp Hkz.
      rewrite stepn_one. unfold Machine.step. cbn [pc]. rewrite Hthrow. split; [reflexivity|apply of_to_mio]. }
  assert (S6 : stepn (la + 2 + lh + 1 + ls + 5 + 2) code (boundary pc0 r t vs ps st)
               = MRunning (boundary (S l0) (mk_regs nz (VInteger 0%Z) hi_v step_v) t vs ps st3)).
  { rewrite stepn_add, S5. unfold boundary at 1. stpx D5 Tnz.
    replace (S (S (S (S (S (S hd)))))) with l0 by (unfold l0, hd; lia). stp Hl0. reflexivity. }
  (* the loop *)
  assert (Loop : forall n s3 rr, Machine.rc rr = hi_v -> Machine.rd rr = step_v ->
    match for_loop2 f v p hi_v step_v body n s3 with
    | Done st' => exists k r', stepn k code (boundary (S l0) rr t vs ps s3) = MRunning (boundary (S out) r' t vs ps st')
    | Failed x q0 st' => exists k s', stepn k code (boundary (S l0) rr t vs ps s3) = MError x q0 s' /\ of_mio (mscreen s') = screen st'
    | StepZero q0 st' => exists k s', stepn k code (boundary (S l0) rr t vs ps s3) = MStepZero q0 s' /\ of_mio (mscreen s') = screen st'
    | OutOfFuel => True
    end).
  { unfold for_sign, gen_load_var in Hsign. cbn [app] in Hsign.
    unfold for_test, gen_load_var in Htest. cbn [app] in Htest.
    unfold for_tail, gen_load_var, gen_store in Htail. cbn [app] in Htail.
    set (sl := S l0) in *. set (tt := l0 + 14) in *. set (tl0 := l0 + 22 + lb) in *.
    assert (G0 : nth_error code (sl) = Some (ILoad (VInteger 0%Z), p)) by (replace sl with (sl + 0) by lia; apply (code_at_nth _ _ _ 0 _ Hsign); reflexivity).
    assert (G1 : nth_error code (S sl) = Some (ICopyAToB, p)) by (replace (S sl) with (sl + 1) by lia; apply (code_at_nth _ _ _ 1 _ Hsign); reflexivity).
    assert (G2 : nth_error code (S (S sl)) = Some (ICopyDToA, p)) by (replace (S (S sl)) with (sl + 2) by lia; apply (code_at_nth _ _ _ 2 _ Hsign); reflexivity).
    assert (G3 : nth_error code (S (S (S sl))) = Some (IBin Less, p)) by (replace (S (S (S sl))) with (sl + 3) by lia; apply (code_at_nth _ _ _ 3 _ Hsign); reflexivity).
    assert (G4 : nth_error code (S (S (S (S sl)))) = Some (IJumpIfFalse (TAddr (l0 + 13)), p)) by (replace (S (S (S (S sl)))) with (sl + 4) by lia; apply (code_at_nth _ _ _ 4 _ Hsign); reflexivity).
    assert (G5 : nth_error code (S (S (S (S (S sl))))) = Some (ICopyCToB, p)) by (replace (S (S (S (S (S sl))))) with (sl + 5) by lia; apply (code_at_nth _ _ _ 5 _ Hsign); reflexivity).
    assert (G6 : nth_error code (S (S (S (S (S (S sl)))))) = Some (IVarPathName v, p)) by (replace (S (S (S (S (S (S sl)))))) with (sl + 6) by lia; apply (code_at_nth _ _ _ 6 _ Hsign); reflexivity).
    assert (G7 : nth_error code (S (S (S (S (S (S (S sl))))))) = Some (ICopyVarPathToA, p)) by (replace (S (S (S (S (S (S (S sl))))))) with (sl + 7) by lia; apply (code_at_nth _ _ _ 7 _ Hsign); reflexivity).
    assert (G8 : nth_error code (S (S (S (S (S (S (S (S sl)))))))) = Some (IPopVarPath, p)) by (replace (S (S (S (S (S (S (S (S sl)))))))) with (sl + 8) by lia; apply (code_at_nth _ _ _ 8 _ Hsign); reflexivity).
    assert (G9 : nth_error code (S (S (S (S (S (S (S (S (S sl))))))))) = Some (IBin GreaterOrEqual, p)) by (replace (S (S (S (S (S (S (S (S (S sl))))))))) with (sl + 9) by lia; apply (code_at_nth _ _ _ 9 _ Hsign); reflexivity).
    assert (G10 : nth_error code (S (S (S (S (S (S (S (S (S (S sl)))))))))) = Some (IJumpIfFalse (TAddr out), p)) by (replace (S (S (S (S (S (S (S (S (S (S sl)))))))))) with (sl + 10) by lia; apply (code_at_nth _ _ _ 10 _ Hsign); reflexivity).
    assert (G11 : nth_error code (S (S (S (S (S (S (S (S (S (S (S sl))))))))))) = Some (IJump (TAddr (l0 + 20)), p)) by (replace (S (S (S (S (S (S (S (S (S (S (S sl))))))))))) with (sl + 11) by lia; apply (code_at_nth _ _ _ 11 _ Hsign); reflexivity).
    assert (T0 : nth_error code (tt) = Some (ICopyCToB, p)) by (replace tt with (tt + 0) by lia; apply (code_at_nth _ _ _ 0 _ Htest); reflexivity).
    assert (T1 : nth_error code (S tt) = Some (IVarPathName v, p)) by (replace (S tt) with (tt + 1) by lia; apply (code_at_nth _ _ _ 1 _ Htest); reflexivity).
    assert (T2 : nth_error code (S (S tt)) = Some (ICopyVarPathToA, p)) by (replace (S (S tt)) with (tt + 2) by lia; apply (code_at_nth _ _ _ 2 _ Htest); reflexivity).
    assert (T3 : nth_error code (S (S (S tt))) = Some (IPopVarPath, p)) by (replace (S (S (S tt))) with (tt + 3) by lia; apply (code_at_nth _ _ _ 3 _ Htest); reflexivity).
    assert (T4 : nth_error code (S (S (S (S tt)))) = Some (IBin LessOrEqual, p)) by (replace (S (S (S (S tt)))) with (tt + 4) by lia; apply (code_at_nth _ _ _ 4 _ Htest); reflexivity).
    assert (T5 : nth_error code (S (S (S (S (S tt))))) = Some (IJumpIfFalse (TAddr out), p)) by (replace (S (S (S (S (S tt))))) with (tt + 5) by lia; apply (code_at_nth _ _ _ 5 _ Htest); reflexivity).
    assert (U0 : nth_error code (tl0) = Some (IPopRegisters, p)) by (replace tl0 with (tl0 + 0) by lia; apply (code_at_nth _ _ _ 0 _ Htail); reflexivity).
    assert (U1 : nth_error code (S tl0) = Some (IVarPathName v, p)) by (replace (S tl0) with (tl0 + 1) by lia; apply (code_at_nth _ _ _ 1 _ Htail); reflexivity).
    assert (U2 : nth_error code (S (S tl0)) = Some (ICopyVarPathToA, p)) by (replace (S (S tl0)) with (tl0 + 2) by lia; apply (code_at_nth _ _ _ 2 _ Htail); reflexivity).
    assert (U3 : nth_error code (S (S (S tl0))) = Some (IPopVarPath, p)) by (replace (S (S (S tl0))) with (tl0 + 3) by lia; apply (code_at_nth _ _ _ 3 _ Htail); reflexivity).
    assert (U4 : nth_error code (S (S (S (S tl0)))) = Some (ICopyDToB, p)) by (replace (S (S (S (S tl0)))) with (tl0 + 4) by lia; apply (code_at_nth _ _ _ 4 _ Htail); reflexivity).
    assert (U5 : nth_error code (S (S (S (S (S tl0))))) = Some (IBin Plus, p)) by (replace (S (S (S (S (S tl0))))) with (tl0 + 5) by lia; apply (code_at_nth _ _ _ 5 _ Htail); reflexivity).
    assert (U6 : nth_error code (S (S (S (S (S (S tl0)))))) = Some (IVarPathName v, p)) by (replace (S (S (S (S (S (S tl0)))))) with (tl0 + 6) by lia; apply (code_at_nth _ _ _ 6 _ Htail); reflexivity).
    assert (U7 : nth_error code (S (S (S (S (S (S (S tl0))))))) = Some (ICopyAToVarPath, p)) by (replace (S (S (S (S (S (S (S tl0))))))) with (tl0 + 7) by lia; apply (code_at_nth _ _ _ 7 _ Htail); reflexivity).
    assert (U8 : nth_error code (S (S (S (S (S (S (S (S tl0)))))))) = Some (IJump (TAddr l0), p)) by (replace (S (S (S (S (S (S (S (S tl0)))))))) with (tl0 + 8) by lia; apply (code_at_nth _ _ _ 8 _ Htail); reflexivity).
    induction n as [|n IHn]; intros s3 rr Hrc Hrd; [exact I|].
    rewrite for_loop2_S. cbv zeta.
    set (e3 := touch (vars s3) v).
    destruct rr as [xa xb xc xd]. cbn [Machine.rc Machine.rd] in Hrc, Hrd. subst xc xd.
    (* everything from the pushed frame on is the same for both signs *)
    assert (Body : forall t0, truthy t0 = Ok true ->
      match
        match blockf f body (mk_state e3 (screen s3)) with
        | Done st' =>
            match binop Plus (lookup (touch (vars st') v) v) step_v with
            | Err x => Failed x p (mk_state (touch (vars st') v) (screen st'))
            | Ok nv => for_loop2 f v p hi_v step_v body n (mk_state (assign (touch (vars st') v) v nv) (screen st'))
            end
        | o => o
        end
      with
      | Done st' => exists k r', stepn k code (boundary (l0 + 22) regs0 (mk_regs t0 hi_v hi_v step_v :: t) vs ps (mk_state e3 (screen s3))) = MRunning (boundary (S out) r' t vs ps st')
      | Failed x q0 st' => exists k s', stepn k code (boundary (l0 + 22) regs0 (mk_regs t0 hi_v hi_v step_v :: t) vs ps (mk_state e3 (screen s3))) = MError x q0 s' /\ of_mio (mscreen s') = screen st'
      | StepZero q0 st' => exists k s', stepn k code (boundary (l0 + 22) regs0 (mk_regs t0 hi_v hi_v step_v :: t) vs ps (mk_state e3 (screen s3))) = MStepZero q0 s' /\ of_mio (mscreen s') = screen st'
      | OutOfFuel => True
      end).
    { intros t0 Tt.
      specialize (Hbody f (mk_state e3 (screen s3)) regs0 (mk_regs t0 hi_v hi_v step_v :: t) vs ps).
      replace (pc0 + length (gen_expr_casting lo (snd v)) + 2 + length (gen_expr_casting hi (snd v)) + 1 + length (gen_expr_casting se (snd v)) + 6 + 22) with (l0 + 22) in Hbody by (unfold l0, hd, la, lh, ls, q; lia).
      destruct (blockf f body (mk_state e3 (screen s3))) as [s4|x q0 s4|q0 s4|] eqn:Eblk.
      2: exact Hbody. 2: exact Hbody. 2: exact I.
      destruct Hbody as (k & r4 & Hk). fold tl0 in Hk.
      set (e4 := touch (vars s4) v).
      destruct (binop Plus (lookup e4 v) step_v) as [nv|x] eqn:Ep.
      - assert (R9 : stepn (k + 10) code (boundary (l0 + 22) regs0 (mk_regs t0 hi_v hi_v step_v :: t) vs ps (mk_state e3 (screen s3)))
                     = MRunning (boundary sl (mk_regs nv step_v hi_v step_v) t vs ps (mk_state (assign e4 v nv) (screen s4)))).
        { rewrite stepn_add, Hk.
          unfold boundary at 1. stp U0. stp U1. stp U2. fold e4. stp U3. stp U4.
          stpx U5 Ep.
          stp U6. stp U7. unfold e4 at 1; rewrite touch_idem; fold e4. stp U8. stp Hl0. reflexivity. }
        specialize (IHn (mk_state (assign e4 v nv) (screen s4)) (mk_regs nv step_v hi_v step_v) eq_refl eq_refl).
        destruct (for_loop2 f v p hi_v step_v body n (mk_state (assign e4 v nv) (screen s4))) as [s5|x q0 s5|q0 s5|].
        + destruct IHn as (k2 & r5 & Hx5). exists (k + 10 + k2), r5. rewrite stepn_add, R9. exact Hx5.
        + destruct IHn as (k2 & s' & Hx5 & Hd). exists (k + 10 + k2), s'. split; [|exact Hd]. rewrite stepn_add, R9. exact Hx5.
        + destruct IHn as (k2 & s' & Hx5 & Hd). exists (k + 10 + k2), s'. split; [|exact Hd]. rewrite stepn_add, R9. exact Hx5.
        + exact I.
      - eexists (k + 6), _. rewrite stepn_add, Hk.
        unfold boundary at 1. stp U0. stp U1. stp U2. fold e4. stp U3. stp U4.
        rewrite stepn_one. unfold Machine.step at 1. cbn [pc]. rewrite U5. unfold cur. cbn [rstack ra rb]. rewrite Ep. split; [reflexivity|apply of_to_mio]. }
    (* the sign of the step *)
    destruct (binop Less step_v (VInteger 0)) as [negv|x] eqn:Eneg.
    2:{ eexists 4, _. unfold boundary at 1. stp G0. stp G1. stp G2.
        rewrite stepn_one. unfold Machine.step. cbn [pc]. rewrite G3. unfold cur. cbn [rstack ra rb]. rewrite Eneg. split; [reflexivity|apply of_to_mio]. }
    assert (R4 : stepn 4 code (boundary sl (mk_regs xa xb hi_v step_v) t vs ps s3)
                 = MRunning (boundary (S (S (S (S sl)))) (mk_regs negv (VInteger 0%Z) hi_v step_v) t vs ps s3)).
    { unfold boundary at 1. stp G0. stp G1. stp G2. stpx G3 Eneg. first [reflexivity | unfold boundary; do 2 f_equal; lia]. }
    destruct (truthy negv) as [isneg|x] eqn:Tneg.
    2:{ eexists (4 + 1), _. rewrite stepn_add, R4. unfold boundary at 1.
        rewrite stepn_one. unfold Machine.step. cbn [pc]. rewrite G4. unfold cur. cbn [rstack ra rb]. rewrite Tneg. split; [reflexivity|apply of_to_mio]. }
    destruct isneg.
    + (* negative step: counter >= limit *)
      destruct (binop GreaterOrEqual (lookup e3 v) hi_v) as [t0|x] eqn:Eb.
      2:{ eexists (4 + 6), _. rewrite stepn_add, R4. unfold boundary at 1.
          stpx G4 Tneg. stp G5. stp G6. stp G7. fold e3. stp G8.
          rewrite stepn_one. unfold Machine.step. cbn [pc]. rewrite G9. unfold cur. cbn [rstack ra rb]. rewrite Eb. split; [reflexivity|apply of_to_mio]. }
      assert (R6 : stepn (4 + 6) code (boundary sl (mk_regs xa xb hi_v step_v) t vs ps s3)
                   = MRunning (mk_m (S (S (S (S (S (S (S (S (S (S sl)))))))))) (mk_regs t0 hi_v hi_v step_v :: t) vs ps e3 (to_mio (screen s3)) false)).
      { rewrite stepn_add, R4. unfold boundary at 1.
        stpx G4 Tneg. stp G5. stp G6. stp G7. fold e3. stp G8. stpx G9 Eb. first [reflexivity | do 2 f_equal; lia]. }
      destruct (truthy t0) as [[|]|x] eqn:Tt.
      * specialize (Body t0 Tt).
        assert (R8 : stepn (4 + 6 + 4) code (boundary sl (mk_regs xa xb hi_v step_v) t vs ps s3)
                     = MRunning (boundary (l0 + 22) regs0 (mk_regs t0 hi_v hi_v step_v :: t) vs ps (mk_state e3 (screen s3)))).
        { rewrite stepn_add, R6. stpx G10 Tt. stp G11. stp Hlb. replace (S (l0 + 20)) with (l0 + 21) by lia. stp Hpush.
          first [reflexivity | unfold boundary; cbn [vars screen]; do 2 f_equal; lia]. }
        match type of Body with match ?X with _ => _ end => destruct X as [s5|x q0 s5|q0 s5|] end.
        -- destruct Body as (k2 & r5 & Hx5). exists (4 + 6 + 4 + k2), r5. rewrite stepn_add, R8. exact Hx5.
        -- destruct Body as (k2 & s' & Hx5 & Hd). exists (4 + 6 + 4 + k2), s'. split; [|exact Hd]. rewrite stepn_add, R8. exact Hx5.
        -- destruct Body as (k2 & s' & Hx5 & Hd). exists (4 + 6 + 4 + k2), s'. split; [|exact Hd]. rewrite stepn_add, R8. exact Hx5.
        -- exact I.
      * exists (4 + 6 + 2), (mk_regs t0 hi_v hi_v step_v). rewrite stepn_add, R6. stpx G10 Tt. stp Hout. reflexivity.
      * eexists (4 + 6 + 1), _. rewrite stepn_add, R6.
        rewrite stepn_one. unfold Machine.step. cbn [pc]. rewrite G10. unfold cur. cbn [rstack ra rb]. rewrite Tt. split; [reflexivity|apply of_to_mio].
    + (* positive step: counter <= limit *)
      assert (R5 : stepn (4 + 2) code (boundary sl (mk_regs xa xb hi_v step_v) t vs ps s3)
                   = MRunning (boundary tt (mk_regs negv (VInteger 0%Z) hi_v step_v) t vs ps s3)).
      { rewrite stepn_add, R4. unfold boundary at 1. stpx G4 Tneg. stp Hpos. first [reflexivity | unfold boundary, tt; do 2 f_equal; lia]. }
      destruct (binop LessOrEqual (lookup e3 v) hi_v) as [t0|x] eqn:Eb.
      2:{ eexists (4 + 2 + 5), _. rewrite stepn_add, R5. unfold boundary at 1.
          stp T0. stp T1. stp T2. fold e3. stp T3.
          rewrite stepn_one. unfold Machine.step. cbn [pc]. rewrite T4. unfold cur. cbn [rstack ra rb]. rewrite Eb. split; [reflexivity|apply of_to_mio]. }
      assert (R6 : stepn (4 + 2 + 5) code (boundary sl (mk_regs xa xb hi_v step_v) t vs ps s3)
                   = MRunning (mk_m (S (S (S (S (S tt))))) (mk_regs t0 hi_v hi_v step_v :: t) vs ps e3 (to_mio (screen s3)) false)).
      { rewrite stepn_add, R5. unfold boundary at 1.
        stp T0. stp T1. stp T2. fold e3. stp T3. stpx T4 Eb. first [reflexivity | do 2 f_equal; lia]. }
      destruct (truthy t0) as [[|]|x] eqn:Tt.
      * specialize (Body t0 Tt).
        assert (R8 : stepn (4 + 2 + 5 + 3) code (boundary sl (mk_regs xa xb hi_v step_v) t vs ps s3)
                     = MRunning (boundary (l0 + 22) regs0 (mk_regs t0 hi_v hi_v step_v :: t) vs ps (mk_state e3 (screen s3)))).
        { rewrite stepn_add, R6. stpx T5 Tt. replace (S (S (S (S (S (S tt)))))) with (l0 + 20) by (unfold tt; lia). stp Hlb.
          replace (S (l0 + 20)) with (l0 + 21) by lia. stp Hpush.
          first [reflexivity | unfold boundary; cbn [vars screen]; do 2 f_equal; lia]. }
        match type of Body with match ?X with _ => _ end => destruct X as [s5|x q0 s5|q0 s5|] end.
        -- destruct Body as (k2 & r5 & Hx5). exists (4 + 2 + 5 + 3 + k2), r5. rewrite stepn_add, R8. exact Hx5.
        -- destruct Body as (k2 & s' & Hx5 & Hd). exists (4 + 2 + 5 + 3 + k2), s'. split; [|exact Hd]. rewrite stepn_add, R8. exact Hx5.
        -- destruct Body as (k2 & s' & Hx5 & Hd). exists (4 + 2 + 5 + 3 + k2), s'. split; [|exact Hd]. rewrite stepn_add, R8. exact Hx5.
        -- exact I.
      * exists (4 + 2 + 5 + 2), (mk_regs t0 hi_v hi_v step_v). rewrite stepn_add, R6. stpx T5 Tt. stp Hout. reflexivity.
      * eexists (4 + 2 + 5 + 1), _. rewrite stepn_add, R6.
        rewrite stepn_one. unfold Machine.step. cbn [pc]. rewrite T5. unfold cur. cbn [rstack ra rb]. rewrite Tt. split; [reflexivity|apply of_to_mio]. }
  specialize (Loop f st3 (mk_regs nz (VInteger 0%Z) hi_v step_v) eq_refl eq_refl).
  match goal with |- match ?L f ?S with _ => _ end => change L with (for_loop2 f v p hi_v step_v body) end.
  destruct (for_loop2 f v p hi_v step_v body f st3) as [s5|x q0 s5|q0 s5|].
  - destruct Loop as (k & r5 & Hx5). exists (la + 2 + lh + 1 + ls + 5 + 2 + k), r5. rewrite stepn_add, S6, Hx5.
    do 2 f_equal. unfold out, l0, hd, for_step_len, la, lh, ls, q. lia.
  - destruct Loop as (k & s' & Hx5 & Hd). exists (la + 2 + lh + 1 + ls + 5 + 2 + k), s'. split; [|exact Hd]. rewrite stepn_add, S6. exact Hx5.
  - destruct Loop as (k & s' & Hx5 & Hd). exists (la + 2 + lh + 1 + ls + 5 + 2 + k), s'. split; [|exact Hd]. rewrite stepn_add, S6. exact Hx5.
  - exact I.
Qed.

End WithNumberText.
