(** Compositional correctness of the SELECT CASE layout: the subject on the value stack, one header
    of comparisons per CASE (a single expression, or several joined by labels and jumps), the
    blocks, CASE ELSE, and the final pop of the subject. *)
From Coq Require Import List ZArith Bool Lia Floats.SpecFloat.
From RB Require Import Generated.Tables Val.Variant Val.Arith2 Lang.Ast Lang.Sem VM.Instr VM.Gen VM.Machine VM.GenProofs VM.Loops VM.ForLoops RT.Printer.
Import ListNotations.
Local Open Scope nat_scope.

(** the resolved code of one comparison and of one case expression; [fail] is where a failed test goes *)
Definition test_code (ex : expr) (op : bop) (fail : nat) (p : pos) : list ipos :=
  gen_comparison ex p ++ [(IBin op, p); (IJumpIfFalse (TAddr fail), p)].

Definition case_code (c : case_expr) (fail : nat) (p : pos) : list ipos :=
  match c with
  | CSimple e => test_code e Equal fail p
  | CIs op e => test_code e op fail p
  | CRange lo hi => test_code lo GreaterOrEqual fail p ++ test_code hi LessOrEqual fail p
  end.

Definition test_sem (subject : variant) (op : bop) (ex : expr) (p : pos) (e : env) : (bool * env) + (verr * pos) :=
  match eval ex e with
  | EVal v e' => match binop op subject v with
                 | Ok r => match truthy r with Ok b => inl (b, e') | Err x => inr (x, p) end
                 | Err x => inr (x, p)
                 end
  | EErr x q => inr (x, q)
  end.

Section WithNumberText.
Variable num_text : variant -> list Z.
Variable is_negative : variant -> bool.
Notation step := (Machine.step num_text is_negative).
Notation stepn := (GenProofs.stepn num_text is_negative).
Notation exec := (Sem.exec num_text is_negative).
Notation blockf := (Loops.blockf num_text is_negative).
Notation simulates := (Loops.simulates num_text is_negative).
Notation stepn_step := (ForLoops.stepn_step num_text is_negative).
Notation stepn_0 := (ForLoops.stepn_0 num_text is_negative).

Ltac stp Hn :=
  erewrite stepn_step by (unfold Machine.step; cbn [Machine.pc]; rewrite Hn; reflexivity);
  unfold next, set_a, set_regs, cur, goto; cbn [rstack ra rb rc rd Machine.pc vstack pstack mvars mscreen mskip]; rewrite ?stepn_0.
Ltac stpx Hn He :=
  erewrite stepn_step by (unfold Machine.step; cbn [Machine.pc]; rewrite Hn; unfold cur; cbn [rstack ra rb]; rewrite He; reflexivity);
  unfold next, set_a, set_regs, cur, goto; cbn [rstack ra rb rc rd Machine.pc vstack pstack mvars mscreen mskip]; rewrite ?stepn_0.

(** a header: with the subject on top of the value stack, the code at [pc] decides [H]:
    it reaches [bs] when the answer is yes and [nxt] when it is no *)
Definition hdr_ok (code : list ipos) (subject : variant) (pc bs nxt : nat) (H : env -> (bool * env) + (verr * pos)) : Prop :=
  forall e sc r t vs ps,
    match H e with
    | inl (true, e') => exists n r', stepn n code (mk_m pc (r :: t) (subject :: vs) ps e sc false)
                                     = MRunning (mk_m bs (r' :: t) (subject :: vs) ps e' sc false)
    | inl (false, e') => exists n r', stepn n code (mk_m pc (r :: t) (subject :: vs) ps e sc false)
                                      = MRunning (mk_m nxt (r' :: t) (subject :: vs) ps e' sc false)
    | inr (x, q) => exists n s', stepn n code (mk_m pc (r :: t) (subject :: vs) ps e sc false) = MError x q s' /\ mscreen s' = sc
    end.

Lemma test_ok code subject pc ex op fail p :
  code_at code pc (test_code ex op fail p) ->
  hdr_ok code subject pc (pc + length (test_code ex op fail p)) fail (test_sem subject op ex p).
Proof.
  intros Hc e sc r t vs ps. unfold test_sem.
  unfold test_code, gen_comparison in Hc. rewrite <- app_assoc in Hc.
  pose proof (code_at_app_l _ _ _ _ Hc) as He. pose proof (code_at_app_r _ _ _ _ Hc) as Hr. cbn [app] in Hr.
  set (le := length (gen_expr ex)) in *.
  assert (Hlen : length (test_code ex op fail p) = le + 5).
  { unfold test_code, gen_comparison. rewrite !app_length. cbn [length]. fold le. lia. }
  rewrite Hlen.
  destruct (eval ex e) as [v e'|x q] eqn:Ev.
  2:{ destruct (gen_expr_error num_text is_negative ex code pc r t (subject :: vs) ps e sc false x q He Ev) as (k & s' & _ & Hs & Hd & _).
      exists k, s'. split; assumption. }
  destruct (gen_expr_value num_text is_negative ex code pc r t (subject :: vs) ps e sc false v e' He Ev) as [b1 Sc].
  fold le in Sc. unfold after in Sc.
  assert (N0 : nth_error code (pc + le) = Some (ICopyAToB, p)) by (replace (pc + le) with (pc + le + 0) by lia; apply (code_at_nth _ _ _ 0 _ Hr); reflexivity).
  assert (N1 : nth_error code (S (pc + le)) = Some (IPopA, p)) by (replace (S (pc + le)) with (pc + le + 1) by lia; apply (code_at_nth _ _ _ 1 _ Hr); reflexivity).
  assert (N2 : nth_error code (S (S (pc + le))) = Some (IPushA, p)) by (replace (S (S (pc + le))) with (pc + le + 2) by lia; apply (code_at_nth _ _ _ 2 _ Hr); reflexivity).
  assert (N3 : nth_error code (S (S (S (pc + le)))) = Some (IBin op, p)) by (replace (S (S (S (pc + le)))) with (pc + le + 3) by lia; apply (code_at_nth _ _ _ 3 _ Hr); reflexivity).
  assert (N4 : nth_error code (S (S (S (S (pc + le))))) = Some (IJumpIfFalse (TAddr fail), p)) by (replace (S (S (S (S (pc + le))))) with (pc + le + 4) by lia; apply (code_at_nth _ _ _ 4 _ Hr); reflexivity).
  destruct (binop op subject v) as [rv|x] eqn:Eb.
  2:{ eexists (le + 4), _. rewrite stepn_add, Sc. stp N0. stp N1. stp N2.
      rewrite stepn_one. unfold Machine.step. cbn [Machine.pc]. rewrite N3. unfold cur. cbn [rstack ra rb]. rewrite Eb. split; reflexivity. }
  assert (S4 : stepn (le + 4) code (mk_m pc (r :: t) (subject :: vs) ps e sc false)
               = MRunning (mk_m (S (S (S (S (pc + le))))) (mk_regs rv v (Machine.rc r) (Machine.rd r) :: t) (subject :: vs) ps e' sc false)).
  { rewrite stepn_add, Sc. stp N0. stp N1. stp N2. stpx N3 Eb. reflexivity. }
  destruct (truthy rv) as [[|]|x] eqn:Tr.
  - exists (le + 4 + 1), (mk_regs rv v (Machine.rc r) (Machine.rd r)). rewrite stepn_add, S4. stpx N4 Tr. do 2 f_equal. lia.
  - exists (le + 4 + 1), (mk_regs rv v (Machine.rc r) (Machine.rd r)). rewrite stepn_add, S4. stpx N4 Tr. reflexivity.
  - eexists (le + 4 + 1), _. rewrite stepn_add, S4.
    rewrite stepn_one. unfold Machine.step. cbn [Machine.pc]. rewrite N4. unfold cur. cbn [rstack ra rb]. rewrite Tr. split; reflexivity.
Qed.

(** both tests must succeed (a range) *)
Lemma hdr_and code subject pc mid bs nxt H1 H2 :
  hdr_ok code subject pc mid nxt H1 -> hdr_ok code subject mid bs nxt H2 ->
  hdr_ok code subject pc bs nxt (fun e => match H1 e with inl (true, e') => H2 e' | o => o end).
Proof.
  intros A B e sc r t vs ps. specialize (A e sc r t vs ps).
  destruct (H1 e) as [[[|] e1]|[x q]].
  - destruct A as (n & r1 & Hn). specialize (B e1 sc r1 t vs ps).
    destruct (H2 e1) as [[[|] e2]|[x q]].
    + destruct B as (m & r2 & Hm). exists (n + m), r2. rewrite stepn_add, Hn. exact Hm.
    + destruct B as (m & r2 & Hm). exists (n + m), r2. rewrite stepn_add, Hn. exact Hm.
    + destruct B as (m & s' & Hm & Hd). exists (n + m), s'. split; [|exact Hd]. rewrite stepn_add, Hn. exact Hm.
  - exact A.
  - exact A.
Qed.

(** the first test that succeeds decides (several expressions in one CASE) *)
Lemma hdr_or code subject pc alt bs nxt H1 H2 :
  hdr_ok code subject pc bs alt H1 -> hdr_ok code subject alt bs nxt H2 ->
  hdr_ok code subject pc bs nxt (fun e => match H1 e with inl (false, e') => H2 e' | o => o end).
Proof.
  intros A B e sc r t vs ps. specialize (A e sc r t vs ps).
  destruct (H1 e) as [[[|] e1]|[x q]].
  - exact A.
  - destruct A as (n & r1 & Hn). specialize (B e1 sc r1 t vs ps).
    destruct (H2 e1) as [[[|] e2]|[x q]].
    + destruct B as (m & r2 & Hm). exists (n + m), r2. rewrite stepn_add, Hn. exact Hm.
    + destruct B as (m & r2 & Hm). exists (n + m), r2. rewrite stepn_add, Hn. exact Hm.
    + destruct B as (m & s' & Hm & Hd). exists (n + m), s'. split; [|exact Hd]. rewrite stepn_add, Hn. exact Hm.
  - exact A.
Qed.

(** one more instruction (a label or a jump) before the header, or on its way out *)
Definition hop (code : list ipos) (a a' : nat) : Prop :=
  (exists l q, nth_error code a = Some (ILabel l, q) /\ a' = S a) \/ (exists q, nth_error code a = Some (IJump (TAddr a'), q)).

Lemma hop_step code a a' rs vs ps e sc : hop code a a' ->
  stepn 1 code (mk_m a rs vs ps e sc false) = MRunning (mk_m a' rs vs ps e sc false).
Proof.
  intros [(l & q & Hn & ->)|(q & Hn)]; rewrite stepn_one; unfold Machine.step; cbn [Machine.pc]; rewrite Hn; reflexivity.
Qed.

Lemma hdr_pre code subject pc pc' bs nxt H : hop code pc pc' -> hdr_ok code subject pc' bs nxt H -> hdr_ok code subject pc bs nxt H.
Proof.
  intros Hh A e sc r t vs ps. specialize (A e sc r t vs ps). pose proof (hop_step code pc pc' (r :: t) (subject :: vs) ps e sc Hh) as S1.
  destruct (H e) as [[[|] e1]|[x q]].
  - destruct A as (n & r1 & Hn). exists (1 + n), r1. rewrite stepn_add, S1. exact Hn.
  - destruct A as (n & r1 & Hn). exists (1 + n), r1. rewrite stepn_add, S1. exact Hn.
  - destruct A as (n & s' & Hn & Hd). exists (1 + n), s'. split; [|exact Hd]. rewrite stepn_add, S1. exact Hn.
Qed.

Lemma hdr_post code subject pc bs bs' nxt H : hop code bs bs' -> hdr_ok code subject pc bs nxt H -> hdr_ok code subject pc bs' nxt H.
Proof.
  intros Hh A e sc r t vs ps. specialize (A e sc r t vs ps).
  destruct (H e) as [[[|] e1]|[x q]].
  - destruct A as (n & r1 & Hn). exists (n + 1), r1. rewrite stepn_add, Hn. apply hop_step. exact Hh.
  - exact A.
  - exact A.
Qed.

Lemma hdr_ext code subject pc bs nxt H H' : (forall e, H e = H' e) -> hdr_ok code subject pc bs nxt H -> hdr_ok code subject pc bs nxt H'.
Proof. intros E A e sc r t vs ps. rewrite <- E. apply A. Qed.

Lemma case_ok code subject pc c fail p :
  code_at code pc (case_code c fail p) ->
  hdr_ok code subject pc (pc + length (case_code c fail p)) fail (fun e => cmp_case subject c e p).
Proof.
  intros Hc. destruct c as [ex|op ex|lo hi]; cbn [case_code] in *.
  - apply (hdr_ext _ _ _ _ _ (test_sem subject Equal ex p)); [reflexivity|]. apply test_ok. exact Hc.
  - apply (hdr_ext _ _ _ _ _ (test_sem subject op ex p)); [reflexivity|]. apply test_ok. exact Hc.
  - apply (hdr_ext _ _ _ _ _ (fun e => match test_sem subject GreaterOrEqual lo p e with inl (true, e') => test_sem subject LessOrEqual hi p e' | o => o end)).
    + intros e. unfold cmp_case, test_sem. destruct (eval lo e) as [v e'|x q]; [|reflexivity].
      destruct (binop GreaterOrEqual subject v) as [rv|x]; [|reflexivity]. destruct (truthy rv) as [[|]|x]; reflexivity.
    + rewrite app_length, Nat.add_assoc.
      apply (hdr_and code subject pc (pc + length (test_code lo GreaterOrEqual fail p))).
      * apply test_ok. apply (code_at_app_l _ _ _ _ Hc).
      * apply test_ok. apply (code_at_app_r _ _ _ _ Hc).
Qed.

(** ** Several expressions: [c1] else-try [c2] ... ; success goes to the label at [stmts] *)
Fixpoint multi_layout (code : list ipos) (p : pos) (pc : nat) (cs : list case_expr) (first : bool) (stmts nxt : nat) : Prop :=
  match cs with
  | [] => False
  | c :: t =>
      let pc1 := if first then pc else S pc in
      (if first then True else exists l, nth_error code pc = Some (ILabel l, p)) /\
      match t with
      | [] => code_at code pc1 (case_code c nxt p) /\ pc1 + length (case_code c nxt p) = stmts
      | _ =>
          let lc := length (case_code c 0 p) in
          code_at code pc1 (case_code c (pc1 + lc + 1) p) /\
          nth_error code (pc1 + lc) = Some (IJump (TAddr stmts), p) /\
          multi_layout code p (pc1 + lc + 1) t false stmts nxt
      end
  end.

Lemma case_code_length c a b p : length (case_code c a p) = length (case_code c b p).
Proof. destruct c; cbn [case_code]; unfold test_code; rewrite ?app_length; reflexivity. Qed.

Lemma any_case_cons subject c t e p :
  any_case subject (c :: t) e p = match cmp_case subject c e p with inl (false, e') => any_case subject t e' p | o => o end.
Proof. cbn [any_case]. destruct (cmp_case subject c e p) as [[[|] e']|err]; reflexivity. Qed.

Lemma multi_ok code subject p : forall cs pc first stmts nxt,
  multi_layout code p pc cs first stmts nxt ->
  hdr_ok code subject pc stmts nxt (fun e => any_case subject cs e p).
Proof.
  induction cs as [|c t IH]; intros pc0 first stmts nxt HL; [contradiction|].
  cbn [multi_layout] in HL. destruct HL as (Hlab & Hrest).
  set (pc1 := if first then pc0 else S pc0) in *.
  assert (Pre : forall H, hdr_ok code subject pc1 stmts nxt H -> hdr_ok code subject pc0 stmts nxt H).
  { intros H A. unfold pc1 in A. destruct first; [exact A|]. destruct Hlab as [l Hl].
    apply (hdr_pre code subject pc0 (S pc0)); [left; eauto|exact A]. }
  apply Pre.
  destruct t as [|c2 t'].
  - destruct Hrest as (Hc & Hs).
    apply (hdr_ext _ _ _ _ _ (fun e => cmp_case subject c e p)).
    + intros e. rewrite any_case_cons. destruct (cmp_case subject c e p) as [[[|] e']|err]; reflexivity.
    + rewrite <- Hs. apply case_ok. exact Hc.
  - destruct Hrest as (Hc & Hj & Hm).
    set (lc := length (case_code c 0 p)) in *.
    apply (hdr_ext _ _ _ _ _ (fun e => match cmp_case subject c e p with inl (false, e') => any_case subject (c2 :: t') e' p | o => o end)).
    + intros e. rewrite any_case_cons. reflexivity.
    + apply (hdr_or code subject pc1 (pc1 + lc + 1)).
      * apply (hdr_post code subject pc1 (pc1 + lc)); [right; eauto|].
        replace lc with (length (case_code c (pc1 + lc + 1) p)) at 1 by apply case_code_length.
        apply case_ok. exact Hc.
      * apply (IH _ false). exact Hm.
Qed.

(** the header of one CASE: one expression falls into the block; several go through the label at [bs - 1] *)
Definition header_layout (code : list ipos) (p : pos) (pc : nat) (cs : list case_expr) (bs nxt : nat) : Prop :=
  match cs with
  | [] => False
  | [c] => code_at code pc (case_code c nxt p) /\ pc + length (case_code c nxt p) = bs
  | _ => exists stmts, multi_layout code p pc cs true stmts nxt /\ (exists l, nth_error code stmts = Some (ILabel l, p)) /\ bs = S stmts
  end.

Lemma header_ok code subject p pc cs bs nxt :
  header_layout code p pc cs bs nxt -> hdr_ok code subject pc bs nxt (fun e => any_case subject cs e p).
Proof.
  intros HL. destruct cs as [|c [|c2 t]]; [contradiction| |].
  - destruct HL as (Hc & Hs).
    apply (hdr_ext _ _ _ _ _ (fun e => cmp_case subject c e p)).
    + intros e. rewrite any_case_cons. destruct (cmp_case subject c e p) as [[[|] e']|err]; reflexivity.
    + rewrite <- Hs. apply case_ok. exact Hc.
  - destruct HL as (stmts & Hm & [l Hl] & ->).
    apply (hdr_post code subject pc stmts); [left; eauto|]. apply (multi_ok code subject p _ pc true). exact Hm.
Qed.

(** ** The chain of cases *)
Definition sel_sem (f : nat) (p : pos) (subject : variant) (els : option (list stmt)) : list (list case_expr * list stmt) -> state -> outcome :=
  fix pick (l : list (list case_expr * list stmt)) (st : state) : outcome :=
    match l with
    | [] => match els with Some b => blockf f b st | None => Done st end
    | (cs, b) :: t =>
        match any_case subject cs (vars st) p with
        | inr (x, q) => Failed x q st
        | inl (true, st') => blockf f b (mk_state st' (screen st))
        | inl (false, st') => pick t (mk_state st' (screen st))
        end
    end.

(** cases with the lengths of their blocks; [pc] is the address of the CASE label, [pend] of the END SELECT label *)
Fixpoint chain_layout (code : list ipos) (p : pos) (pc pend : nat) (cases : list (list case_expr * list stmt * nat * nat)) (els : option (list stmt * nat)) : Prop :=
  match cases with
  | [] =>
      match els with
      | Some (_, le) => (exists l, nth_error code pc = Some (ILabel l, p)) /\ S pc + le = pend
      | None => pc = pend
      end
  | (cs, _, bs, lb) :: rest =>
      (exists l, nth_error code pc = Some (ILabel l, p)) /\
      header_layout code p (S pc) cs bs (bs + lb + 1) /\
      nth_error code (bs + lb) = Some (IJump (TAddr pend), p) /\
      chain_layout code p (bs + lb + 1) pend rest els
  end.

Fixpoint chain_blocks (code : list ipos) (pc : nat) (cases : list (list case_expr * list stmt * nat * nat)) (els : option (list stmt * nat)) : Prop :=
  match cases with
  | [] => match els with Some (b, le) => forall f, simulates code (S pc) le (blockf f b) | None => True end
  | (_, b, bs, lb) :: rest => (forall f, simulates code bs lb (blockf f b)) /\ chain_blocks code (bs + lb + 1) rest els
  end.

Definition strip4 (cases : list (list case_expr * list stmt * nat * nat)) : list (list case_expr * list stmt) :=
  map (fun a => (fst (fst (fst a)), snd (fst (fst a)))) cases.

(** from the first CASE label to the END SELECT label, the subject staying on the value stack *)
Theorem chain_correct : forall code p pend subject cases pc els f,
  chain_layout code p pc pend cases els -> chain_blocks code pc cases els ->
  forall st r t vs ps,
    match sel_sem f p subject (option_map fst els) (strip4 cases) st with
    | Done st' => exists n r', stepn n code (boundary pc r t (subject :: vs) ps st) = MRunning (boundary pend r' t (subject :: vs) ps st')
    | Failed x q st' => exists n s', stepn n code (boundary pc r t (subject :: vs) ps st) = MError x q s' /\ of_mio (mscreen s') = screen st'
    | StepZero q st' => exists n s', stepn n code (boundary pc r t (subject :: vs) ps st) = MStepZero q s' /\ of_mio (mscreen s') = screen st'
    | OutOfFuel => True
    end.
Proof.
  intros code p pend subject. induction cases as [|[[[cs b] bs] lb] rest IH]; intros pc0 els f HL HB st r t vs ps.
  - cbn [strip4 map sel_sem]. cbn [chain_layout] in HL. cbn [chain_blocks] in HB.
    destruct els as [[be le]|]; cbn [option_map fst].
    + destruct HL as ([l Hl] & Hle).
      assert (S1 : stepn 1 code (boundary pc0 r t (subject :: vs) ps st) = MRunning (boundary (S pc0) r t (subject :: vs) ps st)).
      { rewrite stepn_one. unfold Machine.step, boundary. cbn [Machine.pc]. rewrite Hl. reflexivity. }
      specialize (HB f st r t (subject :: vs) ps). rewrite Hle in HB.
      destruct (blockf f be st) as [st2|x q st2|q st2|].
      * destruct HB as (n & r2 & Hn). exists (1 + n), r2. rewrite stepn_add, S1. exact Hn.
      * destruct HB as (n & s' & Hn & Hd). exists (1 + n), s'. split; [|exact Hd]. rewrite stepn_add, S1. exact Hn.
      * destruct HB as (n & s' & Hn & Hd). exists (1 + n), s'. split; [|exact Hd]. rewrite stepn_add, S1. exact Hn.
      * exact I.
    + subst pc0. exists 0, r. reflexivity.
  - change (strip4 ((cs, b, bs, lb) :: rest)) with ((cs, b) :: strip4 rest).
    change (sel_sem f p subject (option_map fst els) ((cs, b) :: strip4 rest) st)
      with (match any_case subject cs (vars st) p with
            | inr (x, q) => Failed x q st
            | inl (true, st') => blockf f b (mk_state st' (screen st))
            | inl (false, st') => sel_sem f p subject (option_map fst els) (strip4 rest) (mk_state st' (screen st))
            end).
    cbn [chain_layout] in HL. destruct HL as ([l Hl] & Hh & Hj & Hrest).
    cbn [chain_blocks] in HB. destruct HB as (Hb & HBrest).
    assert (S1 : stepn 1 code (boundary pc0 r t (subject :: vs) ps st) = MRunning (boundary (S pc0) r t (subject :: vs) ps st)).
    { rewrite stepn_one. unfold Machine.step, boundary. cbn [Machine.pc]. rewrite Hl. reflexivity. }
    pose proof (header_ok code subject p (S pc0) cs bs (bs + lb + 1) Hh (vars st) (to_mio (screen st)) r t vs ps) as A.
    cbv beta in A.
    destruct (any_case subject cs (vars st) p) as [[[|] e1]|[x q]].
    + destruct A as (n & r1 & Hn).
      assert (S2 : stepn (1 + n) code (boundary pc0 r t (subject :: vs) ps st) = MRunning (boundary bs r1 t (subject :: vs) ps (mk_state e1 (screen st)))).
      { rewrite stepn_add, S1. exact Hn. }
      specialize (Hb f (mk_state e1 (screen st)) r1 t (subject :: vs) ps).
      destruct (blockf f b (mk_state e1 (screen st))) as [st2|x q st2|q st2|].
      * destruct Hb as (m & r2 & Hm). exists (1 + n + m + 1), r2. rewrite !stepn_add, S1.
        change (stepn n code (boundary (S pc0) r t (subject :: vs) ps st)) with (stepn n code (mk_m (S pc0) (r :: t) (subject :: vs) ps (vars st) (to_mio (screen st)) false)).
        rewrite Hn. change (mk_m bs (r1 :: t) (subject :: vs) ps e1 (to_mio (screen st)) false) with (boundary bs r1 t (subject :: vs) ps (mk_state e1 (screen st))).
        rewrite Hm. rewrite stepn_one. unfold Machine.step, boundary. cbn [Machine.pc]. rewrite Hj. reflexivity.
      * destruct Hb as (m & s' & Hm & Hd). exists (1 + n + m), s'. split; [|exact Hd]. rewrite stepn_add, S2. exact Hm.
      * destruct Hb as (m & s' & Hm & Hd). exists (1 + n + m), s'. split; [|exact Hd]. rewrite stepn_add, S2. exact Hm.
      * exact I.
    + destruct A as (n & r1 & Hn).
      assert (S2 : stepn (1 + n) code (boundary pc0 r t (subject :: vs) ps st) = MRunning (boundary (bs + lb + 1) r1 t (subject :: vs) ps (mk_state e1 (screen st)))).
      { rewrite stepn_add, S1. exact Hn. }
      specialize (IH (bs + lb + 1) els f Hrest HBrest (mk_state e1 (screen st)) r1 t vs ps).
      destruct (sel_sem f p subject (option_map fst els) (strip4 rest) (mk_state e1 (screen st))) as [st2|x q st2|q st2|].
      * destruct IH as (m & r2 & Hm). exists (1 + n + m), r2. rewrite stepn_add, S2. exact Hm.
      * destruct IH as (m & s' & Hm & Hd). exists (1 + n + m), s'. split; [|exact Hd]. rewrite stepn_add, S2. exact Hm.
      * destruct IH as (m & s' & Hm & Hd). exists (1 + n + m), s'. split; [|exact Hd]. rewrite stepn_add, S2. exact Hm.
      * exact I.
    + destruct A as (n & s' & Hn & Hd). exists (1 + n), s'. split; [|rewrite Hd; apply of_to_mio]. rewrite stepn_add, S1. exact Hn.
Qed.

(** ** The whole statement *)
Definition select_layout (code : list ipos) (pc0 : nat) (p : pos) (e : expr) (pend : nat)
                         (cases : list (list case_expr * list stmt * nat * nat)) (els : option (list stmt * nat)) : Prop :=
  let le := length (gen_expr e) in
  code_at code pc0 (gen_expr e) /\
  nth_error code (pc0 + le) = Some (IPushA, p) /\
  chain_layout code p (pc0 + le + 1) pend cases els /\
  (exists l, nth_error code pend = Some (ILabel l, p)) /\
  nth_error code (S pend) = Some (IPopA, p).

Theorem select_correct : forall code pc0 p e pend cases els,
  pc0 <= pend ->
  select_layout code pc0 p e pend cases els ->
  chain_blocks code (pc0 + length (gen_expr e) + 1) cases els ->
  forall f, simulates code pc0 (S (S pend) - pc0) (exec f (SSelect p e (strip4 cases) (option_map fst els))).
Proof.
  intros code pc0 p e pend cases els Hle (He & Hpush & Hchain & [l Hl] & Hpop) HB f.
  destruct f as [|f]; [intros st r t vs ps; exact I|].
  intros st r t vs ps. cbn [Sem.exec].
  set (le := length (gen_expr e)) in *.
  destruct (eval e (vars st)) as [subject st0|x q] eqn:Ev.
  2:{ destruct (gen_expr_error num_text is_negative e code pc0 r t vs ps (vars st) (to_mio (screen st)) false x q He Ev) as (k & s' & _ & Hs & Hd & _). apply (f_equal of_mio) in Hd; rewrite ?of_to_mio in Hd.
      exists k, s'. split; assumption. }
  destruct (gen_expr_value num_text is_negative e code pc0 r t vs ps (vars st) (to_mio (screen st)) false subject st0 He Ev) as [b1 Sc].
  fold le in Sc. unfold after in Sc.
  assert (S1 : stepn (le + 1) code (boundary pc0 r t vs ps st)
               = MRunning (boundary (pc0 + le + 1) (mk_regs subject b1 (Machine.rc r) (Machine.rd r)) t (subject :: vs) ps (mk_state st0 (screen st)))).
  { rewrite stepn_add. unfold boundary at 1. rewrite Sc. stp Hpush. unfold boundary. cbn [vars screen]. do 2 f_equal. lia. }
  pose proof (chain_correct code p pend subject cases (pc0 + le + 1) els f Hchain HB (mk_state st0 (screen st))
                (mk_regs subject b1 (Machine.rc r) (Machine.rd r)) t vs ps) as C.
  match goal with |- match ?L (strip4 cases) ?S with _ => _ end =>
    change (L (strip4 cases) S) with (sel_sem f p subject (option_map fst els) (strip4 cases) (mk_state st0 (screen st))) end.
  destruct (sel_sem f p subject (option_map fst els) (strip4 cases) (mk_state st0 (screen st))) as [st2|x q st2|q st2|].
  - destruct C as (n & r2 & Hn). exists (le + 1 + n + 2), (mk_regs subject (Machine.rb r2) (Machine.rc r2) (Machine.rd r2)).
    rewrite (stepn_add _ _ (le + 1 + n) 2), (stepn_add _ _ (le + 1) n), S1, Hn.
    unfold boundary at 1. stp Hl. stp Hpop. unfold boundary. do 2 f_equal. lia.
  - destruct C as (n & s' & Hn & Hd). exists (le + 1 + n), s'. split; [|exact Hd]. rewrite stepn_add, S1. exact Hn.
  - destruct C as (n & s' & Hn & Hd). exists (le + 1 + n), s'. split; [|exact Hd]. rewrite stepn_add, S1. exact Hn.
  - exact I.
Qed.

End WithNumberText.
