(** Expression trees and the parser's precedence repair (rusty_parser/src/expr/types.rs:
    binary_expr / flip_binary / apply_unary_priority_order), positions dropped.
    The decisions [should_flip_binary] / [should_flip_unary] / [precedence] are NOT written here:
    they come from Generated/Tables.v, dumped extensionally from the real code on every run. *)
From Coq Require Import List Arith Bool.
From RB Require Import Generated.Tables.
Import ListNotations.

Inductive expr :=
| Leaf (n : nat)
| Paren (e : expr)
| Bin (op : bop) (l r : expr)
| Un (op : uop) (e : expr).

(** [ExpressionPosTrait::binary_expr]: build [Bin op l r]; if the right child is a binary expression
    and the table says flip, rebuild as [binary_expr (binary_expr l op r_left) r_op r_right]. *)
Fixpoint binary_expr (l : expr) (op : bop) (r : expr) {struct r} : expr :=
  match r with
  | Bin r_op r_left r_right =>
      if should_flip_binary op r_op
      then binary_expr (binary_expr l op r_left) r_op r_right
      else Bin op l r
  | _ => Bin op l r
  end.

(** [apply_unary_priority_order] *)
Fixpoint apply_unary (u : uop) (e : expr) {struct e} : expr :=
  match e with
  | Bin r_op r_left r_right =>
      if should_flip_unary u r_op
      then binary_expr (apply_unary u r_left) r_op r_right
      else Un u e
  | _ => Un u e
  end.

(** the token chain the right-recursive grammar reads:
    [expr ::= non_bin_expr [op expr]] where a unary operator is followed by a whole expression *)
Inductive chain :=
| CEnd (a : expr)
| CBin (a : expr) (op : bop) (rest : chain)
| CUn (u : uop) (rest : chain).

Fixpoint parse (c : chain) : expr :=
  match c with
  | CEnd a => a
  | CBin a op rest => binary_expr a op (parse rest)
  | CUn u rest => apply_unary u (parse rest)
  end.

Fixpoint expr_eqb (a b : expr) : bool :=
  match a, b with
  | Leaf x, Leaf y => Nat.eqb x y
  | Paren x, Paren y => expr_eqb x y
  | Bin o l r, Bin o' l' r' => bop_eqb o o' && expr_eqb l l' && expr_eqb r r'
  | Un u x, Un u' y => uop_eqb u u' && expr_eqb x y
  | _, _ => false
  end.
