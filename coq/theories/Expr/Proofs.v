(** The precedence repair builds exactly the standard grouping (C10). *)
From Coq Require Import List Arith Bool Lia.
From RB Require Import Generated.Tables Expr.Tree.
Import ListNotations.

(** ** The regenerated decision tables are the precedence order *)

Definition uprec (u : uop) : nat := match u with UMinus => 7 | UNot => 2 end.

(** the ranks the property names: unary minus, then * /, then MOD, then + -, then the relational
    operators, then NOT, then AND, then OR *)
Definition spec_rank (o : bop) : nat :=
  match o with
  | Multiply | Divide => 6
  | Modulo => 5
  | Plus | Minus => 4
  | Less | LessOrEqual | Equal | GreaterOrEqual | Greater | NotEqual => 3
  | And => 1
  | Or => 0
  end.

Lemma precedence_table_spec o : precedence o = spec_rank o.
Proof. destruct o; reflexivity. Qed.

(** flip exactly when the left operator binds at least as tightly (equal rank groups left to right) *)
Lemma flip_table_spec l r : should_flip_binary l r = (precedence r <=? precedence l).
Proof. destruct l, r; reflexivity. Qed.

Lemma flip_unary_table_spec u r : should_flip_unary u r = (precedence r <? uprec u).
Proof. destruct u, r; reflexivity. Qed.

(** ** Token sequences and precedence-correct trees *)

Inductive tok := TA (e : expr) | TO (op : bop).

(** [Paren] and [Un] nodes are operands of the binary structure *)
Fixpoint inorder (e : expr) : list tok :=
  match e with
  | Bin op l r => inorder l ++ TO op :: inorder r
  | _ => [TA e]
  end.

Definition is_atom (e : expr) : bool := match e with Bin _ _ _ => false | _ => true end.

(** every binary operator of the (top-level binary structure of the) tree has precedence >= p *)
Definition ops_ge (p : nat) (e : expr) : Prop :=
  Forall (fun t => match t with TO o => p <= precedence o | TA _ => True end) (inorder e).
Definition ops_gt (p : nat) (e : expr) : Prop :=
  Forall (fun t => match t with TO o => p < precedence o | TA _ => True end) (inorder e).

(** the standard grouping: below a node, everything to the left binds at least as tightly
    (left-to-right for equal rank) and everything to the right binds strictly tighter *)
Fixpoint wf (e : expr) : Prop :=
  match e with
  | Bin op l r => wf l /\ wf r /\ ops_ge (precedence op) l /\ ops_gt (precedence op) r
  | _ => True
  end.

Lemma ops_ge_bin p op l r : ops_ge p (Bin op l r) <-> ops_ge p l /\ p <= precedence op /\ ops_ge p r.
Proof.
  unfold ops_ge; cbn [inorder]. rewrite Forall_app, Forall_cons_iff. tauto.
Qed.

Lemma ops_gt_bin p op l r : ops_gt p (Bin op l r) <-> ops_gt p l /\ p < precedence op /\ ops_gt p r.
Proof.
  unfold ops_gt; cbn [inorder]. rewrite Forall_app, Forall_cons_iff. tauto.
Qed.

Lemma ops_ge_weaken p q e : q <= p -> ops_ge p e -> ops_ge q e.
Proof. intros H. unfold ops_ge. apply Forall_impl. intros [a|o]; auto. lia. Qed.

Lemma ops_gt_ge p q e : q <= p -> ops_gt p e -> ops_ge q e.
Proof. intros H. unfold ops_gt, ops_ge. apply Forall_impl. intros [a|o]; auto. lia. Qed.

Lemma ops_ge_gt p q e : q < p -> ops_ge p e -> ops_gt q e.
Proof. intros H. unfold ops_gt, ops_ge. apply Forall_impl. intros [a|o]; auto. lia. Qed.

Lemma ops_atom p e : is_atom e = true -> ops_ge p e /\ ops_gt p e.
Proof. destruct e; cbn; intros; try discriminate; split; repeat constructor. Qed.

(** ** [binary_expr] keeps the token sequence ... *)
Lemma binary_expr_inorder r : forall l op,
  inorder (binary_expr l op r) = inorder l ++ TO op :: inorder r.
Proof.
  induction r as [n|e IHe|ro rl IHl rr IHr|u e IHe]; intros l op; cbn [binary_expr]; try reflexivity.
  destruct (should_flip_binary op ro); [|reflexivity].
  rewrite IHr, IHl. cbn [inorder]. rewrite <- app_assoc. reflexivity.
Qed.

(** ... and produces the standard grouping *)
Lemma binary_expr_wf r : forall l op,
  wf l -> wf r -> ops_ge (precedence op) l -> wf (binary_expr l op r).
Proof.
  induction r as [n|e IHe|ro rl IHl rr IHr|u e IHe]; intros l op Hl Hr Hge; cbn [binary_expr];
    try (cbn [wf]; repeat split; auto; apply ops_atom; reflexivity).
  cbn [wf] in Hr. destruct Hr as (Hwl & Hwr & Hgl & Hgr).
  rewrite flip_table_spec. destruct (Nat.leb_spec (precedence ro) (precedence op)) as [Hle|Hlt].
  - apply IHr; [apply IHl; assumption|assumption|].
    unfold ops_ge. rewrite binary_expr_inorder. apply Forall_app. split.
    + apply (ops_ge_weaken (precedence op)); assumption.
    + constructor; [exact Hle|exact Hgl].
  - cbn [wf]. repeat split; auto.
    apply ops_gt_bin. repeat split; [|exact Hlt|].
    + apply (ops_ge_gt (precedence ro)); assumption.
    + unfold ops_gt in *. eapply Forall_impl; [|exact Hgr]. intros [a|o]; auto. lia.
Qed.

(** ** The standard grouping of a token sequence is unique *)

Lemma app_eq_len {A} (a a' b b' : list A) : length a = length a' -> a ++ b = a' ++ b' -> a = a' /\ b = b'.
Proof.
  revert a'; induction a as [|x a IH]; intros [|y a'] Hl H; cbn in *; try discriminate; auto.
  inversion H; subst. destruct (IH a' ltac:(lia) H2) as [-> ->]. auto.
Qed.

Lemma inorder_nonempty e : inorder e <> [].
Proof. destruct e; cbn; try discriminate. destruct (inorder e1); discriminate. Qed.

Lemma inorder_atom_single e a : inorder e = [TA a] -> e = a /\ is_atom e = true.
Proof.
  destruct e; cbn; intros H; try (inversion H; subst; split; reflexivity).
  exfalso. assert (Hlen : 3 <= length (inorder e1 ++ TO op :: inorder e2)).
  { rewrite app_length. cbn [length].
    destruct (inorder e1) eqn:E1; [exfalso; eapply inorder_nonempty; eauto|].
    destruct (inorder e2) eqn:E2; [exfalso; eapply inorder_nonempty; eauto|]. cbn [length]. lia. }
  rewrite H in Hlen. cbn in Hlen. lia.
Qed.

Lemma nth_app_mid {A} (a b : list A) x : nth_error (a ++ x :: b) (length a) = Some x.
Proof. rewrite nth_error_app2 by lia. now rewrite Nat.sub_diag. Qed.

Theorem wf_unique t1 : forall t2, wf t1 -> wf t2 -> inorder t1 = inorder t2 -> t1 = t2.
Proof.
  induction t1 as [n|e IHe|o1 l1 IHl r1 IHr|u e IHe]; intros t2 H1 H2 Heq;
    try (symmetry in Heq; apply inorder_atom_single in Heq as [Heq _]; congruence).
  destruct t2 as [n|e|o2 l2 r2|u e];
    try (apply inorder_atom_single in Heq as [_ Heq]; discriminate).
  cbn [wf] in H1, H2. destruct H1 as (Hl1 & Hr1 & Hge1 & Hgt1). destruct H2 as (Hl2 & Hr2 & Hge2 & Hgt2).
  cbn [inorder] in Heq.
  destruct (Nat.lt_trichotomy (length (inorder l1)) (length (inorder l2))) as [Hlt|[Hlen|Hgt]].
  - exfalso.
    (* o1 sits inside l2, o2 sits inside r1 *)
    assert (Ho1 : nth_error (inorder l2 ++ TO o2 :: inorder r2) (length (inorder l1)) = Some (TO o1))
      by (rewrite <- Heq; apply nth_app_mid).
    rewrite nth_error_app1 in Ho1 by lia. apply nth_error_In in Ho1.
    unfold ops_ge in Hge2. rewrite Forall_forall in Hge2. specialize (Hge2 _ Ho1). cbn in Hge2.
    assert (Ho2 : nth_error (inorder l1 ++ TO o1 :: inorder r1) (length (inorder l2)) = Some (TO o2))
      by (rewrite Heq; apply nth_app_mid).
    rewrite nth_error_app2 in Ho2 by lia.
    destruct (length (inorder l2) - length (inorder l1)) as [|k] eqn:Ek; [lia|]. cbn in Ho2.
    apply nth_error_In in Ho2.
    unfold ops_gt in Hgt1. rewrite Forall_forall in Hgt1. specialize (Hgt1 _ Ho2). cbn in Hgt1. lia.
  - destruct (app_eq_len _ _ _ _ Hlen Heq) as [Ea Eb]. inversion Eb; subst.
    f_equal; [apply IHl|apply IHr]; assumption.
  - exfalso.
    assert (Ho2 : nth_error (inorder l1 ++ TO o1 :: inorder r1) (length (inorder l2)) = Some (TO o2))
      by (rewrite Heq; apply nth_app_mid).
    rewrite nth_error_app1 in Ho2 by lia. apply nth_error_In in Ho2.
    unfold ops_ge in Hge1. rewrite Forall_forall in Hge1. specialize (Hge1 _ Ho2). cbn in Hge1.
    assert (Ho1 : nth_error (inorder l2 ++ TO o2 :: inorder r2) (length (inorder l1)) = Some (TO o1))
      by (rewrite <- Heq; apply nth_app_mid).
    rewrite nth_error_app2 in Ho1 by lia.
    destruct (length (inorder l1) - length (inorder l2)) as [|k] eqn:Ek; [lia|]. cbn in Ho1.
    apply nth_error_In in Ho1.
    unfold ops_gt in Hgt2. rewrite Forall_forall in Hgt2. specialize (Hgt2 _ Ho1). cbn in Hgt2. lia.
Qed.

(** ** Chains of binary operators *)

Fixpoint binary_chain (c : chain) : bool :=
  match c with
  | CEnd a => is_atom a
  | CBin a _ rest => is_atom a && binary_chain rest
  | CUn _ _ => false
  end.

Fixpoint tokens (c : chain) : list tok :=
  match c with
  | CEnd a => [TA a]
  | CBin a op rest => TA a :: TO op :: tokens rest
  | CUn _ rest => tokens rest
  end.

Lemma atom_inorder a : is_atom a = true -> inorder a = [TA a].
Proof. destruct a; cbn; intros; try discriminate; reflexivity. Qed.

Lemma atom_wf a : is_atom a = true -> wf a.
Proof. destruct a; cbn; intros; try discriminate; exact I. Qed.

Theorem parse_chain_standard c : binary_chain c = true ->
  wf (parse c) /\ inorder (parse c) = tokens c.
Proof.
  induction c as [a|a op rest IH|u rest IH]; cbn [binary_chain parse tokens]; intros H; try discriminate.
  - split; [now apply atom_wf|now apply atom_inorder].
  - apply andb_true_iff in H as [Ha Hr]. destruct (IH Hr) as [Hw Hi]. split.
    + apply binary_expr_wf; [now apply atom_wf|exact Hw|apply ops_atom; exact Ha].
    + rewrite binary_expr_inorder, Hi, (atom_inorder a Ha). reflexivity.
Qed.

(** the parser's tree is THE standard grouping: any precedence-correct tree over the same token
    sequence is the tree the parser builds - hence the same value under any meaning of the operators *)
Theorem parse_chain_correct c t : binary_chain c = true ->
  wf t -> inorder t = tokens c -> t = parse c.
Proof.
  intros Hc Hw Hi. destruct (parse_chain_standard c Hc) as [Hw' Hi'].
  apply wf_unique; auto. congruence.
Qed.

(** ** Unary operators end up on exactly their operand *)

(** spec: walk down the left spine while the spine operator binds looser than the unary operator *)
Fixpoint attach (u : uop) (e : expr) : expr :=
  match e with
  | Bin op l r => if precedence op <? uprec u then Bin op (attach u l) r else Un u e
  | _ => Un u e
  end.

Lemma binary_expr_noflip l op r : ops_gt (precedence op) r -> binary_expr l op r = Bin op l r.
Proof.
  destruct r as [n|e|ro rl rr|u e]; cbn [binary_expr]; try reflexivity.
  intros H. apply ops_gt_bin in H as (_ & H & _). rewrite flip_table_spec.
  destruct (Nat.leb_spec (precedence ro) (precedence op)); [lia|reflexivity].
Qed.

Theorem unary_attach_correct u e : wf e -> apply_unary u e = attach u e.
Proof.
  induction e as [n|e IHe|op l IHl r IHr|u' e IHe]; cbn [apply_unary attach]; intros H; try reflexivity.
  cbn [wf] in H. destruct H as (Hl & Hr & Hge & Hgt).
  rewrite flip_unary_table_spec. destruct (precedence op <? uprec u); [|reflexivity].
  rewrite IHl by assumption. apply binary_expr_noflip. exact Hgt.
Qed.

(** unary minus reaches the leftmost operand of the whole binary structure *)
Fixpoint map_leftmost (f : expr -> expr) (e : expr) : expr :=
  match e with Bin op l r => Bin op (map_leftmost f l) r | _ => f e end.

Corollary unary_minus_on_leftmost_operand e : wf e -> apply_unary UMinus e = map_leftmost (Un UMinus) e.
Proof.
  intros H. rewrite unary_attach_correct by assumption. clear H.
  induction e as [n|e IHe|op l IHl r IHr|u' e IHe]; cbn [attach map_leftmost]; try reflexivity.
  replace (precedence op <? uprec UMinus) with true by (destruct op; reflexivity). now rewrite IHl.
Qed.
