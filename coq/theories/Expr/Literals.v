(** Numeric literals (rusty_parser/src/expr/integer_or_long_literal.rs, BitVec::convert_to_int_or_long_expr
    in rusty_bit_vec, Expression::unary_minus in expr/types.rs). *)
From Coq Require Import List ZArith Bool Lia.
From RB Require Import Val.Bits Val.BitsProofs.
Import ListNotations.
Open Scope Z_scope.

Inductive lit := LInt (v : Z) | LLong (v : Z) | LDouble (v : Z) | LOverflow.

(** [process_dec] on the value of the digit string ([str::parse::<u32>] / [parse::<f64>] are Rust std) *)
Definition lit_dec (v : Z) : lit :=
  if v <=? 32767 then LInt v else if v <=? 2147483647 then LLong v else LDouble v.

(** msb-first bits of one hex / oct digit: [push_hex], [push_oct] *)
Definition hex_bits (d : Z) : list bool := [Z.testbit d 3; Z.testbit d 2; Z.testbit d 1; Z.testbit d 0].
Definition oct_bits (d : Z) : list bool := [Z.testbit d 2; Z.testbit d 1; Z.testbit d 0].

Fixpoint skip_zero_digits (ds : list Z) : list Z :=
  match ds with d :: t => if d =? 0 then skip_zero_digits t else ds | [] => [] end.

Fixpoint drop_false (bits : list bool) : list bool :=
  match bits with false :: t => drop_false t | _ => bits end.

(** [convert_to_int_or_long_expr]: [index] = first non-zero bit; a sign bit 0 is injected when fewer
    than 16 / 32 significant bits remain, then [bits_to_i32] / [bits_to_i64] reads from [index] *)
Definition convert_bits (bits : list bool) : lit :=
  let sig := drop_false bits in
  let n := length sig in
  if Nat.eqb n 0 then LInt 0
  else if Nat.leb n 16 then LInt (bits_to_int ((if Nat.ltb n 16 then [false] else []) ++ sig))
  else if Nat.leb n 32 then LLong (bits_to_int ((if Nat.ltb n 32 then [false] else []) ++ sig))
  else LOverflow.

Definition lit_hex (digits : list Z) : lit := convert_bits (flat_map hex_bits (skip_zero_digits digits)).
Definition lit_oct (digits : list Z) : lit := convert_bits (flat_map oct_bits (skip_zero_digits digits)).

(** [Expression::unary_minus] on a literal *)
Definition lit_neg (l : lit) : lit :=
  match l with
  | LInt n => if n <=? -32768 then LLong (- n) else LInt (- n)
  | LLong n => if n <=? -2147483648 then LDouble (- n) else if - n =? -32768 then LInt (-32768) else LLong (- n)
  | LDouble n => if - n =? -2147483648 then LLong (-2147483648) else LDouble (- n)
  | LOverflow => LOverflow
  end.

Definition lit_eqb (a b : lit) : bool :=
  match a, b with
  | LInt x, LInt y | LLong x, LLong y | LDouble x, LDouble y => x =? y
  | LOverflow, LOverflow => true
  | _, _ => false
  end.

(** ** Specification *)

Fixpoint uval (bits : list bool) : Z :=
  match bits with [] => 0 | b :: t => (if b then 2 ^ Z.of_nat (length t) else 0) + uval t end.

(** two's complement reading of an unsigned value *)
Definition classify (v : Z) : lit :=
  if v <? 2 ^ 15 then LInt v
  else if v <? 2 ^ 16 then LInt (v - 2 ^ 16)
  else if v <? 2 ^ 31 then LLong v
  else if v <? 2 ^ 32 then LLong (v - 2 ^ 32)
  else LOverflow.

(** narrowest type that holds a (possibly negative) whole number *)
Definition narrowest (v : Z) : lit :=
  if (-32768 <=? v) && (v <=? 32767) then LInt v
  else if (-2147483648 <=? v) && (v <=? 2147483647) then LLong v
  else LDouble v.

Lemma uval_range bits : 0 <= uval bits < 2 ^ Z.of_nat (length bits).
Proof.
  induction bits as [|b t IH]; cbn [uval length]; [cbn; lia|].
  rewrite Nat2Z.inj_succ, Z.pow_succ_r by lia. destruct b; lia.
Qed.

Lemma bits_acc_spec sign bits : forall x, 0 <= x ->
  bits_acc sign x bits =
  x * 2 ^ Z.of_nat (length bits) + (if sign then 2 ^ Z.of_nat (length bits) - 1 - uval bits else uval bits).
Proof.
  induction bits as [|b t IH]; intros x Hx; cbn [bits_acc uval length].
  - cbn. destruct sign; lia.
  - rewrite (lor_shift_bit x (xorb b sign)) by lia.
    rewrite IH by (destruct (xorb b sign); lia).
    rewrite Nat2Z.inj_succ, Z.pow_succ_r by lia.
    pose proof (uval_range t). destruct b, sign; cbn [xorb]; lia.
Qed.

Lemma bits_to_int_false sig : bits_to_int (false :: sig) = uval sig.
Proof. cbn [bits_to_int]. rewrite bits_acc_spec by lia. lia. Qed.

Lemma bits_to_int_true rest : bits_to_int (true :: rest) = uval (true :: rest) - 2 ^ Z.of_nat (S (length rest)).
Proof.
  cbn [bits_to_int uval]. rewrite bits_acc_spec by lia.
  rewrite Nat2Z.inj_succ, Z.pow_succ_r by lia. lia.
Qed.

Lemma drop_false_spec bits :
  uval (drop_false bits) = uval bits /\
  (drop_false bits = [] \/ exists rest, drop_false bits = true :: rest).
Proof.
  induction bits as [|b t IH]; cbn [drop_false]; [split; [reflexivity|left; reflexivity]|].
  destruct b; [split; [reflexivity|right; eauto]|]. destruct IH as [Hv Hs]. split; [|exact Hs].
  cbn [uval]. lia.
Qed.

Lemma pow_mono a b : (a <= b)%nat -> 2 ^ Z.of_nat a <= 2 ^ Z.of_nat b.
Proof. intros H. apply Z.pow_le_mono_r; lia. Qed.

(** a hex / oct literal denotes the 16- or 32-bit two's complement reading of its digits; more than 32
    significant bits is Overflow; leading zeros do not count *)
Theorem convert_bits_twos_complement bits : convert_bits bits = classify (uval bits).
Proof.
  unfold convert_bits. destruct (drop_false_spec bits) as [Hv Hs]. rewrite <- Hv.
  destruct Hs as [->|[rest Hr]]; [reflexivity|]. rewrite Hr. clear Hr Hv bits.
  set (sig := true :: rest). set (n := length sig).
  assert (Hn : n = S (length rest)) by reflexivity.
  assert (Hlo : 2 ^ Z.of_nat (length rest) <= uval sig) by (cbn [sig uval]; pose proof (uval_range rest); lia).
  pose proof (uval_range sig) as Hhi. fold n in Hhi.
  destruct (Nat.eqb_spec n 0); [lia|].
  unfold classify.
  destruct (Nat.leb_spec n 16) as [H16|H16].
  - destruct (Nat.ltb_spec n 16) as [Hlt|Hge].
    + cbn [app]. rewrite bits_to_int_false.
      pose proof (pow_mono n 15 ltac:(lia)). destruct (Z.ltb_spec (uval sig) (2 ^ 15)); [reflexivity|lia].
    + cbn [app]. unfold sig. rewrite bits_to_int_true. fold sig. rewrite <- Hn.
      assert (n = 16%nat) by lia. replace (Z.of_nat n) with 16 in * by lia.
      assert (length rest = 15%nat) by lia. replace (Z.of_nat (length rest)) with 15 in Hlo by lia.
      destruct (Z.ltb_spec (uval sig) (2 ^ 15)); [lia|]. destruct (Z.ltb_spec (uval sig) (2 ^ 16)); [reflexivity|lia].
  - pose proof (pow_mono 16 (length rest) ltac:(lia)).
    destruct (Z.ltb_spec (uval sig) (2 ^ 15)); [change (2 ^ Z.of_nat 16) with 65536 in *; lia|].
    destruct (Z.ltb_spec (uval sig) (2 ^ 16)); [change (2 ^ Z.of_nat 16) with 65536 in *; lia|].
    destruct (Nat.leb_spec n 32) as [H32|H32].
    + destruct (Nat.ltb_spec n 32) as [Hlt|Hge].
      * cbn [app]. rewrite bits_to_int_false.
        pose proof (pow_mono n 31 ltac:(lia)). destruct (Z.ltb_spec (uval sig) (2 ^ 31)); [reflexivity|lia].
      * cbn [app]. unfold sig. rewrite bits_to_int_true. fold sig. rewrite <- Hn.
        assert (n = 32%nat) by lia. replace (Z.of_nat n) with 32 in * by lia.
        assert (length rest = 31%nat) by lia. replace (Z.of_nat (length rest)) with 31 in Hlo by lia.
        destruct (Z.ltb_spec (uval sig) (2 ^ 31)); [lia|]. destruct (Z.ltb_spec (uval sig) (2 ^ 32)); [reflexivity|lia].
    + pose proof (pow_mono 32 (length rest) ltac:(lia)).
      destruct (Z.ltb_spec (uval sig) (2 ^ 31)); [change (2 ^ Z.of_nat 32) with 4294967296 in *; lia|].
      destruct (Z.ltb_spec (uval sig) (2 ^ 32)); [change (2 ^ Z.of_nat 32) with 4294967296 in *; lia|].
      reflexivity.
Qed.

(** a decimal literal has its written value and the narrowest type that holds it *)
Theorem dec_literal_narrowest v : 0 <= v -> lit_dec v = narrowest v.
Proof.
  intros H. unfold lit_dec, narrowest.
  destruct (Z.leb_spec v 32767); destruct (Z.leb_spec (-32768) v); destruct (Z.leb_spec v 2147483647);
    destruct (Z.leb_spec (-2147483648) v); cbn [andb]; try lia; reflexivity.
Qed.

(** also directly after a unary minus: the negated value with the narrowest type that holds it *)
Theorem neg_literal_narrowest v : 0 <= v -> lit_neg (lit_dec v) = narrowest (- v).
Proof.
  intros H. unfold lit_dec, lit_neg, narrowest.
  repeat match goal with
  | |- context [?a <=? ?b] => destruct (Z.leb_spec a b)
  | |- context [?a =? ?b] => destruct (Z.eqb_spec a b)
  end; cbn [andb]; try lia; try reflexivity; f_equal; lia.
Qed.
