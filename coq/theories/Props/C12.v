(** C12 - The static checker is sound for types and its verdicts are stable. Statements only.

    [Ast.etype] is the checker's typing of expressions, built on the table [spec_binary_op] that is
    regenerated from the checker's own code on every run; [Typing.wt_stmt] are its kind rules for
    the core statements (compared with the real verdict on accepted and on ill-typed programs).
    Proved for every expression, state and value: a typed expression never raises Type mismatch and
    yields a value of the kind of its type; stores and conditions of well-typed statements cannot
    raise it either; assignments keep every variable of its own kind (the invariant the expression
    theorem needs); and for WHOLE programs of the core fragment, any nesting: a well-typed program
    ([wt_program], compared with the checker's verdict on every case) never ends with Type mismatch
    and keeps every variable of its own kind. Outside the theorems: built-in functions, procedures,
    arrays (decided by the generated runs: no error 13 observed). *)
From Coq Require Import List ZArith Bool Floats.SpecFloat.
From RB Require Import Generated.Tables Val.Variant Val.Arith2 Lang.Ast Lang.Sem Lang.Typing Lang.TypingStmt.
Import ListNotations.

From RB Require Import Lang.TableRule.

(** the static types of binary operators computed by the checker (table regenerated from its code on
    every run) are the language rule: comparisons, AND, OR, MOD give INTEGER; + - * / the wider operand type *)
Theorem C12_static_types_follow_the_rule : forall l r op, cast_binary_op l r op = spec_binary_op l r op.
Proof. exact cast_binary_op_is_the_rule. Qed.

Theorem C12_expressions_never_mismatch : forall e q st, etype e = Some q -> env_ok st ->
  match eval e st with
  | EVal v st' => is_str v = is_str_q q /\ env_ok st'
  | EErr x _ => x <> ETypeMismatch
  end.
Proof. exact eval_sound. Qed.

Theorem C12_operators_on_admitted_kinds : forall o a b qa qb q, spec_binary_op qa qb o = Some q ->
  is_str a = is_str_q qa -> is_str b = is_str_q qb ->
  no_tm (binop o a b) /\ forall v, binop o a b = Ok v -> is_str v = is_str_q q.
Proof. exact binop_sound. Qed.

Theorem C12_store_never_mismatches : forall q qs v, is_str_q q = is_str_q qs -> is_str v = is_str_q qs ->
  no_tm (store q qs v) /\ forall w, store q qs v = Ok w -> is_str w = is_str_q q.
Proof. exact store_sound. Qed.

Theorem C12_conditions_never_mismatch : forall v, is_str v = false -> no_tm (truthy v).
Proof. exact truthy_sound. Qed.

Theorem C12_assignment_sound : forall num_text is_negative f p n e st,
  wt_stmt (SAssign p n e) = true -> env_ok (vars st) ->
  match Sem.exec num_text is_negative (S f) (SAssign p n e) st with
  | Done st' => env_ok (vars st')
  | Failed x _ _ => x <> ETypeMismatch
  | _ => True
  end.
Proof. exact assignment_sound. Qed.

(** every statement of the core fragment, any nesting *)
Theorem C12_statement_sound : forall num_text is_negative f s st,
  wt_stmt s = true -> env_ok (vars st) -> ok_outcome (Sem.exec num_text is_negative f s st).
Proof. exact exec_sound. Qed.

(** whole programs: accepted => never Type mismatch, variables keep their kind *)
Theorem C12_program_sound : forall num_text is_negative f p st,
  wt_program p = true -> env_ok (vars st) -> ok_outcome (Sem.exec_program num_text is_negative f p st).
Proof. exact program_sound. Qed.

(** [ok_outcome] says what it should *)
Theorem C12_ok_outcome_means : forall o, ok_outcome o <->
  match o with Done st' => env_ok (vars st') | Failed x _ _ => x <> ETypeMismatch | _ => True end.
Proof. intros o. destruct o; split; intro H; exact H. Qed.

(** non-vacuity: the empty state is well-kinded and "ab" + S$ is typed *)
Example C12_example : env_ok [] /\ etype (EBin (1, 6)%nat Plus (ELit (1, 1)%nat (VString [97; 98]%Z)) (EVar (1, 8)%nat ([83%Z], QString))) = Some QString.
Proof. split; [intros [b q]; destruct q; reflexivity|reflexivity]. Qed.

Print Assumptions C12_expressions_never_mismatch.
Print Assumptions C12_operators_on_admitted_kinds.
Print Assumptions C12_store_never_mismatches.
Print Assumptions C12_conditions_never_mismatch.
Print Assumptions C12_assignment_sound.
Print Assumptions C12_statement_sound.
Print Assumptions C12_program_sound.
Print Assumptions C12_ok_outcome_means.
Print Assumptions C12_static_types_follow_the_rule.
