(** C03 - Calls: by-reference arguments, fresh locals, results, STATIC and SHARED state.
    Statements only.

    [RT.Ctx] models the VM's activation stack: states pointing by index into a vector of
    reference-counted memory blocks, STATIC blocks that are never freed and are found again through
    a name -> index map, removal of a finished call's block from the middle of the vector (with
    the index fix-up of commit e598de1). A block's identity stands for the variables it holds.
    The model is compared with the real Context after every operation of random operation
    sequences (structure, reference counts, identities through a marker variable).

    Proved over ALL histories of operations: the block of a STATIC subprogram stays the same block
    whatever is called, returned from or freed in between; re-entering it finds that block; a call
    starts on a block that did not exist before. Not modelled in Coq (checked by 23 scenario
    programs and generated call histories against outputs known by construction): argument passing
    by shape, write-back order, function results, DIM SHARED and CONST. *)
From Coq Require Import List Arith Bool.
From RB Require Import RT.Ctx RT.CtxProofs.
Import ListNotations.

Theorem C03_static_block_survives_any_operation : forall o c c', Inv c -> apply o c = Some c' ->
  Inv c' /\ forall n id, static_block c n = Some id -> static_block c' n = Some id.
Proof. exact apply_keeps_static_blocks. Qed.

Theorem C03_static_block_survives_any_history : forall os c c', Inv c -> run_ops os c = Some c' ->
  Inv c' /\ forall n id, static_block c n = Some id -> static_block c' n = Some id.
Proof. exact static_block_is_stable. Qed.

Theorem C03_static_entry_finds_its_block : forall n c c' id, Inv c -> static_block c n = Some id ->
  apply (StopCollectStatic n) c = Some c' -> current_block c' = Some id.
Proof. exact static_entry_reuses_block. Qed.

Theorem C03_callee_starts_on_a_fresh_block : forall c c', Inv c -> apply StopCollect c = Some c' ->
  current_block c' = Some (fresh c) /\ forall b, In b (blocks c) -> bid b <> fresh c.
Proof. exact callee_block_is_fresh. Qed.

Theorem C03_initial_context_is_well_formed : Inv ctx0.
Proof. exact inv0. Qed.

(** non-vacuity, and the history that failed before the repair: P calls STATIC S, P returns, S is
    called again directly - it finds the block it created inside P *)
Example C03_example :
  match run_ops [BeginCollect; StopCollect; BeginCollect; StopCollectStatic 7; Pop; Pop] ctx0 with
  | Some c => match static_block c 7, run_ops [BeginCollect; StopCollectStatic 7] c with
              | Some id, Some c' => Nat.eqb id 2 && match current_block c' with Some x => Nat.eqb x 2 | None => false end
              | _, _ => false
              end
  | None => false
  end = true.
Proof. vm_compute. reflexivity. Qed.

Print Assumptions C03_static_block_survives_any_operation.
Print Assumptions C03_static_block_survives_any_history.
Print Assumptions C03_static_entry_finds_its_block.
Print Assumptions C03_callee_starts_on_a_fresh_block.
Print Assumptions C03_initial_context_is_well_formed.
