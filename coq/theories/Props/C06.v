(** C06 - A numeric variable only ever holds a value of its own type and range. Statements only.

    Full statement of the property for the model: every store of a well-typed source value leaves a
    value of the target's type and range, or fails with Overflow. What is proved: the whole-number
    targets (INTEGER, LONG) completely; SINGLE/DOUBLE targets from float sources; and that + - * never
    produce a value outside the type the checker assigns. Not proved (validated by the correspondence
    only): that converting a whole number to SINGLE/DOUBLE yields a finite float (it rests on
    SpecFloat.binary_normalize, for which the standard library states no lemmas).
    Known finding C06-division-retag: the hypothesis "the value has its static type" fails for
    expressions containing "/" (Variant::divide re-types its result), see known_findings.json. *)
From Coq Require Import List ZArith Bool Floats.SpecFloat.
From RB Require Import Val.Variant Val.VariantProofs.
Import ListNotations.
Open Scope Z_scope.

(** Converting to INTEGER / LONG rounds to the nearest whole number (half away from zero) and the
    result lies in the range of the type ... *)
Theorem C06_cast_whole_sound : forall v q v', is_whole q = true -> whole_ok v = true -> cast v q = Ok v' ->
  tag v' = q /\ holds v' q = true /\
  exists z, whole_value v' = Some z /\ to_whole v = Some z /\ in_range q z = true.
Proof. exact cast_whole_sound. Qed.

(** ... and raises Overflow exactly when the rounded value does not fit; it never fails otherwise
    for a finite number. *)
Theorem C06_cast_whole_overflow_iff : forall v q, is_whole q = true -> whole_ok v = true ->
  (cast v q = Err EOverflow <-> exists z, to_whole v = Some z /\ in_range q z = false).
Proof. exact cast_whole_overflow_iff. Qed.

Theorem C06_cast_whole_total : forall v q, is_whole q = true ->
  (exists v', cast v q = Ok v') \/ cast v q = Err EOverflow \/
  (cast v q = Err ENotFinite /\ to_whole v = None /\ tag v <> QString) \/
  (cast v q = Err ETypeMismatch /\ tag v = QString).
Proof. exact cast_whole_total. Qed.

(** A finite DOUBLE converted to SINGLE is a finite SINGLE or Overflow. *)
Theorem C06_double_to_single_finite : forall d v', sf_finite d = true ->
  cast (VDouble d) QSingle = Ok v' -> holds v' QSingle = true.
Proof. exact cast_double_to_single_finite. Qed.

(** + - * : the result has the type the checker assigns and lies inside it; otherwise Overflow. *)
Theorem C06_arith_typed : forall o a b v, numeric a = true -> numeric b = true -> arith o a b = Ok v ->
  bigger (tag a) (tag b) = Some (tag v) /\ holds v (tag v) = true.
Proof. exact arith_typed. Qed.

Theorem C06_arith_total : forall o a b, numeric a = true -> numeric b = true ->
  (exists v, arith o a b = Ok v) \/ arith o a b = Err EOverflow.
Proof. exact arith_total. Qed.

Theorem C06_arith_whole_exact : forall o x y,
  arith o (VInteger x) (VInteger y) = (if in_int (z_op o x y) then Ok (VInteger (z_op o x y)) else Err EOverflow) /\
  arith o (VLong x) (VLong y) = (if in_long (z_op o x y) then Ok (VLong (z_op o x y)) else Err EOverflow) /\
  arith o (VInteger x) (VLong y) = (if in_long (z_op o x y) then Ok (VLong (z_op o x y)) else Err EOverflow) /\
  arith o (VLong x) (VInteger y) = (if in_long (z_op o x y) then Ok (VLong (z_op o x y)) else Err EOverflow).
Proof. exact arith_whole_exact. Qed.

(** Storing into an INTEGER / LONG target a value that has its static type: what is stored is inside
    the target's type, and the only way to fail is Overflow. *)
Theorem C06_store_whole_typed : forall q qs v v', is_whole q = true ->
  tag v = qs -> holds v qs = true -> store q qs v = Ok v' -> tag v' = q /\ holds v' q = true.
Proof. exact store_whole_typed. Qed.

Theorem C06_store_whole_fails_only_by_overflow : forall q qs v e, is_whole q = true ->
  tag v = qs -> holds v qs = true -> qs <> QString -> store q qs v = Err e -> e = EOverflow.
Proof. exact store_whole_fails_only_by_overflow. Qed.

(** partial: SINGLE / DOUBLE targets from float sources *)
Theorem C06_store_float_from_float_partial : forall q qs v v',
  (q = QSingle \/ q = QDouble) -> (qs = QSingle \/ qs = QDouble) ->
  tag v = qs -> holds v qs = true -> store q qs v = Ok v' -> tag v' = q /\ (q = QSingle -> holds v' q = true).
Proof. exact store_float_from_float_typed. Qed.

(** Non-vacuity / witnesses *)
Example C06_ex_round : cast (VDouble (double_of_bits 4674736413210574848)) QInteger = Err EOverflow   (* 32767.5 *)
  /\ cast (VSingle (single_of_bits 1075838976)) QInteger = Ok (VInteger 3)                              (* 2.5 *)
  /\ cast (VSingle (single_of_bits 3223322624)) QInteger = Ok (VInteger (-3))                           (* -2.5 *)
  /\ arith APlus (VInteger 32767) (VInteger 1) = Err EOverflow
  /\ arith AMultiply (VInteger 300) (VInteger 100) = Ok (VInteger 30000).
Proof. vm_compute. repeat split. Qed.

Print Assumptions C06_cast_whole_sound.
Print Assumptions C06_cast_whole_overflow_iff.
Print Assumptions C06_cast_whole_total.
Print Assumptions C06_double_to_single_finite.
Print Assumptions C06_arith_typed.
Print Assumptions C06_arith_total.
Print Assumptions C06_arith_whole_exact.
Print Assumptions C06_store_whole_typed.
Print Assumptions C06_store_whole_fails_only_by_overflow.
Print Assumptions C06_store_float_from_float_partial.
