(** C10 - Expressions group by standard precedence; literals keep exact value and type.
    Statements only. [should_flip_binary], [should_flip_unary] and [precedence] are the tables dumped
    from the real code (Generated/Tables.v), so these theorems are re-checked against the code's current
    decisions on every run. *)
From Coq Require Import List ZArith Arith Bool.
From RB Require Import Generated.Tables Expr.Tree Expr.Proofs Expr.Literals.
Import ListNotations.

(** The code's precedence table is the one the property states, and the code flips a pair of operators
    exactly when the left one binds at least as tightly (so equal rank groups left to right). *)
Theorem C10_precedence_table : forall o, precedence o = spec_rank o.
Proof. exact precedence_table_spec. Qed.

Theorem C10_flip_iff_left_binds_tighter : forall l r,
  should_flip_binary l r = (precedence r <=? precedence l)%nat.
Proof. exact flip_table_spec. Qed.

Theorem C10_unary_flip_iff_binds_tighter : forall u r,
  should_flip_unary u r = (precedence r <? uprec u)%nat.
Proof. exact flip_unary_table_spec. Qed.

(** For every chain [a0 op1 a1 ... opn an] of binary operators over operands (variables, literals,
    parenthesised or unary-prefixed sub-expressions) the parser's tree keeps the token sequence and is
    the standard grouping ... *)
Theorem C10_parse_is_standard_grouping : forall c, binary_chain c = true ->
  wf (parse c) /\ inorder (parse c) = tokens c.
Proof. exact parse_chain_standard. Qed.

(** ... and the standard grouping is unique: any fully parenthesised reading that obeys the precedence
    rules is the tree the parser builds (hence the same value under any meaning of the operators). *)
Theorem C10_standard_grouping_unique : forall t1 t2, wf t1 -> wf t2 -> inorder t1 = inorder t2 -> t1 = t2.
Proof. exact wf_unique. Qed.

Theorem C10_parse_chain_correct : forall c t, binary_chain c = true ->
  wf t -> inorder t = tokens c -> t = parse c.
Proof. exact parse_chain_correct. Qed.

(** A unary operator ends up applied to exactly its operand: it walks down the left spine while the
    spine operator binds looser than it does; unary minus therefore reaches the leftmost operand. *)
Theorem C10_unary_attach : forall u e, wf e -> apply_unary u e = attach u e.
Proof. exact unary_attach_correct. Qed.

Theorem C10_unary_minus_leftmost : forall e, wf e -> apply_unary UMinus e = map_leftmost (Un UMinus) e.
Proof. exact unary_minus_on_leftmost_operand. Qed.

(** Literals *)
Open Scope Z_scope.
Theorem C10_decimal_literal : forall v, 0 <= v -> lit_dec v = narrowest v.
Proof. exact dec_literal_narrowest. Qed.

Theorem C10_negative_literal : forall v, 0 <= v -> lit_neg (lit_dec v) = narrowest (- v).
Proof. exact neg_literal_narrowest. Qed.

Theorem C10_hex_oct_twos_complement : forall bits, convert_bits bits = classify (uval bits).
Proof. exact convert_bits_twos_complement. Qed.

(** Non-vacuity *)
Example C10_ex_chain :
  parse (CBin (Leaf 0) Multiply (CBin (Leaf 1) Modulo (CEnd (Leaf 2)))) = Bin Modulo (Bin Multiply (Leaf 0) (Leaf 1)) (Leaf 2)
  /\ parse (CUn UMinus (CBin (Leaf 0) Minus (CBin (Leaf 1) Minus (CEnd (Leaf 2)))))
     = Bin Minus (Bin Minus (Un UMinus (Leaf 0)) (Leaf 1)) (Leaf 2)
  /\ binary_chain (CBin (Leaf 0) Less (CBin (Paren (Leaf 3)) Less (CEnd (Leaf 2)))) = true.
Proof. vm_compute. repeat split. Qed.
Example C10_ex_lit : lit_hex [15;15;15;15] = LInt (-1) /\ lit_oct [0;1;7;7;7;7;7] = LInt (-1)
  /\ lit_hex [1;0;0;0;0] = LLong 65536 /\ lit_neg (lit_dec 32768) = LInt (-32768) /\ lit_dec 2147483648 = LDouble 2147483648.
Proof. vm_compute. repeat split. Qed.

Print Assumptions C10_precedence_table.
Print Assumptions C10_flip_iff_left_binds_tighter.
Print Assumptions C10_unary_flip_iff_binds_tighter.
Print Assumptions C10_parse_is_standard_grouping.
Print Assumptions C10_standard_grouping_unique.
Print Assumptions C10_parse_chain_correct.
Print Assumptions C10_unary_attach.
Print Assumptions C10_unary_minus_leftmost.
Print Assumptions C10_decimal_literal.
Print Assumptions C10_negative_literal.
Print Assumptions C10_hex_oct_twos_complement.
