(** C05 - GOTO/GOSUB/RETURN and ON ERROR/RESUME transfer control exactly as written.
    Statements only.

    [RT.Control] models the VM's control state (GOSUB stack, active handler, address of the last
    error) and the statement finder used by RESUME / RESUME NEXT; [check_control] replays the
    control events of a real run (taken from the per-instruction observer, error events included)
    and accepts only the moves the model prescribes. The theorems say what accepted moves mean.
    Not covered by theorems: that values (loop counters, limits, steps, variables) survive a
    transfer - checked by scenario programs; two known findings there. *)
From Coq Require Import List Arith Bool Sorted.
From RB Require Import RT.Control RT.ControlProofs.
Import ListNotations.

(** RESUME's target: the start of the statement that contains the failing address *)
Theorem C05_find_current_is_statement_start : forall marks a r, StronglySorted lt marks -> find_current marks a = Some r ->
  In r marks /\ r <= a /\ forall m, In m marks -> m <= a -> m <= r.
Proof. exact find_current_spec. Qed.

(** RESUME NEXT's target: the start of the next statement (one past the last start when there is none) *)
Theorem C05_find_next_is_next_statement : forall marks a r, StronglySorted lt marks -> find_next marks a = Some r ->
  (In r marks /\ a < r /\ forall m, In m marks -> a < m -> r <= m) \/
  (r = S a /\ In a marks /\ forall m, In m marks -> m <= a).
Proof. exact find_next_spec. Qed.

Theorem C05_checked_addresses_are_sorted : forall l, strict_asc l = true -> StronglySorted lt l.
Proof. exact strict_asc_sorted. Qed.

(** RETURN continues after the most recent GOSUB not yet returned from, for any balanced history in between *)
Theorem C05_return_after_matching_gosub : forall marks s pc t n inner pc' next rest s',
  balanced inner ->
  creplay marks s (CGoSub pc t n :: inner ++ CReturn pc' None next :: rest) = Some s' ->
  next = S pc /\ n = t.
Proof. exact return_after_matching_gosub. Qed.

(** ... and with none outstanding a RETURN cannot succeed (only the error event is accepted) *)
Theorem C05_return_without_gosub : forall marks s pc l next, gosubs s = [] -> cstep marks s (CReturn pc l next) = None.
Proof. exact return_without_gosub. Qed.

(** a handled error followed by RESUME / RESUME NEXT / RESUME label: where control continues, and ERR is cleared *)
Theorem C05_resume_targets : forall marks s pc code h k rpc next s1 s2,
  StronglySorted lt marks -> handler s = HAddr h ->
  cstep marks s (CError pc code (Some h)) = Some s1 ->
  cstep marks s1 (CResume k rpc next) = Some s2 ->
  last_err s2 = None /\
  match k with
  | RCurrent => In next marks /\ next <= pc /\ forall m, In m marks -> m <= pc -> m <= next
  | RNext => (In next marks /\ pc < next /\ forall m, In m marks -> pc < m -> next <= m) \/
             (next = S pc /\ In pc marks /\ forall m, In m marks -> m <= pc)
  | RLabel t => next = t
  end.
Proof. exact resume_targets. Qed.

(** with no handler (or after ON ERROR GOTO 0) an error ends the program *)
Theorem C05_unhandled_error_ends : forall marks s pc code next s', handler s = HNone ->
  cstep marks s (CError pc code next) = Some s' -> next = None.
Proof. exact unhandled_error_ends. Qed.

(** non-vacuity: a run with a nested GOSUB, an error handled by RESUME NEXT *)
Example C05_example :
  check_control [0; 2; 4; 6; 9; 12]
    [COnError (HAddr 9); CGoSub 2 6 6; CError 7 11 (Some 9); CResume RNext 11 9; CReturn 10 None 3] = 0.
Proof. vm_compute. reflexivity. Qed.

Print Assumptions C05_find_current_is_statement_start.
Print Assumptions C05_find_next_is_next_statement.
Print Assumptions C05_checked_addresses_are_sorted.
Print Assumptions C05_return_after_matching_gosub.
Print Assumptions C05_return_without_gosub.
Print Assumptions C05_resume_targets.
Print Assumptions C05_unhandled_error_ends.
