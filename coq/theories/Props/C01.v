(** C01 - Running a core-language program yields exactly the prescribed output and outcome.
    Statements only.

    Three models: [Lang.Sem] (big-step reference semantics, mentions no instruction), [VM.Gen] (the
    instruction generator and label resolver) and [VM.Machine] (the fetch-execute loop). The full
    statement of the property for the models is [C01_full_statement] below.

    What is proved for every input: code generated for ANY expression leaves exactly the value the
    semantics prescribe in register A, with all stacks, registers C/D, the screen and the variables as
    prescribed, or stops with the prescribed error at the prescribed position; for assignments and
    PRINT statements, and for whole programs made of them (through the real entry points
    [gen_program] and [resolve]), the machine ends in exactly the prescribed state/error.
    Structured statements (IF / ELSEIF / ELSE, SELECT CASE, FOR with and without STEP, WHILE, the
    four DO forms, nested to any depth): [VM.Validate.check_program] is a validator for RESOLVED
    instruction lists, and [C01_validated_program] proves that any instruction list it accepts
    behaves as the reference semantics prescribe - same end (normal, or the same error or zero-step
    at the same position), same screen, and on a normal end the same variables - for every fuel,
    i.e. for loops of any number of iterations. The harness evaluates the validator in Coq on the
    REAL instruction list of every generated program (case "valid ..."), so for each of them the
    property is a theorem about the code the interpreter actually runs.
    What is NOT proved as a theorem: that [Gen.gen_program] (hence the real generator) passes the
    validator for every program ([C01_full_statement] for all programs at once); the run of each
    program is also compared with [Sem] and [Machine] ([Corr.check_c01]). DATA and READ are part of
    the models (the DATA statements of the main program run first, then the implicit declarations:
    [Sem.exec_main]); their code is covered by the validator ([ReadData.data_correct], [read_correct]). *)
From Coq Require Import List ZArith Bool Floats.SpecFloat.
From RB Require Import Generated.Tables Val.Variant Val.Arith2 Lang.Ast Lang.Sem Lang.NumText
                       VM.Instr VM.Gen VM.Machine VM.GenProofs VM.Loops VM.Validate VM.ValidateProofs VM.Corr RT.Printer.
Import ListNotations.
Local Open Scope nat_scope.

(** the property for the models, at full strength (not proved in general, see above) *)
Definition C01_full_statement : Prop :=
  forall (dims : list (name * pos)) (p : program) (fuel : nat),
    let c := resolve (code (gen_program dims p)) in
    match exec_main num_text is_negative fuel dims p with
    | Done st' => exists n s', run num_text is_negative n c m0 = MHalted s' /\ mvars s' = vars st' /\ of_mio (mscreen s') = screen st'
    | Failed x q st' => exists n s', run num_text is_negative n c m0 = MError x q s' /\ of_mio (mscreen s') = screen st'
    | StepZero q st' => exists n s', run num_text is_negative n c m0 = MStepZero q s' /\ of_mio (mscreen s') = screen st'
    | OutOfFuel => True
    end.

Section AnyNumberText.
Variable num_text : variant -> list Z.
Variable is_negative : variant -> bool.

(** expressions: value *)
From RB Require Import Lang.TableRule.

(** the static types of binary operators computed by the checker (table regenerated from its code on
    every run) are the language rule: comparisons, AND, OR, MOD give INTEGER; + - * / the wider operand type *)
Theorem C01_static_types_follow_the_rule : forall l r op, cast_binary_op l r op = spec_binary_op l r op.
Proof. exact cast_binary_op_is_the_rule. Qed.

Theorem C01_expression_value : forall e code pc0 r t vs ps mv sc sk v st',
  code_at code pc0 (gen_expr e) ->
  eval e mv = EVal v st' ->
  exists b, stepn num_text is_negative (length (gen_expr e)) code (mk_m pc0 (r :: t) vs ps mv sc sk)
            = MRunning (after pc0 (length (gen_expr e)) v b r t vs ps st' sc sk).
Proof. exact (gen_expr_value num_text is_negative). Qed.

(** expressions: first error, its position, nothing printed *)
Theorem C01_expression_error : forall e code pc0 r t vs ps mv sc sk x p,
  code_at code pc0 (gen_expr e) ->
  eval e mv = EErr x p ->
  exists k s', k <= length (gen_expr e) /\
     stepn num_text is_negative k code (mk_m pc0 (r :: t) vs ps mv sc sk) = MError x p s' /\ mscreen s' = sc /\ mskip s' = sk.
Proof. exact (gen_expr_error num_text is_negative). Qed.

(** assignment and PRINT *)
Theorem C01_statement_straightline : forall f s code pc0 r t vs ps st,
  is_simple s = true -> typed_simple s ->
  code_at code pc0 (simple_code s) ->
  match exec num_text is_negative (S f) s st with
  | Done st' =>
      exists a b, stepn num_text is_negative (length (simple_code s)) code (boundary pc0 r t vs ps st)
        = MRunning (boundary (pc0 + length (simple_code s)) (mk_regs a b (rc r) (rd r)) t vs ps st')
  | Failed x q st' =>
      exists k s', stepn num_text is_negative k code (boundary pc0 r t vs ps st) = MError x q s' /\ of_mio (mscreen s') = screen st'
  | _ => False
  end.
Proof. exact (simple_stmt_ok num_text is_negative). Qed.

(** whole straight-line programs through [gen_program] and [resolve] *)
Theorem C01_program_straightline : forall f p,
  forallb is_simple p = true -> Forall typed_simple p ->
  let c := resolve (code (gen_program [] p)) in
  match exec_program num_text is_negative (S f) p st0 with
  | Done st' => exists n s', (forall m, n <= m -> run num_text is_negative m c m0 = MHalted s') /\ mvars s' = vars st' /\ of_mio (mscreen s') = screen st'
  | Failed x q st' => exists n s', (forall m, n <= m -> run num_text is_negative m c m0 = MError x q s') /\ of_mio (mscreen s') = screen st'
  | _ => False
  end.
Proof. exact (straightline_program_ok num_text is_negative). Qed.

(** a statement whose layout the validator accepts simulates the reference semantics of the
    statement from every state, with any registers and stacks around it, for every fuel *)
Theorem C01_validated_statement : forall k code pc s len, check_stmt k code pc s = Some len ->
  forall f, Loops.simulates num_text is_negative code pc len (exec num_text is_negative f s).
Proof. exact (check_stmt_sound num_text is_negative). Qed.

(** whole programs: any instruction list accepted by the validator implements the program *)
Theorem C01_validated_program : forall k dims p code, check_program k dims p code = true ->
  forall fuel,
  match exec_main num_text is_negative fuel dims p with
  | Done st' => exists n s', (forall m, n <= m -> run num_text is_negative m code m0 = MHalted s') /\
                             mvars s' = vars st' /\ of_mio (mscreen s') = screen st'
  | Failed x q st' => exists n s', (forall m, n <= m -> run num_text is_negative m code m0 = MError x q s') /\ of_mio (mscreen s') = screen st'
  | StepZero q st' => exists n s', (forall m, n <= m -> run num_text is_negative m code m0 = MStepZero q s') /\ of_mio (mscreen s') = screen st'
  | OutOfFuel => True
  end.
Proof. exact (check_program_sound num_text is_negative). Qed.

(** the outcome is a function of the program alone: more budget never changes it *)
Theorem C01_budget_irrelevant : forall n code s r k,
  run num_text is_negative n code s = r -> r <> MOutOfFuel -> run num_text is_negative (n + k) code s = r.
Proof. exact (run_fuel_irrelevant num_text is_negative). Qed.
End AnyNumberText.

(** Non-vacuity, and one program with nesting that the theorems above do not cover: both
    interpreters print " 1 ", "x", " 3 " for
      FOR I% = 1 TO 3 : IF I% = 2 THEN PRINT "x" ELSE PRINT I% : NEXT *)
Definition ex_i : name := ([73%Z], QInteger).
Definition ex_prog : program :=
  [SFor (1, 1) ex_i (ELit (1, 10) (VInteger 1%Z)) (ELit (1, 15) (VInteger 3%Z)) None
     [SIf (2, 1) (EBin (2, 6) Equal (EVar (2, 4) ex_i) (ELit (2, 8) (VInteger 2%Z)))
        [SPrint (3, 1) [PExpr (ELit (3, 7) (VString [120%Z]))]] []
        (Some [SPrint (5, 1) [PExpr (EVar (5, 7) ex_i)]])]].
Definition ex_out : list Z := [32; 49; 32; 13; 10; 120; 13; 10; 32; 51; 32; 13; 10]%Z.

Example C01_example_nested :
  (match exec_program num_text is_negative 100 ex_prog st0 with Done s => Some (out (scr (screen s))) | _ => None end) = Some ex_out /\
  (match run num_text is_negative 1000 (resolve (code (gen_program [] ex_prog))) m0 with MHalted s => Some (out (mscr (mscreen s))) | _ => None end) = Some ex_out.
Proof. vm_compute. split; reflexivity. Qed.

Example C01_example_straightline :
  forallb is_simple [SAssign (1, 1) ex_i (ELit (1, 6) (VLong 7%Z)); SPrint (2, 1) [PExpr (EVar (2, 7) ex_i)]] = true /\
  Forall typed_simple [SAssign (1, 1) ex_i (ELit (1, 6) (VLong 7%Z)); SPrint (2, 1) [PExpr (EVar (2, 7) ex_i)]].
Proof. split; [reflexivity|repeat constructor; discriminate]. Qed.

(** the validator accepts the nested example (FOR around IF/ELSE around PRINT): its hypotheses are satisfiable *)
Example C01_example_validated : check_valid [] ex_prog (resolve (code (gen_program [] ex_prog))) = true.
Proof. vm_compute. reflexivity. Qed.

Print Assumptions C01_expression_value.
Print Assumptions C01_expression_error.
Print Assumptions C01_statement_straightline.
Print Assumptions C01_program_straightline.
Print Assumptions C01_budget_irrelevant.
Print Assumptions C01_validated_statement.
Print Assumptions C01_validated_program.
Print Assumptions C01_static_types_follow_the_rule.
